----------------------------- MODULE TransitRing -----------------------------
(* TransitEventBuffer (the backend's per-thread ring of decoded events) transcribed: power-of-two capacity, positions *)
(* that only grow until an expand/shrink resets them, _expand() moving events in order, request_shrink()/try_shrink(). *)
(* Contract = a FIFO sequence. Part of C03 (backend buffer growth loses/reorders nothing) and C20 (buffer released).    *)
EXTENDS Naturals, Sequences, TLC, Json
CONSTANTS InitCap, MaxOps, MaxCap, Export
VARIABLES cap, rpos, wpos, slot, shrinkReq,   \* the ring: _capacity, _reader_pos, _writer_pos, _storage, _shrink_requested
          fifo,                                 \* contract: what a FIFO would hold
          n, bad, hist
vars == <<cap, rpos, wpos, slot, shrinkReq, fifo, n, bad, hist>>
Init == cap = InitCap /\ rpos = 0 /\ wpos = 0 /\ slot = [i \in 0..(MaxCap - 1) |-> 0] /\ shrinkReq = FALSE
        /\ fifo = <<>> /\ n = 0 /\ bad = FALSE /\ hist = <<>>
Size == wpos - rpos
Front == IF rpos = wpos THEN 0 ELSE slot[rpos % cap]
H(op, res) == hist' = Append(hist, [op |-> op, v |-> n + 1, res |-> res, size |-> wpos' - rpos', cap |-> cap'])
Step == n < MaxOps /\ n' = n + 1

\* back() (expands when full) ; fill the slot ; push_back()
Push ==
  /\ Step /\ (Size < cap \/ cap * 2 <= MaxCap)
  /\ IF Size = cap
     THEN \* _expand(): new storage of twice the capacity, events moved in order to positions 0..size-1
          /\ cap' = cap * 2 /\ rpos' = 0 /\ wpos' = Size + 1
          /\ slot' = [i \in 0..(MaxCap - 1) |-> IF i < Size THEN slot[(rpos + i) % cap] ELSE IF i = Size THEN n + 1 ELSE 0]
     ELSE /\ slot' = [slot EXCEPT ![wpos % cap] = n + 1] /\ wpos' = wpos + 1 /\ UNCHANGED <<cap, rpos>>
  /\ fifo' = Append(fifo, n + 1) /\ UNCHANGED <<shrinkReq, bad>>
  /\ H("push", 0)
\* front() then pop_front()
Pop ==
  /\ Step /\ Size > 0
  /\ bad' = (bad \/ Front # Head(fifo))
  /\ rpos' = rpos + 1 /\ fifo' = Tail(fifo) /\ UNCHANGED <<cap, wpos, slot, shrinkReq>>
  /\ H("pop", Front)
FrontEmpty == /\ Step /\ Size = 0 /\ UNCHANGED <<cap, rpos, wpos, slot, shrinkReq, fifo, bad>> /\ H("front", 0)
RequestShrink == /\ Step /\ shrinkReq' = TRUE /\ UNCHANGED <<cap, rpos, wpos, slot, fifo, bad>> /\ H("reqshrink", 0)
TryShrink ==
  /\ Step
  /\ IF shrinkReq /\ Size = 0
     THEN /\ shrinkReq' = FALSE
          /\ IF cap > InitCap THEN cap' = InitCap /\ rpos' = 0 /\ wpos' = 0 /\ slot' = [i \in 0..(MaxCap - 1) |-> 0]
             ELSE UNCHANGED <<cap, rpos, wpos, slot>>
     ELSE UNCHANGED <<cap, rpos, wpos, slot, shrinkReq>>
  /\ UNCHANGED <<fifo, bad>> /\ H("tryshrink", 0)
Next == Push \/ Pop \/ FrontEmpty \/ RequestShrink \/ TryShrink
Spec == Init /\ [][Next]_vars
FifoOK == ~bad /\ Size = Len(fifo) /\ (Size > 0 => Front = Head(fifo))
Contents == \A i \in 1..Len(fifo) : slot[(rpos + i - 1) % cap] = fifo[i]
Shape == cap >= InitCap /\ Size <= cap
StateView == <<cap, rpos % cap, Size, [i \in 1..Size |-> slot[(rpos + i - 1) % cap] - fifo[1] ], shrinkReq, n, bad>>
ExportA == Export => PrintT("BEH " \o ToJson(hist'))
=============================================================================
