SPECIFICATION Spec
CONSTANTS InitCap = 2
 MaxCap = 8
 Sizes = {1,2,3,9}
 MaxRecs = 3
 MaxNodes = 3
 ShrinkTo = {1}
 MaxShrinks = 1
 BatchPct = 5
 MoCommitW = "ra"
 MoLoadR = "ra"
 MoLoadW = "ra"
 MoCommitR = "ra"
 MoPubNext = "ra"
 MoLoadNext = "ra"
 Recheck = TRUE
 CommitBeforeSwitch = TRUE
 Export = FALSE
INVARIANTS NoRace Fifo NoUseAfterRetire AllocBound Rejects
VIEW StateView
CHECK_DEADLOCK FALSE
