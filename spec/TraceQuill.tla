------------------------------ MODULE TraceQuill ------------------------------
(* Trace validation for the pipeline properties: executions of the real quill frontend + backend recorded by *)
(* harness/h_sys (deterministic token scheduler, virtual time, recording sinks) folded through QuillContract. *)
(* A line {"k":"cfg",...} starts a new execution.                                                             *)
EXTENDS Integers, Sequences, TLC, Json, IOUtils
A == INSTANCE QuillContract
TraceLog == ndJsonDeserialize(IOEnv.TRACE)
VARIABLES l, m
vars == <<l, m>>
Cfg0 == [grace |-> 0, dropping |-> FALSE, bounded |-> FALSE]
Init == l = 1 /\ m = A!MInit(Cfg0)
Next == /\ l <= Len(TraceLog)
        /\ l' = l + 1
        /\ LET e == TraceLog[l] IN
           m' = IF e.k = "cfg" THEN A!MInit(e) ELSE A!MStep(m, e)
Spec == Init /\ [][Next]_vars
Ok03 == m.ok03
Ok05 == m.ok05
Ok06 == m.ok06
Ok08 == m.ok08
Ok09 == m.ok09
Ok10 == m.ok10
Ok16 == m.ok16
Ok17 == m.ok17
Ok20 == m.ok20
=============================================================================
