SPECIFICATION Spec
INVARIANT Ok
CHECK_DEADLOCK FALSE
