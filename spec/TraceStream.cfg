SPECIFICATION Spec
INVARIANT OkC02
CHECK_DEADLOCK FALSE
