\* Static sweep: constructor over abstract patterns, fraction writer over boundary values (SCEN may name any scenario file).
SPECIFICATION SpecStatic
CONSTANTS RecalcLocal = 900
 RecalcGmt = 43200
 RepeatRejected = FALSE
 Modes = {"gmt", "local"}
 ShapeSel = "all"
 MaxLen = 1000
 MaxPat = 4
 FracVals = {0, 1, 9, 10, 99, 100, 999, 1000, 999999, 1000000, 1001000, 9999999, 10000000, 99999999, 100000000, 123456789, 500000000, 999999000, 999999999}
 Export = FALSE
INVARIANTS CtorOK SplitOK FracOK
CHECK_DEADLOCK FALSE
