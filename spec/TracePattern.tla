---------------------------- MODULE TracePattern ----------------------------
(* Trace validation for C12: executions recorded from the real quill code are judged by the        *)
(* contract PatternContract, instantiated on REAL STRINGS (TLC implements Len, SubSeq, \o and =    *)
(* on strings, so the expected line is computed in TLA+ from the pattern text and the value         *)
(* strings carried in the trace, and compared with the text the code produced).                     *)
(*                                                                                                  *)
(* One ndjson line per execution (each execution is a one-event trace; the contract is stateless):  *)
(*  {"op":"fmt","id":n,"pattern":s,"bi":k,"res":"ok"|"rejected"|"error"|"missing","out":s}           *)
(*      PatternFormatter constructed from `pattern`, format() called with the values in b           *)
(*  {"op":"e2e","id":n,"pattern":s,"bi":k,"multi":bool,"named":bool,"outs":[s,...]}                *)
(*      one statement logged through the frontend, the queue and the backend worker; outs = the     *)
(*      statements the recording sink received for it, in order                                     *)
(* Statements are kept in a second file (IOEnv.STMTS, one record b per line) and referenced by       *)
(* "bi" = line number there (many executions share a statement; TLC's JSON loading is the bottleneck). *)
(* b = [time, caller_function, log_level, log_level_short_code, logger, thread_id, thread_name,     *)
(*      process_id, source_location, message, tags : strings, named : sequence of <<key, value>>]   *)
(*                                                                                                  *)
(* Executions are independent, so the state graph is a two-level fan-out (root -> block -> line)    *)
(* instead of a chain: TLC workers judge blocks in parallel. Run with -continue so that every       *)
(* rejected execution is reported (state "l = <line>"), not only the first.                         *)
(* Acceptance: invariant Conforms holds and distinct states = lines + blocks + 1.                   *)
EXTENDS Integers, Sequences, FiniteSets, TLC, Json, IOUtils
StrTxt(k) == k
C == INSTANCE PatternContract WITH
       Pct <- "%", LP <- "(", RP <- ")", Colon <- ":", LB <- "{", RB <- "}", NLc <- "\n", Slash <- "/",
       Space <- " ", Empty <- "", AlLeft <- "<", AlRight <- ">", AlCenter <- "^",
       Digits <- <<"0", "1", "2", "3", "4", "5", "6", "7", "8", "9">>,
       ColonSp <- ": ", CommaSp <- ", ", Txt <- StrTxt

TraceLog == ndJsonDeserialize(IOEnv.TRACE)
Stmts == ndJsonDeserialize(IOEnv.STMTS)
N == Len(TraceLog)
BlockSize == 256
NBlocks == (N + BlockSize - 1) \div BlockSize

VARIABLES blk, l      \* blk = 0: root; l = 0: not at a line yet
vars == <<blk, l>>

\* dom: the property speaks about this execution; ok: what it demands holds
Judge(e) ==
  LET b == Stmts[e.bi]
      it == C!Items(e.pattern, 1)
      must == C!MustRejectI(it)
      valid == C!ValidI(e.pattern, it) /\ C!WellFormedSrc(b.source_location)
  IN IF e.op = "fmt"
     THEN [dom |-> must \/ valid,
           ok |-> /\ (must => e.res = "rejected")
                  /\ (valid => (e.res = "ok" /\ e.out = C!LineI(it, C!AllVals(b))))]
     ELSE [dom |-> valid,
           ok |-> (valid => e.outs \in C!AllowedOutsI(it, C!AllVals(b), e.multi, e.named))]

Init == blk = 0 /\ l = 0
Next == \/ /\ blk = 0
           /\ blk' \in 1..NBlocks
           /\ l' = 0
        \/ /\ blk > 0 /\ l = 0
           /\ l' \in ((blk - 1) * BlockSize + 1)..(IF blk * BlockSize < N THEN blk * BlockSize ELSE N)
           /\ blk' = blk
Spec == Init /\ [][Next]_vars

\* violated exactly at the executions the contract rejects; executions outside the property's domain are
\* listed (NODOM) so that the driver can count what was really judged
Conforms == l > 0 => LET j == Judge(TraceLog[l]) IN (j.dom \/ PrintT(<<"NODOM", l>>)) /\ j.ok
=============================================================================
