-------------------------------- MODULE StopRA --------------------------------
(* Backend stop under the C++ release/acquire model (C07: "every statement whose log call completed before the stop  *)
(* was requested is written and flushed before the backend thread terminates").                                      *)
(*   logging thread X:  log call ... commit_write(): writer_pos.store(MoCommit)                                      *)
(*                      Backend::stop(): BackendWorker::stop(): _is_worker_running.exchange(false, MoStop); join      *)
(*   backend thread B:  while (_is_worker_running.load(MoLoop)) _poll();      [one BIter per evaluation of the head]  *)
(*                      _exit(): until every queue is empty [writer_pos.load(MoRead)]: read, process; then terminate  *)
(* The memory orders are CONSTANTS EXTRACTED from the code (harness/h_stop runs the REAL backend thread, the REAL      *)
(* Backend::stop() and a REAL log call on the shim atomic of shim_ra.h). Two atomic objects, each a history of         *)
(* messages [val, rel (clock published), ev (writer's clock at the store)]; a load may read any message that is not    *)
(* older than (a) what the reader has already read of that object and (b) the newest message whose store               *)
(* happens-before the reader; an acquire load joins the clock the message published; a read-modify-write reads the     *)
(* last message and carries on its release sequence. Within one iteration every writer_pos load of B reads the same    *)
(* message (a legal choice; different choices are different iterations).                                               *)
(* Not modelled: the wake-up mutex (B takes it only when sleep_duration > 0 and it only orders B behind a notify() it   *)
(* was woken by; a backend that is busy, or configured with sleep_duration = 0 as the harness does, never takes it).   *)
EXTENDS Integers, Sequences, FiniteSets, TLC, Json
(* A second logging thread Y (MaxY > 0) logs, exits and is joined by X (thread join: X's clock joins Y's) - "including     *)
(* statements of threads that already exited": what Y logged is owed by a stop that X requests after the join.            *)
CONSTANTS MaxRecs,                              \* statements X logs before it stops the backend
          MaxY,                                 \* statements Y logs before it exits (0: no second thread)
          MoCommit, MoStop, MoLoop, MoRead,     \* "rlx" | "acq" | "rel" | "ar"
          MoInv, MoIsValid,                     \* ThreadContext::mark_invalid / is_valid (Y's context, read by the clean-up)
          Export
VARIABLES W, R,             \* histories of X's writer_pos and of _is_worker_running (1 = running)
          WY, nwy, yexited, joined, owedY, consumedY,   \* Y's writer_pos, its statements, exit, X joined it, owed at the stop
          vrel, yremoved,   \* clock published by Y's mark_invalid; the backend has reclaimed Y's context
          pending,          \* statements read into the transit buffers and not yet written (one is written per busy _poll)
          clk, view,        \* thread -> vector clock; thread -> [object -> oldest readable index]
          nw, stopreq,      \* statements committed; stop() has been called
          consumed, finished, lost, hist
vars == <<W, R, WY, nwy, yexited, joined, owedY, consumedY, vrel, yremoved, pending, clk, view, nw, stopreq, consumed, finished, lost, hist>>
yvars == <<WY, nwy, yexited, joined, owedY, consumedY, vrel, yremoved>>
T == {"X", "Y", "B"}
Zero == [t \in T |-> 0]
Join(a, b) == [t \in T |-> IF a[t] > b[t] THEN a[t] ELSE b[t]]
Leq(a, b) == \A t \in T : a[t] <= b[t]
IsAcq(mo) == mo \in {"acq", "ar"}
IsRel(mo) == mo \in {"rel", "ar"}
Msg(v, rel, ev) == [val |-> v, rel |-> rel, ev |-> ev]
Max(a, b) == IF a > b THEN a ELSE b

Init ==
  /\ W = <<Msg(0, Zero, Zero)>> /\ R = <<Msg(1, Zero, Zero)>>
  /\ WY = <<Msg(0, Zero, Zero)>> /\ nwy = 0 /\ yexited = FALSE /\ joined = FALSE /\ owedY = 0 /\ consumedY = 0
  /\ vrel = Zero /\ yremoved = FALSE /\ pending = 0
  /\ clk = [t \in T |-> Zero] /\ view = [t \in T |-> [o \in {"W", "R", "WY"} |-> 1]]
  /\ nw = 0 /\ stopreq = FALSE /\ consumed = 0 /\ finished = FALSE /\ lost = FALSE /\ hist = <<>>
Step(who, act, arg) == hist' = IF Export THEN Append(hist, [t |-> who, a |-> act, arg |-> arg]) ELSE hist

\* oldest message of history H that a thread with clock c and view v may still read
LoAt(H, c, v) == LET hb == {j \in 1..Len(H) : Leq(H[j].ev, c)} IN
                 LET m == IF hb = {} THEN 1 ELSE CHOOSE j \in hb : \A k \in hb : k <= j IN
                 IF m > v THEN m ELSE v

\* X logs a statement: payload, then commit_write
XLog ==
  /\ ~stopreq /\ nw < MaxRecs
  /\ LET c2 == [clk["X"] EXCEPT !["X"] = @ + 1] IN
     /\ W' = Append(W, Msg(nw + 1, IF IsRel(MoCommit) THEN c2 ELSE Zero, c2))
     /\ clk' = [clk EXCEPT !["X"] = c2] /\ view' = [view EXCEPT !["X"]["W"] = Len(W) + 1]
  /\ nw' = nw + 1 /\ Step("X", "log", <<>>)
  /\ UNCHANGED <<R, stopreq, consumed, finished, lost, yvars, pending>>

\* Y logs, exits (its thread ends: the context is marked invalid), X joins it
YLog ==
  /\ ~yexited /\ nwy < MaxY
  /\ LET c2 == [clk["Y"] EXCEPT !["Y"] = @ + 1] IN
     /\ WY' = Append(WY, Msg(nwy + 1, IF IsRel(MoCommit) THEN c2 ELSE Zero, c2))
     /\ clk' = [clk EXCEPT !["Y"] = c2] /\ view' = [view EXCEPT !["Y"]["WY"] = Len(WY) + 1]
  /\ nwy' = nwy + 1 /\ Step("Y", "log", <<>>)
  /\ UNCHANGED <<W, R, nw, stopreq, consumed, finished, lost, yexited, joined, owedY, consumedY, vrel, yremoved, pending>>
YExit ==
  /\ MaxY > 0 /\ ~yexited /\ yexited' = TRUE /\ Step("Y", "exit", <<>>)
  /\ LET c2 == [clk["Y"] EXCEPT !["Y"] = @ + 1] IN
     /\ clk' = [clk EXCEPT !["Y"] = c2] /\ vrel' = IF IsRel(MoInv) THEN c2 ELSE Zero
  /\ UNCHANGED <<W, R, WY, nwy, joined, owedY, consumedY, yremoved, pending, view, nw, stopreq, consumed, finished, lost>>
XJoin ==
  /\ yexited /\ ~joined /\ ~stopreq /\ joined' = TRUE
  /\ clk' = [clk EXCEPT !["X"] = Join(@, clk["Y"])] /\ Step("X", "join", <<>>)
  /\ UNCHANGED <<W, R, WY, nwy, yexited, owedY, consumedY, vrel, yremoved, pending, view, nw, stopreq, consumed, finished, lost>>

\* X requests the stop: the exchange on the running flag (a read-modify-write: reads the last message)
XStop ==
  /\ ~stopreq /\ stopreq' = TRUE
  /\ LET last == R[Len(R)]
         c1 == IF IsAcq(MoStop) THEN Join(clk["X"], last.rel) ELSE clk["X"]
         c2 == [c1 EXCEPT !["X"] = @ + 1] IN
     /\ R' = Append(R, Msg(0, IF IsRel(MoStop) THEN Join(last.rel, c2) ELSE last.rel, c2))
     /\ clk' = [clk EXCEPT !["X"] = c2] /\ view' = [view EXCEPT !["X"]["R"] = Len(R) + 1]
  /\ owedY' = IF joined THEN nwy ELSE 0
  /\ Step("X", "stop", <<>>)
  /\ UNCHANGED <<W, nw, consumed, finished, lost, WY, nwy, yexited, joined, consumedY, vrel, yremoved, pending>>

\* B evaluates the head of its loop (reads message ir of the flag); running: one _poll(); stopped: _exit() and termination.
\* Every writer_pos load of the iteration reads message iw; everything it makes visible is consumed.
\* After its reads: a running iteration writes ONE pending statement (below the soft limit) or, with nothing pending, takes the idle
\* branch; the terminating iteration (_exit) writes everything. The idle branch and _exit end with the context clean-up: for an
\* exited thread is_valid() [the newest message: the flag is not scripted] and, if invalid, empty() once more - that load reads iy
\* again unless the acquire on the flag has made it too old (then the oldest message still allowed); empty: the context is reclaimed.
BIter(ir, iw, iy) ==
  /\ ~finished /\ ir \in LoAt(R, clk["B"], view["B"]["R"])..Len(R)
  /\ LET c1 == IF IsAcq(MoLoop) THEN Join(clk["B"], R[ir].rel) ELSE clk["B"]
         lo == LoAt(W, c1, view["B"]["W"]) IN
     /\ iw \in lo..Len(W)
     /\ LET c2 == IF IsAcq(MoRead) THEN Join(c1, W[iw].rel) ELSE c1      \* X's context is read first (registration order)
            loy == LoAt(WY, c2, view["B"]["WY"])
            iyy == IF yremoved THEN view["B"]["WY"] ELSE iy
            c3 == IF IsAcq(MoRead) /\ ~yremoved THEN Join(c2, WY[iyy].rel) ELSE c2
            cx == Max(consumed, W[iw].val)
            cy == IF yremoved THEN consumedY ELSE Max(consumedY, WY[iyy].val)
            pend == pending + (cx - consumed) + (cy - consumedY)
            stop == R[ir].val = 0
            cleanup == (stop \/ pend = 0) /\ yexited /\ ~yremoved
            c4 == IF cleanup /\ IsAcq(MoIsValid) THEN Join(c3, vrel) ELSE c3
            lo4 == LoAt(WY, c4, iyy)
            iy2 == IF cleanup THEN lo4 ELSE 0 IN
        /\ iy \in loy..Len(WY) /\ (yremoved => iy = view["B"]["WY"])
        /\ clk' = [clk EXCEPT !["B"] = IF cleanup /\ IsAcq(MoRead) THEN Join(c4, WY[iy2].rel) ELSE c4]
        /\ view' = [view EXCEPT !["B"]["R"] = ir, !["B"]["W"] = iw, !["B"]["WY"] = IF cleanup THEN iy2 ELSE iyy]
        /\ consumed' = cx /\ consumedY' = cy
        /\ pending' = IF stop THEN 0 ELSE IF pend > 0 THEN pend - 1 ELSE 0
        /\ yremoved' = (yremoved \/ (cleanup /\ WY[iy2].val = cy))
        /\ finished' = stop
        /\ lost' = (stop /\ (cx < nw \/ cy < owedY))
        /\ Step("B", "iter", <<ir, iw, iyy, iy2, IF yremoved THEN 1 ELSE 0>>)
  /\ UNCHANGED <<W, R, nw, stopreq, WY, nwy, yexited, joined, owedY, vrel>>

Next == XLog \/ XStop \/ YLog \/ YExit \/ XJoin \/ (\E ir \in 1..Len(R), iw \in 1..Len(W), iy \in 1..Len(WY) : BIter(ir, iw, iy))
Spec == Init /\ [][Next]_vars

\* C07: the backend thread terminates only after every statement committed before the stop request has been read
NoLoss == ~lost
TypeOK == consumed <= nw /\ consumedY <= nwy /\ (finished => stopreq) /\ (joined => yexited) /\ owedY <= nwy
StateView == <<W, R, WY, nwy, yexited, joined, owedY, consumedY, vrel, yremoved, pending, clk, view, nw, stopreq, consumed, finished, lost>>
ExportA == Export => PrintT("BEH " \o ToJson(hist'))
=============================================================================
