-------------------------------- MODULE StopRA --------------------------------
(* Backend stop, flush and logger-removal handshakes under the C++ release/acquire model.                             *)
(* C07: "every statement whose log call completed before the stop was requested is written and flushed before the     *)
(* backend thread terminates, including statements of threads that already exited";                                   *)
(* C06: "when flush_log() returns, every statement the calling thread logged before the call has been written ... so   *)
(* it can be read from the destination";                                                                              *)
(* C17: "remove_logger_blocking returns only after the removal has completed" (logger erased, its sinks destroyed).   *)
(*   logging thread X:  log call ... commit_write(): writer_pos.store(MoCommit)                                      *)
(*                      flush_log(): a flush request through the queue carrying the address of a local atomic flag,    *)
(*                                   then `while (!flag.load(MoFlushLoad))`                                           *)
(*                      Backend::stop(): BackendWorker::stop(): _is_worker_running.exchange(false, MoStop); join      *)
(*   logging thread Y:  logs, exits (ThreadContext::mark_invalid: _valid.store(false, MoInv)), is joined by X          *)
(*   backend thread B:  while (_is_worker_running.load(MoLoop)) _poll();      [one BIter per evaluation of the head]  *)
(*                      _poll(): read what the writer positions [load(MoRead)] make visible into the transit buffers;  *)
(*                               something pending: write ONE (lowest timestamp; a flush request: flush the sinks,    *)
(*                               flag.store(true, MoFlushStore)); nothing pending: idle branch with the context        *)
(*                               clean-up (is_valid() [MoIsValid], then empty() once more)                             *)
(*                      _exit(): until every queue is empty: read, write everything; clean-up; terminate              *)
(* The memory orders are CONSTANTS EXTRACTED from the code (harness/h_stop runs the REAL backend thread, the REAL      *)
(* Backend::stop(), flush_log() and log calls on the shim atomic of shim_ra.h). Atomic objects are histories of        *)
(* messages [val, rel (clock published), ev (writer's clock at the store)]; a load may read any message that is not    *)
(* older than (a) what the reader has already read of that object and (b) the newest message whose store               *)
(* happens-before the reader; an acquire load joins the clock the message published; a read-modify-write reads the     *)
(* last message and carries on its release sequence. Within one iteration every writer_pos load of B reads the same    *)
(* message (a legal choice; different choices are different iterations); the clean-up's empty() reads that message     *)
(* again unless the acquire on _valid has made it too old (then the oldest message still allowed).                     *)
(* A sink write is a plain access: it ticks B's clock and remembers it (wclk); the caller of flush_log() can read the   *)
(* destination without a data race iff that clock is below its own when the call returns.                              *)
(* Not modelled: the wake-up mutex (B takes it only when sleep_duration > 0 and it only orders B behind a notify() it   *)
(* was woken by; a backend that is busy, or configured with sleep_duration = 0 as the harness does, never takes it).   *)
EXTENDS Integers, Sequences, FiniteSets, TLC, Json
CONSTANTS MaxRecs,                              \* statements X logs
          MaxY,                                 \* statements Y logs before it exits (0: no second thread)
          MaxFlush,                             \* flush_log() calls of X
          MoCommit, MoStop, MoLoop, MoRead,     \* "rlx" | "acq" | "rel" | "ar"
          MoInv, MoIsValid,                     \* ThreadContext::mark_invalid / is_valid (Y's context, read by the clean-up)
          MoFlushStore, MoFlushLoad,            \* the backend's store to the flush flag, the caller's load
          MaxRemove,                            \* remove_logger_blocking() calls of X (0 or 1; configurations without Y)
          MoHStore, MoHLoad,                    \* LoggerManager::_has_invalidated_loggers: remove_logger's store, the clean-up's load
          MoRemStore, MoRemLoad,                \* the backend's store to the removal flag, the caller's load
          Export
VARIABLES W, WY, R, FL, RB, \* histories: X's / Y's writer_pos (val = records committed), _is_worker_running (1 = running), the flush flag,
                            \* the removal flag of remove_logger_blocking()
          clk, view,        \* thread -> vector clock; thread -> [object -> oldest readable index]
          st,               \* everything else (record, see Init)
          hist
vars == <<W, WY, R, FL, RB, clk, view, st, hist>>
T == {"X", "Y", "B"}
Zero == [t \in T |-> 0]
Join(a, b) == [t \in T |-> IF a[t] > b[t] THEN a[t] ELSE b[t]]
Leq(a, b) == \A t \in T : a[t] <= b[t]
IsAcq(mo) == mo \in {"acq", "ar"}
IsRel(mo) == mo \in {"rel", "ar"}
Msg(v, rel, ev) == [val |-> v, rel |-> rel, ev |-> ev]
Max(a, b) == IF a > b THEN a ELSE b
Tick(c, t) == [c EXCEPT ![t] = @ + 1]

Init ==
  /\ W = <<Msg(0, Zero, Zero)>> /\ WY = <<Msg(0, Zero, Zero)>> /\ R = <<Msg(1, Zero, Zero)>> /\ FL = <<Msg(0, Zero, Zero)>>
  /\ RB = <<Msg(0, Zero, Zero)>>
  /\ clk = [t \in T |-> Zero] /\ view = [t \in T |-> [o \in {"W", "R", "WY", "FL"} |-> 1]]
  /\ st = [xq |-> <<>>,            \* X's records in queue order: [k |-> "s" statement | "f" flush request | "r" removal request, ts |-> call order]
           yq |-> <<>>,            \* Y's records (timestamps)
           gts |-> 0,              \* call order = timestamp order (the script runs the log calls one after the other)
           consumed |-> 0, proc |-> 0, consumedY |-> 0, procY |-> 0,     \* records read into the transit buffers / written
           yexited |-> FALSE, joined |-> FALSE, vrel |-> Zero, yremoved |-> FALSE,
           stopreq |-> FALSE, owedX |-> 0, owedY |-> 0, finished |-> FALSE, lost |-> FALSE,
           inflush |-> FALSE, nflush |-> 0, wclk |-> Zero, flushbad |-> FALSE,
           inremove |-> FALSE, nremove |-> 0, hrel |-> Zero, removed |-> FALSE, dclk |-> Zero, removebad |-> FALSE]
  /\ hist = <<>>
Step(who, act, arg) == hist' = IF Export THEN Append(hist, [t |-> who, a |-> act, arg |-> arg]) ELSE hist

\* oldest message of history H that a thread with clock c and view v may still read
LoAt(H, c, v) == LET hb == {j \in 1..Len(H) : Leq(H[j].ev, c)} IN
                 LET m == IF hb = {} THEN 1 ELSE CHOOSE j \in hb : \A k \in hb : k <= j IN
                 IF m > v THEN m ELSE v
NStmts(q, n) == Cardinality({i \in 1..n : q[i].k = "s"})

\* X commits one record of kind k (a statement or a flush request)
XCommit(k) ==
  LET c2 == Tick(clk["X"], "X") IN
  /\ W' = Append(W, Msg(Len(st.xq) + 1, IF IsRel(MoCommit) THEN c2 ELSE Zero, c2))
  /\ clk' = [clk EXCEPT !["X"] = c2] /\ view' = [view EXCEPT !["X"]["W"] = Len(W) + 1]
XLog ==
  /\ ~st.stopreq /\ ~st.inflush /\ st.nremove = 0 /\ NStmts(st.xq, Len(st.xq)) < MaxRecs
  /\ XCommit("s")
  /\ st' = [st EXCEPT !.xq = Append(@, [k |-> "s", ts |-> st.gts + 1]), !.gts = @ + 1]
  /\ Step("X", "log", <<>>) /\ UNCHANGED <<WY, R, FL, RB>>

\* flush_log(): a fresh flag, the request through the queue; the caller then spins on the flag
XFlushCall ==
  /\ ~st.stopreq /\ ~st.inflush /\ st.nremove = 0 /\ st.nflush < MaxFlush
  /\ XCommit("f")
  /\ FL' = <<Msg(0, Zero, Zero)>>
  /\ st' = [st EXCEPT !.xq = Append(@, [k |-> "f", ts |-> st.gts + 1]), !.gts = @ + 1, !.inflush = TRUE, !.nflush = @ + 1]
  /\ Step("X", "flushcall", <<>>) /\ UNCHANGED <<WY, R, RB>>
\* the load that ends the spin: reads a `true` message; C06: everything X logged before the call is written, and readable
XFlushReturn(i) ==
  /\ st.inflush /\ i \in LoAt(FL, clk["X"], 1)..Len(FL) /\ FL[i].val = 1
  /\ LET c1 == IF IsAcq(MoFlushLoad) THEN Join(clk["X"], FL[i].rel) ELSE clk["X"]
         owed == NStmts(st.xq, Len(st.xq)) IN
     /\ clk' = [clk EXCEPT !["X"] = c1]
     /\ st' = [st EXCEPT !.inflush = FALSE,
                         !.flushbad = @ \/ NStmts(st.xq, st.proc) < owed \/ ~Leq(st.wclk, c1)]
  /\ Step("X", "flushret", <<>>) /\ UNCHANGED <<W, WY, R, FL, RB, view>>

\* remove_logger_blocking(): the request through the queue (with the address of a fresh flag), then remove_logger (the logger's
\* valid flag and the manager's _has_invalidated_loggers, stored with MoHStore), then the caller spins on the flag
XRemoveCall ==
  /\ MaxY = 0 /\ ~st.stopreq /\ ~st.inflush /\ st.nremove < MaxRemove
  /\ LET c2 == Tick(clk["X"], "X")
         c4 == Tick(Tick(c2, "X"), "X") IN
     /\ W' = Append(W, Msg(Len(st.xq) + 1, IF IsRel(MoCommit) THEN c2 ELSE Zero, c2))
     /\ clk' = [clk EXCEPT !["X"] = c4] /\ view' = [view EXCEPT !["X"]["W"] = Len(W) + 1]
     /\ st' = [st EXCEPT !.xq = Append(@, [k |-> "r", ts |-> st.gts + 1]), !.gts = @ + 1, !.inremove = TRUE, !.nremove = @ + 1,
                         !.hrel = IF IsRel(MoHStore) THEN c4 ELSE Zero]
  /\ RB' = <<Msg(0, Zero, Zero)>>
  /\ Step("X", "removecall", <<>>) /\ UNCHANGED <<WY, R, FL>>
\* C17: the call returns only after the removal has completed - the logger is gone, its sink destroyed, and both ordered before the caller
XRemoveReturn(i) ==
  /\ st.inremove /\ i \in LoAt(RB, clk["X"], 1)..Len(RB) /\ RB[i].val = 1
  /\ LET c1 == IF IsAcq(MoRemLoad) THEN Join(clk["X"], RB[i].rel) ELSE clk["X"] IN
     /\ clk' = [clk EXCEPT !["X"] = c1]
     /\ st' = [st EXCEPT !.inremove = FALSE, !.removebad = @ \/ ~st.removed \/ ~Leq(st.dclk, c1)]
  /\ Step("X", "removeret", <<>>) /\ UNCHANGED <<W, WY, R, FL, RB, view>>

\* Y logs, exits (its thread ends: the context is marked invalid), X joins it
YLog ==
  /\ ~st.yexited /\ Len(st.yq) < MaxY
  /\ LET c2 == Tick(clk["Y"], "Y") IN
     /\ WY' = Append(WY, Msg(Len(st.yq) + 1, IF IsRel(MoCommit) THEN c2 ELSE Zero, c2))
     /\ clk' = [clk EXCEPT !["Y"] = c2] /\ view' = [view EXCEPT !["Y"]["WY"] = Len(WY) + 1]
  /\ st' = [st EXCEPT !.yq = Append(@, st.gts + 1), !.gts = @ + 1]
  /\ Step("Y", "log", <<>>) /\ UNCHANGED <<W, R, FL, RB>>
YExit ==
  /\ MaxY > 0 /\ ~st.yexited
  /\ LET c2 == Tick(clk["Y"], "Y") IN
     /\ clk' = [clk EXCEPT !["Y"] = c2]
     /\ st' = [st EXCEPT !.yexited = TRUE, !.vrel = IF IsRel(MoInv) THEN c2 ELSE Zero]
  /\ Step("Y", "exit", <<>>) /\ UNCHANGED <<W, WY, R, FL, RB, view>>
XJoin ==
  /\ st.yexited /\ ~st.joined /\ ~st.stopreq /\ ~st.inflush
  /\ clk' = [clk EXCEPT !["X"] = Join(@, clk["Y"])]
  /\ st' = [st EXCEPT !.joined = TRUE]
  /\ Step("X", "join", <<>>) /\ UNCHANGED <<W, WY, R, FL, RB, view>>

\* X requests the stop: the exchange on the running flag (a read-modify-write: reads the last message)
XStop ==
  /\ ~st.stopreq /\ ~st.inflush /\ ~st.inremove
  /\ LET last == R[Len(R)]
         c1 == IF IsAcq(MoStop) THEN Join(clk["X"], last.rel) ELSE clk["X"]
         c2 == Tick(c1, "X") IN
     /\ R' = Append(R, Msg(0, IF IsRel(MoStop) THEN Join(last.rel, c2) ELSE last.rel, c2))
     /\ clk' = [clk EXCEPT !["X"] = c2] /\ view' = [view EXCEPT !["X"]["R"] = Len(R) + 1]
  /\ st' = [st EXCEPT !.stopreq = TRUE, !.owedX = Len(st.xq), !.owedY = IF st.joined THEN Len(st.yq) ELSE 0]
  /\ Step("X", "stop", <<>>) /\ UNCHANGED <<W, WY, FL, RB>>

\* B writes the pending records with index > px / > py up to cx / cy, at most `limit` of them, lowest timestamp first.
\* Returns [px, py, clkB, wclk, fl]: fl = the flush flag's history after the stores made on the way.
RECURSIVE Process(_, _, _, _, _, _, _, _)
Process(px, py, cx, cy, limit, cb, wc, fl) ==
  IF limit = 0 \/ (px = cx /\ py = cy) THEN [px |-> px, py |-> py, cb |-> cb, wc |-> wc, fl |-> fl]
  ELSE LET takeX == px < cx /\ (py = cy \/ st.xq[px + 1].ts < st.yq[py + 1]) IN
       IF ~takeX THEN Process(px, py + 1, cx, cy, limit - 1, Tick(cb, "B"), wc, fl)               \* a statement of Y: a sink write
       ELSE IF st.xq[px + 1].k = "r" THEN Process(px + 1, py, cx, cy, limit - 1, cb, wc, fl)           \* a removal request: nothing to write
       ELSE IF st.xq[px + 1].k = "s"
            THEN LET c2 == Tick(cb, "B") IN Process(px + 1, py, cx, cy, limit - 1, c2, c2, fl)    \* a statement of X: a sink write
            ELSE LET c2 == Tick(cb, "B") IN                                                        \* a flush request: the flag store
                 Process(px + 1, py, cx, cy, limit - 1, c2, wc, Append(fl, Msg(1, IF IsRel(MoFlushStore) THEN c2 ELSE Zero, c2)))

\* B evaluates the head of its loop (reads message ir of the flag); running: one _poll(); stopped: _exit() and termination.
BIter(ir, iw, iy) ==
  /\ ~st.finished /\ ir \in LoAt(R, clk["B"], view["B"]["R"])..Len(R)
  /\ LET c1 == IF IsAcq(MoLoop) THEN Join(clk["B"], R[ir].rel) ELSE clk["B"]
         lo == LoAt(W, c1, view["B"]["W"]) IN
     /\ iw \in lo..Len(W)
     /\ LET c2 == IF IsAcq(MoRead) THEN Join(c1, W[iw].rel) ELSE c1      \* X's context is read first (registration order)
            loy == LoAt(WY, c2, view["B"]["WY"])
            iyy == IF st.yremoved THEN view["B"]["WY"] ELSE iy
            c3 == IF IsAcq(MoRead) /\ ~st.yremoved THEN Join(c2, WY[iyy].rel) ELSE c2
            cx == Max(st.consumed, W[iw].val)
            cy == IF st.yremoved THEN st.consumedY ELSE Max(st.consumedY, WY[iyy].val)
            stop == R[ir].val = 0
            idle == cx = st.proc /\ cy = st.procY
            p == Process(st.proc, st.procY, cx, cy, IF stop THEN 1000 ELSE 1, c3, st.wclk, FL)
            cleanup == (stop \/ idle) /\ st.yexited /\ ~st.yremoved
            c4 == IF cleanup /\ IsAcq(MoIsValid) THEN Join(p.cb, st.vrel) ELSE p.cb
            lo4 == LoAt(WY, c4, iyy)
            iy2 == IF cleanup THEN lo4 ELSE 0
            c4b == IF cleanup /\ IsAcq(MoRead) THEN Join(c4, WY[iy2].rel) ELSE c4
            \* the logger clean-up (after the context clean-up): _has_invalidated_loggers [acquire: what remove_logger published], then
            \* the emptiness check once more - that load of X's writer position reads iw again unless it has become too old
            rem == (stop \/ idle) /\ st.inremove /\ ~st.removed
            c5 == IF rem /\ IsAcq(MoHLoad) THEN Join(c4b, st.hrel) ELSE c4b
            iw2 == IF rem THEN LoAt(W, c5, iw) ELSE 0
            c6 == IF rem /\ IsAcq(MoRead) THEN Join(c5, W[iw2].rel) ELSE c5
            gone == rem /\ W[iw2].val = cx                       \* nothing queued in that view: the logger is erased, its sink destroyed,
            c7 == IF gone THEN Tick(c6, "B") ELSE c6               \* (the destructor: a plain access)
            c8 == IF gone THEN Tick(c7, "B") ELSE c7 IN            \* and the caller's flag stored
        /\ iy \in loy..Len(WY) /\ (st.yremoved => iy = view["B"]["WY"])
        /\ clk' = [clk EXCEPT !["B"] = c8]
        /\ view' = [view EXCEPT !["B"]["R"] = ir, !["B"]["W"] = IF rem THEN iw2 ELSE iw, !["B"]["WY"] = IF cleanup THEN iy2 ELSE iyy]
        /\ FL' = p.fl
        \* (the flag is known to the backend only if it has read the request: otherwise the logger goes and the caller is never told)
        /\ RB' = IF gone /\ (\E i \in 1..cx : st.xq[i].k = "r") THEN Append(RB, Msg(1, IF IsRel(MoRemStore) THEN c8 ELSE Zero, c8)) ELSE RB
        /\ st' = [st EXCEPT !.consumed = cx, !.consumedY = cy, !.proc = p.px, !.procY = p.py, !.wclk = p.wc,
                            !.yremoved = @ \/ (cleanup /\ WY[iy2].val = cy),
                            !.removed = @ \/ gone, !.dclk = IF gone THEN c7 ELSE @,
                            !.finished = stop,
                            !.lost = stop /\ (p.px < st.owedX \/ p.py < st.owedY)]
        /\ Step("B", "iter", <<ir, iw, iyy, iy2, IF st.yremoved THEN 1 ELSE 0, iw2>>)
  /\ UNCHANGED <<W, WY, R>>

Next == XLog \/ XStop \/ XFlushCall \/ (\E i \in 1..Len(FL) : XFlushReturn(i)) \/ YLog \/ YExit \/ XJoin
        \/ XRemoveCall \/ (\E i \in 1..Len(RB) : XRemoveReturn(i))
        \/ (\E ir \in 1..Len(R), iw \in 1..Len(W), iy \in 1..Len(WY) : BIter(ir, iw, iy))
Spec == Init /\ [][Next]_vars

\* C07: the backend thread terminates only after every statement committed before the stop request has been written
NoLoss == ~st.lost
\* C20 / C03: the context of an exited thread is reclaimed only when everything the thread committed has been read (and written)
NoReclaimLoss == st.yremoved => st.consumedY = Len(st.yq)
\* C06: flush_log() returns only when the caller's earlier statements are written, and ordered before the caller
FlushOK == ~st.flushbad
\* C17: remove_logger_blocking() returns only after the removal has completed (logger erased, sink destroyed, ordered before the caller)
RemoveOK == ~st.removebad
\* liveness: a backend that keeps iterating and eventually reads the NEWEST messages (stores become visible in finite time) ends a
\* requested stop, lets flush_log() return (C06: "flush_log() returns as long as the backend keeps running") and remove_logger_blocking() too
BLatest == BIter(Len(R), Len(W), IF st.yremoved THEN view["B"]["WY"] ELSE Len(WY))
FairSpec == Spec /\ WF_vars(BLatest) /\ WF_vars(\E i \in 1..Len(FL) : XFlushReturn(i)) /\ WF_vars(\E i \in 1..Len(RB) : XRemoveReturn(i))
StopEnds == st.stopreq ~> st.finished
FlushReturns == st.inflush ~> ~st.inflush
RemoveReturns == st.inremove ~> ~st.inremove
TypeOK == /\ st.proc <= st.consumed /\ st.consumed <= Len(st.xq) /\ st.procY <= st.consumedY /\ st.consumedY <= Len(st.yq)
          /\ (st.finished => st.stopreq) /\ (st.joined => st.yexited) /\ st.owedY <= Len(st.yq)
StateView == <<W, WY, R, FL, RB, clk, view, st>>
ExportA == Export => PrintT("BEH " \o ToJson(hist'))
=============================================================================
