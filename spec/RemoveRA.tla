------------------------------- MODULE RemoveRA -------------------------------
(* Logger removal under the C++ release/acquire model (C17: "removing a logger never discards statements logged       *)
(* through it before the removal ... nor frees state in use").                                                        *)
(*   removing thread:  (its statements: commit_write(): writer_pos.store(MoCommit))                                   *)
(*                     LoggerManager::remove_logger: logger->mark_invalid(): valid.store(false, MoInvL)               *)
(*                                                   _has_invalidated_loggers.store(true, MoHasSet)                   *)
(*   backend:          cleanup_invalidated_loggers: if (_has_invalidated_loggers.load(MoHasLoad)) { store(false);     *)
(*                       lock; for each logger: if (!is_valid_logger() [valid.load(MoValidL)])                        *)
(*                         if (!check_queues_empty() [writer_pos.load(MoEmpty) == reader_pos]) re-arm the flag        *)
(*                         else erase the logger }                                                                    *)
(* Memory orders are CONSTANTS EXTRACTED from the code (harness/h_remove.cpp). Three atomic objects, each a history    *)
(* of messages [val, rel, ev] as in ExitRA.tla.                                                                        *)
EXTENDS Integers, Sequences, FiniteSets, TLC, Json
CONSTANTS MaxRecs, MoCommit, MoInvL, MoHasSet, MoHasLoad, MoValidL, MoEmpty, Export
VARIABLES W, G, H,          \* histories: writer_pos, the logger's valid flag, _has_invalidated_loggers
          clk, view, nw, ppc,   \* ppc: "log" | "rm2" (between the two stores of remove_logger) | "done"
          consumed, erased, uaf, hist
vars == <<W, G, H, clk, view, nw, ppc, consumed, erased, uaf, hist>>
T == {"P", "B"}
O == {"W", "G", "H"}
Zero == [t \in T |-> 0]
Join(a, b) == [t \in T |-> IF a[t] > b[t] THEN a[t] ELSE b[t]]
Leq(a, b) == \A t \in T : a[t] <= b[t]
IsAcq(mo) == mo \in {"acq", "ar"}
IsRel(mo) == mo \in {"rel", "ar"}
Msg(v, rel, ev) == [val |-> v, rel |-> rel, ev |-> ev]
Init ==
  /\ W = <<Msg(0, Zero, Zero)>> /\ G = <<Msg(1, Zero, Zero)>> /\ H = <<Msg(0, Zero, Zero)>>
  /\ clk = [t \in T |-> Zero] /\ view = [t \in T |-> [o \in O |-> 1]]
  /\ nw = 0 /\ ppc = "log" /\ consumed = 0 /\ erased = FALSE /\ uaf = FALSE /\ hist = <<>>
Step(who, act, arg) == hist' = IF Export THEN Append(hist, [t |-> who, a |-> act, arg |-> arg]) ELSE hist
\* oldest readable message of history X for a reader with clock c and coherence view v
LoOf(X, c, v) == LET hb == {j \in 1..Len(X) : Leq(X[j].ev, c)}
                     m == IF hb = {} THEN 1 ELSE CHOOSE j \in hb : \A k \in hb : k <= j IN
                 IF m > v THEN m ELSE v
PTick == [clk["P"] EXCEPT !["P"] = @ + 1]
Pub(mo, c) == IF IsRel(mo) THEN c ELSE Zero

PWrite ==
  /\ ppc = "log" /\ nw < MaxRecs
  /\ W' = Append(W, Msg(nw + 1, Pub(MoCommit, PTick), PTick)) /\ clk' = [clk EXCEPT !["P"] = PTick]
  /\ view' = [view EXCEPT !["P"]["W"] = Len(W) + 1] /\ nw' = nw + 1 /\ Step("P", "write", <<>>)
  /\ UNCHANGED <<G, H, ppc, consumed, erased, uaf>>
PRemove1 ==       \* mark_invalid
  /\ ppc = "log" /\ ppc' = "rm2"
  /\ G' = Append(G, Msg(0, Pub(MoInvL, PTick), PTick)) /\ clk' = [clk EXCEPT !["P"] = PTick]
  /\ view' = [view EXCEPT !["P"]["G"] = Len(G) + 1] /\ Step("P", "remove1", <<>>)
  /\ UNCHANGED <<W, H, nw, consumed, erased, uaf>>
PRemove2 ==       \* raise the flag (the harness runs the real remove_logger here: it stores the valid flag once more first)
  /\ ppc = "rm2" /\ ppc' = "done"
  /\ LET c1 == PTick
         c2 == [c1 EXCEPT !["P"] = @ + 1] IN
     /\ G' = Append(G, Msg(0, Pub(MoInvL, c1), c1))
     /\ H' = Append(H, Msg(1, Pub(MoHasSet, c2), c2)) /\ clk' = [clk EXCEPT !["P"] = c2]
     /\ view' = [view EXCEPT !["P"]["H"] = Len(H) + 1, !["P"]["G"] = Len(G) + 1]
  /\ Step("P", "remove2", <<>>)
  /\ UNCHANGED <<W, nw, consumed, erased, uaf>>

BRead(i) ==
  /\ ~erased /\ i \in LoOf(W, clk["B"], view["B"]["W"])..Len(W) /\ W[i].val > consumed
  /\ consumed' = W[i].val /\ clk' = [clk EXCEPT !["B"] = Join(@, W[i].rel)] /\ view' = [view EXCEPT !["B"]["W"] = i]
  /\ Step("B", "read", <<i>>)
  /\ UNCHANGED <<W, G, H, nw, ppc, erased, uaf>>

\* one call of cleanup_invalidated_loggers; ih, ig, iw = the messages its three loads read (0 = load not performed)
BClean(ih, ig, iw) ==
  /\ ~erased /\ ih \in LoOf(H, clk["B"], view["B"]["H"])..Len(H)
  /\ LET c1 == IF IsAcq(MoHasLoad) THEN Join(clk["B"], H[ih].rel) ELSE clk["B"] IN
     IF H[ih].val = 0
     THEN /\ ig = 0 /\ iw = 0 /\ clk' = [clk EXCEPT !["B"] = c1] /\ view' = [view EXCEPT !["B"]["H"] = ih]
          /\ UNCHANGED <<H, erased, uaf>>
     ELSE LET c2 == [c1 EXCEPT !["B"] = @ + 1]                      \* the flag is cleared (a store of the backend)
              H1 == Append(H, Msg(0, c2, c2)) IN
          /\ ig \in LoOf(G, c2, view["B"]["G"])..Len(G)
          /\ LET c3 == IF IsAcq(MoValidL) THEN Join(c2, G[ig].rel) ELSE c2 IN
             IF G[ig].val = 1
             THEN \* the logger still looks valid: skipped, the flag stays cleared
                  /\ iw = 0 /\ H' = H1 /\ clk' = [clk EXCEPT !["B"] = c3]
                  /\ view' = [view EXCEPT !["B"]["H"] = Len(H1), !["B"]["G"] = ig]
                  /\ UNCHANGED <<erased, uaf>>
             ELSE /\ iw \in LoOf(W, c3, view["B"]["W"])..Len(W)
                  /\ LET c4 == IF IsAcq(MoEmpty) THEN Join(c3, W[iw].rel) ELSE c3
                         empty == W[iw].val = consumed
                         c5 == [c4 EXCEPT !["B"] = @ + 1] IN
                     /\ H' = IF empty THEN H1 ELSE Append(H1, Msg(1, c5, c5))        \* not empty: re-arm
                     /\ clk' = [clk EXCEPT !["B"] = IF empty THEN c4 ELSE c5]
                     /\ view' = [view EXCEPT !["B"]["H"] = Len(H1) + (IF empty THEN 0 ELSE 1), !["B"]["G"] = ig, !["B"]["W"] = iw]
                     /\ erased' = empty /\ uaf' = (empty /\ consumed < nw)
  /\ Step("B", "clean", <<ih, ig, iw>>)
  /\ UNCHANGED <<W, G, nw, ppc, consumed>>

Next == PWrite \/ PRemove1 \/ PRemove2 \/ (\E i \in 1..Len(W) : BRead(i))
        \/ (\E ih \in 1..Len(H), ig \in 0..Len(G), iw \in 0..Len(W) : BClean(ih, ig, iw))
Spec == Init /\ [][Next]_vars
\* C17: the logger is freed only when nothing logged through it before the removal is still queued
NoUAF == ~uaf
\* a requested removal is never forgotten: while the logger exists the flag is raised (or the request is still in progress)
NoLostRemoval == (ppc = "done" /\ ~erased) => H[Len(H)].val = 1
TypeOK == consumed <= nw /\ (erased => ppc # "log")
HistBound == Len(H) <= 8
StateView == <<W, G, H, clk, view, nw, ppc, consumed, erased, uaf>>
ExportA == Export => PrintT("BEH " \o ToJson(hist'))
=============================================================================
