SPECIFICATION Spec
INVARIANT OkC01
CHECK_DEADLOCK FALSE
