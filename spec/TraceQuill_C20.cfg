SPECIFICATION Spec
INVARIANT Ok20
CHECK_DEADLOCK FALSE
