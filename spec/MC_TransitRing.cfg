SPECIFICATION Spec
CONSTANTS InitCap = 2
 MaxOps = 10
 MaxCap = 8
 Export = TRUE
INVARIANTS FifoOK Contents Shape
VIEW StateView
ACTION_CONSTRAINT ExportA
CHECK_DEADLOCK FALSE
