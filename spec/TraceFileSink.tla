---------------------------- MODULE TraceFileSink ----------------------------
(* Trace validation for the plain file sink (sink clause of C06): executions of the REAL quill::FileSink recorded by        *)
(* harness/h_filesink (one ndjson event per operation: write(id), flush -> ids read from the path, delete, restart(mode),    *)
(* fsync count, virtual time).  The contract is spec/FileSinkContract.tla (CStep), the same text that spec/FileSink.tla     *)
(* carries as its invariant.  A line {"e":"init"} starts a new execution; on rejection m.why says which clause.             *)
EXTENDS Integers, Sequences, TLC, Json, IOUtils, FileSinkContract
TraceLog == ndJsonDeserialize(IOEnv.TRACE)
VARIABLES l, m
vars == <<l, m>>
M0 == C0
MStep(x, e) == CStep(x, e)
Init == l = 1 /\ m = M0
Next == /\ l <= Len(TraceLog) /\ l' = l + 1
        /\ LET e == TraceLog[l] IN m' = IF e.e = "init" THEN M0 ELSE MStep(m, e)
Spec == Init /\ [][Next]_vars
Ok == m.ok
=============================================================================
