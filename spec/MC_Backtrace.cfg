SPECIFICATION Spec
CONSTANTS Caps = {1,2,3}
  MaxOps = 9
  ResetIndex = TRUE
  Export = FALSE
INVARIANTS RingMatchesWindow TypeOK
VIEW StateView
CHECK_DEADLOCK FALSE
