-------------------------------- MODULE Life --------------------------------
(* Layer I for C07: the process / backend life cycle of quill, one action per code step.            *)
(*   Backend::start (call_once on a regenerated once_flag, signal mask while spawning, handler      *)
(*   installation, atexit registration), BackendWorker::run / _poll / _exit / stop,                 *)
(*   BackendManager::stop_backend_thread (fresh once_flag), detail::on_signal / on_alarm,           *)
(*   exit() = atexit handlers then static destruction (FileSink closed), death by signal.           *)
(* Per thread t the statements flow  q[t] (SPSC queue) -> ring[t] (transit buffer) -> fbuf[t]       *)
(* (stdio buffer of the FileSink) -> disk[t]; fbuf/disk are kept as per-thread projections of the   *)
(* one file because C07 speaks about per-thread order only (the backend may pick any non-empty      *)
(* ring: timestamps are abstracted away, which over-approximates the real merge order).             *)
(* TLC checks the invariants for every interleaving within the bounds; Variant # "code" switches in *)
(* one realistic defect each and must make an invariant fail (self-test of the model).              *)
(* Scope of the invariants (= of C07): a signal counts when it hits a thread that has logged, at a   *)
(* statement boundary, while a started backend is up and no thread is inside start/stop/exit; the    *)
(* thread that wins the handler lock is the one spoken about. Everything else the code can do       *)
(* (signal after stop -> flush_log never answered -> on_alarm) is modelled but not asserted.        *)
(* "reraise_before_flush" = the handler re-raises without waiting for the flush (on Linux merely     *)
(* moving raise() in front of flush_log() changes nothing: the signal is blocked in its handler).   *)
EXTENDS Naturals, Sequences, FiniteSets, TLC, Json
CONSTANTS Main, Workers, \* the main thread and the worker threads (strings: they appear in exported programs)
          Lifecyclers,  \* threads that may call start / stop / exit
          MaxStmts,     \* statements per thread
          MaxStarts,    \* calls of Backend::start (start/stop cycles)
          Sigs,         \* handled signals explored
          MaxRaise,     \* signals raised per process (2 reaches the "second thread pauses" branch of the handler)
          SoftLimit,    \* transit_events_soft_limit (1: _poll always takes the batch branch)
          WaitEmpty,    \* BackendOptions::wait_for_queues_to_empty_before_exit (FALSE: _exit() does not drain; then only
                        \* the signal clause of C07 is asserted)
          Variant,      \* "code" | "exit_ignores_rings" | "exit_until_nothing_cached" (a defect iff Grace) | "no_final_flush" | "no_once_regen" | "reraise_before_flush"
                        \* | "exit0_for_fatal" | "spawn_unmasked" | "cleanup_nonempty" (defects: an invariant must fail)
                        \* | "graceful_exit_no_flush" (SIGINT/SIGTERM: exit() without flush_log; a defect iff ~WaitEmpty)
                        \* | "no_atexit" (harmless in the model: static destruction still stops and drains)
          Grace,        \* TRUE: a non-zero log_timestamp_ordering_grace_period - a statement can be read only after time has passed (Age)
          Export        \* TRUE: keep the program history and print it when the process ends
C == INSTANCE LifeContract
Threads == {Main} \cup Workers

VARIABLES
  pc, ret, hsig, hscope, nlog,         \* frontend threads: program counter, continuation of stop(), signal handled
                                       \* (and whether it hit while the backend was up), statements logged
  q, young, ring, fbuf, disk, flag,    \* the pipeline per thread; flag[t] = flush_log's backend_thread_flushed;
                                       \* young[t] = how many statements at the END of q[t] are still younger than the timestamp-
                                       \* ordering grace period (the backend's read stops in front of them)
  ctx, cache, newFlag,                 \* ThreadContext registry, backend's _active_thread_contexts_cache, new_thread_context_flag
  runFlag, bpc, bmask, btid,           \* _is_worker_running, backend thread pc / signal mask, _worker_thread_id # 0
  ctxTid, once, atexitN, xleft, xcode, endKind, starts,
  mask, disp, hlock, alarm, signo, nraise,
  outcome,
  must, expectUp, sigInfo,             \* ghosts: promised statements, "backend must be up", first signal raised
  hist
fe == <<pc, ret, hsig, hscope, nlog>>
pipe == <<q, young, ring, fbuf, disk, flag>>
reg == <<ctx, cache, newFlag>>
bk == <<runFlag, bpc, bmask, btid>>
lf == <<ctxTid, once, atexitN, xleft, xcode, endKind, starts>>
sg == <<mask, disp, hlock, alarm, signo, nraise>>
gh == <<must, expectUp, sigInfo>>
vars == <<fe, pipe, reg, bk, lf, sg, gh, outcome, hist>>

NoSig == [t |-> "-", sig |-> "-", k |-> 0, scope |-> FALSE]
Empty == [t \in Threads |-> <<>>]

Init ==
  /\ pc = [t \in Threads |-> "run"] /\ ret = [t \in Threads |-> "run"] /\ hsig = [t \in Threads |-> "-"]
  /\ hscope = [t \in Threads |-> FALSE]
  /\ nlog = [t \in Threads |-> 0]
  /\ q = Empty /\ young = [t \in Threads |-> 0] /\ ring = Empty /\ fbuf = Empty /\ disk = Empty /\ flag = [t \in Threads |-> FALSE]
  /\ ctx = [t \in Threads |-> "none"] /\ cache = {} /\ newFlag = FALSE
  /\ runFlag = FALSE /\ bpc = "none" /\ bmask = FALSE /\ btid = FALSE
  /\ ctxTid = FALSE /\ once = "fresh" /\ atexitN = 0 /\ xleft = 0 /\ xcode = 0 /\ endKind = "none" /\ starts = 0
  /\ mask = [t \in Threads |-> FALSE] /\ disp = [s \in Sigs |-> "dfl"] /\ hlock = 0 /\ alarm = FALSE /\ signo = "-"
  /\ nraise = 0
  /\ outcome = C!NoStatus
  /\ must = [t \in Threads |-> 0] /\ expectUp = FALSE /\ sigInfo = NoSig
  /\ hist = <<>>

Alive == outcome.kind = "none"
H(op, t, x) == IF Export THEN Append(hist, [op |-> op, t |-> t, x |-> x]) ELSE hist
HandlerPcs == {"h_lock", "h_alarm", "h_tid", "h_log", "h_crit", "h_flush", "h_wait", "h_dfl", "h_raise", "paused"}
\* a thread is inside start / stop / exit
InCall(u) == pc[u] \notin ({"run", "fin"} \cup HandlerPcs)
\* the program serialises its life-cycle calls and makes none once a signal has been raised
MayCall(t) == Alive /\ pc[t] = "run" /\ t \in Lifecyclers /\ nraise = 0 /\ \A u \in Threads : ~InCall(u)
Goto(t, l) == pc' = [pc EXCEPT ![t] = l]
FlushFile == /\ disk' = [t \in Threads |-> disk[t] \o fbuf[t]] /\ fbuf' = Empty

(* ------------------------------------------------------------------ frontend: statements, threads *)
Log(t) ==
  /\ Alive /\ pc[t] = "run" /\ nlog[t] < MaxStmts
  /\ nlog' = [nlog EXCEPT ![t] = @ + 1]
  /\ q' = [q EXCEPT ![t] = Append(@, C!Stmt(t, nlog[t] + 1))] /\ young' = [young EXCEPT ![t] = IF Grace THEN @ + 1 ELSE 0]
  /\ IF ctx[t] = "none" THEN ctx' = [ctx EXCEPT ![t] = "valid"] /\ newFlag' = TRUE ELSE UNCHANGED <<ctx, newFlag>>
  /\ hist' = H("log", t, "-")
  /\ UNCHANGED <<pc, ret, hsig, hscope, ring, fbuf, disk, flag, cache, bk, lf, sg, gh, outcome>>

\* a worker returns from its thread function: its ThreadContext is invalidated, the queue stays until drained
Finish(w) ==
  /\ Alive /\ w \in Workers /\ pc[w] = "run" /\ nlog[w] >= 1
  /\ Goto(w, "fin")
  /\ ctx' = [ctx EXCEPT ![w] = IF @ = "valid" THEN "invalid" ELSE @]
  /\ hist' = H("fin", w, "-")
  /\ UNCHANGED <<ret, hsig, hscope, nlog, pipe, cache, newFlag, bk, lf, sg, gh, outcome>>

(* ------------------------------------------------------------------ Backend::start *)
\* std::call_once on the current once_flag: a used flag makes start() a no-op
StartCall(t) ==
  /\ MayCall(t) /\ starts < MaxStarts
  /\ starts' = starts + 1
  /\ hist' = H("start", t, "-")
  /\ IF once = "fresh"
     THEN /\ once' = "used" /\ Goto(t, "st_mask") /\ UNCHANGED expectUp
     ELSE /\ UNCHANGED <<once, pc>> /\ expectUp' = TRUE          \* returns at once; the caller now relies on a running backend
  /\ UNCHANGED <<ret, hsig, hscope, nlog, pipe, reg, bk, ctxTid, atexitN, xleft, xcode, endKind, sg, must, sigInfo, outcome>>

\* sigfillset + sigprocmask(SIG_SETMASK) in the caller, then init_signal_handler for the six signals (+ SIGALRM)
StMask(t) ==
  /\ Alive /\ pc[t] = "st_mask"
  /\ mask' = [mask EXCEPT ![t] = TRUE]
  /\ disp' = [s \in Sigs |-> "h"]
  /\ Goto(t, "st_spawn")
  /\ UNCHANGED <<ret, hsig, hscope, nlog, pipe, reg, bk, lf, hlock, alarm, signo, nraise, gh, outcome, hist>>

\* BackendWorker::run: std::thread worker(...) inherits the spawner's signal mask
StSpawn(t) ==
  /\ Alive /\ pc[t] = "st_spawn"
  /\ bpc' = "b_init" /\ bmask' = (IF Variant = "spawn_unmasked" THEN FALSE ELSE mask[t])
  /\ Goto(t, "st_wait")
  /\ UNCHANGED <<ret, hsig, hscope, nlog, pipe, reg, runFlag, btid, lf, sg, gh, outcome, hist>>

\* while (!_is_worker_running.load()) sleep
StWait(t) ==
  /\ Alive /\ pc[t] = "st_wait" /\ runFlag
  /\ Goto(t, "st_ctx")
  /\ UNCHANGED <<ret, hsig, hscope, nlog, pipe, reg, bk, lf, sg, gh, outcome, hist>>

\* SignalHandlerContext: logger name, timeout, backend_thread_id
StCtx(t) ==
  /\ Alive /\ pc[t] = "st_ctx"
  /\ ctxTid' = btid
  /\ Goto(t, "st_unmask")
  /\ UNCHANGED <<ret, hsig, hscope, nlog, pipe, reg, bk, once, atexitN, xleft, xcode, endKind, starts, sg, gh, outcome, hist>>

StUnmask(t) ==
  /\ Alive /\ pc[t] = "st_unmask"
  /\ mask' = [mask EXCEPT ![t] = FALSE]
  /\ Goto(t, "st_atexit")
  /\ UNCHANGED <<ret, hsig, hscope, nlog, pipe, reg, bk, lf, disp, hlock, alarm, signo, nraise, gh, outcome, hist>>

\* std::atexit([] { stop_backend_thread(); }); start() returns
StAtexit(t) ==
  /\ Alive /\ pc[t] = "st_atexit"
  /\ atexitN' = (IF Variant = "no_atexit" THEN atexitN ELSE atexitN + 1)
  /\ expectUp' = TRUE
  /\ Goto(t, "run")
  /\ UNCHANGED <<ret, hsig, hscope, nlog, pipe, reg, bk, ctxTid, once, xleft, xcode, endKind, starts, sg, must, sigInfo, outcome, hist>>

(* ------------------------------------------------------------------ backend thread *)
UpdCache == IF newFlag THEN {t \in Threads : ctx[t] \in {"valid", "invalid"}} ELSE cache
AllEmpty(S) == \A t \in S : q[t] = <<>> /\ ring[t] = <<>>
QueuesEmpty(S) == \A t \in S : q[t] = <<>>
\* _cleanup_invalidated_thread_contexts: invalid and nothing left in queue or ring
Removable(S) == {t \in S : ctx[t] = "invalid" /\ (Variant = "cleanup_nonempty" \/ (q[t] = <<>> /\ ring[t] = <<>>))}
BAlive == Alive /\ bpc # "none"

\* _init, _worker_thread_id, _is_worker_running.store(true)
BInit ==
  /\ BAlive /\ bpc = "b_init"
  /\ btid' = TRUE /\ runFlag' = TRUE /\ bpc' = "b_top"
  /\ UNCHANGED <<fe, pipe, reg, bmask, lf, sg, gh, outcome, hist>>

RECURSIVE SumLen(_, _)
SumLen(f, S) == IF S = {} THEN 0 ELSE LET t == CHOOSE x \in S : TRUE IN Len(f[t]) + SumLen(f, S \ {t})
\* _populate_transit_events_from_frontend_queues: every cached context, everything that is in its queue. (The code
\* reads the contexts one after the other; a log call slipping in between two reads is, for each single thread,
\* the same as one slipping in before or after this step, and C07 is a per-thread statement.)
\* With a grace period the read of a queue stops in front of the first statement that is still too young (ts_now = now - grace).
Old(t) == Len(q[t]) - young[t]
Populate(S) == /\ ring' = [t \in Threads |-> IF t \in S THEN ring[t] \o SubSeq(q[t], 1, Old(t)) ELSE ring[t]]
               /\ q' = [t \in Threads |-> IF t \in S THEN SubSeq(q[t], Old(t) + 1, Len(q[t])) ELSE q[t]]
               /\ UNCHANGED young
\* time passes: the oldest of a thread's young statements becomes readable
Age(t) == /\ Alive /\ young[t] > 0 /\ young' = [young EXCEPT ![t] = @ - 1]
          /\ UNCHANGED <<fe, q, ring, fbuf, disk, flag, reg, bk, lf, sg, gh, outcome, hist>>

\* while (_is_worker_running.load()) _poll();  then _exit().
\* _poll: _update_active_thread_contexts_cache, populate, then one event / a batch / the idle branch
BTop ==
  /\ BAlive /\ bpc = "b_top"
  /\ IF runFlag
     THEN LET c2 == UpdCache IN
          /\ cache' = c2 /\ newFlag' = FALSE /\ Populate(c2)
          /\ LET cnt == SumLen(ring', c2)
             IN bpc' = IF cnt = 0 THEN "i_flush" ELSE IF cnt < SoftLimit THEN "p_one" ELSE "p_batch"
     ELSE /\ bpc' = "e_check" /\ UNCHANGED <<cache, newFlag, q, young, ring>>
  /\ UNCHANGED <<fe, fbuf, disk, flag, ctx, runFlag, bmask, btid, lf, sg, gh, outcome, hist>>

\* _process_lowest_timestamp_transit_event for thread t: a statement is fwritten to the sink (stdio buffer);
\* a Flush event runs _flush_and_run_active_sinks (fflush), cleans invalidated contexts, then sets the caller's flag
ProcessFront(t) ==
  LET it == Head(ring[t]) IN
  /\ ring' = [ring EXCEPT ![t] = Tail(@)]
  /\ IF it.k = "f"
     THEN /\ FlushFile /\ flag' = [flag EXCEPT ![t] = TRUE]
          /\ LET rm == Removable(cache) \ {t} IN cache' = cache \ rm /\ ctx' = [u \in Threads |-> IF u \in rm THEN "removed" ELSE ctx[u]]
     ELSE /\ fbuf' = [fbuf EXCEPT ![t] = Append(@, it)] /\ UNCHANGED <<disk, flag, cache, ctx>>

BOne ==
  /\ BAlive /\ bpc = "p_one"
  /\ IF \E t \in cache : ring[t] # <<>>
     THEN \E t \in cache : ring[t] # <<>> /\ ProcessFront(t)
     ELSE UNCHANGED <<ring, fbuf, disk, flag, cache, ctx>>      \* all transit buffers empty: returns false
  /\ bpc' = "b_top"
  /\ UNCHANGED <<fe, q, young, newFlag, runFlag, bmask, btid, lf, sg, gh, outcome, hist>>

\* while (!has_pending_events_for_caching_when_transit_event_buffer_empty() && _process_lowest_timestamp_transit_event())
BBatch ==
  /\ BAlive /\ bpc \in {"p_batch", "e_batch"}
  /\ LET c2 == UpdCache
         pending == \E t \in c2 : ring[t] = <<>> /\ q[t] # <<>>
         back == IF bpc = "p_batch" THEN "b_top" ELSE "e_check" IN
     IF pending \/ \A t \in cache : ring[t] = <<>>
     THEN /\ bpc' = back /\ cache' = c2 /\ newFlag' = FALSE /\ UNCHANGED <<ring, fbuf, disk, flag, ctx>>
     ELSE /\ \E t \in cache : ring[t] # <<>> /\ ProcessFront(t)
          /\ UNCHANGED <<bpc, newFlag>>
  /\ UNCHANGED <<fe, q, young, runFlag, bmask, btid, lf, sg, gh, outcome, hist>>

\* idle branch of _poll: _flush_and_run_active_sinks(true, sink_min_flush_interval): flushes only if the interval elapsed
BIdleFlush ==
  /\ BAlive /\ bpc = "i_flush"
  /\ \/ FlushFile
     \/ UNCHANGED <<fbuf, disk>>
  /\ bpc' = "i_check"
  /\ UNCHANGED <<fe, q, young, ring, flag, reg, runFlag, bmask, btid, lf, sg, gh, outcome, hist>>

\* _check_frontend_queues_and_cached_transit_events_empty; if so clean up contexts and sleep (timeout or notify)
BIdleCheck ==
  /\ BAlive /\ bpc = "i_check"
  /\ LET c2 == UpdCache IN
     IF AllEmpty(c2)
     THEN LET rm == Removable(c2) IN
          /\ cache' = c2 \ rm /\ ctx' = [u \in Threads |-> IF u \in rm THEN "removed" ELSE ctx[u]]
     ELSE cache' = c2 /\ UNCHANGED ctx
  /\ newFlag' = FALSE /\ bpc' = "b_top"
  /\ UNCHANGED <<fe, pipe, runFlag, bmask, btid, lf, sg, gh, outcome, hist>>

\* _exit(): loop until every queue and transit buffer is empty (else populate and process a batch) ...
BExitCheck ==
  /\ BAlive /\ bpc = "e_check"
  /\ LET c2 == UpdCache IN
     /\ cache' = c2 /\ newFlag' = FALSE
     /\ IF ~WaitEmpty \/ (IF Variant = "exit_ignores_rings" THEN QueuesEmpty(c2) ELSE AllEmpty(c2))
           \* defect "exit_until_nothing_cached": the drain ends as soon as a read pass caches nothing - statements still too young
           \* to be read stay in the queues
           \/ (Variant = "exit_until_nothing_cached" /\ \A t \in c2 : ring[t] = <<>> /\ Old(t) = 0)
        THEN bpc' = "e_flush" /\ UNCHANGED <<q, young, ring>>
        ELSE bpc' = "e_batch" /\ Populate(c2)
  /\ UNCHANGED <<fe, fbuf, disk, flag, ctx, runFlag, bmask, btid, lf, sg, gh, outcome, hist>>

\* ... then _flush_and_run_active_sinks(false, 0), _cleanup_invalidated_thread_contexts; the thread function returns
BExitFlush ==
  /\ BAlive /\ bpc = "e_flush"
  /\ IF Variant = "no_final_flush" THEN UNCHANGED <<fbuf, disk>> ELSE FlushFile
  /\ LET rm == Removable(cache) IN
     /\ cache' = cache \ rm /\ ctx' = [u \in Threads |-> IF u \in rm THEN "removed" ELSE ctx[u]]
  /\ bpc' = "none"
  /\ UNCHANGED <<fe, q, young, ring, flag, newFlag, runFlag, bmask, btid, lf, sg, gh, outcome, hist>>

(* ------------------------------------------------------------------ Backend::stop / stop_backend_thread *)
StopCall(t) ==
  /\ MayCall(t)
  /\ Goto(t, "sp_xchg") /\ ret' = [ret EXCEPT ![t] = "run"]
  /\ hist' = H("stop", t, "-")
  /\ UNCHANGED <<hsig, hscope, nlog, pipe, reg, bk, lf, sg, gh, outcome>>

\* if (!_is_worker_running.exchange(false)) return;  notify();        <- the stop request
SpXchg(t) ==
  /\ Alive /\ pc[t] = "sp_xchg"
  /\ IF runFlag
     THEN /\ runFlag' = FALSE /\ Goto(t, "sp_join")
          /\ must' = (IF WaitEmpty THEN [u \in Threads |-> IF nlog[u] > must[u] THEN nlog[u] ELSE must[u]] ELSE must)
          /\ expectUp' = FALSE
     ELSE /\ Goto(t, IF ret[t] = "ex2" THEN "ex_static" ELSE "sp_once") /\ UNCHANGED <<runFlag, must, expectUp>>
  /\ UNCHANGED <<ret, hsig, hscope, nlog, pipe, reg, bpc, bmask, btid, lf, sg, sigInfo, outcome, hist>>

\* _worker_thread.join()
SpJoin(t) ==
  /\ Alive /\ pc[t] = "sp_join" /\ bpc = "none"
  /\ Goto(t, "sp_tid")
  /\ UNCHANGED <<ret, hsig, hscope, nlog, pipe, reg, bk, lf, sg, gh, outcome, hist>>

\* _worker_thread_id.store(0)
SpTid(t) ==
  /\ Alive /\ pc[t] = "sp_tid"
  /\ btid' = FALSE
  /\ Goto(t, IF ret[t] = "ex2" THEN "ex_static" ELSE "sp_once")
  /\ UNCHANGED <<ret, hsig, hscope, nlog, pipe, reg, runFlag, bpc, bmask, lf, sg, gh, outcome, hist>>

\* _start_once_flag.exchange(new std::once_flag): the backend can be started again
SpOnce(t) ==
  /\ Alive /\ pc[t] = "sp_once"
  /\ once' = (IF Variant = "no_once_regen" THEN once ELSE "fresh")
  /\ Goto(t, IF ret[t] = "ex" THEN "ex_atexit" ELSE "run")
  /\ UNCHANGED <<ret, hsig, hscope, nlog, pipe, reg, bk, ctxTid, atexitN, xleft, xcode, endKind, starts, sg, gh, outcome, hist>>

(* ------------------------------------------------------------------ exit() / return from main *)
BeginExit(t, code) ==
  /\ xleft' = atexitN /\ xcode' = code
  /\ Goto(t, "ex_atexit")

ExitCall(t, kind, code) ==
  /\ MayCall(t) /\ (kind = "ret" => t = Main)
  /\ BeginExit(t, code) /\ endKind' = kind
  \* normal process exit is a stop request when a backend is up
  /\ must' = (IF expectUp /\ WaitEmpty THEN [u \in Threads |-> IF nlog[u] > must[u] THEN nlog[u] ELSE must[u]] ELSE must)
  /\ hist' = H(kind, t, ToString(code))
  /\ UNCHANGED <<ret, hsig, hscope, nlog, pipe, reg, bk, ctxTid, once, atexitN, starts, sg, expectUp, sigInfo, outcome>>

\* atexit handlers, last registered first: each is stop_backend_thread()
ExAtexit(t) ==
  /\ Alive /\ pc[t] = "ex_atexit"
  /\ IF xleft > 0 THEN /\ xleft' = xleft - 1 /\ ret' = [ret EXCEPT ![t] = "ex"] /\ Goto(t, "sp_xchg")
                  ELSE /\ Goto(t, "ex_manual") /\ UNCHANGED <<xleft, ret>>
  /\ UNCHANGED <<hsig, hscope, nlog, pipe, reg, bk, ctxTid, once, atexitN, xcode, endKind, starts, sg, gh, outcome, hist>>

\* static destruction of BackendManager, members in reverse order: ~ManualBackendWorker runs _exit() ON THE EXITING
\* THREAD (drains whatever is still queued, e.g. statements logged after the last stop, and flushes); taken as one
\* step because the backend thread is normally gone by now. Then ~BackendWorker calls stop() once more.
ExManual(t) ==
  /\ Alive /\ pc[t] = "ex_manual"
  /\ LET c2 == UpdCache
         skip == ~WaitEmpty \/ (Variant = "exit_ignores_rings" /\ QueuesEmpty(c2))
         all == [u \in Threads |-> IF u \in c2 /\ ~skip THEN ring[u] \o q[u] ELSE <<>>]
         wr == [u \in Threads |-> fbuf[u] \o SelectSeq(all[u], LAMBDA it : it.k # "f")] IN
     /\ cache' = c2 /\ newFlag' = FALSE
     /\ q' = [u \in Threads |-> IF u \in c2 /\ ~skip THEN <<>> ELSE q[u]]
     /\ young' = [u \in Threads |-> IF u \in c2 /\ ~skip THEN 0 ELSE young[u]]      \* (the drain waits for them: time passes inside)
     /\ ring' = [u \in Threads |-> IF u \in c2 /\ ~skip THEN <<>> ELSE ring[u]]
     /\ flag' = [u \in Threads |-> flag[u] \/ \E i \in 1..Len(all[u]) : all[u][i].k = "f"]
     /\ IF Variant = "no_final_flush" THEN fbuf' = wr /\ UNCHANGED disk
        ELSE disk' = [u \in Threads |-> disk[u] \o wr[u]] /\ fbuf' = Empty
  /\ ret' = [ret EXCEPT ![t] = "ex2"] /\ Goto(t, "sp_xchg")
  /\ UNCHANGED <<hsig, hscope, nlog, ctx, bk, lf, sg, gh, outcome, hist>>

\* ... and the sinks are destroyed: fclose writes the stdio buffer; the process ends with the requested status
ExStatic(t) ==
  /\ Alive /\ pc[t] = "ex_static"
  /\ FlushFile
  /\ outcome' = C!Exited(xcode)
  /\ UNCHANGED <<fe, q, young, ring, flag, reg, bk, lf, sg, gh, hist>>

(* ------------------------------------------------------------------ signals *)
KilledBy(s) == outcome' = C!Killed(s)       \* stdio buffer and queues die with the process: disk stays as it is

\* a handled signal reaches frontend thread t between two of its log statements (raise, kill, a fault), while no
\* thread is inside start / stop / exit (a signal racing a life-cycle call is outside C07)
Raise(t, s) ==
  /\ Alive /\ pc[t] = "run" /\ nlog[t] >= 1 /\ ~mask[t] /\ disp[s] = "h" /\ nraise < MaxRaise
  /\ \A u \in Threads : ~InCall(u)
  /\ nraise' = nraise + 1
  /\ Goto(t, "h_lock") /\ hsig' = [hsig EXCEPT ![t] = s]
  /\ hscope' = [hscope EXCEPT ![t] = expectUp]
  /\ hist' = H("sig", t, s)
  /\ UNCHANGED <<ret, nlog, pipe, reg, bk, lf, mask, disp, hlock, alarm, signo, gh, outcome>>

\* lock.fetch_add(1): only the first thread goes on, the others pause()
HLock(t) ==
  /\ Alive /\ pc[t] = "h_lock"
  /\ hlock' = hlock + 1
  /\ Goto(t, IF hlock = 0 THEN "h_alarm" ELSE "paused")
  \* ghost: the thread that enters the handler is the one the property speaks about
  /\ sigInfo' = (IF hlock = 0 THEN [t |-> t, sig |-> hsig[t], k |-> nlog[t], scope |-> hscope[t]] ELSE sigInfo)
  /\ UNCHANGED <<ret, hsig, hscope, nlog, pipe, reg, bk, lf, mask, disp, alarm, signo, nraise, must, expectUp, outcome, hist>>

\* signal_number.store; alarm(timeout)
HAlarm(t) ==
  /\ Alive /\ pc[t] = "h_alarm"
  /\ signo' = hsig[t] /\ alarm' = TRUE
  /\ Goto(t, "h_tid")
  /\ UNCHANGED <<ret, hsig, hscope, nlog, pipe, reg, bk, lf, mask, disp, hlock, nraise, gh, outcome, hist>>

\* backend_thread_id == 0 (never started) or we are the backend thread: no logging; else log and flush
HTid(t) ==
  /\ Alive /\ pc[t] = "h_tid"
  /\ IF ctxTid
     THEN /\ Goto(t, "h_log") /\ UNCHANGED <<xleft, xcode>>
     ELSE IF hsig[t] \in C!Graceful THEN BeginExit(t, 0) ELSE Goto(t, "h_dfl") /\ UNCHANGED <<xleft, xcode>>
  /\ UNCHANGED <<ret, hsig, hscope, nlog, pipe, reg, bk, ctxTid, once, atexitN, endKind, starts, sg, gh, outcome, hist>>

\* get_logger(); "Received signal: ..." goes through the signalled thread's own queue
HLog(t) ==
  /\ Alive /\ pc[t] = "h_log"
  /\ q' = [q EXCEPT ![t] = Append(@, C!Notice(hsig[t]))] /\ young' = [young EXCEPT ![t] = IF Grace THEN @ + 1 ELSE 0]
  /\ IF hsig[t] \in C!Graceful /\ Variant = "graceful_exit_no_flush"
     THEN BeginExit(t, 0)                                       \* relies on the exit-time drain of the atexit stop
     ELSE Goto(t, IF hsig[t] \in C!Graceful THEN "h_flush" ELSE "h_crit") /\ UNCHANGED <<xleft, xcode>>
  /\ UNCHANGED <<ret, hsig, hscope, nlog, ring, fbuf, disk, flag, reg, bk, ctxTid, once, atexitN, endKind, starts, sg, gh,
                 outcome, hist>>

\* "Program terminated unexpectedly ..."
HCrit(t) ==
  /\ Alive /\ pc[t] = "h_crit"
  /\ q' = [q EXCEPT ![t] = Append(@, C!Crit(hsig[t]))] /\ young' = [young EXCEPT ![t] = IF Grace THEN @ + 1 ELSE 0]
  /\ Goto(t, IF Variant = "reraise_before_flush" THEN "h_dfl" ELSE "h_flush")
  /\ UNCHANGED <<ret, hsig, hscope, nlog, ring, fbuf, disk, flag, reg, bk, lf, sg, gh, outcome, hist>>

\* flush_log(0): enqueue the Flush event ...
HFlush(t) ==
  /\ Alive /\ pc[t] = "h_flush"
  /\ q' = [q EXCEPT ![t] = Append(@, C!FlushReq)] /\ flag' = [flag EXCEPT ![t] = FALSE] /\ young' = [young EXCEPT ![t] = IF Grace THEN @ + 1 ELSE 0]
  /\ Goto(t, "h_wait")
  /\ UNCHANGED <<ret, hsig, hscope, nlog, ring, fbuf, disk, reg, bk, lf, sg, gh, outcome, hist>>

\* ... and spin until the backend has set the flag; then exit(EXIT_SUCCESS) for SIGINT/SIGTERM
HWait(t) ==
  /\ Alive /\ pc[t] = "h_wait" /\ flag[t]
  /\ IF hsig[t] \in C!Graceful \/ Variant = "exit0_for_fatal"
     THEN BeginExit(t, 0) ELSE Goto(t, "h_dfl") /\ UNCHANGED <<xleft, xcode>>
  /\ UNCHANGED <<ret, hsig, hscope, nlog, pipe, reg, bk, ctxTid, once, atexitN, endKind, starts, sg, gh, outcome, hist>>

\* std::signal(signal_number, SIG_DFL)
HDfl(t) ==
  /\ Alive /\ pc[t] = "h_dfl"
  /\ disp' = [disp EXCEPT ![hsig[t]] = "dfl"]
  /\ Goto(t, "h_raise")
  /\ UNCHANGED <<ret, hsig, hscope, nlog, pipe, reg, bk, lf, mask, hlock, alarm, signo, nraise, gh, outcome, hist>>

\* std::raise(signal_number): default action by now
HRaise(t) ==
  /\ Alive /\ pc[t] = "h_raise" /\ disp[hsig[t]] = "dfl"
  /\ KilledBy(hsig[t])
  /\ UNCHANGED <<fe, pipe, reg, bk, lf, sg, gh, hist>>

\* on_alarm after timeout_seconds: SIG_DFL + raise of the stored signal. The timeout is long against every other
\* step, so it only matters when the handler can wait for ever: flush_log with no backend to answer. SIGALRM is
\* process-directed: it runs on any frontend thread u. On another thread the re-raised signal kills the process; on
\* the thread that sits in the handler the signal is blocked (it is being handled), the raise stays pending and
\* the process hangs (observed on the real code; outside C07, which is why Raise records a scope)
Hung == [kind |-> "hung", code |-> 0, sig |-> "-"]
AlarmFires ==
  /\ Alive /\ alarm
  /\ \E t \in Threads : pc[t] = "h_wait" /\ ~flag[t] /\ bpc = "none"
  /\ disp' = [disp EXCEPT ![signo] = "dfl"]
  /\ \E u \in Threads : /\ pc[u] # "fin" /\ ~mask[u]
                         /\ outcome' = IF pc[u] = "h_wait" /\ hsig[u] = signo THEN Hung ELSE C!Killed(signo)
  /\ UNCHANGED <<fe, pipe, reg, bk, lf, mask, hlock, alarm, signo, nraise, gh, hist>>

\* a process-directed signal may be delivered to any thread that does not block it. The backend thread blocks
\* everything (inherited from the spawner) unless Variant = "spawn_unmasked"; there the handler finds
\* current_thread_id == backend_thread_id and re-raises at once, without notice or flush
DeliverBackend(s) ==
  /\ BAlive /\ ~bmask /\ disp[s] = "h" /\ nraise = 0 /\ expectUp
  /\ \E t \in Threads : pc[t] = "run" /\ nlog[t] >= 1
  /\ \A u \in Threads : ~InCall(u)
  /\ sigInfo' = [t |-> Main, sig |-> s, k |-> 0, scope |-> TRUE]
  /\ KilledBy(s)
  /\ UNCHANGED <<fe, pipe, reg, bk, lf, sg, must, expectUp, hist>>

Terminated == ~Alive /\ UNCHANGED vars

Program == \/ \E t \in Threads : Log(t) \/ StartCall(t) \/ StopCall(t) \/ ExitCall(t, "exit", 3)
                                   \/ ExitCall(t, "ret", 0) \/ \E s \in Sigs : Raise(t, s)
           \/ \E w \in Workers : Finish(w)
Calls == \E t \in Threads : \/ StMask(t) \/ StSpawn(t) \/ StWait(t) \/ StCtx(t) \/ StUnmask(t) \/ StAtexit(t)
                            \/ SpXchg(t) \/ SpJoin(t) \/ SpTid(t) \/ SpOnce(t) \/ ExAtexit(t) \/ ExManual(t) \/ ExStatic(t)
Handler == \/ \E t \in Threads : HLock(t) \/ HAlarm(t) \/ HTid(t) \/ HLog(t) \/ HCrit(t) \/ HFlush(t) \/ HWait(t) \/ HDfl(t) \/ HRaise(t)
           \/ AlarmFires \/ \E s \in Sigs : DeliverBackend(s)
BackendStep == BInit \/ BTop \/ BOne \/ BBatch \/ BIdleFlush \/ BIdleCheck \/ BExitCheck \/ BExitFlush
Step == Program \/ Calls \/ Handler \/ BackendStep \/ (\E t \in Threads : Age(t))
Next == Step \/ Terminated
Spec == Init /\ [][Next]_vars
SimSpec == Init /\ [][Step]_vars

(* ------------------------------------------------------------------ C07 on the model *)
\* whenever no backend thread exists, every statement promised by a stop request is on disk (written AND flushed
\* before the backend thread terminated), in order. (Promises are only made when WaitEmpty: see SpXchg / ExitCall.)
StopOK == bpc = "none" => \A t \in Threads : C!HasStmts(disk[t], t, must[t])
\* after Start has returned the backend runs - also the second time round
RestartOK == (Alive /\ expectUp /\ nraise = 0) => (runFlag /\ bpc # "none")
\* exit()/return (and no signal interfering with it): the requested status, nothing promised is missing
ExitOK == (outcome.kind # "none" /\ endKind \in {"exit", "ret"} /\ nraise = 0) =>
            /\ outcome = C!Exited(xcode)
            /\ \A t \in Threads : C!HasStmts(disk[t], t, must[t])
\* a handled signal that hit while the backend was up: the thread's earlier statements, then the notice; right status
SigOK == (outcome.kind # "none" /\ sigInfo.t # "-" /\ sigInfo.scope) =>
            C!SigEndOK(disk[sigInfo.t], sigInfo.t, sigInfo.k, sigInfo.sig, outcome)
\* the file never holds anything but a prefix of each thread's stream, in order (structure, not C07)
DiskShape == \A t \in Threads :
               LET d == SelectSeq(disk[t] \o fbuf[t], LAMBDA it : it.k = "s") IN \A i \in 1..Len(d) : d[i] = C!Stmt(t, i)
TypeOK == /\ \A t \in Threads : young[t] \in 0..Len(q[t]) /\ (~Grace => young[t] = 0)
          /\ hlock \in 0..2 /\ xleft \in 0..MaxStarts /\ atexitN \in 0..MaxStarts
          /\ cache \subseteq Threads /\ (bpc = "none" => ~runFlag \/ ~Alive)

(* ------------------------------------------------------------------ scenario export (simulation mode) *)
\* when the process ends: the program (the frontend calls in their order) and what the model saw
ExportA == (Export /\ outcome.kind = "none" /\ outcome'.kind # "none") =>
             PrintT("BEH " \o ToJson([prog |-> hist', outcome |-> outcome',
                                      ndisk |-> [t \in Threads |-> Len(SelectSeq(disk'[t], LAMBDA it : it.k = "s"))]]))
\* simulation only: thin out signal endings, returning workers and exits before any start, so that longer programs
\* and programs with live workers are reached
SimThin == /\ (nraise' > nraise) => RandomElement(1..8) = 1
           /\ (\E w \in Workers : pc[w] # "fin" /\ pc'[w] = "fin") => RandomElement(1..6) = 1
           /\ (endKind' # endKind /\ starts = 0) => RandomElement(1..10) = 1
\* the workers are interchangeable
WorkerSymmetry == Permutations(Workers)
=============================================================================
