--------------------------- MODULE FileSinkContract ---------------------------
(* Contract (layer A) of the plain file sink for the clause of C06 "... has been written to all of its sinks and those     *)
(* sinks have been flushed, so it can be read from the destination", at the level of ONE sink: the public operations        *)
(* write_log / flush_sink of quill::FileSink, the user who may delete the file, destroy the sink and create a new one on    *)
(* the same path ("a" / "w"), and a reader who opens the PATH.  Pure operators over the observable events only; the same    *)
(* text judges the model (spec/FileSink.tla: I => A) and the recorded executions of the real sink (spec/TraceFileSink.tla). *)
(*                                                                                                                          *)
(* events (records; integers 0/1 for flags so that JSON and the model build the same values):                              *)
(*   pre     disk                                  the user put statements into the file before the sink exists             *)
(*   open / restart   mode fsync interval disk ... a (new) sink on the path                                                 *)
(*   write   id disk partial bad                   write_log returned; disk = what a reader of the path sees now            *)
(*   flush   disk partial bad fsyncs unsynced t    flush_sink returned                                                      *)
(*   delete                                        the user unlinked the file                                               *)
(*   crash                                         the process died                                                         *)
(* every event carries err ("" = the operation did not throw), fsyncs (calls of fsync so far), t (time, ms or ticks).       *)
(*                                                                                                                          *)
(* What is demanded (and nothing else):                                                                                     *)
(*  C1 after flush_sink returned, every statement written to a sink on this path while the file was there, since the file   *)
(*     was (re)created, is readable from the path (must).  Statements written after the user deleted the file and up to     *)
(*     the first flush_sink that follows such a write (the sink can notice the deletion only there) are legitimately lost   *)
(*     (gone/pend); a "w" restart and a deletion discharge everything older.                                                *)
(*  C2 what was readable after a flush stays readable at every later observation until the user deletes the file or a       *)
(*     "w" restart truncates it (safe): an "a" restart keeps it.                                                            *)
(*  C3 at every observation the file holds a subsequence of the statements written, in the order written: nothing twice,    *)
(*     nothing reordered, nothing foreign; only whole statements after a flush (between flushes stdio may have written a    *)
(*     full buffer that ends inside a statement).                                                                           *)
(*  C4 fsync enabled: a flush that had something to flush calls fsync unless the last fsync of THIS sink is less than the   *)
(*     minimum interval ago (interval 0: always); fsync is not called again before the interval elapsed; and when it is     *)
(*     called, everything written before is already in the file (fsync after fflush, not before).                          *)
EXTENDS Integers, Sequences

C0 == [ok |-> TRUE, why |-> "", fsync |-> FALSE, interval |-> 0, all |-> <<>>, must |-> <<>>, safe |-> <<>>,
       gone |-> FALSE, pend |-> FALSE, dirty |-> FALSE, fs |-> 0, fst |-> -1]
Fail(x, why) == IF x.ok THEN [x EXCEPT !.ok = FALSE, !.why = why] ELSE x
Has(s, x) == \E i \in 1..Len(s) : s[i] = x
Pos(s, x) == CHOOSE i \in 1..Len(s) : s[i] = x
SubSeqOf(d, all) == /\ \A i \in 1..Len(d) : Has(all, d[i])
                    /\ \A i \in 1..(Len(d) - 1) : Pos(all, d[i]) < Pos(all, d[i + 1])
AllIn(req, d) == \A i \in 1..Len(req) : Has(d, req[i])

\* C2, C3 at one observation of the path
Obs(c, e, flushed) ==
  IF e.err # "" THEN Fail(c, "the operation failed")
  ELSE IF e.bad = 1 \/ (flushed /\ e.partial = 1) THEN Fail(c, "the file at the path holds partial or foreign text")
  ELSE IF ~SubSeqOf(e.disk, c.all) THEN Fail(c, "the file at the path holds statements duplicated, reordered or never written")
  ELSE IF ~AllIn(c.safe, e.disk) THEN Fail(c, "a statement that was readable after an earlier flush is no longer readable although the user did not delete the file")
  ELSE c

CPre(c, e) == [c EXCEPT !.all = e.disk, !.must = e.disk, !.safe = e.disk]

COpen(c, e) ==
  LET c1 == IF e.mode = "w" THEN [c EXCEPT !.must = <<>>, !.safe = <<>>] ELSE c
      c2 == [c1 EXCEPT !.fsync = (e.fsync = 1), !.interval = e.interval, !.gone = FALSE, !.pend = FALSE, !.dirty = FALSE,
                       !.fs = e.fsyncs, !.fst = -1]
  IN Obs(c2, e, FALSE)

CWrite(c, e) ==
  IF Has(c.all, e.id) THEN Fail(c, "script error: statement id used twice")
  ELSE Obs([c EXCEPT !.all = Append(@, e.id), !.must = IF c.gone THEN @ ELSE Append(@, e.id),
                     !.pend = c.pend \/ c.gone, !.dirty = TRUE, !.fs = e.fsyncs], e, FALSE)

CFlush(c, e) ==
  LET c1 == Obs(c, e, TRUE)
      c2 == IF ~AllIn(c.must, e.disk) THEN Fail(c1, "a statement written before flush_sink returned cannot be read from the path") ELSE c1
      fsd == e.fsyncs > c.fs
      due == c.fst < 0 \/ e.t - c.fst >= c.interval
      c3 == IF c.fsync /\ c.dirty /\ due /\ ~fsd
              THEN Fail(c2, "a flush that had statements to flush did not call fsync although fsync is enabled and the minimum interval had elapsed")
            ELSE IF c.fsync /\ fsd /\ ~due THEN Fail(c2, "fsync was called again before the minimum fsync interval had elapsed")
            ELSE IF c.fsync /\ fsd /\ e.unsynced > 0 THEN Fail(c2, "fsync was called before the buffered statements were written to the file")
            ELSE c2
  IN [c3 EXCEPT !.safe = c.must, !.gone = c.gone /\ ~c.pend, !.pend = FALSE, !.dirty = FALSE, !.fs = e.fsyncs,
                !.fst = IF fsd THEN e.t ELSE c.fst]

CDelete(c, e) == [c EXCEPT !.must = <<>>, !.safe = <<>>, !.gone = TRUE, !.pend = FALSE]

CStep(c, e) ==
  CASE e.e = "pre" -> CPre(c, e)
    [] e.e \in {"open", "restart"} -> COpen(c, e)
    [] e.e = "write" -> CWrite(c, e)
    [] e.e = "flush" -> CFlush(c, e)
    [] e.e = "delete" -> CDelete(c, e)
    [] e.e = "crash" -> Fail(c, "the process crashed or hung")
    [] OTHER -> c
=============================================================================
