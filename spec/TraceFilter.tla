----------------------------- MODULE TraceFilter -----------------------------
(* Trace validation for attaching filters while the backend dispatches (C16): executions of the REAL backend thread, REAL     *)
(* Sink::add_filter calls and REAL log calls recorded by harness/h_stop in fine-grained mode. Contract: a statement logged     *)
(* after the add_filter() call of the filter that rejects its class has returned is never written to the sink. (Statements     *)
(* in flight while the filter is being attached may go either way.)                                                          *)
EXTENDS Integers, Sequences, FiniteSets, TLC, Json, IOUtils
TraceLog == ndJsonDeserialize(IOEnv.TRACE)
VARIABLES l, m
vars == <<l, m>>
M0 == [added |-> {}, deny |-> {}, ok |-> TRUE, why |-> ""]
Fail(x, why) == IF x.ok THEN [x EXCEPT !.ok = FALSE, !.why = why] ELSE x
Wr(e) == IF "written" \in DOMAIN e THEN {e.written[i] : i \in 1..Len(e.written)} ELSE {}
MStep(x, e) ==
  LET y == IF Wr(e) \cap x.deny # {} THEN Fail(x, "a statement logged after add_filter() of the filter that rejects it had returned was written")
           ELSE x IN
  CASE e.e = "sstep" /\ e.t = 0 /\ e.at = "" /\ e.was = "NF:store" -> y      \* (the add completes: recorded by the driver line below)
    [] e.e = "xaddret" -> [y EXCEPT !.added = @ \cup {e.k}]
    [] e.e = "xlogc" -> IF e.k \in y.added THEN [y EXCEPT !.deny = @ \cup {e.n}] ELSE y
    [] OTHER -> y
Init == l = 1 /\ m = M0
Next == /\ l <= Len(TraceLog) /\ l' = l + 1
        /\ LET e == TraceLog[l] IN m' = IF e.e = "init" THEN M0 ELSE MStep(m, e)
Spec == Init /\ [][Next]_vars
Ok == m.ok
=============================================================================
