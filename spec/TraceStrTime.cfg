SPECIFICATION Spec
INVARIANT Conforms
CHECK_DEADLOCK FALSE
CONSTANTS RecalcLocal = 900
 RecalcGmt = 43200
 RepeatRejected = FALSE
