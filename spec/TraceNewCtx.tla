----------------------------- MODULE TraceNewCtx -----------------------------
(* Trace validation for the registration of new thread contexts (C03): executions of the REAL backend thread and REAL      *)
(* first log calls of new threads recorded by harness/h_stop in fine-grained mode. Contract: once the backend has run on    *)
(* (several full loop iterations reading the newest values), every statement the new threads logged has been written (C03); *)
(* in the flush variant each new thread then calls flush_log(), which must return while the backend keeps running (C06);   *)
(* in the stop variant Backend::stop() is called instead: when it returns the statements must have been written (C07).    *)
EXTENDS Integers, Sequences, TLC, Json, IOUtils
TraceLog == ndJsonDeserialize(IOEnv.TRACE)
VARIABLES l, m
vars == <<l, m>>
M0 == [ok |-> TRUE, why |-> ""]
Fail(x, why) == IF x.ok THEN [x EXCEPT !.ok = FALSE, !.why = why] ELSE x
MStep(x, e) ==
  CASE e.e = "quiet" -> IF e.flushstuck > 0
                        THEN Fail(x, "flush_log() of a new thread does not return although the backend keeps running: its context was not picked up")
                        ELSE IF e.delivered >= e.zlogged THEN x
                        ELSE IF e.stopped
                        THEN Fail(x, "stop() returned while a statement a new thread had logged before the stop request was unwritten: its context was not picked up")
                        ELSE Fail(x, "a new thread's statement is never written: its context was not picked up by the backend")
    [] e.e = "crash" -> Fail(x, "the process crashed or hung")
    [] OTHER -> x
Init == l = 1 /\ m = M0
Next == /\ l <= Len(TraceLog) /\ l' = l + 1
        /\ LET e == TraceLog[l] IN m' = IF e.e = "init" THEN M0 ELSE MStep(m, e)
Spec == Init /\ [][Next]_vars
Ok == m.ok
=============================================================================
