-------------------------------- MODULE ExitRA --------------------------------
(* Thread exit and context reclamation under the C++ release/acquire model (C20, C03: "pending statements of an      *)
(* exited thread are still delivered, THEN its queue is released").                                                   *)
(*   exiting thread:  ... commit_write(): writer_pos.store(MoCommit)   (its last statements)                          *)
(*                    ~ScopedThreadContext: ThreadContext::mark_invalid(): _valid.store(false, MoInv)                  *)
(*   backend:         _cleanup_invalidated_thread_contexts(): !ctx->is_valid() [_valid.load(MoIsValid)]               *)
(*                    && queue.empty() [writer_pos.load(MoEmpty) == reader_pos] && transit buffer empty -> reclaim    *)
(* The four memory orders are CONSTANTS EXTRACTED from the code (shim atomic of harness/h_exit.cpp). Two atomic       *)
(* objects, each a history of messages [val, rel (clock published), ev (writer's clock at the store)]; a load may read *)
(* any message that is not older than (a) what the reader has already read of that object and (b) the newest message  *)
(* whose store happens-before the reader; an acquire load joins the clock the message published.                      *)
EXTENDS Integers, Sequences, FiniteSets, TLC, Json
CONSTANTS MaxRecs,                                  \* statements the thread logs before it exits
          MoCommit, MoInv, MoIsValid, MoEmpty,      \* "rlx" | "acq" | "rel" | "ar"
          Unbounded,                                \* the queue may grow once: a second buffer linked through `next`
          MoNext, MoNextEmpty,                      \* next.store in _handle_full_queue, next.load in UnboundedSPSCQueue::empty()
          Export
VARIABLES W, V, N,          \* histories of writer_pos (first buffer), _valid, and the first buffer's `next` pointer (0 = null)
          nw2,              \* records committed into the second buffer (never read in this model: the backend has not switched yet)
          clk, view,        \* thread -> vector clock; thread -> [object -> oldest readable index]
          nw, exited,       \* records committed, the thread has run its exit path
          consumed, reclaimed, lost, hist
vars == <<W, V, N, nw2, clk, view, nw, exited, consumed, reclaimed, lost, hist>>
T == {"P", "B"}
Zero == [t \in T |-> 0]
Join(a, b) == [t \in T |-> IF a[t] > b[t] THEN a[t] ELSE b[t]]
Leq(a, b) == \A t \in T : a[t] <= b[t]
IsAcq(mo) == mo \in {"acq", "ar"}
IsRel(mo) == mo \in {"rel", "ar"}
Msg(v, rel, ev) == [val |-> v, rel |-> rel, ev |-> ev]

Init ==
  /\ W = <<Msg(0, Zero, Zero)>> /\ V = <<Msg(1, Zero, Zero)>> /\ N = <<Msg(0, Zero, Zero)>> /\ nw2 = 0
  /\ clk = [t \in T |-> Zero] /\ view = [t \in T |-> [o \in {"W", "V", "N"} |-> 1]]
  /\ nw = 0 /\ exited = FALSE /\ consumed = 0 /\ reclaimed = FALSE /\ lost = FALSE /\ hist = <<>>
Step(who, act, arg) == hist' = IF Export THEN Append(hist, [t |-> who, a |-> act, arg |-> arg]) ELSE hist

\* oldest message of history H that thread t may still read
Lo(H, t, o) == LET hb == {j \in 1..Len(H) : Leq(H[j].ev, clk[t])} IN
               LET m == IF hb = {} THEN 1 ELSE CHOOSE j \in hb : \A k \in hb : k <= j IN
               IF m > view[t][o] THEN m ELSE view[t][o]

\* the thread logs a statement: payload, then commit_write
Grown == N[Len(N)].val = 1
PWrite ==
  /\ ~exited /\ nw + nw2 < MaxRecs /\ ~Grown
  /\ LET c2 == [clk["P"] EXCEPT !["P"] = @ + 1] IN
     /\ W' = Append(W, Msg(nw + 1, IF IsRel(MoCommit) THEN c2 ELSE Zero, c2))
     /\ clk' = [clk EXCEPT !["P"] = c2] /\ view' = [view EXCEPT !["P"]["W"] = Len(W) + 1]
  /\ nw' = nw + 1 /\ Step("P", "write", <<>>)
  /\ UNCHANGED <<V, N, nw2, exited, consumed, reclaimed, lost>>
\* a statement that does not fit: _handle_full_queue commits the old buffer once more, links a new buffer, writes there
PGrow ==
  /\ Unbounded /\ ~exited /\ nw + nw2 < MaxRecs /\ ~Grown
  /\ LET c1 == [clk["P"] EXCEPT !["P"] = @ + 1]
         c2 == [c1 EXCEPT !["P"] = @ + 1]
         c3 == [c2 EXCEPT !["P"] = @ + 1] IN          \* (the commit into the new buffer: its position is not modelled)
     /\ W' = Append(W, Msg(nw, IF IsRel(MoCommit) THEN c1 ELSE Zero, c1))
     /\ N' = Append(N, Msg(1, IF IsRel(MoNext) THEN c2 ELSE Zero, c2))
     /\ clk' = [clk EXCEPT !["P"] = c3] /\ view' = [view EXCEPT !["P"]["W"] = Len(W) + 1, !["P"]["N"] = Len(N) + 1]
  /\ nw2' = 1 /\ Step("P", "grow", <<>>)
  /\ UNCHANGED <<V, nw, exited, consumed, reclaimed, lost>>
PWrite2 ==
  /\ ~exited /\ nw + nw2 < MaxRecs /\ Grown
  /\ clk' = [clk EXCEPT !["P"] = [clk["P"] EXCEPT !["P"] = @ + 1]]
  /\ nw2' = nw2 + 1 /\ Step("P", "write", <<>>)
  /\ UNCHANGED <<W, V, N, view, nw, exited, consumed, reclaimed, lost>>

\* the thread exits: its context is marked invalid
PExit ==
  /\ ~exited /\ exited' = TRUE
  /\ LET c2 == [clk["P"] EXCEPT !["P"] = @ + 1] IN
     /\ V' = Append(V, Msg(0, IF IsRel(MoInv) THEN c2 ELSE Zero, c2))
     /\ clk' = [clk EXCEPT !["P"] = c2] /\ view' = [view EXCEPT !["P"]["V"] = Len(V) + 1]
  /\ Step("P", "exit", <<>>)
  /\ UNCHANGED <<W, N, nw2, nw, consumed, reclaimed, lost>>

\* the backend reads the queue: loads writer_pos (acquire in prepare_read) and consumes up to what it saw
BRead(i) ==
  /\ ~reclaimed /\ i \in Lo(W, "B", "W")..Len(W) /\ W[i].val > consumed
  /\ consumed' = W[i].val
  /\ clk' = [clk EXCEPT !["B"] = Join(@, W[i].rel)] /\ view' = [view EXCEPT !["B"]["W"] = i]
  /\ Step("B", "read", <<i>>)
  /\ UNCHANGED <<W, V, N, nw2, nw, exited, reclaimed, lost>>

\* the clean-up predicate: is_valid() load, then (only if invalid) the empty() load
BCheck(iv, iw, inx) ==
  /\ ~reclaimed /\ iv \in Lo(V, "B", "V")..Len(V)
  /\ LET c1 == IF IsAcq(MoIsValid) THEN Join(clk["B"], V[iv].rel) ELSE clk["B"] IN
     IF V[iv].val = 1
     THEN /\ iw = 0 /\ inx = 0 /\ clk' = [clk EXCEPT !["B"] = c1] /\ view' = [view EXCEPT !["B"]["V"] = iv]
          /\ UNCHANGED <<reclaimed, lost>>
     ELSE \* the bound for each further load is computed with the clock AFTER the loads before it
          LET hb == {j \in 1..Len(W) : Leq(W[j].ev, c1)}
              m == IF hb = {} THEN 1 ELSE CHOOSE j \in hb : \A k \in hb : k <= j
              lo == IF m > view["B"]["W"] THEN m ELSE view["B"]["W"] IN
          /\ iw \in lo..Len(W)
          /\ LET c2 == IF IsAcq(MoEmpty) THEN Join(c1, W[iw].rel) ELSE c1
                 firstEmpty == W[iw].val = consumed
                 hbn == {j \in 1..Len(N) : Leq(N[j].ev, c2)}
                 mn == IF hbn = {} THEN 1 ELSE CHOOSE j \in hbn : \A k \in hbn : k <= j
                 lon == IF mn > view["B"]["N"] THEN mn ELSE view["B"]["N"] IN
             IF Unbounded /\ firstEmpty
             THEN \* UnboundedSPSCQueue::empty(): ... && next.load() == nullptr
                  /\ inx \in lon..Len(N)
                  /\ clk' = [clk EXCEPT !["B"] = IF IsAcq(MoNextEmpty) THEN Join(c2, N[inx].rel) ELSE c2]
                  /\ view' = [view EXCEPT !["B"]["V"] = iv, !["B"]["W"] = iw, !["B"]["N"] = inx]
                  /\ reclaimed' = (N[inx].val = 0)
                  /\ lost' = (N[inx].val = 0 /\ (consumed < nw \/ nw2 > 0))
             ELSE /\ inx = 0
                  /\ clk' = [clk EXCEPT !["B"] = c2]
                  /\ view' = [view EXCEPT !["B"]["V"] = iv, !["B"]["W"] = iw]
                  /\ reclaimed' = firstEmpty
                  /\ lost' = (firstEmpty /\ consumed < nw)
  /\ Step("B", "check", <<iv, iw, inx>>)
  /\ UNCHANGED <<W, V, N, nw2, nw, exited, consumed>>

Next == PWrite \/ PGrow \/ PWrite2 \/ PExit \/ (\E i \in 1..Len(W) : BRead(i))
        \/ (\E iv \in 1..Len(V), iw \in 0..Len(W), inx \in 0..Len(N) : BCheck(iv, iw, inx))
Spec == Init /\ [][Next]_vars

\* C20 / C03: a context is reclaimed only when every statement its thread committed has been consumed
NoLoss == ~lost
TypeOK == consumed <= nw /\ (reclaimed => exited) /\ (nw2 > 0 => Unbounded)
StateView == <<W, V, N, nw2, clk, view, nw, exited, consumed, reclaimed, lost>>
ExportA == Export => PrintT("BEH " \o ToJson(hist'))
=============================================================================
