\* Exhaustive check of the C13 model for the constants of the pinned code (props/C13.py generates the same file with
\* the constants extracted from the code under test). Needs env SCEN=<ndjson of scenarios> (written by props/C13.py).
SPECIFICATION Spec
CONSTANTS RecalcLocal = 900
 RecalcGmt = 43200
 RepeatRejected = FALSE
 Modes = {"gmt", "local"}
 ShapeSel = "all"
 MaxLen = 1000
 MaxPat = 4
 FracVals = {0}
 Export = FALSE
INVARIANTS NoStaleField TypeOK
VIEW StateView
CHECK_DEADLOCK FALSE
