SPECIFICATION Spec
INVARIANT Ok09
CHECK_DEADLOCK FALSE
