------------------------------- MODULE SpscRA -------------------------------
(* Layer I for C01/C09: BoundedSPSCQueueImpl at the granularity of its public functions, each of which      *)
(* contains at most one atomic load whose result is chosen here, under a release/acquire memory model:      *)
(* an atomic object is the history of its stores (index order = modification order, single writer each),    *)
(* a load may return any store not older than the loading thread's view (coherence), an acquire load of a   *)
(* release store joins vector clocks. Payload bytes are non-atomic: every write/read of a record is checked *)
(* for a happens-before race with the conflicting access. Position counters live in 0..M-1.                  *)
EXTENDS Naturals, Sequences, FiniteSets, TLC, Json
CONSTANTS Cap,        \* capacity (power of two)
          M,          \* modulus of the position counters (2^bits of integer_type)
          Start,      \* initial value of all positions (near M to force wrap-around)
          Sizes,      \* record sizes tried
          MaxRecs,    \* records written at most
          Batch,      \* _bytes_per_batch
          MoCommitW, MoLoadR, MoLoadW, MoCommitR,   \* "ra" (release/acquire or stronger) | "rlx" : EXTRACTED from the code
          PublishWhenDrained,  \* TRUE iff commit_read also publishes when the reader observed the queue empty
          MaxDeny,    \* bound on recorded denials (state-space bound only)
          Export
VARIABLES wpos, rcache, rpos, wcache,   \* private positions
          AW, AR,                       \* store histories: Seq([val, clk])
          vAW, vAR,                     \* views: [1..2 -> index]  (1 = producer, 2 = consumer)
          clk,                          \* vector clocks [1..2 -> [1..2 -> Nat]]
          recs,                         \* records written so far: [pos, len, wclk, rclk, committed]
          ppc, pn, cpc, nread, dirty, sawEmpty, denies,
          early, overwr, phantom, badgrant, hist

vars == <<wpos, rcache, rpos, wcache, AW, AR, vAW, vAR, clk, recs, ppc, pn, cpc, nread, dirty, sawEmpty, denies,
          early, overwr, phantom, badgrant, hist>>
P == 1
C == 2
Zero == [t \in 1..2 |-> 0]
Max(a, b) == IF a >= b THEN a ELSE b
Join(a, b) == [t \in 1..2 |-> Max(a[t], b[t])]
Dist(a, b) == (a + M - b) % M          \* unsigned modular distance a - b
Last(s) == s[Len(s)]

Init ==
  /\ wpos = Start /\ rcache = Start /\ rpos = Start /\ wcache = Start
  /\ AW = <<[val |-> Start, clk |-> Zero]>> /\ AR = <<[val |-> Start, clk |-> Zero]>>
  /\ vAW = [t \in 1..2 |-> 1] /\ vAR = [t \in 1..2 |-> 1]
  /\ clk = [t \in 1..2 |-> Zero]
  /\ recs = <<>> /\ ppc = "idle" /\ pn = 0 /\ cpc = "idle" /\ nread = 0 /\ dirty = FALSE /\ sawEmpty = FALSE
  /\ denies = 0 /\ early = FALSE /\ overwr = FALSE /\ phantom = FALSE /\ badgrant = FALSE /\ hist = <<>>

Vals(h) == [i \in 1..Len(h) |-> h[i].val]
\* history entry = action + the projected state AFTER it (must be the last conjunct of every action)
H(t, a, arg) == hist' = Append(hist, [t |-> t, a |-> a, arg |-> arg,
                  st |-> [w |-> wpos', rc |-> rcache', r |-> rpos', wc |-> wcache', aw |-> Vals(AW'), ar |-> Vals(AR')],
                  res |-> IF t = P THEN ppc' ELSE cpc',
                  bad |-> early' \/ overwr' \/ phantom' \/ badgrant'])

\* --------------------------------------------------------------- producer
\* prepare_write(n): check with the cached reader position; on failure acquire-reload and re-check
Fits(rc, n) == Cap - Dist(wpos, rc) >= n          \* the code's test is  (cap - (w - rc)) < n  => fail
TrueFree == Cap - Dist(wpos, Last(AR).val)         \* space the consumer has released (latest publish)

PWFast(n) ==
  /\ ppc = "idle" /\ Len(recs) < MaxRecs /\ Fits(rcache, n)
  /\ ppc' = "granted" /\ pn' = n
  /\ badgrant' = (badgrant \/ n > Cap \/ n > TrueFree)
  /\ UNCHANGED <<wpos, rcache, rpos, wcache, AW, AR, vAW, vAR, clk, recs, cpc, nread, dirty, sawEmpty, denies, early, overwr, phantom>>
  /\ H(P, "pw", <<n, 0>>)

PWSlow(n, i) ==
  /\ ppc = "idle" /\ Len(recs) < MaxRecs /\ ~Fits(rcache, n)
  /\ i \in vAR[P]..Len(AR)
  /\ vAR' = [vAR EXCEPT ![P] = i]
  /\ clk' = IF MoLoadR = "ra" THEN [clk EXCEPT ![P] = Join(@, AR[i].clk)] ELSE clk
  /\ rcache' = AR[i].val
  /\ IF Fits(AR[i].val, n)
     THEN /\ ppc' = "granted" /\ pn' = n /\ UNCHANGED denies
          /\ badgrant' = (badgrant \/ n > Cap \/ n > TrueFree)
     ELSE /\ denies < MaxDeny /\ denies' = denies + 1 /\ UNCHANGED <<ppc, pn, badgrant>>
  /\ UNCHANGED <<wpos, rpos, wcache, AW, AR, vAW, recs, cpc, nread, dirty, sawEmpty, early, overwr, phantom>>
  /\ H(P, "pw", <<n, i>>)

\* physical cells of a record: storage is 2*Cap bytes, a record starts at pos & mask and may spill past Cap
Off(pos) == pos % Cap
Cells(pos, len) == {Off(pos) + d : d \in 0..(len - 1)}
Collide(j) == Cells(recs[j].pos, recs[j].len) \cap Cells(wpos, pn) # {}

\* the producer writes the payload of the granted record (non-atomic)
Write ==
  /\ ppc = "granted"
  /\ LET c2 == [clk EXCEPT ![P][P] = @ + 1] IN
     /\ clk' = c2
     /\ recs' = Append(recs, [pos |-> wpos, len |-> pn, wclk |-> c2[P][P], rclk |-> 0])
     /\ overwr' = (overwr \/ \E j \in 1..Len(recs) : Collide(j) /\ (recs[j].rclk = 0 \/ recs[j].rclk > clk[P][C]))
  /\ ppc' = "written"
  /\ UNCHANGED <<wpos, rcache, rpos, wcache, AW, AR, vAW, vAR, pn, cpc, nread, dirty, sawEmpty, denies, early, phantom, badgrant>>
  /\ H(P, "write", <<>>)

\* finish_write(n); commit_write()
FinishCommit ==
  /\ ppc = "written"
  /\ LET w2 == (wpos + pn) % M
         c2 == [clk EXCEPT ![P][P] = @ + 1] IN
     /\ wpos' = w2 /\ clk' = c2
     /\ AW' = Append(AW, [val |-> w2, clk |-> IF MoCommitW = "ra" THEN c2[P] ELSE Zero])
     /\ vAW' = [vAW EXCEPT ![P] = Len(AW) + 1]
  /\ ppc' = "idle" /\ pn' = 0
  /\ UNCHANGED <<rcache, rpos, wcache, AR, vAR, recs, cpc, nread, dirty, sawEmpty, denies, early, overwr, phantom, badgrant>>
  /\ H(P, "fc", <<>>)

\* --------------------------------------------------------------- consumer
\* prepare_read(): empty() consults the cached writer position first, acquire-reloads when it looks empty
PRFast ==
  /\ cpc = "idle" /\ wcache # rpos
  /\ cpc' = "got" /\ sawEmpty' = FALSE
  /\ phantom' = (phantom \/ nread >= Len(recs) \/ (nread < Len(recs) /\ recs[nread + 1].pos # rpos))
  /\ UNCHANGED <<wpos, rcache, rpos, wcache, AW, AR, vAW, vAR, clk, recs, ppc, pn, nread, dirty, denies, early, overwr, badgrant>>
  /\ H(C, "pr", <<0>>)

PRSlow(i) ==
  /\ cpc = "idle" /\ wcache = rpos
  /\ i \in vAW[C]..Len(AW)
  /\ vAW' = [vAW EXCEPT ![C] = i]
  /\ clk' = IF MoLoadW = "ra" THEN [clk EXCEPT ![C] = Join(@, AW[i].clk)] ELSE clk
  /\ wcache' = AW[i].val
  /\ IF AW[i].val # rpos
     THEN /\ cpc' = "got" /\ sawEmpty' = FALSE
          /\ phantom' = (phantom \/ nread >= Len(recs) \/ (nread < Len(recs) /\ recs[nread + 1].pos # rpos))
     ELSE /\ sawEmpty' = TRUE /\ UNCHANGED <<cpc, phantom>>
  /\ UNCHANGED <<wpos, rcache, rpos, AW, AR, vAR, recs, ppc, pn, nread, dirty, denies, early, overwr, badgrant>>
  /\ H(C, "pr", <<i>>)

\* the consumer reads the payload of record nread+1 (non-atomic)
Read ==
  /\ cpc = "got" /\ nread < Len(recs)
  /\ LET k == nread + 1
         c2 == [clk EXCEPT ![C][C] = @ + 1] IN
     /\ clk' = c2
     /\ early' = (early \/ recs[k].wclk > clk[C][P])
     /\ recs' = [recs EXCEPT ![k].rclk = c2[C][C]]
  /\ cpc' = "read"
  /\ UNCHANGED <<wpos, rcache, rpos, wcache, AW, AR, vAW, vAR, ppc, pn, nread, dirty, sawEmpty, denies, overwr, phantom, badgrant>>
  /\ H(C, "read", <<>>)

FinishRead ==
  /\ cpc = "read"
  /\ rpos' = (rpos + recs[nread + 1].len) % M
  /\ nread' = nread + 1 /\ cpc' = "idle" /\ dirty' = TRUE
  /\ UNCHANGED <<wpos, rcache, wcache, AW, AR, vAW, vAR, clk, recs, ppc, pn, sawEmpty, denies, early, overwr, phantom, badgrant>>
  /\ H(C, "fr", <<>>)

\* commit_read(): relaxed load of its own variable (always the latest store), publish when the batch is reached
CommitRead ==
  /\ cpc = "idle" /\ dirty
  /\ IF Dist(rpos, Last(AR).val) >= Batch \/ (PublishWhenDrained /\ wcache = rpos /\ Last(AR).val # rpos)
     THEN LET c2 == [clk EXCEPT ![C][C] = @ + 1] IN
          /\ clk' = c2
          /\ AR' = Append(AR, [val |-> rpos, clk |-> IF MoCommitR = "ra" THEN c2[C] ELSE Zero])
          /\ vAR' = [vAR EXCEPT ![C] = Len(AR) + 1]
     ELSE UNCHANGED <<clk, AR, vAR>>
  /\ dirty' = FALSE
  /\ UNCHANGED <<wpos, rcache, rpos, wcache, AW, vAW, recs, ppc, pn, cpc, nread, sawEmpty, denies, early, overwr, phantom, badgrant>>
  /\ H(C, "cr", <<>>)

APWFast == \E n \in Sizes : PWFast(n)
APWSlow == \E n \in Sizes : \E i \in 1..Len(AR) : PWSlow(n, i)
APRSlow == \E i \in 1..Len(AW) : PRSlow(i)
Next == APWFast \/ APWSlow \/ Write \/ FinishCommit \/ PRFast \/ APRSlow \/ Read \/ FinishRead \/ CommitRead
Spec == Init /\ [][Next]_vars

\* --------------------------------------------------------------- properties (C01)
NoRace == ~early /\ ~overwr           \* none torn / visible before commit / overwritten before release
Fifo == ~phantom                      \* what the consumer takes is exactly the next committed record
GrantFits == ~badgrant                \* n <= Cap and n <= space released by the consumer
Contiguous == ppc \in {"granted", "written"} => Off(wpos) + pn <= 2 * Cap
ConsumedIsPrefix == nread <= Len(recs) /\ \A k \in 1..nread : recs[k].rclk # 0

\* C09 (safety form): consumer drained and committed, producer idle => any n <= Cap is grantable after a reload
Quiescent == ppc = "idle" /\ cpc = "idle" /\ nread = Len(recs) /\ ~dirty /\ sawEmpty /\ wcache = rpos
QuiescentGrant == Quiescent => \A n \in 1..Cap : Cap - Dist(wpos, Last(AR).val) >= n

StateView == <<wpos, rcache, rpos, wcache, AW, AR, vAW, vAR, clk, recs, ppc, pn, cpc, nread, dirty, sawEmpty, denies,
               early, overwr, phantom, badgrant>>
ExportA == Export => PrintT("BEH " \o ToJson(hist'))
=============================================================================
