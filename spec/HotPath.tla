------------------------------ MODULE HotPath ------------------------------
(* Layer A for C11, trace validation only (there is no design to explore: allocation behaviour is observed,    *)
(* not modelled). A thin automaton over the events recorded from the real code:                                *)
(*   {"e":"Reset"}                     new process                                                             *)
(*   {"e":"Backend","t"}               t is the thread that runs the backend worker                            *)
(*   {"e":"ThreadStart","t"}           t has no thread context yet (NoContext)                                 *)
(*   {"e":"Preallocate","t"}           t called preallocate(): Steady                                          *)
(*   {"e":"LogBegin","t","cls","fits"} t enters a log macro; cls = "covered" or "excluded:<why>" (argument      *)
(*                                     class by the property's wording), fits = the record fits t's current     *)
(*                                     queue buffer (capacity - (writer position - published reader position))  *)
(*   {"e":"LogEnd","t"}                the macro returned; t is Steady from now on                             *)
(*   {"e":"Alloc","t"} {"e":"Mmap","t"}  malloc/calloc/realloc/memalign/operator new resp. mmap called by t    *)
(*   {"e":"Format","t","kind"}         a user formatter of a deferred- resp. direct-format type ran on t        *)
EXTENDS Integers, Sequences, FiniteSets, TLC, Json, IOUtils
TraceLog == ndJsonDeserialize(IOEnv.TRACE)
VARIABLES l, backend, st, inlog, ok
vars == <<l, backend, st, inlog, ok>>
Tids == 0..1023
NoLog == [on |-> FALSE, cls |-> "", fits |-> FALSE]

Init == /\ l = 1 /\ backend = -1 /\ ok = TRUE
        /\ st = [t \in Tids |-> "NoContext"]
        /\ inlog = [t \in Tids |-> NoLog]

\* allocation is allowed everywhere except inside a steady, fitting statement of a covered class on its caller
AllocAllowed(t) == ~(inlog[t].on /\ st[t] = "Steady" /\ inlog[t].fits /\ inlog[t].cls = "covered")
\* deferred-format formatters run on the backend thread only; direct-format ones on the caller inside the call
FormatAllowed(t, kind) == IF kind = "deferred" THEN t = backend /\ ~inlog[t].on
                          ELSE t # backend /\ inlog[t].on

Next ==
  /\ l <= Len(TraceLog)
  /\ l' = l + 1
  /\ LET e == TraceLog[l] IN
     CASE e.e = "Reset" -> /\ backend' = -1 /\ st' = [t \in Tids |-> "NoContext"] /\ inlog' = [t \in Tids |-> NoLog]
                           /\ UNCHANGED ok
       [] e.e = "Backend" -> backend' = e.t /\ UNCHANGED <<st, inlog, ok>>
       [] e.e = "ThreadStart" -> st' = [st EXCEPT ![e.t] = "NoContext"] /\ UNCHANGED <<backend, inlog, ok>>
       [] e.e = "Preallocate" -> st' = [st EXCEPT ![e.t] = "Steady"] /\ UNCHANGED <<backend, inlog, ok>>
       [] e.e = "LogBegin" -> /\ inlog' = [inlog EXCEPT ![e.t] = [on |-> TRUE, cls |-> e.cls, fits |-> e.fits]]
                              /\ ok' = (ok /\ ~inlog[e.t].on)
                              /\ UNCHANGED <<backend, st>>
       [] e.e = "LogEnd" -> /\ inlog' = [inlog EXCEPT ![e.t] = NoLog]
                            /\ st' = [st EXCEPT ![e.t] = "Steady"]
                            /\ ok' = (ok /\ inlog[e.t].on)
                            /\ UNCHANGED backend
       [] e.e \in {"Alloc", "Mmap"} -> ok' = (ok /\ AllocAllowed(e.t)) /\ UNCHANGED <<backend, st, inlog>>
       [] e.e = "Format" -> ok' = (ok /\ FormatAllowed(e.t, e.kind)) /\ UNCHANGED <<backend, st, inlog>>

Spec == Init /\ [][Next]_vars
\* violated at the first event the automaton does not allow (l - 1 = its line)
Conforms == ok
=============================================================================
