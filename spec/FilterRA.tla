------------------------------- MODULE FilterRA -------------------------------
(* Attaching a filter to a sink while the backend dispatches, under the C++ memory model (C16: a statement is written to a   *)
(* sink iff ... "every filter attached to that sink accepts it": a filter whose add_filter() has returned must see every     *)
(* statement logged afterwards).                                                                                           *)
(*   user thread X:   Sink::add_filter(f): lock(_global_filters_lock); _global_filters.push_back(f);                       *)
(*                                          _new_filter.store(true, MoSet); unlock                     [XAddStart, XAddEnd] *)
(*                    log calls of class c (filter k rejects class k)                                                [XLog] *)
(*   backend, Sink::apply_all_filters for the statement being dispatched:                                                  *)
(*                    if (_new_filter.load(MoLoad)) { lock; _local_filters = copy; _new_filter.store(false, MoClear);       *)
(*                                                    unlock; }  then every local filter decides              [BLoad, BClear] *)
(* The flag is a history of messages (a relaxed load may read any message not older than the reader's view); happens-before *)
(* reaches it through the lock (the copy is made under the lock) and through the queue: a statement is committed with       *)
(* release after the add_filter() calls its thread completed before, and the backend has acquired that commit when it       *)
(* dispatches the statement (pub = the newest flag message the commit publishes). EXTRACTED from the code (harness/h_stop   *)
(* in fine-grained mode, the REAL backend thread parked at every access of Sink::_new_filter): the three orders and whether   *)
(* the backend clears the flag while it still holds the lock (ClearInsideCS).                                               *)
EXTENDS Integers, Sequences, FiniteSets, TLC, Json
CONSTANTS Classes,                     \* statement classes = filters (filter k rejects class k)
          MaxLogs,
          MoSet, MoLoad, MoClear,      \* recorded; the values read do not depend on them (see above)
          ClearInsideCS, Export
VARIABLES NF, viewB, lockedBy, gf, lf, adding, added, q, pcB, nlog, written, bad, hist
vars == <<NF, viewB, lockedBy, gf, lf, adding, added, q, pcB, nlog, written, bad, hist>>
Init == /\ NF = <<0>> /\ viewB = 1 /\ lockedBy = "none" /\ gf = {} /\ lf = {} /\ adding = 0 /\ added = {}
        /\ q = <<>> /\ pcB = "load" /\ nlog = 0 /\ written = {} /\ bad = FALSE /\ hist = <<>>
Step(who, act, arg) == hist' = IF Export THEN Append(hist, [t |-> who, a |-> act, arg |-> arg, pcb |-> pcB', written |-> written',
                                                           flock |-> lockedBy' # "none"]) ELSE hist
Max(a, b) == IF a > b THEN a ELSE b
\* add_filter(k): takes the lock, pushes the filter; parked at the flag's store
XAddStart(k) == /\ adding = 0 /\ k \notin gf /\ lockedBy = "none"
                /\ lockedBy' = "X" /\ gf' = gf \cup {k} /\ adding' = k
                /\ UNCHANGED <<NF, viewB, lf, added, q, pcB, nlog, written, bad>> /\ Step("X", "addstart", <<k>>)
XAddEnd == /\ adding # 0 /\ NF' = Append(NF, 1) /\ lockedBy' = "none" /\ added' = added \cup {adding} /\ adding' = 0
           /\ UNCHANGED <<viewB, gf, lf, q, pcB, nlog, written, bad>> /\ Step("X", "addend", <<>>)
\* a statement of class c; must be rejected iff filter c's add_filter() had returned before the call
XLog(c) == /\ adding = 0 /\ nlog < MaxLogs /\ nlog' = nlog + 1
           /\ q' = Append(q, [n |-> nlog, c |-> c, deny |-> c \in added, pub |-> Len(NF)])
           /\ UNCHANGED <<NF, viewB, lockedBy, gf, lf, adding, added, pcB, written, bad>> /\ Step("X", "log", <<c>>)
Dispatch(s, filters) == /\ written' = IF s.c \in filters THEN written ELSE written \cup {s.n}
                        /\ bad' = (bad \/ (s.deny /\ s.c \notin filters))
                        /\ q' = Tail(q)
BLoad(i) == /\ pcB = "load" /\ q # <<>> /\ i \in Max(viewB, Head(q).pub)..Len(NF)
            /\ IF NF[i] = 0
               THEN /\ viewB' = i /\ Dispatch(Head(q), lf) /\ UNCHANGED <<lockedBy, lf, pcB>>
               ELSE /\ lockedBy = "none" /\ viewB' = i /\ lf' = gf /\ pcB' = "clear"
                    /\ lockedBy' = IF ClearInsideCS THEN "B" ELSE "none"
                    /\ UNCHANGED <<q, written, bad>>
            /\ UNCHANGED <<NF, gf, adding, added, nlog>> /\ Step("B", "load", <<i>>)
BClear == /\ pcB = "clear" /\ pcB' = "load" /\ NF' = Append(NF, 0) /\ viewB' = Len(NF) + 1 /\ lockedBy' = IF lockedBy = "B" THEN "none" ELSE lockedBy
          /\ Dispatch(Head(q), lf)
          /\ UNCHANGED <<gf, lf, adding, added, nlog>> /\ Step("B", "clear", <<>>)
Next == (\E k \in Classes : XAddStart(k) \/ XLog(k)) \/ XAddEnd \/ (\E i \in 1..Len(NF) : BLoad(i)) \/ BClear
Spec == Init /\ [][Next]_vars
\* C16: no statement logged after a filter's add_filter() returned gets past that filter
FilterSeesLater == ~bad
TypeOK == lf \subseteq gf /\ added \subseteq gf /\ (lockedBy = "X" <=> adding # 0)
StateView == <<NF, viewB, lockedBy, gf, lf, adding, added, q, pcB, nlog, written, bad>>
ExportA == Export => PrintT("BEH " \o ToJson(hist'))
=============================================================================
