------------------------------ MODULE SpinlockRA ------------------------------
(* detail::Spinlock (core/Spinlock.h) under the C++ release/acquire model, and the registry data it protects      *)
(* (LoggerManager, SinkManager, ThreadContextManager: a plain vector read and written inside the critical section). *)
(*   lock():   do { while (flag.load(MoSpin) == Locked) {} } while (flag.exchange(Locked, MoXchg) == Locked);       *)
(*   unlock(): flag.store(Free, MoUnlock);                                                                          *)
(* The three memory orders are CONSTANTS whose values are EXTRACTED from the code (the shim atomic of                *)
(* harness/h_lock.cpp records the order argument of every access). One atomic object: its modification order is the  *)
(* history `h` of messages [val, clk]; a load may read any message not older than the reader's view; an RMW reads    *)
(* the last one; an acquire access that reads a message joins the message's clock; a release store publishes the     *)
(* writer's clock, a relaxed store publishes nothing; an RMW continues the release sequence of what it read.         *)
(* The protected datum is non-atomic: two accesses, one of them a write, race unless ordered by happens-before.      *)
EXTENDS Integers, Sequences, FiniteSets, TLC, Json
CONSTANTS Threads,            \* e.g. {1, 2}
          Rounds,             \* critical sections per thread
          MoSpin, MoXchg, MoUnlock,   \* "rlx" | "acq" | "rel" | "ar" (acq_rel / seq_cst)
          MaxHist,            \* bound on the length of the flag's history (failed exchanges append to it)
          Export
VARIABLES h,        \* the flag's history: sequence of [val |-> "F" | "L", clk |-> vector clock]
          view,     \* thread -> index of the oldest message it may still read
          clk,      \* thread -> vector clock
          pc, left, \* thread -> program counter, rounds left
          tmp,      \* thread -> value read inside the critical section
          data, lastW, lastR,   \* the protected datum, clock of its last write, thread -> clock of its last read
          race, hist
vars == <<h, view, clk, pc, left, tmp, data, lastW, lastR, race, hist>>
Zero == [t \in Threads |-> 0]
Join(a, b) == [t \in Threads |-> IF a[t] > b[t] THEN a[t] ELSE b[t]]
Leq(a, b) == \A t \in Threads : a[t] <= b[t]
IsAcq(mo) == mo \in {"acq", "ar"}
IsRel(mo) == mo \in {"rel", "ar"}
Tick(t) == [clk[t] EXCEPT ![t] = @ + 1]

Init ==
  /\ h = <<[val |-> "F", clk |-> Zero]>> /\ view = [t \in Threads |-> 1] /\ clk = [t \in Threads |-> Zero]
  /\ pc = [t \in Threads |-> "spin"] /\ left = [t \in Threads |-> Rounds] /\ tmp = [t \in Threads |-> 0]
  /\ data = 0 /\ lastW = Zero /\ lastR = [t \in Threads |-> Zero] /\ race = FALSE /\ hist = <<>>

Step(t, act, arg) == hist' = IF Export THEN Append(hist, [t |-> t, a |-> act, arg |-> arg]) ELSE hist

\* the relaxed pre-check of lock(): may read any message the thread has not yet seen past
SpinLoad(t, i) ==
  /\ pc[t] = "spin" /\ i \in view[t]..Len(h)
  /\ view' = [view EXCEPT ![t] = i]
  /\ clk' = [clk EXCEPT ![t] = IF IsAcq(MoSpin) THEN Join(@, h[i].clk) ELSE @]
  /\ pc' = [pc EXCEPT ![t] = IF h[i].val = "L" THEN "spin" ELSE "xchg"]
  /\ Step(t, "spin", <<i>>)
  /\ UNCHANGED <<h, left, tmp, data, lastW, lastR, race>>

\* flag.exchange(Locked): reads the LAST message (atomicity of read-modify-write), appends its own
Xchg(t) ==
  /\ pc[t] = "xchg"
  /\ LET m == h[Len(h)]
         c1 == IF IsAcq(MoXchg) THEN Join(clk[t], m.clk) ELSE clk[t]
         c2 == [c1 EXCEPT ![t] = @ + 1]
         \* release sequence: the RMW carries on what it read; a release RMW adds its own clock
         mc == IF IsRel(MoXchg) THEN Join(m.clk, c2) ELSE m.clk IN
     /\ h' = Append(h, [val |-> "L", clk |-> mc])
     /\ view' = [view EXCEPT ![t] = Len(h) + 1]
     /\ clk' = [clk EXCEPT ![t] = c2]
     /\ pc' = [pc EXCEPT ![t] = IF m.val = "L" THEN "spin" ELSE "csr"]
     /\ Step(t, "xchg", <<m.val>>)
  /\ UNCHANGED <<left, tmp, data, lastW, lastR, race>>

\* inside the critical section: read the registry, then write it (e.g. find + insert)
CsRead(t) ==
  /\ pc[t] = "csr"
  /\ race' = (race \/ ~Leq(lastW, clk[t]))                       \* read vs the last write
  /\ tmp' = [tmp EXCEPT ![t] = data] /\ lastR' = [lastR EXCEPT ![t] = clk[t]]
  /\ pc' = [pc EXCEPT ![t] = "csw"] /\ Step(t, "read", <<data>>)
  /\ UNCHANGED <<h, view, clk, left, data, lastW>>
CsWrite(t) ==
  /\ pc[t] = "csw"
  /\ race' = (race \/ ~Leq(lastW, clk[t]) \/ \E u \in Threads \ {t} : ~Leq(lastR[u], clk[t]))
  /\ data' = tmp[t] + 1 /\ lastW' = Tick(t) /\ clk' = [clk EXCEPT ![t] = Tick(t)]
  /\ pc' = [pc EXCEPT ![t] = "unlock"] /\ Step(t, "write", <<tmp[t] + 1>>)
  /\ UNCHANGED <<h, view, left, tmp, lastR>>

Unlock(t) ==
  /\ pc[t] = "unlock"
  /\ LET c2 == Tick(t) IN
     /\ h' = Append(h, [val |-> "F", clk |-> IF IsRel(MoUnlock) THEN c2 ELSE Zero])
     /\ view' = [view EXCEPT ![t] = Len(h) + 1] /\ clk' = [clk EXCEPT ![t] = c2]
  /\ left' = [left EXCEPT ![t] = @ - 1]
  /\ pc' = [pc EXCEPT ![t] = IF left[t] = 1 THEN "done" ELSE "spin"]
  /\ Step(t, "unlock", <<>>)
  /\ UNCHANGED <<tmp, data, lastW, lastR, race>>

SpinAny(t) == \E i \in 1..Len(h) : SpinLoad(t, i)
Next == \E t \in Threads : SpinAny(t) \/ Xchg(t) \/ CsRead(t) \/ CsWrite(t) \/ Unlock(t)
Spec == Init /\ [][Next]_vars

InCs(t) == pc[t] \in {"csr", "csw", "unlock"}
Mutex == \A t, u \in Threads : (InCs(t) /\ InCs(u)) => t = u
NoRace == ~race
\* no update of the protected data is lost: when everybody is done every critical section has counted
NoLostUpdate == (\A t \in Threads : pc[t] = "done") => data = Cardinality(Threads) * Rounds
\* bound the spinning: a thread re-reads a stale "Locked" only while newer messages exist (keeps the state space finite)
HistBound == Len(h) <= MaxHist
StateView == <<h, view, clk, pc, left, tmp, data, lastW, lastR, race>>
ExportA == Export => PrintT("BEH " \o ToJson(hist'))
=============================================================================
