------------------------------- MODULE Dispatch -------------------------------
(* Layer I for the dispatch properties (C16, C10): the logger's level check on the calling thread and the        *)
(* backend's dispatch of one statement to the sinks of its logger, shaped like the code:                          *)
(*   Logger::should_log_statement  - level >= logger level, arguments evaluated only then                          *)
(*   BackendWorker::_poll          - read every queued record into the transit buffer (formatting it: a statement  *)
(*                                   that cannot be formatted becomes an error text and is reported), then process *)
(*                                   ONE transit event, or - nothing cached - flush the active sinks               *)
(*   _write_log_statement          - for each sink of the logger, in order: Sink::apply_all_filters (level first,  *)
(*                                   then the lazily reloaded filter list, short-circuit), write_log               *)
(*   exceptions                    - a throwing write_log leaves the sink loop (later sinks of that logger do not   *)
(*                                   get the statement), is caught around _process_transit_event and reported      *)
(*                                   once; the statement is popped all the same; a throwing flush_sink is caught   *)
(*                                   per sink                                                                      *)
(* Every action appends a scheduling step and the contract events (QuillContract vocabulary) it produces to hist,   *)
(* so an exported behaviour is a script for harness/h_sys and a trace TraceQuill can judge.                         *)
EXTENDS Integers, Sequences, SequencesExt, FiniteSets, TLC, Json
CONSTANTS LoggerOrder,    \* sequence of logger names in registry (name) order
          LoggerSinks,    \* [logger -> sequence of sink names]
          SinkNames,      \* set of sink names
          StmtLevels,     \* levels statements are logged at
          Thresholds,     \* levels set_log_level / set_log_level_filter are called with
          DenySets,       \* sets of statement ids a filter may reject (a filter rejecting everything is always available)
          Kinds,          \* ways of logging: "macro" "dynmacro" "direct" "dyn"
          NStmt, NOps, NIdle, NFlush,  \* bounds: statements, configuration changes, idle polls, flush_log calls
          ThrowW, ThrowF, \* [sink -> set of 1-based write_log / flush_sink call numbers that throw]
          BadKinds,       \* kinds of statements that cannot be formatted: "badfmt" "bombstd" "bombint" "namedbomb" ({} = none)
          Memory,         \* length of the digest of recently processed events kept in the state (path coverage: the exported
                          \* transitions then distinguish what was processed just before; 0 = none)
          AllowNamed,     \* statements with named placeholders (structured key/value list handed to the sinks) may be logged
          Export
VARIABLES lgLvl, skLvl, gf, lf, newf, q, ring, nw, nfl, nid, nops, nidle, wr, pc, flag, nflush, recent, hist
vars == <<lgLvl, skLvl, gf, lf, newf, q, ring, nw, nfl, nid, nops, nidle, wr, pc, flag, nflush, recent, hist>>
Fl == <<pc, flag, nflush, recent>>
Loggers == DOMAIN LoggerSinks
RangeOf(s) == {s[i] : i \in 1..Len(s)}

Init ==
  /\ lgLvl = [l \in Loggers |-> 0] /\ skLvl = [s \in SinkNames |-> 0]
  /\ gf = [s \in SinkNames |-> <<>>] /\ lf = [s \in SinkNames |-> <<>>] /\ newf = [s \in SinkNames |-> FALSE]
  /\ q = <<>> /\ ring = <<>> /\ nw = [s \in SinkNames |-> 0] /\ nfl = [s \in SinkNames |-> 0]
  /\ nid = 0 /\ nops = 0 /\ nidle = 0 /\ wr = [s \in SinkNames |-> <<>>] /\ hist = <<>>
  /\ pc = "idle" /\ flag = FALSE /\ nflush = 0 /\ recent = <<>>

Step(who, act, arg, evs) ==
  hist' = IF Export THEN hist \o <<[k |-> "step", who |-> who, act |-> act, arg |-> arg]>> \o evs ELSE hist

\* ------------------------------------------------------------------ calling thread
\* a log call, whole: level check, (argument evaluation, clock read, enqueue) iff it passes
Log(l, lvl, kind) ==
  /\ nid < NStmt /\ pc = "idle" /\ UNCHANGED Fl
  /\ LET id == nid + 1
         enq == lvl >= lgLvl[l]
         r == [id |-> id, lg |-> l, lvl |-> lvl, bad |-> FALSE, fl |-> FALSE, nm |-> FALSE] IN
     /\ nid' = id
     /\ q' = IF enq THEN Append(q, r) ELSE q
     /\ Step("t1", "log", <<l, lvl, kind, id>>,
             <<[k |-> "logcall", t |-> "t1", id |-> id, lg |-> l, lvl |-> lvl, kind |-> kind]>>
             \o (IF enq THEN <<[k |-> "ts", t |-> "t1", now |-> 0], [k |-> "commit", t |-> "t1", now |-> 0]>> ELSE <<>>)
             \o <<[k |-> "logret", t |-> "t1", id |-> id,
                   ret |-> IF kind \in {"macro", "dynmacro"} THEN -1 ELSE IF enq THEN 1 ELSE 2,
                   argevals |-> IF enq THEN 1 ELSE 0]>>)
  /\ UNCHANGED <<lgLvl, skLvl, gf, lf, newf, ring, nw, nfl, nops, nidle, wr>>

\* a statement whose run-time format string does not match its arguments (level Info, no argument evaluation counter)
LogBad(l, bk) ==
  /\ nid < NStmt /\ lgLvl[l] <= 4 /\ pc = "idle" /\ UNCHANGED Fl
  /\ LET id == nid + 1 IN
     /\ nid' = id
     /\ q' = Append(q, [id |-> id, lg |-> l, lvl |-> 4, bad |-> TRUE, fl |-> FALSE, nm |-> FALSE])
     /\ Step("t1", "logbad", <<l, id, bk>>,
             <<[k |-> "logcall", t |-> "t1", id |-> id, lg |-> l, lvl |-> 4, kind |-> bk],
               [k |-> "ts", t |-> "t1", now |-> 0], [k |-> "commit", t |-> "t1", now |-> 0],
               [k |-> "logret", t |-> "t1", id |-> id, ret |-> 1, argevals |-> 0]>>)
  /\ UNCHANGED <<lgLvl, skLvl, gf, lf, newf, ring, nw, nfl, nops, nidle, wr>>

\* a statement with two named placeholders (level Info, logged without the level check like the one above)
LogNamed(l) ==
  /\ AllowNamed /\ nid < NStmt /\ lgLvl[l] <= 4 /\ pc = "idle" /\ UNCHANGED Fl
  /\ LET id == nid + 1 IN
     /\ nid' = id
     /\ q' = Append(q, [id |-> id, lg |-> l, lvl |-> 4, bad |-> FALSE, fl |-> FALSE, nm |-> TRUE])
     /\ Step("t1", "lognamed", <<l, id>>,
             <<[k |-> "logcall", t |-> "t1", id |-> id, lg |-> l, lvl |-> 4, kind |-> "named"],
               [k |-> "ts", t |-> "t1", now |-> 0], [k |-> "commit", t |-> "t1", now |-> 0],
               [k |-> "logret", t |-> "t1", id |-> id, ret |-> 1, argevals |-> 0]>>)
  /\ UNCHANGED <<lgLvl, skLvl, gf, lf, newf, ring, nw, nfl, nops, nidle, wr>>

SetLevel(l, v) ==
  /\ nops < NOps /\ UNCHANGED Fl /\ nops' = nops + 1 /\ lgLvl[l] # v
  /\ lgLvl' = [lgLvl EXCEPT ![l] = v]
  /\ Step("D", "setlevel", <<l, v>>, <<[k |-> "setlevel", lg |-> l, lvl |-> v]>>)
  /\ UNCHANGED <<skLvl, gf, lf, newf, q, ring, nw, nfl, nid, nidle, wr>>

SinkLevel(s, v) ==
  /\ nops < NOps /\ UNCHANGED Fl /\ nops' = nops + 1 /\ skLvl[s] # v
  /\ skLvl' = [skLvl EXCEPT ![s] = v]
  /\ Step("D", "sinklevel", <<s, v>>, <<[k |-> "sinklevel", s |-> s, lvl |-> v]>>)
  /\ UNCHANGED <<lgLvl, gf, lf, newf, q, ring, nw, nfl, nid, nidle, wr>>

\* Sink::add_filter: appended to the shared list, new-filter flag raised (both under the sink's lock)
AddFilter(s, deny, all) ==
  /\ nops < NOps /\ UNCHANGED Fl /\ nops' = nops + 1
  /\ gf' = [gf EXCEPT ![s] = Append(@, [deny |-> deny, all |-> all])] /\ newf' = [newf EXCEPT ![s] = TRUE]
  /\ Step("D", "addfilter", <<s, Len(gf[s]), all>> , <<[k |-> "addfilter", s |-> s, deny |-> SetToSeq(deny), all |-> all]>>)
  /\ UNCHANGED <<lgLvl, skLvl, lf, q, ring, nw, nfl, nid, nidle, wr>>

\* flush_log(): the request is enqueued, the caller waits for the backend to raise its flag
FlushCall(l) ==
  /\ pc = "idle" /\ nflush < NFlush /\ nflush' = nflush + 1 /\ pc' = "flushwait" /\ flag' = FALSE /\ UNCHANGED recent
  /\ q' = Append(q, [id |-> 0, lg |-> l, lvl |-> 0, bad |-> FALSE, fl |-> TRUE, nm |-> FALSE])
  /\ Step("t1", "flushcall", <<l>>, <<[k |-> "ctxuse", t |-> "t1"], [k |-> "flushcall", t |-> "t1"]>>)
  /\ UNCHANGED <<lgLvl, skLvl, gf, lf, newf, ring, nw, nfl, nid, nops, nidle, wr>>
FlushRet ==
  /\ pc = "flushwait" /\ flag /\ pc' = "idle" /\ UNCHANGED <<flag, nflush, recent>>
  /\ Step("t1", "flushret", <<>>, <<[k |-> "flushret", t |-> "t1"]>>)
  /\ UNCHANGED <<lgLvl, skLvl, gf, lf, newf, q, ring, nw, nfl, nid, nops, nidle, wr>>

\* ------------------------------------------------------------------ backend
\* the id a sink (and an id-based filter) sees: the error text written for an unformattable statement carries none
Wid(r) == IF r.bad THEN -1 ELSE r.id
Denies(f, r) == f.all \/ Wid(r) \in f.deny

\* Sink::apply_all_filters
Pass(s, r, lfs, nf) ==
  IF r.lvl < skLvl[s] THEN [pass |-> FALSE, lf |-> lfs, newf |-> nf]
  ELSE LET l2 == IF nf THEN gf[s] ELSE lfs IN
       [pass |-> \A i \in 1..Len(l2) : ~Denies(l2[i], r), lf |-> l2, newf |-> FALSE]

\* _write_log_statement: st = [nw, lf, newf, wr, evs, thrown]
RECURSIVE Disp(_, _, _, _)
Disp(r, ss, i, st) ==
  IF i > Len(ss) \/ st.thrown THEN st
  ELSE LET s == ss[i]
           p == Pass(s, r, st.lf[s], st.newf[s])
           st1 == [st EXCEPT !.lf[s] = p.lf, !.newf[s] = p.newf] IN
       IF ~p.pass THEN Disp(r, ss, i + 1, st1)
       ELSE LET n == st.nw[s] + 1
                thr == n \in ThrowW[s]
                ev == [k |-> "write", s |-> s, id |-> Wid(r), lvl |-> r.lvl, ts |-> 0, thr |-> thr, nnamed |-> IF r.nm THEN 2 ELSE 0] IN
            Disp(r, ss, i + 1, [st1 EXCEPT !.nw[s] = n, !.evs = Append(@, ev), !.thrown = thr,
                                          !.wr[s] = IF thr \/ r.bad THEN @ ELSE Append(@, r.id)])

\* sinks of the valid loggers, unique, in registry order (the order _flush_and_run_active_sinks visits them)
RECURSIVE Uniq(_, _)
Uniq(sq, seen) == IF sq = <<>> THEN <<>>
                  ELSE IF Head(sq) \in seen THEN Uniq(Tail(sq), seen) ELSE <<Head(sq)>> \o Uniq(Tail(sq), seen \cup {Head(sq)})
RECURSIVE Cat(_, _)
Cat(ls, i) == IF i > Len(ls) THEN <<>> ELSE LoggerSinks[ls[i]] \o Cat(ls, i + 1)
ActiveSinks == Uniq(Cat(LoggerOrder, 1), {})

RECURSIVE FlushAll(_, _, _)
FlushAll(ss, i, st) ==    \* st = [nfl, evs]
  IF i > Len(ss) THEN st
  ELSE LET s == ss[i]
           n == st.nfl[s] + 1
           thr == n \in ThrowF[s] IN
       FlushAll(ss, i + 1, [nfl |-> [st.nfl EXCEPT ![s] = n],
                            evs |-> st.evs \o <<[k |-> "sflush", s |-> s, thr |-> thr]>>
                                    \o (IF thr THEN <<[k |-> "notify", cls |-> "sinkflush", n |-> 0]>> ELSE <<>>)])

FormatNotes(recs) == LET bad == SelectSeq(recs, LAMBDA r : r.bad) IN [i \in 1..Len(bad) |-> [k |-> "notify", cls |-> "format", n |-> 0]]

\* one ManualBackendWorker::poll_one with a soft limit above the number of statements
BPoll ==
  LET ring1 == ring \o q IN
  IF ring1 # <<>>
  THEN LET r == Head(ring1)
           fa == FlushAll(ActiveSinks, 1, [nfl |-> nfl, evs |-> <<>>])
           d == IF r.fl THEN [nw |-> nw, lf |-> lf, newf |-> newf, wr |-> wr, evs |-> fa.evs, thrown |-> FALSE] ELSE Disp(r, LoggerSinks[r.lg], 1, [nw |-> nw, lf |-> lf, newf |-> newf, wr |-> wr, evs |-> <<>>, thrown |-> FALSE]) IN
       /\ q' = <<>> /\ ring' = Tail(ring1)
       /\ nw' = d.nw /\ lf' = d.lf /\ newf' = d.newf /\ wr' = d.wr
       /\ Step("B", "poll", <<"work", Len(ring1)>>,
               FormatNotes(q) \o d.evs \o (IF d.thrown THEN <<[k |-> "notify", cls |-> "sinkwrite", n |-> 0]>> ELSE <<>>))
       /\ nfl' = IF r.fl THEN fa.nfl ELSE nfl
       /\ flag' = (flag \/ r.fl) /\ UNCHANGED <<pc, nflush>>
       /\ recent' = LET x == Append(recent, <<r.nm, r.bad, r.fl, d.thrown>>) IN
                     IF Len(x) > Memory THEN SubSeq(x, Len(x) - Memory + 1, Len(x)) ELSE x
       /\ UNCHANGED <<lgLvl, skLvl, gf, nid, nops, nidle>>
  ELSE /\ nidle < NIdle /\ UNCHANGED Fl /\ nidle' = nidle + 1
       /\ LET f == FlushAll(ActiveSinks, 1, [nfl |-> nfl, evs |-> <<>>]) IN
          /\ nfl' = f.nfl
          /\ Step("B", "poll", <<"idle", 0>>, f.evs \o <<[k |-> "quiescent", final |-> FALSE]>>)
       /\ UNCHANGED <<lgLvl, skLvl, gf, lf, newf, q, ring, nw, nid, nops, wr>>

Next == \/ \E l \in Loggers, lvl \in StmtLevels, kd \in Kinds : Log(l, lvl, kd)
        \/ \E l \in Loggers : (\E bk \in BadKinds : LogBad(l, bk)) \/ LogNamed(l)
        \/ \E l \in Loggers, v \in Thresholds : SetLevel(l, v)
        \/ \E s \in SinkNames, v \in Thresholds : SinkLevel(s, v)
        \/ \E s \in SinkNames : (\E d \in DenySets : AddFilter(s, d, FALSE)) \/ AddFilter(s, {}, TRUE)
        \/ (\E l \in Loggers : FlushCall(l)) \/ FlushRet \/ BPoll
Spec == Init /\ [][Next]_vars

\* ------------------------------------------------------------------ properties on the model
TypeOK == /\ \A s \in SinkNames : Len(wr[s]) <= nw[s] /\ Len(lf[s]) <= Len(gf[s])
          /\ Len(q) + Len(ring) <= nid + nflush
\* C16 on the model: nothing is written twice, and per sink in statement order
NoDupInOrder == \A s \in SinkNames : \A i, j \in 1..Len(wr[s]) : i < j => wr[s][i] < wr[s][j]
\* a sink only ever receives statements of loggers that have it
OnlyOwnSinks == \A s \in SinkNames : nw[s] > 0 => \E l \in Loggers : s \in RangeOf(LoggerSinks[l])

StateView == <<lgLvl, skLvl, gf, lf, newf, q, ring, nw, nfl, nid, nops, nidle, wr, pc, flag, nflush, recent>>
ExportA == Export => PrintT("BEH " \o ToJson(hist'))
ExportSim == (Export /\ (TLCGet("level") = 40 \/ ~(ENABLED Next)')) => PrintT("BEH " \o ToJson(hist'))
=============================================================================
