---------------------------- MODULE SpscContract ----------------------------
(* Layer A for C01 (and the queue-level clause of C09): what the two users of a bounded queue may observe. *)
(* A monitor over observable events; m is the monitor state, each operator returns the next state.         *)
EXTENDS Naturals, Sequences, FiniteSets

MInit(cap, storage) ==
  [cap |-> cap, storage |-> storage,
   q |-> <<>>,          \* committed, not yet consumed record ids (FIFO)
   size |-> <<>>,       \* sizes of granted records, indexed by id (ids are 1, 2, 3, ...)
   granted |-> 0,       \* bytes granted so far
   finished |-> 0,      \* bytes whose read was finished
   published |-> 0,     \* value of `finished` at the consumer's last publish (space released)
   reading |-> 0,       \* id being read (0 = none)
   sawEmpty |-> FALSE, committedAfter |-> FALSE,
   ok01 |-> TRUE, ok09 |-> TRUE]

\* reservation: granted only if it fits in the space the consumer has released, never more than the capacity,
\* and the region lies inside the storage; a refused reservation is always allowed by C01
MGrant(m, e) ==
  LET fits == e.n <= m.cap /\ (m.granted - m.published) + e.n <= m.cap /\ e.off + e.n <= m.storage
      quiescent == Len(m.q) = 0 /\ m.reading = 0 /\ m.granted = m.finished /\ m.sawEmpty /\ m.committedAfter IN
  IF e.granted
  THEN [m EXCEPT !.ok01 = m.ok01 /\ fits /\ ~e.bad, !.granted = m.granted + e.n, !.size = Append(m.size, e.n)]
  ELSE \* C09: queue empty, consumer idle after publishing => a request that fits the capacity is granted
       [m EXCEPT !.ok09 = m.ok09 /\ ~(e.probe /\ quiescent /\ e.n <= m.cap)]

MWrite(m, e) == [m EXCEPT !.ok01 = m.ok01 /\ ~e.bad]                       \* no overwrite of unreleased bytes
MCommit(m, e) == [m EXCEPT !.q = Append(m.q, e.id)]
MPrepRead(m, e) == IF e.got THEN [m EXCEPT !.sawEmpty = FALSE] ELSE [m EXCEPT !.sawEmpty = TRUE, !.committedAfter = FALSE]
\* the consumer must receive exactly the next committed record, whole and intact (harness compares the bytes)
MRead(m, e) ==
  [m EXCEPT !.ok01 = m.ok01 /\ ~e.bad /\ Len(m.q) > 0 /\ e.committed /\ (Len(m.q) > 0 => e.id = Head(m.q)),
            !.reading = e.id, !.q = IF Len(m.q) > 0 THEN Tail(m.q) ELSE m.q]
MFinishRead(m, e) ==
  [m EXCEPT !.finished = m.finished + (IF m.reading \in 1..Len(m.size) THEN m.size[m.reading] ELSE 0), !.reading = 0]
MCommitRead(m, e) ==
  [m EXCEPT !.published = IF e.pub THEN m.finished ELSE m.published, !.committedAfter = TRUE]

MStep(m, e) ==
  CASE e.k = "pw" -> MGrant(m, e)
    [] e.k = "write" -> MWrite(m, e)
    [] e.k = "fc" -> MCommit(m, e)
    [] e.k = "pr" -> MPrepRead(m, e)
    [] e.k = "read" -> MRead(m, e)
    [] e.k = "fr" -> MFinishRead(m, e)
    [] e.k = "cr" -> MCommitRead(m, e)
    [] OTHER -> m
=============================================================================
