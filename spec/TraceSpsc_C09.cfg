SPECIFICATION Spec
INVARIANT OkC09
CHECK_DEADLOCK FALSE
