---------------------------- MODULE QuillContract ----------------------------
(* Layer A for the pipeline properties C03 C05 C06 C08 C10 C16 C17 C20 (and the end-to-end clause of C09):        *)
(* a monitor over OBSERVABLE events only (harness-side call/return events, what recording sinks, filters and the  *)
(* error notifier receive, counts the public API reports). m = monitor state; one ok-flag per property, each the   *)
(* conjunction of the enabling conditions that property puts on the events. Used twice: folded over executions    *)
(* recorded from the real code (TraceQuill) and over the events emitted by the implementation-shaped spec (Quill).*)
EXTENDS Integers, Sequences, FiniteSets, TLC

Range(s) == {s[i] : i \in 1..Len(s)}
IdxOf(s, x) == CHOOSE i \in 1..Len(s) : s[i] = x
Has(f, k) == k \in DOMAIN f
Upd(f, k, v) == [x \in (DOMAIN f) \cup {k} |-> IF x = k THEN v ELSE f[x]]
NoneLevel == 10

MInit(c) ==
  [grace |-> c.grace,          \* ordering grace period in clock units (0 = ordering disabled)
   dropping |-> c.dropping,    \* dropping queue type
   bounded |-> c.bounded,
   st |-> <<>>,                \* statements by id (function id -> record; ids increase in call order)
   open |-> <<>>,              \* thread -> id of the call in progress (function)
   lg |-> <<>>,                \* logger name -> [sinks, lvl, valid, sysclock]
   sk |-> <<>>,                \* sink name -> [lvl, deny, denyall, written, flushedTo, alive, held, failing]
   btdue |-> {},               \* backtrace statements (stored, then covered by a completed flush_backtrace) that must be written
   getseen |-> <<>>,           \* thread -> was the logger it looks up registered when get_logger() was called
   need |-> <<>>,              \* thread -> ids that must be written and flushed when its flush_log returns
   lastTs |-> 0, anyLate |-> FALSE,
   dropped |-> 0, reported |-> 0, faulty |-> {}, nfaultNotes |-> 0,
   live |-> {},                \* threads that have logged and not exited
   removing |-> {},            \* loggers whose removal was requested: lg -> ids outstanding
   now |-> 0,
   ok03 |-> TRUE, ok05 |-> TRUE, ok06 |-> TRUE, ok08 |-> TRUE, ok09 |-> TRUE, ok10 |-> TRUE, ok16 |-> TRUE,
   ok17 |-> TRUE, ok20 |-> TRUE,
   why |-> [f \in {"ok03", "ok05", "ok06", "ok08", "ok09", "ok10", "ok16", "ok17", "ok20"} |-> ""]]

Fail(m, flag, why) == IF m[flag] THEN [m EXCEPT ![flag] = FALSE, !.why[flag] = why] ELSE m
Check(m, flag, cond, why) == IF cond THEN m ELSE Fail(m, flag, why)

\* ------------------------------------------------------------------ set-up events
\* a sink created under a name that was used before (the earlier object was destroyed) is a new object - own level, filters,
\* call counters - but what the earlier object received stays delivered
ESink(m, e) ==
  LET old == Has(m.sk, e.s) IN
  [m EXCEPT !.sk = Upd(m.sk, e.s, [lvl |-> e.lvl, deny |-> {}, denyall |-> FALSE,
                                   written |-> IF old THEN m.sk[e.s].written ELSE <<>>,
                                   flushedTo |-> IF old THEN m.sk[e.s].flushedTo ELSE 0,
                                   alive |-> TRUE, held |-> TRUE, tw |-> Range(e.tw), tf |-> Range(e.tf), nw |-> 0, nf |-> 0,
                                   lost |-> IF old THEN m.sk[e.s].lost ELSE {}, exempt |-> IF old THEN m.sk[e.s].exempt ELSE {}])]

ELogger(m, e) ==
  \* a logger whose removal was requested may have been freed by the backend without the driver having looked: then either answer is possible
  LET known == Has(m.lg, e.lg) /\ m.lg[e.lg].present
      fresh == IF known /\ ~m.lg[e.lg].valid THEN e.fresh ELSE ~known IN
  \* C17: creating/looking up by name is idempotent: an existing valid logger is returned unchanged
  LET m1 == Check(m, "ok17", e.fresh = fresh, "create_or_get_logger: fresh/existing mismatch") IN
  IF fresh
  THEN [m1 EXCEPT !.lg = Upd(m.lg, e.lg, [sinks |-> e.sinks, fsinks |-> e.fsinks, lvl |-> e.lvl, valid |-> TRUE, present |-> TRUE,
                                          sys |-> e.sys, ptr |-> 0])]
  ELSE m1

\* create_or_get_logger / get_logger called from any thread (C17: idempotent and safe): one name, one logger object
ECreated(m, e) ==
  IF Has(m.lg, e.lg) /\ m.lg[e.lg].present
  THEN Check(m, "ok17", ~m.lg[e.lg].valid \/ m.lg[e.lg].ptr = 0 \/ m.lg[e.lg].ptr = e.ptr,
             "create_or_get_logger returned a different logger object for an existing name")
  ELSE [m EXCEPT !.lg = Upd(m.lg, e.lg, [sinks |-> e.sinks, fsinks |-> <<>>, lvl |-> 0, valid |-> TRUE, present |-> TRUE, sys |-> TRUE,
                                         ptr |-> e.ptr])]
\* get_logger(): linearizable lookup. A logger that was registered (and valid) when the call STARTED must be found; one that is
\* being created concurrently may or may not be.
EGetCall(m, e) ==
  [m EXCEPT !.getseen = Upd(m.getseen, e.t, Has(m.lg, e.lg) /\ m.lg[e.lg].present /\ m.lg[e.lg].valid /\ m.lg[e.lg].ptr # 0)]
EGot(m, e) ==
  IF e.ptr = 0
  THEN Check(m, "ok17", ~(Has(m.getseen, e.t) /\ m.getseen[e.t] /\ Has(m.lg, e.lg) /\ m.lg[e.lg].valid),
             "get_logger did not find a logger that was registered before the call started")
  ELSE IF Has(m.lg, e.lg) /\ m.lg[e.lg].present /\ m.lg[e.lg].ptr # 0
  THEN Check(m, "ok17", e.ptr = m.lg[e.lg].ptr, "get_logger did not return the logger registered under that name")
  ELSE m

\* ------------------------------------------------------------------ log call
ELogCall(m, e) ==
  LET s == [t |-> e.t, lg |-> e.lg, lvl |-> e.lvl, kind |-> e.kind, lglvl |-> m.lg[e.lg].lvl, acc |-> -2, ts |-> 0,
            committed |-> FALSE, late |-> FALSE, cnow |-> 0, sinks |-> m.lg[e.lg].sinks, fsinks |-> m.lg[e.lg].fsinks,
            sys |-> m.lg[e.lg].sys] IN
  [m EXCEPT !.st = Upd(m.st, e.id, s), !.open = Upd(m.open, e.t, e.id)]

ETs(m, e) == IF Has(m.open, e.t) /\ m.open[e.t] # 0
             THEN [m EXCEPT !.st[m.open[e.t]].ts = e.now, !.now = e.now] ELSE m
ECommit(m, e) ==
  IF Has(m.open, e.t) /\ m.open[e.t] # 0
  THEN LET id == m.open[e.t]
           late == m.st[id].sys /\ (e.now - m.st[id].ts > m.grace) IN
       [m EXCEPT !.st[id].committed = TRUE, !.st[id].late = late, !.st[id].cnow = e.now,
                 !.anyLate = m.anyLate \/ late, !.now = e.now]
  ELSE m

Faulty(kind) == kind \in {"badfmt", "bombstd", "bombint", "btnoinit", "namedbomb"}

ELogRet(m, e) ==
  LET s == m.st[e.id]
      enq == IF e.ret = -1 THEN e.argevals = 1 ELSE e.ret \in {0, 1, 3}    \* passed the logger's level check (3 = error thrown)
      acc == IF e.ret = -1 THEN (IF enq THEN 1 ELSE 2) ELSE e.ret
      m1 == [m EXCEPT !.st[e.id].acc = acc, !.open = Upd(m.open, e.t, 0),
                      !.dropped = IF acc = 0 THEN m.dropped + 1 ELSE m.dropped,
                      !.faulty = IF Faulty(s.kind) /\ acc = 1 THEN m.faulty \cup {e.id} ELSE m.faulty,
                      !.live = IF acc \in {0, 1} THEN m.live \cup {e.t} ELSE m.live]
      \* C16: enqueued iff level >= logger level at the call; arguments evaluated iff enqueued
      m2 == Check(m1, "ok16", (enq <=> (s.lvl >= s.lglvl)) /\ (e.argevals = IF enq THEN 1 ELSE 0),
                  "logger level check / argument evaluation")
      \* C08: a call returns false only with a dropping queue; C03: a blocking queue never refuses
      m3 == Check(m2, "ok08", acc = 0 => m.dropping, "log call returned false on a blocking queue")
  IN Check(m3, "ok03", acc = 0 => m.dropping, "statement refused by a blocking queue")

\* ------------------------------------------------------------------ backend side
ShouldReach(m, id, sname) ==
  LET s == m.st[id] k == m.sk[sname] IN s.lvl >= k.lvl /\ ~k.denyall /\ id \notin k.deny

EWrite(m, e) ==
  LET k == m.sk[e.s]
      known == e.id \in DOMAIN m.st
      s == IF known THEN m.st[e.id] ELSE [t |-> "", lg |-> "", lvl |-> 0, kind |-> "", acc |-> -3, ts |-> 0, late |-> FALSE, sinks |-> <<>>, sys |-> FALSE, committed |-> FALSE]
      dup == e.id \in Range(k.written)
      sameThreadLater == e.lvl # 9 /\ \E j \in Range(k.written) : j \in DOMAIN m.st /\ m.st[j].t = s.t /\ j > e.id /\ m.st[j].lvl # 9
      nw == k.nw + 1
      thr == e.thr             \* this write_log call threw (scripted fault, observed by the recording sink)
      m0 == [m EXCEPT !.sk[e.s].nw = nw,
                      !.sk[e.s].written = IF thr THEN k.written ELSE Append(k.written, e.id),
                      !.sk[e.s].lost = IF thr THEN k.lost \cup {e.id} ELSE k.lost,
                      !.lastTs = IF s.sys /\ e.lvl # 9 THEN e.ts ELSE m.lastTs]
      \* C03: a known, accepted, committed statement of a logger that has this sink; once; in thread order
      m1 == Check(m0, "ok03", known /\ s.acc \in {1, -2} /\ s.committed /\ e.s \in Range(s.sinks) /\ ~dup /\ ~sameThreadLater
                               /\ k.alive,
                  "write: unknown/duplicate/out-of-thread-order statement or wrong sink")
      \* C08: a statement reported as dropped never reaches a sink
      m2 == Check(m1, "ok08", known => s.acc \notin {0, 3}, "dropped statement was written")
      \* C05: non-decreasing timestamps while every enqueue respected the grace period
      m3 == Check(m2, "ok05", (m.grace > 0 /\ ~m.anyLate /\ s.sys /\ e.lvl # 9) => e.ts >= m.lastTs,
                  "timestamp order")
      \* C16: per-sink level filter and filters; the level reported is the level given
      m4 == Check(m3, "ok16", known => (e.lvl = s.lvl /\ ShouldReach(m, e.id, e.s)), "sink level / filter / reported level")
      \* delivered statements are complete and uncorrupted (C03 C08 C10): message text = what the call site expects,
      \* the structured named-args list belongs to this statement (none for a statement without named placeholders)
      sane == e.intact /\ (known => e.nnamed = (IF s.kind = "named" THEN 2 ELSE 0))
      m5 == Check(Check(Check(m4, "ok03", sane, "statement delivered corrupted or with another statement's named args"),
                        "ok08", sane, "statement delivered corrupted"),
                  "ok10", sane, "statement delivered corrupted or with another statement's named args")
      \* C16: each sink receives the line formatted with its own override pattern if it has one, else the logger's
      m6 == Check(m5, "ok16", e.fmt, "line not formatted with the sink's own / the logger's pattern")
      \* C10: a faulty statement may be written (with an error text) or skipped, everything else exactly as above
  IN m6

ESinkFlush(m, e) ==
  LET k == m.sk[e.s]
      nf == k.nf + 1
      \* C17 (and C10 when a throwing flush is what made the backend keep the pointer): a destroyed sink is never used again
      why == "a sink was flushed after it had been destroyed"
      m1 == Check(Check(m, "ok17", k.alive, why), "ok10", k.alive, why) IN
  [m1 EXCEPT !.sk[e.s].nf = nf,
             !.sk[e.s].flushedTo = IF e.thr THEN k.flushedTo ELSE Len(k.written)]

\* statements whose delivery the contract demands: accepted, not faulty, and not lost to a throwing write
Deliverable(m, id, sname) ==
  LET s == m.st[id] IN
  /\ s.acc = 1 /\ id \notin m.faulty /\ sname \in Range(s.sinks) /\ ShouldReach(m, id, sname)
  /\ (s.lvl = 9 => id \in m.btdue)
  /\ id \notin m.sk[sname].lost /\ id \notin m.sk[sname].exempt
  \* a throwing write of an EARLIER sink of the same logger may also lose the statement for the sinks after it (C10)
  /\ ~\E j \in 1..Len(s.sinks) : j < IdxOf(s.sinks, sname) /\ id \in m.sk[s.sinks[j]].lost

Delivered(m, id, sname) == id \in Range(m.sk[sname].written)
Flushed(m, id, sname) == Delivered(m, id, sname) /\ IdxOf(m.sk[sname].written, id) <= m.sk[sname].flushedTo

EFlushCall(m, e) ==
  \* everything the caller logged before; with ordering enabled also what any thread had enqueued (system clock)
  \* (an immediate-flush log call flushes from inside the call: its own statement is committed but the call still open)
  LET own == {id \in DOMAIN m.st : m.st[id].t = e.t /\ (m.st[id].acc = 1 \/ (m.st[id].acc = -2 /\ m.st[id].committed))}
      others == IF m.grace > 0
                THEN {id \in DOMAIN m.st : m.st[id].acc = 1 /\ m.st[id].sys /\ m.st[id].t # e.t}
                ELSE {} IN
  [m EXCEPT !.need = Upd(m.need, e.t, own \cup others)]

EFlushRet(m, e) ==
  LET ids == IF Has(m.need, e.t) THEN m.need[e.t] ELSE {}
      cond == \A id \in ids : \A sname \in Range(m.st[id].sinks) :
                (Deliverable(m, id, sname) /\ m.sk[sname].tf = {}) => Flushed(m, id, sname) IN
  \* C06; and C10: a sink whose flush throws must not keep the other sinks from being flushed
  Check(Check(m, "ok06", cond, "flush_log returned before an earlier statement was written and flushed"),
        "ok10", cond, "flush_log returned although a healthy sink was not flushed (another sink's flush threw)")

\* the destination file of a real FileSink read immediately after flush_log() returned (sink still open): everything the
\* flush promised and that goes to this file sink can be read from it
EFileRead(m, e) ==
  LET ids == IF Has(m.need, e.t) THEN m.need[e.t] ELSE {} IN
  Check(m, "ok06", \A id \in ids : (m.st[id].acc = 1 /\ id \notin m.faulty /\ e.s \in Range(m.st[id].fsinks)) => id \in Range(e.ids),
        "flush_log returned but an earlier statement cannot be read from the file sink's file")

\* flush_backtrace() returned (the request is a control event: never discarded, C08): every backtrace statement the same
\* thread stored through that logger before is due (the driver initialises a capacity larger than their number)
EFlushBt(m, e) ==
  [m EXCEPT !.btdue = m.btdue \cup {id \in DOMAIN m.st : m.st[id].t = e.t /\ m.st[id].lg = e.lg /\ m.st[id].lvl = 9 /\ m.st[id].acc = 1}]

ENotify(m, e) ==
  LET m1 == [m EXCEPT !.reported = IF e.cls = "dropped" THEN m.reported + e.n ELSE m.reported,
                      !.nfaultNotes = IF e.cls \in {"format", "unhandled", "nobacktrace", "bomb", "sinkwrite", "sinkflush"}
                                      THEN m.nfaultNotes + 1 ELSE m.nfaultNotes] IN
  \* C08: never report more than was dropped
  Check(m1, "ok08", m1.reported <= m1.dropped, "more drops reported than happened")

\* marker placed by the driver when every call has returned and the backend was polled to idle repeatedly
EQuiescent(m, e) ==
  LET missing == {<<id, sname>> \in (DOMAIN m.st) \X (DOMAIN m.sk) :
                    m.sk[sname].alive /\ Deliverable(m, id, sname) /\ ~Delivered(m, id, sname)}
      m1 == Check(m, "ok03", m.dropping \/ missing = {}, "accepted statement not delivered at quiescence")
      m2 == Check(m1, "ok08", ~m.dropping \/ missing = {}, "statement accepted by a dropping queue not delivered")
      m3 == Check(m2, "ok10", missing = {} /\ (m.faulty # {} => m.nfaultNotes > 0),
                  "a failing statement or sink disturbed another statement, or the failure was not reported")
      \* C08 (bounded dropping): reported discard counts add up to the number of discarded statements
      m4 == Check(m3, "ok08", (m.dropping /\ m.bounded /\ e.final) => m.reported = m.dropped, "drop reports do not add up")
      \* C17: nothing logged through a logger before its removal is discarded; C20: nothing of an exited thread / across a shrink
      m5 == Check(m4, "ok17", missing = {}, "statement logged before a logger removal (or through another logger) not delivered")
      m6 == Check(m5, "ok20", missing = {}, "statement of an exited thread or across a queue shrink not delivered")
  IN m6

\* ------------------------------------------------------------------ configuration changes
ESetLevel(m, e) == [m EXCEPT !.lg[e.lg].lvl = e.lvl]
\* a sink's level/filters apply at dispatch time, which is not observable for a statement that is NOT written: statements
\* in flight when the configuration changes are exempt from the completeness demand for that sink (never from the
\* checks made when they ARE written)
InFlight(m, sname) == {id \in DOMAIN m.st : m.st[id].acc \in {1, -2} /\ id \notin Range(m.sk[sname].written)}
ESinkLevel(m, e) == [m EXCEPT !.sk[e.s].lvl = e.lvl, !.sk[e.s].exempt = m.sk[e.s].exempt \cup InFlight(m, e.s)]
EAddFilter(m, e) == [m EXCEPT !.sk[e.s].deny = m.sk[e.s].deny \cup Range(e.deny), !.sk[e.s].denyall = m.sk[e.s].denyall \/ e.all,
                              !.sk[e.s].exempt = m.sk[e.s].exempt \cup InFlight(m, e.s)]

\* ------------------------------------------------------------------ threads / contexts (C20)
ECtxUse(m, e) == [m EXCEPT !.live = m.live \cup {e.t}]     \* the thread used its queue (flush, backtrace control, preallocate..)
EThreadExit(m, e) == [m EXCEPT !.live = m.live \ {e.t}]
\* queried when the backend is idle and drained: retained contexts = live threads that have logged
ECtx(m, e) == Check(m, "ok20", e.n = Cardinality(m.live), "retained thread contexts # live threads that have logged")
EShrink(m, e) ==
  Check(m, "ok20", IF e.req * 2 <= e.before THEN e.after < e.before ELSE e.after = e.before, "shrink request had no effect")

\* ------------------------------------------------------------------ logger removal (C17)
ERemove(m, e) == [m EXCEPT !.lg[e.lg].valid = FALSE]
EDropSinkRef(m, e) == [m EXCEPT !.sk[e.s].held = FALSE]
ESinkDestroyed(m, e) ==
  \* loggers whose removal was requested may be freed by the backend at any time once drained: only loggers that are
  \* still valid (and the user's own reference) keep a sink alive
  LET users == {l \in DOMAIN m.lg : m.lg[l].present /\ m.lg[l].valid /\ e.s \in Range(m.lg[l].sinks)}
      pending == {id \in DOMAIN m.st : Deliverable(m, id, e.s) /\ ~Delivered(m, id, e.s)}
      m1 == Check(m, "ok17", users = {} /\ ~m.sk[e.s].held /\ pending = {},
                  "sink destroyed while referenced or before its statements were written")
  IN [m1 EXCEPT !.sk[e.s].alive = FALSE]
\* the backend reports the logger gone (count dropped / get_logger fails / blocking removal returned)
\* looking a sink up by name (get_sink / create_or_get_sink on an existing name): a sink that is alive and that the user still
\* holds must be found and be that very object (C17: idempotent create/get of sinks)
ESinkGet(m, e) ==
  IF Has(m.sk, e.s) /\ m.sk[e.s].alive /\ m.sk[e.s].held
  THEN Check(m, "ok17", e.found /\ e.same, "a live sink was not found by name, or a second object exists under its name")
  ELSE m
ELoggerGone(m, e) ==
  LET pend == {id \in DOMAIN m.st : m.st[id].lg = e.lg /\ m.st[id].acc = 1 /\ id \notin m.faulty /\
                 \E sname \in Range(m.st[id].sinks) : Deliverable(m, id, sname) /\ ~Delivered(m, id, sname)}
      m1 == Check(m, "ok17", ~m.lg[e.lg].valid /\ pend = {}, "logger freed while valid or before its statements were written")
  IN [m1 EXCEPT !.lg[e.lg].present = FALSE]
Present(m) == {l \in DOMAIN m.lg : m.lg[l].present}
Pending(m, l) == {id \in DOMAIN m.st : m.st[id].lg = l /\ \E sname \in Range(m.st[id].sinks) :
                    Deliverable(m, id, sname) /\ ~Delivered(m, id, sname)}
\* remove_logger_blocking returns only after the removal completed: the registry no longer counts the logger and
\* everything logged through it before has been written. Other loggers whose removal was requested may have been freed by
\* the same clean-up (all of them, or only those for which the backend found the queues empty): the count lies between
\* "every invalidated logger gone" and "only this one gone".
ERemoveBlockingRet(m, e) ==
  LET pres == Present(m)
      still == m.lg[e.lg].present        \* not yet seen gone through an earlier count observation
      inval == {l \in pres : ~m.lg[l].valid} \cup (IF still THEN {e.lg} ELSE {})
      hi == Cardinality(pres) - (IF still THEN 1 ELSE 0)
      lo == Cardinality(pres) - Cardinality(inval)
      allGone == e.n = lo
      m1 == Check(m, "ok17", lo <= e.n /\ e.n <= hi /\ Pending(m, e.lg) = {} /\ (allGone => \A l \in inval : Pending(m, l) = {}),
                  "remove_logger_blocking returned before the removal completed") IN
  [m1 EXCEPT !.lg = [l \in DOMAIN m.lg |-> IF l = e.lg \/ (allGone /\ l \in inval) THEN [m.lg[l] EXCEPT !.present = FALSE] ELSE m.lg[l]]]
\* get_number_of_loggers(): invalidated loggers disappear only when drained; a count between "none gone" and "all gone" does
\* not tell which ones went, so it only has to lie in that range
ELoggerCount(m, e) ==
  LET pres == Present(m)
      inval == {l \in pres : ~m.lg[l].valid}
      lo == Cardinality(pres) - Cardinality(inval) IN
  IF e.n = Cardinality(pres) THEN m
  ELSE IF e.n = lo
  THEN LET m1 == Check(m, "ok17", \A l \in inval : Pending(m, l) = {}, "logger freed before its statements were written") IN
       [m1 EXCEPT !.lg = [l \in DOMAIN m.lg |-> IF l \in inval THEN [m.lg[l] EXCEPT !.present = FALSE] ELSE m.lg[l]]]
  ELSE Check(m, "ok17", lo < e.n /\ e.n < Cardinality(pres), "number of loggers")
\* a blocked call that is still blocked although its queue is empty and the backend idle (C09 end to end)
EStuck(m, e) == Fail(m, "ok09", "producer still blocked with an empty queue and an idle backend")
EFlushStuck(m, e) == Fail(m, "ok06", "flush_log does not return although the backend keeps polling")
\* the process crashed, aborted or the backend stopped making progress: whatever the scenario family, that is an alarm
EBackendDead(m, e) ==
  LET why == "process crashed/aborted or backend stopped making progress" IN
  Fail(Fail(Fail(Fail(Fail(Fail(Fail(Fail(Fail(m, "ok03", why), "ok05", why), "ok06", why), "ok08", why), "ok09", why), "ok10", why),
       "ok16", why), "ok17", why), "ok20", why)

MStep(m, e) ==
  CASE e.k = "sink" -> ESink(m, e)
    [] e.k = "logger" -> ELogger(m, e)
    [] e.k = "created" -> ECreated(m, e)
    [] e.k = "got" -> EGot(m, e)
    [] e.k = "getcall" -> EGetCall(m, e)
    [] e.k = "logcall" -> ELogCall(m, e)
    [] e.k = "ts" -> ETs(m, e)
    [] e.k = "commit" -> ECommit(m, e)
    [] e.k = "logret" -> ELogRet(m, e)
    [] e.k = "write" -> EWrite(m, e)
    [] e.k = "sflush" -> ESinkFlush(m, e)
    [] e.k = "flushcall" -> EFlushCall(m, e)
    [] e.k = "flushret" -> EFlushRet(m, e)
    [] e.k = "flushbt" -> EFlushBt(m, e)
    [] e.k = "fileread" -> EFileRead(m, e)
    [] e.k = "notify" -> ENotify(m, e)
    [] e.k = "quiescent" -> EQuiescent(m, e)
    [] e.k = "setlevel" -> ESetLevel(m, e)
    [] e.k = "sinklevel" -> ESinkLevel(m, e)
    [] e.k = "addfilter" -> EAddFilter(m, e)
    [] e.k = "threadexit" -> EThreadExit(m, e)
    [] e.k = "ctxuse" -> ECtxUse(m, e)
    [] e.k = "ctx" -> ECtx(m, e)
    [] e.k = "shrink" -> EShrink(m, e)
    [] e.k = "remove" -> ERemove(m, e)
    [] e.k = "dropsink" -> EDropSinkRef(m, e)
    [] e.k = "sinkdestroyed" -> ESinkDestroyed(m, e)
    [] e.k = "sinkget" -> ESinkGet(m, e)
    [] e.k = "loggergone" -> ELoggerGone(m, e)
    [] e.k = "removebret" -> ERemoveBlockingRet(m, e)
    [] e.k = "loggercount" -> ELoggerCount(m, e)
    [] e.k = "stuck" -> EStuck(m, e)
    [] e.k = "flushstuck" -> EFlushStuck(m, e)
    [] e.k = "backenddead" -> EBackendDead(m, e)
    [] OTHER -> m
=============================================================================
