SPECIFICATION Spec
INVARIANT Sane
CHECK_DEADLOCK FALSE
