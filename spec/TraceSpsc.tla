------------------------------ MODULE TraceSpsc ------------------------------
(* Trace validation: executions of the REAL BoundedSPSCQueueImpl (run against the release/acquire shim) *)
(* judged by SpscContract. Lines: {"k":"init","cap","storage"} starts a new execution.                  *)
EXTENDS Naturals, Sequences, TLC, Json, IOUtils
A == INSTANCE SpscContract
TraceLog == ndJsonDeserialize(IOEnv.TRACE)
VARIABLES l, m
vars == <<l, m>>
Init == l = 1 /\ m = A!MInit(1, 2)
Next == /\ l <= Len(TraceLog)
        /\ l' = l + 1
        /\ LET e == TraceLog[l] IN
           m' = IF e.k = "init" THEN A!MInit(e.cap, e.storage) ELSE A!MStep(m, e)
Spec == Init /\ [][Next]_vars
OkC01 == m.ok01
OkC09 == m.ok09
=============================================================================
