SPECIFICATION Spec
INVARIANT Ok06
CHECK_DEADLOCK FALSE
