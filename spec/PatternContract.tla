--------------------------- MODULE PatternContract ---------------------------
(* Layer A for C12: what a sink line must be, read off the documented grammar of the format       *)
(* pattern (PatternFormatterOptions.h / docs/formatters.rst), by direct left-to-right substitution. *)
(* Nothing here looks like the implementation (no rewriting to a fmt string, no slot table).       *)
(*                                                                                                  *)
(* The module is generic over the representation of TEXT: it only uses Len, SubSeq, \o and          *)
(* equality with one-element texts, which TLC implements both for strings and for sequences.       *)
(* It is instantiated twice:                                                                        *)
(*   - Pattern.tla: texts are sequences of symbols; TLC checks the transcription of the code        *)
(*     against this contract for every pattern within the bound;                                    *)
(*   - TracePattern.tla: texts are real strings; TLC judges executions recorded from the real code. *)
(* So the text that gives the verdict on the code is the text that was model-checked.              *)
EXTENDS Integers, Sequences, FiniteSets
CONSTANTS Pct, LP, RP, Colon, LB, RB, NLc, Slash, Space,  \* one-element texts  % ( ) : { } \n / ' '
          Empty,                                          \* the empty text
          AlLeft, AlRight, AlCenter,                      \* one-element texts  < > ^
          Digits,                                         \* << "0", ..., "9" >> as one-element texts
          ColonSp, CommaSp,                               \* the texts ": " and ", "
          Txt(_)                                          \* attribute key (a TLA+ string) -> its name as a text

\* the sixteen attributes of the property statement / PatternFormatterOptions.h
Keys == {"time", "file_name", "caller_function", "log_level", "log_level_short_code", "line_number",
         "logger", "full_path", "thread_id", "thread_name", "process_id", "source_location",
         "short_source_location", "message", "tags", "named_args"}

Ch(s, i) == SubSeq(s, i, i)
MinOf(S) == CHOOSE x \in S : \A y \in S : x <= y
MaxOf(S) == CHOOSE x \in S : \A y \in S : x >= y
Pos(s, c, from) == {i \in from..Len(s) : Ch(s, i) = c}
First(s, c, from) == LET P == Pos(s, c, from) IN IF P = {} THEN 0 ELSE MinOf(P)
Last(s, c) == LET P == Pos(s, c, 1) IN IF P = {} THEN 0 ELSE MaxOf(P)

(* ---- grammar:  pattern ::= ( literal | "%(" name [ ":" spec ] ")" )*                              *)
(* an item starts at every "%(" and extends to the first ")" after it; everything else is literal.  *)
(* (the positions of "%(", ")" and ":" are computed once per pattern: TLC is slow on texts)          *)
ItemStarts(p, from) == {i \in from..(Len(p) - 1) : Ch(p, i) = Pct /\ Ch(p, i + 1) = LP}
FirstIn(P, lo, hi) == LET Q == {x \in P : x >= lo /\ x <= hi} IN IF Q = {} THEN 0 ELSE MinOf(Q)

RECURSIVE ItemsFrom(_, _, _, _, _)
ItemsFrom(p, i, S, R, Cl) ==      \* S, R, Cl: positions of "%(", ")" and ":" in p
  IF i > Len(p) THEN <<>>
  ELSE LET j == FirstIn(S, i, Len(p)) IN
       IF j = 0 THEN << [k |-> "lit", t |-> SubSeq(p, i, Len(p))] >>
       ELSE IF j > i THEN << [k |-> "lit", t |-> SubSeq(p, i, j - 1)] >> \o ItemsFrom(p, j, S, R, Cl)
       ELSE LET close == FirstIn(R, j + 2, Len(p)) IN
            IF close = 0 THEN << [k |-> "open"] >>        \* "%(" never closed
            ELSE LET col == FirstIn(Cl, j + 2, close - 1) IN
                 << [k |-> "attr",
                     name |-> IF col = 0 THEN SubSeq(p, j + 2, close - 1) ELSE SubSeq(p, j + 2, col - 1),
                     spec |-> IF col = 0 THEN Empty ELSE SubSeq(p, col + 1, close - 1)] >>
                 \o ItemsFrom(p, close + 1, S, R, Cl)
Items(p, i) == ItemsFrom(p, i, ItemStarts(p, 1), Pos(p, RP, 1), Pos(p, Colon, 1))

(* ---- format spec: the width/alignment subset of the fmt mini-language  [[fill]align][width]       *)
IsAlign(c) == c \in {AlLeft, AlRight, AlCenter}
IsDigit(c) == \E d \in 1..10 : Digits[d] = c
DigitVal(c) == CHOOSE d \in 0..9 : Digits[d + 1] = c
RECURSIVE Num(_)
Num(w) == IF Len(w) = 0 THEN 0 ELSE 10 * Num(SubSeq(w, 1, Len(w) - 1)) + DigitVal(Ch(w, Len(w)))
SpecOf(spec) ==
  LET n == Len(spec)
      two == n >= 2 /\ IsAlign(Ch(spec, 2))
      one == ~two /\ n >= 1 /\ IsAlign(Ch(spec, 1))
      w == SubSeq(spec, IF two THEN 3 ELSE IF one THEN 2 ELSE 1, n)
  IN [fill |-> IF two THEN Ch(spec, 1) ELSE Space,
      align |-> IF two THEN Ch(spec, 2) ELSE IF one THEN Ch(spec, 1) ELSE AlLeft,   \* text defaults to left
      wtxt |-> w,
      ok |-> /\ \A i \in 1..Len(w) : IsDigit(Ch(w, i))
             /\ Len(w) <= 3
             /\ (Len(w) > 0 => Ch(w, 1) # Digits[1])          \* a leading 0 is fmt's numeric zero flag
             /\ (two => Ch(spec, 1) \notin {LB, RB})]

(* ---- which patterns the property speaks about                                                    *)
AttrIdx(it) == {i \in 1..Len(it) : it[i].k = "attr"}
Known(n) == \E k \in Keys : Txt(k) = n
KeyOf(n) == CHOOSE k \in Keys : Txt(k) = n
NoBrace(t) == \A i \in 1..Len(t) : Ch(t, i) \notin {LB, RB}

\* "an unknown attribute or unterminated %( is rejected when the formatter is created"
MustRejectI(it) == \/ \E i \in 1..Len(it) : it[i].k = "open"
                   \/ \E i \in AttrIdx(it) : ~Known(it[i].name)
MustReject(p) == MustRejectI(Items(p, 1))

\* "every valid format pattern (any subset and order of attributes, each used once, optional
\*  per-attribute format specs, arbitrary literal text)".  Interpretive choices (see assumptions):
\*  literal text has no brace (the pattern is fmt syntax outside the items), specs are width/alignment
\*  specs, the empty pattern (= "formatting off") is not a pattern.
ValidI(p, it) ==
  /\ Len(p) > 0
  /\ ~MustRejectI(it)
  /\ \A i \in 1..Len(it) : it[i].k = "lit" => NoBrace(it[i].t)
  /\ \A i \in AttrIdx(it) : SpecOf(it[i].spec).ok
  /\ \A i, j \in AttrIdx(it) : it[i].name = it[j].name => i = j
Valid(p) == ValidI(p, Items(p, 1))

(* ---- the line: every item replaced by the (padded) value, literals copied                         *)
RECURSIVE Rep(_, _)
Rep(c, n) == IF n <= 0 THEN Empty
             ELSE LET h == Rep(c, n \div 2) IN IF n % 2 = 0 THEN h \o h ELSE (h \o h) \o c
Pad(v, sp) ==
  LET w == Num(sp.wtxt)
      n == Len(v)
      d == w - n
  IN IF d <= 0 THEN v
     ELSE IF sp.align = AlLeft THEN v \o Rep(sp.fill, d)
     ELSE IF sp.align = AlRight THEN Rep(sp.fill, d) \o v
     ELSE (Rep(sp.fill, d \div 2) \o v) \o Rep(sp.fill, d - (d \div 2))
RECURSIVE Subst(_, _, _)
Subst(it, i, vals) ==
  IF i > Len(it) THEN Empty
  ELSE (IF it[i].k = "lit" THEN it[i].t ELSE Pad(vals[KeyOf(it[i].name)], SpecOf(it[i].spec)))
       \o Subst(it, i + 1, vals)
Expected(p, vals) == Subst(Items(p, 1), 1, vals)
LineI(it, vals) == Subst(it, 1, vals) \o NLc      \* "... plus a final newline"
Line(p, vals) == LineI(Items(p, 1), vals)

(* ---- attribute values derived from the source location "path:line" and from the named-arg pairs   *)
SrcParts(src) ==
  LET colon == Last(src, Colon)
      fp == SubSeq(src, 1, colon - 1)
      ln == SubSeq(src, colon + 1, Len(src))
      fn == SubSeq(fp, Last(fp, Slash) + 1, Len(fp))
  IN [colon |-> colon, full_path |-> fp, line_number |-> ln, file_name |-> fn, short |-> (fn \o Colon) \o ln]
FullPath(src) == SrcParts(src).full_path
LineNo(src) == SrcParts(src).line_number
FileName(src) == SrcParts(src).file_name
ShortLoc(src) == SrcParts(src).short
WellFormedSrc(src) == LET sp == SrcParts(src) IN sp.colon > 0 /\ Pos(sp.line_number, Slash, 1) = {}
RECURSIVE JoinPairs(_, _)
JoinPairs(ps, i) ==
  IF i > Len(ps) THEN Empty
  ELSE ((ps[i][1] \o ColonSp) \o ps[i][2]) \o (IF i < Len(ps) THEN CommaSp \o JoinPairs(ps, i + 1) ELSE Empty)

\* b: the statement as the caller supplied it (record: time caller_function log_level log_level_short_code
\* logger thread_id thread_name process_id source_location message tags named)
AllVals(b) ==
  LET sp == SrcParts(b.source_location) IN
  [k \in Keys |->
    CASE k = "file_name" -> sp.file_name
      [] k = "full_path" -> sp.full_path
      [] k = "line_number" -> sp.line_number
      [] k = "short_source_location" -> sp.short
      [] k = "named_args" -> JoinPairs(b.named, 1)
      [] OTHER -> b[k]]

(* ---- multi-line messages                                                                          *)
\* the lines of a message: pieces between newlines; a newline at the very end terminates the last line
\* instead of starting another one; the empty message is one (empty) line.
MsgLines(m) ==
  IF Len(m) = 0 THEN << Empty >>
  ELSE LET N == Pos(m, NLc, 1)
           K == Cardinality(N)
           Nth(k) == IF k = 0 THEN 0 ELSE IF k = K + 1 THEN Len(m) + 1
                     ELSE CHOOSE x \in N : Cardinality({y \in N : y < x}) = k - 1
           np == IF Ch(m, Len(m)) = NLc THEN K ELSE K + 1
       IN [k \in 1..np |-> SubSeq(m, Nth(k - 1) + 1, Nth(k) - 1)]
Strip1(m) == IF Len(m) > 0 /\ Ch(m, Len(m)) = NLc THEN SubSeq(m, 1, Len(m) - 1) ELSE m

\* what the sink may receive for ONE statement with values vals (message included), as a set of
\* sequences of lines.  multi = add_metadata_to_multi_line_logs, named = the statement has named args
\* (documented: the option is ignored for them, so both shapes are accepted there).
\* "at most one trailing newline removed": removing none or one is accepted, never more.
AllowedOutsI(it, vals, multi, named) ==
  LET m == vals["message"]
      one(mm) == LineI(it, [vals EXCEPT !["message"] = mm])
      ls == MsgLines(m)
      split == [i \in 1..Len(ls) |-> one(ls[i])]
      whole == { << one(m) >>, << one(Strip1(m)) >> }
  IN IF multi /\ ~named THEN {split} ELSE IF ~multi THEN whole ELSE whole \cup {split}
AllowedOuts(p, vals, multi, named) == AllowedOutsI(Items(p, 1), vals, multi, named)
=============================================================================
