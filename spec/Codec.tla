------------------------------- MODULE Codec -------------------------------
(* Layer I + A for C04: the argument codec of quill transcribed per type.                                   *)
(*   Size pass   = Codec<T>::compute_encoded_size  (pushes string lengths / element counts to the per-thread *)
(*                 size cache; cleared by compute_encoded_size_and_cache_string_lengths under its rule)       *)
(*   Encode pass = Codec<T>::encode               (consumes the cache entries by index, writes bytes)         *)
(*   Decode pass = Codec<T>::decode_arg           (consumes bytes; run later by the backend)                  *)
(* over type TREES with abstract value SHAPES (string bytes are 0 = NUL or 1 = some other byte; arithmetic   *)
(* values are tokens). A thread's cache survives from one statement to the next; the source arguments may be *)
(* mutated / destroyed between the call and the decode. TLC checks Reserved = Written = Consumed,            *)
(* CacheIndexInBounds, CacheReadsMatchPushes and Snapshot for every statement sequence of the configured     *)
(* pool, and exports the behaviours (with the predicted byte counts) for replay on the real code.            *)
(* Widths that the code writes as sizeof(...) are CONSTANTs measured on the real code at check time.         *)
EXTENDS Integers, Sequences, FiniteSets, TLC, Json

CONSTANTS HeaderBytes,   \* timestamp + metadata ptr + logger ptr + decoder ptr (measured)
          LevelBytes,    \* sizeof(LogLevel), appended for dynamic-level statements
          CountBytes,    \* element count prefix of the containers (sizeof(size_t))
          LenBytes,      \* length prefix of std::string / string_view / direct-format text (sizeof(uint32_t))
          OptBytes,      \* has_value flag of optional
          SrefBytes,     \* StringRef: pointer + size, NOT a copy
          PtrBytes,
          DTrivSize, DNonSize, DNonAlign, DAllocSize, DAllocAlign,  \* sizeof/alignof of the harness's deferred types
          Threads, MaxStmts, MaxArgs,
          MaxArgsFirst,  \* argument bound of a thread's first statement (its role is to leave a stale cache behind)
          MaxPending,    \* committed, not yet decoded statements per thread
          PoolName,      \* which set of [ty, val] argument trees the statements are built from (Pool below)
          DynChoices,    \* subset of BOOLEAN: statement carries a dynamic log level
          Export,        \* TRUE: print every complete behaviour as JSON
          Sim,           \* TRUE: statements are drawn with RandomElement (simulation mode), Pool is ignored
          SimDepth,      \* node depth of random trees
          ClearRule,     \* "code" = the rule of the real code; other values are seeded spec bugs (self-test)
          DecodeRule,    \* "code" | "strlen" (seeded spec bug: std::string decoded up to the first NUL)
          MutateSref     \* TRUE: also mutate statements that pass a StringRef (documented opt-out of the deep copy)

FILL == -1               \* the non-first bytes of a multi-byte field
JUNK == -2               \* bytes the encoder left unwritten or read past the end of the source
Tok(x) == 1000 + x       \* field tags: a misaligned or mistyped read is recognisable
LenF(x) == 2000 + x
CntF(x) == 3000 + x
HasF(x) == 4000 + x
RefF(x) == 6000 + x
HdrF == 7000
LvlF == 8000
W(w, x) == <<x>> \o [i \in 1..(w - 1) |-> FILL]

(* ------------------------------------------------------------------ types *)
Ty(k, n, p) == [k |-> k, n |-> n, p |-> p]
TokenKinds == {"arith", "enum", "ptr", "dur", "tp", "dtriv", "dnon", "dalloc"}
Seq1Kinds == {"vec", "deq", "list", "flist", "set", "mset", "uset", "umset"}
SetKinds == {"set", "mset", "uset", "umset"}
MapKinds == {"map", "mmap", "umap", "ummap"}
IsPod(T) == T.k \in {"arith", "enum"}      \* "built-in types don't require iteration"

Arith(w) == Ty("arith", w, <<>>)
Leaf(k) == Ty(k, 0, <<>>)
PairT(A, B) == Ty("pair", 0, <<A, B>>)

KeyTypes == {Arith(4), Arith(8), Leaf("str"), Leaf("sv"), Ty("enum", 4, <<>>)}
LeafInQuick == {Arith(1), Arith(4), Arith(8), Ty("enum", 4, <<>>), Leaf("ptr"), Leaf("cstr"), Leaf("str"), Leaf("sv"),
                Leaf("path"), Ty("dur", 8, <<>>), Leaf("dtriv"), Leaf("dnon"), Leaf("direct")}
LeafInAll == LeafInQuick \cup {Arith(2), Arith(16), Ty("enum", 1, <<>>), Ty("tp", 8, <<>>), Leaf("dalloc")}
LeafTopOnly == {Ty("carr", 1, <<>>), Ty("carr", 2, <<>>), Ty("carr", 3, <<>>), Leaf("sref")}

\* composite types over a set S of element types (restrictions = what is expressible/compilable in C++)
CompOver(S) ==
  {Ty(k, 0, <<T>>) : k \in {"vec", "deq", "list", "flist"}, T \in S}
  \cup {Ty(k, 0, <<T>>) : k \in SetKinds, T \in S \cap KeyTypes}
  \cup {Ty("arr", n, <<T>>) : n \in {1, 2}, T \in S}
  \cup {Ty("carray", 2, <<T>>) : T \in S \cap {Arith(4), Leaf("str")}}
  \cup {Ty("opt", 0, <<T>>) : T \in S}
  \cup {Ty(k, 0, <<K, V>>) : k \in MapKinds, K \in S \cap KeyTypes, V \in S}
  \cup {PairT(A, B) : A \in S, B \in S}
TupOver(S) == {Ty("tup", 0, <<A>>) : A \in S} \cup {Ty("tup", 0, <<A, B>>) : A \in S, B \in S}
               \cup {Ty("tup", 0, <<A, B, C>>) : A \in S, B \in S, C \in S}

(* ------------------------------------------------------------------ value shapes *)
StrFull == UNION {[1..n -> {0, 1}] : n \in 0..2}          \* length 0/1/2, with and without embedded NUL
StrRed == {<<>>, <<1, 0>>}
NoNulFull == UNION {[1..n -> {1}] : n \in 0..2}
NoNulRed == {<<>>, <<1, 1>>}
CStr(null, b) == [null |-> null, b |-> b]
CstrFull == {CStr(TRUE, <<>>)} \cup {CStr(FALSE, s) : s \in NoNulFull}
CstrRed == {CStr(TRUE, <<>>), CStr(FALSE, <<1>>)}
Counts == {0, 1, 2}

RECURSIVE Vals(_, _), Prod(_, _)
Vals(T, r) ==
  CASE T.k \in TokenKinds -> {1}
    [] T.k = "cstr" -> IF r = "full" THEN CstrFull ELSE CstrRed
    [] T.k = "carr" -> [1..T.n -> {0, 1}]                  \* every content of char[N], incl. unterminated
    [] T.k \in {"str", "sv", "sref"} -> IF r = "full" THEN StrFull ELSE StrRed
    [] T.k \in {"path", "direct"} -> IF r = "full" THEN NoNulFull ELSE NoNulRed
    [] T.k \in Seq1Kinds -> UNION {[1..c -> Vals(T.p[1], "red")] : c \in Counts}
    [] T.k \in {"arr", "carray"} -> [1..T.n -> Vals(T.p[1], "red")]
    [] T.k = "opt" -> {<<>>} \cup {<<v>> : v \in Vals(T.p[1], "red")}
    [] T.k \in MapKinds -> UNION {[1..c -> Prod(<<T.p[1], T.p[2]>>, 1)] : c \in Counts}
    [] T.k \in {"pair", "tup"} -> Prod(T.p, 1)
Prod(Ts, i) == IF i > Len(Ts) THEN {<<>>} ELSE {<<h>> \o t : h \in Vals(Ts[i], "red"), t \in Prod(Ts, i + 1)}

Nodes(TS, r) == UNION {{[ty |-> T, val |-> v] : v \in Vals(T, r)} : T \in TS}

(* ------------------------------------------------------------------ argument pools (chosen in the cfg) *)
\* every kind once, node depth <= 2, single statements: the per-type transcription
PoolDepth2(u) == Nodes(LeafInAll \cup LeafTopOnly, "full") \cup Nodes(CompOver(LeafInQuick) \cup TupOver({Arith(4), Leaf("cstr"), Leaf("str")}), "red")
\* cache-using and cache-neutral types side by side: statement pairs on one thread (stale cache, index alignment)
CacheLeaves == {Arith(4), Leaf("cstr"), Ty("carr", 2, <<>>), Leaf("str"), Leaf("direct")}
PoolPairs(u) == Nodes({Arith(4), Leaf("cstr"), Ty("carr", 2, <<>>)}, "full") \cup Nodes({Leaf("str"), Leaf("direct")}, "red")
                \cup Nodes({Ty("vec", 0, <<Leaf("cstr")>>), Ty("flist", 0, <<Leaf("cstr")>>), Ty("flist", 0, <<Arith(4)>>),
                            Ty("opt", 0, <<Leaf("cstr")>>)}, "red")
PoolPairsX(u) == Nodes(CacheLeaves, "full")
                 \cup Nodes({Ty("vec", 0, <<Leaf("cstr")>>), Ty("flist", 0, <<Leaf("cstr")>>), Ty("flist", 0, <<Arith(4)>>),
                             Ty("opt", 0, <<Leaf("cstr")>>), Ty("vec", 0, <<Leaf("str")>>), Leaf("sv"),
                             PairT(Leaf("cstr"), Leaf("direct")), Ty("map", 0, <<Leaf("str"), Leaf("cstr")>>)}, "red")
\* node depth 3 over a reduced alphabet (thorough)
L3 == {Arith(4), Leaf("cstr"), Leaf("str"), Leaf("direct"), Leaf("dnon")}
C3 == {Ty(k, 0, <<T>>) : k \in {"vec", "flist", "opt"}, T \in L3} \cup {PairT(A, B) : A \in {Arith(4), Leaf("cstr")}, B \in L3}
       \cup {Ty("map", 0, <<Leaf("str"), V>>) : V \in L3} \cup {Ty("uset", 0, <<Leaf("str")>>)}
PoolDepth3(u) == Nodes({Ty(k, 0, <<T>>) : k \in {"vec", "flist", "opt", "deq"}, T \in C3}
                    \cup {PairT(A, B) : A \in C3, B \in {Leaf("cstr")}}
                    \cup {Ty("tup", 0, <<A, B>>) : A \in C3, B \in {Leaf("cstr"), Arith(1)}}
                    \cup {Ty("map", 0, <<Arith(4), V>>) : V \in C3}, "red")
\* up to CacheCap (+1) variable-length C strings in one statement (C11's quantifier; cfg sets MaxArgs)
PoolCstr(u) == {[ty |-> Leaf("cstr"), val |-> CStr(FALSE, <<1>>)]}
\* many std::string / string_view arguments in one statement: they do not use the size cache, however many there are
PoolStrs(u) == {[ty |-> Leaf("str"), val |-> <<1>>]}
\* scalar-only statements (no string, container or user type): the sanitiser must still see a non-printable plain char
PoolScalars(u) == Nodes({Arith(1), Arith(4), Arith(8), Leaf("ptr")}, "full")
\* index alignment: a COMPOSITE of every kind holding size-cache users, FOLLOWED by another size-cache user
AlignElems == {Leaf("cstr"), Leaf("direct")}
AlignA(u) == Nodes({Ty(k, 0, <<T>>) : k \in {"vec", "deq", "list", "flist", "opt"}, T \in AlignElems}
                   \cup {Ty("arr", n, <<Leaf("cstr")>>) : n \in {1, 2}}
                   \cup {Ty(k, 0, <<Leaf("cstr")>>) : k \in {"set", "mset"}}
                   \cup {Ty(k, 0, <<Arith(4), T>>) : k \in MapKinds, T \in AlignElems}
                   \cup {PairT(Leaf("cstr"), Arith(4)), PairT(Arith(4), Leaf("cstr")), PairT(Leaf("cstr"), Leaf("direct"))}
                   \cup {Ty("tup", 0, <<Leaf("cstr")>>), Ty("tup", 0, <<Arith(4), Leaf("cstr")>>),
                         Ty("tup", 0, <<Leaf("cstr"), Leaf("cstr")>>), Ty("tup", 0, <<Leaf("direct"), Arith(1)>>)}, "red")
AlignB(u) == {[ty |-> Leaf("cstr"), val |-> CStr(FALSE, <<1, 1>>)], [ty |-> Ty("carr", 2, <<>>), val |-> <<1, 1>>],
              [ty |-> Leaf("direct"), val |-> <<1, 1>>]}
AlignStmts(u) == {<<a, b>> : a \in AlignA(u), b \in AlignB(u)}
\* (TLC evaluates zero-argument constant definitions eagerly at start-up: only the selected pool is built)
Pool == CASE PoolName = "depth2" -> PoolDepth2(0)
          [] PoolName = "pairs" -> PoolPairs(0)
          [] PoolName = "pairsx" -> PoolPairsX(0)
          [] PoolName = "depth3" -> PoolDepth3(0)
          [] PoolName = "cstr" -> PoolCstr(0)
          [] PoolName = "strs" -> PoolStrs(0)
          [] PoolName = "scalars" -> PoolScalars(0)
          [] PoolName = "align" -> {}
          [] PoolName = "none" -> {}

TheAlignStmts == IF PoolName = "align" THEN AlignStmts(0) ELSE {}
(* ------------------------------------------------------------------ random trees (simulation mode) *)
\* every RandomElement result is bound by a set constructor before it is used, so it is evaluated once
One(S) == CHOOSE x \in S : TRUE
RECURSIVE RTy(_), RSeqV(_, _), RVal(_), RProd(_, _), RSeqT(_, _), RSeqB(_), RArgs(_, _)
RLeaf(u) == RandomElement(LeafInAll)   \* (a parameter keeps TLC from evaluating it once at start-up)
RTyK(k, d) ==
  CASE k = "leaf" -> RLeaf(d)
    [] k \in {"vec", "deq", "list", "flist"} -> Ty(k, 0, <<RTy(d - 1)>>)
    [] k \in SetKinds -> Ty(k, 0, <<RandomElement(KeyTypes)>>)
    [] k = "arr" -> Ty("arr", RandomElement({1, 2}), <<RTy(d - 1)>>)
    [] k = "opt" -> Ty("opt", 0, <<RTy(d - 1)>>)
    [] k \in MapKinds -> Ty(k, 0, <<RandomElement(KeyTypes), RTy(d - 1)>>)
    [] k = "pair" -> PairT(RTy(d - 1), RTy(d - 1))
    [] k = "tup" -> One({Ty("tup", 0, RSeqT(n, d - 1)) : n \in {RandomElement(1..3)}})
RSeqT(n, d) == IF n = 0 THEN <<>> ELSE Append(RSeqT(n - 1, d), RTy(d))
AllComp == {"vec", "deq", "list", "flist", "arr", "opt", "pair", "tup"} \cup SetKinds \cup MapKinds
RTy(d) == IF d <= 1 THEN RLeaf(d)
          ELSE One({RTyK(k, d) : k \in {RandomElement(AllComp \cup {"leaf"})}})
RTopTy(d) == One({IF c = 0 THEN RandomElement(LeafTopOnly)
                  ELSE IF c = 1 THEN Ty("carray", 2, <<RandomElement({Arith(4), Leaf("str")})>>)
                  ELSE IF c \in {2, 3} THEN RLeaf(d)
                  ELSE RTy(d) : c \in {RandomElement(0..11)}})
RVal(T) ==
  CASE T.k \in TokenKinds -> 1
    [] T.k = "cstr" -> RandomElement(CstrFull)
    [] T.k = "carr" -> RSeqB(T.n)
    [] T.k \in {"str", "sv", "sref"} -> RandomElement(StrFull)
    [] T.k \in {"path", "direct"} -> RandomElement(NoNulFull)
    [] T.k \in Seq1Kinds -> One({RSeqV(T.p[1], c) : c \in {RandomElement(Counts)}})
    [] T.k \in {"arr", "carray"} -> RSeqV(T.p[1], T.n)
    [] T.k = "opt" -> One({RSeqV(T.p[1], c) : c \in {RandomElement({0, 1})}})
    [] T.k \in MapKinds -> One({RSeqV(PairT(T.p[1], T.p[2]), c) : c \in {RandomElement(Counts)}})
    [] T.k \in {"pair", "tup"} -> RProd(T.p, 1)
RSeqB(n) == IF n = 0 THEN <<>> ELSE Append(RSeqB(n - 1), RandomElement({0, 1}))
RSeqV(T, c) == IF c = 0 THEN <<>> ELSE Append(RSeqV(T, c - 1), RVal(T))
RProd(Ts, i) == IF i > Len(Ts) THEN <<>> ELSE <<RVal(Ts[i])>> \o RProd(Ts, i + 1)
RNode(d) == One({[ty |-> T, val |-> RVal(T)] : T \in {RTopTy(d)}})
RArgs(n, d) == IF n = 0 THEN <<>> ELSE Append(RArgs(n - 1, d), RNode(d))
RStmt(u) == One({RArgs(n, SimDepth) : n \in {RandomElement(1..MaxArgs)}})

(* ------------------------------------------------------------------ helpers on byte strings *)
RECURSIVE FirstNul(_, _, _)
\* index of the first 0 in s at or after i, bounded by hi; hi + 1 if there is none
FirstNul(s, i, hi) == IF i > hi THEN hi + 1 ELSE IF s[i] = 0 THEN i ELSE FirstNul(s, i + 1, hi)
StrnLen(s, n) == FirstNul(s, 1, n) - 1                    \* safe_strnlen(arg, N)
Take(s, n) == [i \in 1..n |-> IF i <= Len(s) THEN s[i] ELSE JUNK]   \* memcpy of n bytes from a source of Len(s)

(* the meaning of a source value for the call-site formatting (what Snapshot compares the decoded value with) *)
RECURSIVE Sem(_, _), SemSeq(_, _, _)
Sem(T, v) ==
  CASE T.k \in TokenKinds -> v
    [] T.k = "cstr" -> IF v.null THEN <<>> ELSE v.b        \* null: defined as "" (oracle care)
    [] T.k = "carr" -> SubSeq(v, 1, StrnLen(v, T.n))        \* unterminated: the first N bytes (oracle care)
    [] T.k \in {"str", "sv", "sref", "path", "direct"} -> v
    [] T.k \in Seq1Kinds \cup {"arr", "carray", "opt"} -> SemSeq([i \in 1..Len(v) |-> T.p[1]], v, 1)
    [] T.k \in MapKinds -> SemSeq([i \in 1..Len(v) |-> PairT(T.p[1], T.p[2])], v, 1)
    [] T.k \in {"pair", "tup"} -> SemSeq(T.p, v, 1)
SemSeq(Ts, vs, i) == IF i > Len(vs) THEN <<>> ELSE <<Sem(Ts[i], vs[i])>> \o SemSeq(Ts, vs, i + 1)

(* ------------------------------------------------------------------ Size pass *)
DeferredBytes(T) == CASE T.k = "dtriv" -> DTrivSize                       \* use_memcpy: sizeof(T)
                      [] T.k = "dnon" -> DNonSize + DNonAlign - 1         \* sizeof(T) + alignof(T) - 1
                      [] T.k = "dalloc" -> DAllocSize + DAllocAlign - 1
RECURSIVE SizeP(_, _, _), SizeSeq(_, _, _, _)
Rep(T, n) == [i \in 1..n |-> T]
SizeP(T, v, c) ==
  CASE T.k \in {"arith", "enum", "dur", "tp"} -> [sz |-> T.n, c |-> c]
    [] T.k = "ptr" -> [sz |-> PtrBytes, c |-> c]
    [] T.k \in {"dtriv", "dnon", "dalloc"} -> [sz |-> DeferredBytes(T), c |-> c]
    [] T.k = "carr" -> LET len == StrnLen(v, T.n) + 1 IN [sz |-> len, c |-> Append(c, len)]
    [] T.k = "cstr" -> LET len == (IF v.null THEN 0 ELSE Len(v.b)) + 1 IN [sz |-> len, c |-> Append(c, len)]
    [] T.k \in {"str", "sv", "path"} -> [sz |-> LenBytes + Len(v), c |-> c]
    [] T.k = "sref" -> [sz |-> SrefBytes, c |-> c]
    [] T.k = "direct" -> [sz |-> LenBytes + Len(v), c |-> Append(c, Len(v))]   \* formatted_size pushed
    [] T.k \in Seq1Kinds \ {"flist"} ->
         IF IsPod(T.p[1]) THEN [sz |-> CountBytes + T.p[1].n * Len(v), c |-> c]
         ELSE LET r == SizeSeq(Rep(T.p[1], Len(v)), v, c, 1) IN [sz |-> CountBytes + r.sz, c |-> r.c]
    [] T.k = "flist" ->      \* placeholder pushed first, replaced by the element count afterwards
         LET c0 == Append(c, 0)
             r == SizeSeq(Rep(T.p[1], Len(v)), v, c0, 1)
         IN [sz |-> CountBytes + r.sz, c |-> [r.c EXCEPT ![Len(c0)] = Len(v)]]
    [] T.k \in {"arr", "carray"} ->
         IF IsPod(T.p[1]) THEN [sz |-> T.p[1].n * T.n, c |-> c]
         ELSE SizeSeq(Rep(T.p[1], T.n), v, c, 1)
    [] T.k = "opt" -> IF v = <<>> THEN [sz |-> OptBytes, c |-> c]
                      ELSE LET r == SizeP(T.p[1], v[1], c) IN [sz |-> OptBytes + r.sz, c |-> r.c]
    [] T.k \in MapKinds ->
         IF IsPod(T.p[1]) /\ IsPod(T.p[2]) THEN [sz |-> CountBytes + (T.p[1].n + T.p[2].n) * Len(v), c |-> c]
         ELSE LET r == SizeSeq(Rep(PairT(T.p[1], T.p[2]), Len(v)), v, c, 1) IN [sz |-> CountBytes + r.sz, c |-> r.c]
    [] T.k \in {"pair", "tup"} -> SizeSeq(T.p, v, c, 1)
SizeSeq(Ts, vs, c, i) ==
  IF i > Len(vs) THEN [sz |-> 0, c |-> c]
  ELSE LET h == SizeP(Ts[i], vs[i], c)
           t == SizeSeq(Ts, vs, h.c, i + 1)
       IN [sz |-> h.sz + t.sz, c |-> t.c]

\* compute_encoded_size_and_cache_string_lengths: the cache is cleared unless EVERY argument is arithmetic, enum,
\* void const*, std::string or std::string_view
NoClearKinds ==
  CASE ClearRule = "code" -> {"arith", "enum", "ptr", "str", "sv"}
    [] ClearRule = "cstr_like_string" -> {"arith", "enum", "ptr", "str", "sv", "cstr"}    \* seeded spec bug
    [] ClearRule = "never" -> TokenKinds \cup Seq1Kinds \cup MapKinds \cup {"cstr", "carr", "str", "sv", "sref", "path", "direct", "arr", "carray", "opt", "pair", "tup"}
Clears(args) == \E i \in 1..Len(args) : args[i].ty.k \notin NoClearKinds

(* ------------------------------------------------------------------ Encode pass *)
\* st = [buf, idx (0-based as in the code), c (the cache), reads (values read, in order), oob, over]
ReadC(st) ==
  IF st.idx + 1 > Len(st.c)
  THEN [v |-> 1, st |-> [st EXCEPT !.idx = @ + 1, !.oob = TRUE]]       \* operator[] past size(): the code throws
  ELSE [v |-> st.c[st.idx + 1], st |-> [st EXCEPT !.idx = @ + 1, !.reads = Append(@, st.c[st.idx + 1])]]
Put(st, bytes) == [st EXCEPT !.buf = @ \o bytes]
RECURSIVE EncP(_, _, _), EncSeq(_, _, _, _)
EncP(T, v, st) ==
  CASE T.k \in TokenKinds \ {"ptr"} -> Put(st, W(IF T.k \in {"dtriv", "dnon", "dalloc"} THEN DeferredBytes(T) ELSE T.n, Tok(v)))
    [] T.k = "ptr" -> Put(st, W(PtrBytes, Tok(v)))
    [] T.k = "carr" ->
         LET r == ReadC(st)
             len == r.v
         IN IF len > T.n THEN [Put(r.st, SubSeq(v, 1, T.n) \o <<0>> \o [i \in 1..(len - T.n - 1) |-> JUNK])
                               EXCEPT !.over = @ \/ (len # T.n + 1)]
            ELSE Put(r.st, SubSeq(v, 1, len))
    [] T.k = "cstr" ->
         LET r == ReadC(st)
             len == r.v
             src == IF v.null THEN <<>> ELSE v.b
         IN IF len < 1 THEN [r.st EXCEPT !.over = TRUE]
            ELSE [Put(r.st, Take(src, len - 1) \o <<0>>) EXCEPT !.over = @ \/ (len - 1 > Len(src))]
    [] T.k \in {"str", "sv", "path"} -> Put(st, W(LenBytes, LenF(Len(v))) \o v)
    [] T.k = "sref" -> Put(st, W(SrefBytes, RefF(0)))                   \* pointer + size: a reference, patched by the caller
    [] T.k = "direct" ->
         LET r == ReadC(st)
             len == r.v
         IN [Put(r.st, W(LenBytes, LenF(len)) \o Take(v, len)) EXCEPT !.over = @ \/ (len > Len(v))]
    [] T.k \in Seq1Kinds \ {"flist"} ->
         LET s1 == Put(st, W(CountBytes, CntF(Len(v)))) IN EncSeq(Rep(T.p[1], Len(v)), v, s1, 1)
    [] T.k = "flist" ->
         LET r == ReadC(st) IN EncSeq(Rep(T.p[1], Len(v)), v, Put(r.st, W(CountBytes, CntF(r.v))), 1)
    [] T.k \in {"arr", "carray"} -> EncSeq(Rep(T.p[1], T.n), v, st, 1)
    [] T.k = "opt" -> IF v = <<>> THEN Put(st, W(OptBytes, HasF(0)))
                      ELSE EncP(T.p[1], v[1], Put(st, W(OptBytes, HasF(1))))
    [] T.k \in MapKinds ->
         LET s1 == Put(st, W(CountBytes, CntF(Len(v)))) IN EncSeq(Rep(PairT(T.p[1], T.p[2]), Len(v)), v, s1, 1)
    [] T.k \in {"pair", "tup"} -> EncSeq(T.p, v, st, 1)
EncSeq(Ts, vs, st, i) == IF i > Len(vs) THEN st ELSE EncSeq(Ts, vs, EncP(Ts[i], vs[i], st), i + 1)

(* ------------------------------------------------------------------ Decode pass *)
\* d = [val, pos (1-based next byte), bad]; src = the CURRENT source arguments (only a StringRef looks at them)
At(buf, pos) == IF pos >= 1 /\ pos <= Len(buf) THEN buf[pos] ELSE JUNK
Field(buf, pos, base) == At(buf, pos) - base
RECURSIVE DecP(_, _, _, _), DecSeq(_, _, _, _, _, _)
DecCStr(buf, pos) ==
  LET z == FirstNul(buf, pos, Len(buf))
  IN [val |-> SubSeq(buf, pos, z - 1), pos |-> z + 1, bad |-> z > Len(buf)]
DecP(T, buf, pos, srcnow) ==
  CASE T.k \in TokenKinds ->
         LET w == IF T.k = "ptr" THEN PtrBytes ELSE IF T.k \in {"dtriv", "dnon", "dalloc"} THEN DeferredBytes(T) ELSE T.n
         IN [val |-> Field(buf, pos, 1000), pos |-> pos + w, bad |-> Field(buf, pos, 1000) \notin 0..99]
    [] T.k \in {"cstr", "carr"} -> DecCStr(buf, pos)
    [] T.k \in {"str", "sv", "path", "direct"} ->
         IF DecodeRule = "strlen" /\ T.k = "str"
         THEN LET r == DecCStr(buf, pos + LenBytes) IN [r EXCEPT !.pos = @ - 1]   \* seeded spec bug
         ELSE LET len == Field(buf, pos, 2000)
              IN IF len \notin 0..99 THEN [val |-> <<>>, pos |-> pos + LenBytes, bad |-> TRUE]
                 ELSE [val |-> [i \in 1..len |-> At(buf, pos + LenBytes + i - 1)], pos |-> pos + LenBytes + len, bad |-> FALSE]
    [] T.k = "sref" -> [val |-> srcnow, pos |-> pos + SrefBytes, bad |-> Field(buf, pos, 6000) # 0]
    [] T.k \in Seq1Kinds \cup MapKinds ->
         LET n == Field(buf, pos, 3000)
             ET == IF T.k \in MapKinds THEN PairT(T.p[1], T.p[2]) ELSE T.p[1]
         IN IF n \notin 0..99 THEN [val |-> <<>>, pos |-> pos + CountBytes, bad |-> TRUE]
            ELSE DecSeq(Rep(ET, n), buf, pos + CountBytes, srcnow, 1, <<>>)
    [] T.k \in {"arr", "carray"} -> DecSeq(Rep(T.p[1], T.n), buf, pos, srcnow, 1, <<>>)
    [] T.k = "opt" ->
         LET h == Field(buf, pos, 4000)
         IN IF h = 0 THEN [val |-> <<>>, pos |-> pos + OptBytes, bad |-> FALSE]
            ELSE IF h = 1 THEN LET r == DecP(T.p[1], buf, pos + OptBytes, srcnow) IN [r EXCEPT !.val = <<r.val>>]
            ELSE [val |-> <<>>, pos |-> pos + OptBytes, bad |-> TRUE]
    [] T.k \in {"pair", "tup"} -> DecSeq(T.p, buf, pos, srcnow, 1, <<>>)
DecSeq(Ts, buf, pos, srcnow, i, acc) ==
  IF i > Len(Ts) THEN [val |-> acc, pos |-> pos, bad |-> FALSE]
  ELSE LET h == DecP(Ts[i], buf, pos, srcnow)
       IN IF h.bad THEN [val |-> Append(acc, h.val), pos |-> h.pos, bad |-> TRUE]
          ELSE DecSeq(Ts, buf, h.pos, srcnow, i + 1, Append(acc, h.val))

(* ------------------------------------------------------------------ the machine *)
VARIABLES cache,    \* [Threads -> Seq(Nat)]  conditional_arg_size_cache of each thread context
          pc,       \* [Threads -> "idle" | "sized"]
          cur,      \* [Threads -> the statement between its Size and Encode pass]
          queue,    \* [Threads -> Seq(record)]  committed, not yet decoded
          nst,      \* [Threads -> statements issued]
          ok,       \* sticky verdicts of the steps so far (the invariants); kept as flags so that the state after
                    \* a drain does not depend on the statement and the VIEW-reduced graph stays small
          hist      \* exported behaviour
vars == <<cache, pc, cur, queue, nst, ok, hist>>
NoStmt == [args |-> <<>>]
AllOk == [sizes |-> TRUE, bounds |-> TRUE, reads |-> TRUE, snap |-> TRUE]

Init == /\ cache = [t \in Threads |-> <<>>]
        /\ pc = [t \in Threads |-> "idle"]
        /\ cur = [t \in Threads |-> NoStmt]
        /\ queue = [t \in Threads |-> <<>>]
        /\ nst = [t \in Threads |-> 0]
        /\ ok = AllOk
        /\ hist = <<>>

ArgTys(args) == [i \in 1..Len(args) |-> args[i].ty]
ArgVals(args) == [i \in 1..Len(args) |-> args[i].val]
HasSref(args) == \E i \in 1..Len(args) : args[i].ty.k = "sref"

\* LoggerImpl::log_statement, first half: clear rule + size pass over the arguments in order; reserve
SizeStep(t, args, dyn) ==
  LET c0 == IF Clears(args) THEN <<>> ELSE cache[t]
      r == SizeSeq(ArgTys(args), ArgVals(args), c0, 1)
      total == HeaderBytes + r.sz + (IF dyn THEN LevelBytes ELSE 0)
  IN /\ cache' = [cache EXCEPT ![t] = r.c]
     /\ cur' = [cur EXCEPT ![t] = [args |-> args, dyn |-> dyn, reserved |-> total, clears |-> Clears(args),
                                   pushes |-> SubSeq(r.c, Len(c0) + 1, Len(r.c)), stale |-> cache[t]]]
     /\ pc' = [pc EXCEPT ![t] = "sized"]
     /\ UNCHANGED <<queue, nst, ok, hist>>
ASize(t) ==
  /\ pc[t] = "idle" /\ nst[t] < MaxStmts /\ Len(queue[t]) < MaxPending
  /\ IF Sim THEN \E args \in {RStmt(nst[t])} : \E dyn \in {RandomElement(DynChoices)} : SizeStep(t, args, dyn)
     ELSE IF PoolName = "align" THEN \E args \in TheAlignStmts : \E dyn \in DynChoices : SizeStep(t, args, dyn)
     ELSE \E n \in 1..(IF nst[t] = 0 THEN MaxArgsFirst ELSE MaxArgs) : \E args \in [1..n -> Pool] : \E dyn \in DynChoices : SizeStep(t, args, dyn)

\* second half: header, encode pass (cache consumed from index 0), dynamic level, commit
AEncode(t) ==
  /\ pc[t] = "sized"
  /\ LET s == cur[t]
         st0 == [buf |-> W(HeaderBytes, HdrF), idx |-> 0, c |-> cache[t], reads |-> <<>>, oob |-> FALSE, over |-> FALSE]
         st1 == EncSeq(ArgTys(s.args), ArgVals(s.args), st0, 1)
         buf == st1.buf \o (IF s.dyn THEN W(LevelBytes, LvlF) ELSE <<>>)
         rec == [args |-> s.args, dyn |-> s.dyn, buf |-> buf, reserved |-> s.reserved, written |-> Len(buf),
                 src |-> ArgVals(s.args), mutated |-> FALSE, stale |-> s.stale]
     IN /\ queue' = [queue EXCEPT ![t] = Append(@, rec)]
        /\ ok' = [ok EXCEPT !.sizes = @ /\ s.reserved = Len(buf),
                             !.bounds = @ /\ ~st1.oob /\ ~st1.over,
                             !.reads = @ /\ st1.reads = s.pushes]
        /\ hist' = Append(hist, [op |-> "call", t |-> t, dyn |-> s.dyn, args |-> s.args, size |-> s.reserved,
                                 npush |-> Len(s.pushes), clears |-> s.clears, cafter |-> Len(cache[t])])
  /\ pc' = [pc EXCEPT ![t] = "idle"]
  /\ cur' = [cur EXCEPT ![t] = NoStmt]
  /\ nst' = [nst EXCEPT ![t] = @ + 1]
  /\ UNCHANGED cache

\* the caller changes / destroys the arguments of its most recent statement after the call returned
MutVal == <<9, 9, 9>>
AMutate(t) ==
  /\ pc[t] = "idle" /\ queue[t] # <<>>
  /\ LET k == Len(queue[t]) r == queue[t][k]
     IN /\ ~r.mutated
        /\ (MutateSref \/ ~HasSref(r.args))
        /\ queue' = [queue EXCEPT ![t][k] = [r EXCEPT !.mutated = TRUE, !.src = [i \in 1..Len(r.src) |-> MutVal]]]
  /\ hist' = Append(hist, [op |-> "mut", t |-> t])
  /\ UNCHANGED <<cache, pc, cur, nst, ok>>

\* backend: decode every committed record of every thread through the decoder stored in the record
DecodeRec(r) ==
  LET RECURSIVE Go(_, _, _, _)
      Go(i, pos, acc, bad) ==
        IF i > Len(r.args) \/ bad THEN [vals |-> acc, pos |-> pos, bad |-> bad]
        ELSE LET d == DecP(r.args[i].ty, r.buf, pos, r.src[i])
             IN Go(i + 1, d.pos, Append(acc, d.val), d.bad)
      g == Go(1, HeaderBytes + 1, <<>>, FALSE)
      endpos == g.pos + (IF r.dyn THEN LevelBytes ELSE 0)
  IN [reserved |-> r.reserved, written |-> r.written, consumed |-> endpos - 1, bad |-> g.bad,
      decoded |-> g.vals, atcall |-> SemSeq(ArgTys(r.args), ArgVals(r.args), 1)]
ADrain ==
  /\ \A t \in Threads : pc[t] = "idle"
  /\ \E t \in Threads : queue[t] # <<>>
  /\ ok' = [ok EXCEPT
              !.sizes = @ /\ \A t \in Threads : \A i \in 1..Len(queue[t]) :
                               LET r == DecodeRec(queue[t][i]) IN r.reserved = r.written /\ r.written = r.consumed /\ ~r.bad,
              !.snap = @ /\ \A t \in Threads : \A i \in 1..Len(queue[t]) :
                              LET r == DecodeRec(queue[t][i]) IN r.bad \/ r.decoded = r.atcall]
  /\ queue' = [t \in Threads |-> <<>>]
  /\ hist' = Append(hist, [op |-> "poll"])
  /\ UNCHANGED <<cache, pc, cur, nst>>

Next == (\E t \in Threads : ASize(t) \/ AEncode(t) \/ AMutate(t)) \/ ADrain
Spec == Init /\ [][Next]_vars

(* ------------------------------------------------------------------ what TLC checks *)
\* the space reserved for a statement = the bytes written when encoding it = the bytes consumed when decoding it
\* (header and dynamic level included; every decoded field is the field that was written there)
ReservedWrittenConsumed == ok.sizes
\* Encode never indexes the cache at or beyond its size and never copies more than the source holds
CacheIndexInBounds == ok.bounds
\* the i-th cache read in Encode returns what the i-th push of the SAME statement stored, and every push is read
CacheReadsMatchPushes == ok.reads
\* what the backend decodes is the value the arguments had when the call was made
Snapshot == ok.snap

Complete == /\ \A t \in Threads : pc[t] = "idle" /\ queue[t] = <<>>
            /\ \E t \in Threads : nst[t] > 0
\* ACTION_CONSTRAINT with a side effect: one behaviour per transition into a complete state of the VIEW-reduced graph
ExportA == (Export /\ Complete') => PrintT("BEH " \o ToJson(hist'))
StateView == <<cache, pc, cur, queue, nst, ok>>
=============================================================================
