----------------------------- MODULE TraceStream -----------------------------
(* Trace validation for C02: executions of the REAL UnboundedSPSCQueue on the release/acquire shim, judged by *)
(* StreamContract. {"k":"init","cap","max"} starts a new execution.                                            *)
EXTENDS Naturals, Sequences, TLC, Json, IOUtils
A == INSTANCE StreamContract
TraceLog == ndJsonDeserialize(IOEnv.TRACE)
VARIABLES l, m
vars == <<l, m>>
Init == l = 1 /\ m = A!MInit(1, 1)
Next == /\ l <= Len(TraceLog)
        /\ l' = l + 1
        /\ LET e == TraceLog[l] IN
           m' = IF e.k = "init" THEN A!MInit(e.cap, e.max) ELSE A!MStep(m, e)
Spec == Init /\ [][Next]_vars
OkC02 == m.ok
OkC09 == m.ok09
=============================================================================
