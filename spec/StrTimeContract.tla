-------------------------- MODULE StrTimeContract --------------------------
(* Layer A for C13: what a rendered timestamp must be. An abstract calendar (seconds relative to a base     *)
(* that is a UTC midnight, so TLC's 32-bit integers suffice), a zone given as a transition table generated *)
(* from the tz database, the reference fields of an instant in GMT / local time, the exact fractional     *)
(* digits, and the rule which patterns must be rejected.                                                  *)
EXTENDS Integers, Sequences, FiniteSets

\* ---------------------------------------------------------------------------------------- calendar
\* zone = <<entry, ...>> sorted by time; entry = <<from, utcOffset, zid>>; the first entry also covers everything
\* before its `from`; zid identifies the (offset, isdst, abbreviation) triple (what %z / %Z print)
SetMax(S) == CHOOSE x \in S : \A y \in S : y <= x
ZoneAt(zone, t) == zone[SetMax({i \in 1..Len(zone) : i = 1 \/ zone[i][1] <= t})]
\* wall-clock seconds (relative to the base) that the given mode shows at instant t
Wall(mode, zone, t) == IF mode = "gmt" THEN t ELSE t + ZoneAt(zone, t)[2]
Sod(mode, zone, t) == Wall(mode, zone, t) % 86400
H12(h) == IF h % 12 = 0 THEN 12 ELSE h % 12

\* the fields a strftime pattern can show. day stands for every date conversion (they change at local midnight),
\* pm for %p/%P, off and zid for %z/%Z; H M S I k l s are the conversions the formatter patches in place.
Fields(mode, zone, t) ==
  LET sod == Sod(mode, zone, t)
      h == sod \div 3600
      z == ZoneAt(zone, t)
  IN [day |-> Wall(mode, zone, t) \div 86400, pm |-> h >= 12,
      off |-> IF mode = "gmt" THEN 0 ELSE z[2], zid |-> IF mode = "gmt" THEN 0 ELSE z[3],
      H |-> h, M |-> (sod % 3600) \div 60, S |-> sod % 60, I |-> H12(h), k |-> h, l |-> H12(h), s |-> t]
NoFields == [day |-> 0, pm |-> FALSE, off |-> 0, zid |-> 0, H |-> 0, M |-> 0, S |-> 0, I |-> 0, k |-> 0, l |-> 0, s |-> 0]
CoarseOf(f) == [day |-> f.day, pm |-> f.pm, off |-> f.off, zid |-> f.zid]

\* ---------------------------------------------------------------------------------------- fraction
FracWidth(fk) == CASE fk = "ms" -> 3 [] fk = "us" -> 6 [] fk = "ns" -> 9 [] OTHER -> 0
FracValue(fk, ns) == CASE fk = "ms" -> ns \div 1000000 [] fk = "us" -> ns \div 1000 [] OTHER -> ns
Pow10(n) == CASE n = 0 -> 1 [] n = 1 -> 10 [] n = 2 -> 100 [] n = 3 -> 1000 [] n = 4 -> 10000 [] n = 5 -> 100000
              [] n = 6 -> 1000000 [] n = 7 -> 10000000 [] n = 8 -> 100000000 [] OTHER -> 1000000000
\* the zero-padded milli-/micro-/nanosecond fraction, most significant digit first
FracDigits(fk, ns) == [i \in 1..FracWidth(fk) |-> (FracValue(fk, ns) \div Pow10(FracWidth(fk) - i)) % 10]

\* ---------------------------------------------------------------------------------------- pattern validity
\* a pattern as a sequence of token kinds; "ms" "us" "ns" are the fractional specifiers, "X" is %X
FracKinds == {"ms", "us", "ns"}
NFrac(ks) == Cardinality({i \in DOMAIN ks : ks[i] \in FracKinds})
MustReject(ks) == NFrac(ks) > 1 \/ \E i \in DOMAIN ks : ks[i] = "X"
=============================================================================
