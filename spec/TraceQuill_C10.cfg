SPECIFICATION Spec
INVARIANT Ok10
CHECK_DEADLOCK FALSE
