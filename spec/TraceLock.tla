------------------------------ MODULE TraceLock ------------------------------
(* Trace validation for the registry lock (part of C17: "acquire/release spinlock around registry access"): executions  *)
(* of the real detail::Spinlock recorded by harness/h_lock (shim atomic with the release/acquire model, coroutine        *)
(* threads, happens-before race detector on the protected datum). Contract: at most one holder at any time; no access   *)
(* to the protected registry races with another; no update is lost. A line {"e":"init"} starts a new execution.         *)
EXTENDS Integers, Sequences, TLC, Json, IOUtils
TraceLog == ndJsonDeserialize(IOEnv.TRACE)
VARIABLES l, m
vars == <<l, m>>
M0 == [holders |-> 0, writes |-> 0, last |-> 0, ok |-> TRUE, why |-> ""]
Fail(x, why) == IF x.ok THEN [x EXCEPT !.ok = FALSE, !.why = why] ELSE x
Check(x, cond, why) == IF cond THEN x ELSE Fail(x, why)
MStep(x, e) ==
  CASE e.e = "acquired" -> Check([x EXCEPT !.holders = x.holders + 1], x.holders = 0 /\ e.holders = 1, "two holders of the registry lock")
    [] e.e = "releasing" -> [x EXCEPT !.holders = x.holders - 1]
    [] e.e = "read" -> Check(Check(x, ~e.race, "registry read races with a write of another thread"),
                             e.v = x.last, "registry read does not see the last update")
    [] e.e = "write" -> Check([x EXCEPT !.writes = x.writes + 1, !.last = e.v], ~e.race /\ e.v = x.last + 1,
                              "registry write races with another access, or an update was lost")
    [] e.e = "end" -> Check(x, e.data = x.writes, "updates of the registry were lost")
    [] OTHER -> x
Init == l = 1 /\ m = M0
Next == /\ l <= Len(TraceLog) /\ l' = l + 1
        /\ LET e == TraceLog[l] IN m' = IF e.e = "init" THEN M0 ELSE MStep(m, e)
Spec == Init /\ [][Next]_vars
Ok == m.ok
=============================================================================
