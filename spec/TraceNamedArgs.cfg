SPECIFICATION Spec
INVARIANTS Conforms OracleOK
CHECK_DEADLOCK FALSE
