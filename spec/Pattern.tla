------------------------------ MODULE Pattern ------------------------------
(* Layer I for C12: PatternFormatter / the backend's line splitting, transcribed, next to the      *)
(* contract (PatternContract instantiated on symbol sequences).                                     *)
(*   Rewrite     = PatternFormatter::_generate_fmt_format_string  (find-driven in-place replacement, *)
(*                 order_index slot table, "unused attributes go to the last slot", the bitset)      *)
(*   SetPattern  = PatternFormatter::_set_pattern  (_set_arg<I> for all attributes)                  *)
(*   FormatI     = PatternFormatter::format        (fill only the attributes present, message always, *)
(*                 then fmt::vformat_to on the rewritten string; Fmt = the part of fmt that is used)  *)
(*   MultiLine / Single / Dispatch = BackendWorker::_process_multi_line_message and the else branch   *)
(*                 of _dispatch_transit_event_to_sinks;  RuntimeMeta = _apply_runtime_metadata        *)
(*   SinkLoop / PieceLoop = BackendWorker::_write_log_statement (per-sink override pattern formatter)  *)
(*   Md*         = MacroMetadata (positions computed from "path:line")                               *)
(* Patterns are sequences over a small symbol alphabet; an attribute NAME is one symbol. Values are  *)
(* sequences of value tokens of known length. TLC builds every pattern of <= MaxItems items          *)
(* (Phase "pattern"), every message over {char, newline} of <= MaxMsg symbols (Phase "message") and  *)
(* every source location of <= MaxSrc symbols (Phase "source") and checks the invariants below; with *)
(* Export it prints every case for replay on the real code.                                          *)
(* The three attribute tables (enum Attribute, the name->enum map of _attribute_from_string and the  *)
(* order of the named arguments handed to _generate_fmt_format_string) are CONSTANTS extracted from  *)
(* the compiled code by the harness, not typed in.                                                   *)
EXTENDS Integers, Sequences, FiniteSets, TLC, Json, IOUtils
CONSTANTS Phase,       \* "pattern" | "message" | "source"
          Attrs,       \* attribute names this configuration builds items from (a rotating subset)
          Subsets,     \* the attributes of one pattern must fit into one of these sets (rotating subsets:
                       \* every pair of attributes meets, in both orders, without the full product)
          MaxItems, LitSyms, SpecIds, WithBraces, WithUnknown, WithOpen, MaxMsg, MaxSrc, Export
\* extracted from the compiled code by `h_fmt_pattern extract` (one JSON line; TLC config files cannot hold tuples)
Extracted == ndJsonDeserialize(IOEnv.C12_CONSTS)[1]
EnumOrder == Extracted.enum_order   \* names in the order of enum PatternFormatter::Attribute
MapOrder == Extracted.map_order     \* names ordered by the value _attribute_from_string returns
ArgOrder == Extracted.arg_order     \* names ordered by the id of the fmt named-arg table (_store_named_args)
VARIABLES p,           \* pattern: sequence of items
          msg,         \* message: sequence over {"c", "\n"}
          src          \* source location: sequence over {"d", "/", ":", "7"}
vars == <<p, msg, src>>

TupTxt(k) == <<k>>
C == INSTANCE PatternContract WITH
       Pct <- <<"%">>, LP <- <<"(">>, RP <- <<")">>, Colon <- <<":">>, LB <- <<"{">>, RB <- <<"}">>,
       NLc <- <<"\n">>, Slash <- <<"/">>, Space <- <<" ">>, Empty <- <<>>,
       AlLeft <- <<"<">>, AlRight <- <<">">>, AlCenter <- <<"^">>,
       Digits <- << <<"0">>, <<"1">>, <<"2">>, <<"3">>, <<"4">>, <<"5">>, <<"6">>, <<"7">>, <<"8">>, <<"9">> >>,
       ColonSp <- <<":", " ">>, CommaSp <- <<",", " ">>, Txt <- TupTxt

NR == Len(EnumOrder)                         \* ATTR_NR_ITEMS
IndexIn(seq, a) == CHOOSE i \in 1..Len(seq) : seq[i] = a
AllNames == {EnumOrder[i] : i \in 1..NR}
EnumNumF == [a \in AllNames |-> IndexIn(EnumOrder, a) - 1]
MapValF == [a \in AllNames |-> IndexIn(MapOrder, a) - 1]
ArgIdF == [a \in {ArgOrder[i] : i \in 1..Len(ArgOrder)} |-> IndexIn(ArgOrder, a) - 1]
EnumNum(a) == EnumNumF[a]                     \* numeric value of Attribute::<a>
MapVal(a) == MapValF[a]                       \* what _attribute_from_string(a) returns
IsArgName(n) == n \in DOMAIN ArgIdF
ArgId(a) == ArgIdF[a]                         \* named_args[i].id for the entry whose name is a

(* ------------------------------------------------------------------ pattern items and their text *)
SpecSyms == << <<":", "<", "4">>, <<":", "*", ">", "5">>, <<":", "^", "6">>, <<":", "3">>, <<":">>,
               <<":", "%", "<", "4">>, <<":", ":", "^", "5">> >>
FlatItem(it) ==
  CASE it.t = "lit" -> <<it.s>>
    [] it.t = "brace" -> <<it.s, it.s>>                     \* escaped brace: fmt syntax in literal text
    [] it.t = "attr" -> (<<"%", "(", it.a>> \o (IF it.sp = 0 THEN <<>> ELSE SpecSyms[it.sp])) \o <<")">>
    [] it.t = "unk" -> (<<"%", "(", "bogus">> \o (IF it.sp = 0 THEN <<>> ELSE SpecSyms[it.sp])) \o <<")">>
    [] it.t = "open" -> <<"%", "(", it.a>>                    \* never closed (unless a later ")" closes it)
RECURSIVE Flat(_)
Flat(items) == IF items = <<>> THEN <<>> ELSE FlatItem(Head(items)) \o Flat(Tail(items))

(* ------------------------------------------------------------------ abstract statement values     *)
\* lengths 0..6, below and above the widths used; "time" has the length of a "%S" timestamp
VLen(a) == IF a = "time" THEN 2 ELSE (EnumNum(a) * 3) % 7
Val(a) == [i \in 1..VLen(a) |-> "V_" \o a]
SrcFixed == <<"d", "/", "e", "/", "f", "g", ":", "7", "8">>
PairsFixed == << << <<"K">>, <<"W">> >>, << <<"L">>, <<>> >> >>
MsgFixed == Val("message")
\* the statement as supplied by the caller (contract side: record b of PatternContract!AllVals)
Base(m, s, fn) == [time |-> Val("time"), caller_function |-> fn, log_level |-> Val("log_level"),
                   log_level_short_code |-> Val("log_level_short_code"), logger |-> Val("logger"),
                   thread_id |-> Val("thread_id"), thread_name |-> Val("thread_name"),
                   process_id |-> Val("process_id"), source_location |-> s, message |-> m,
                   tags |-> Val("tags"), named |-> PairsFixed]

(* ------------------------------------------------------------------ MacroMetadata                 *)
\* _calc_colon_separator_pos: rfind(':'), 0-based; _calc_file_name_pos: index after the last '/'
MdColon(s) == LET P == {i \in 1..Len(s) : s[i] = ":"} IN IF P = {} THEN -1 ELSE C!MaxOf(P) - 1
RECURSIVE MdFileLoop(_, _, _)
MdFileLoop(s, i, file) == IF i > Len(s) THEN file ELSE MdFileLoop(s, i + 1, IF s[i] = "/" THEN i ELSE file)
MdFilePos(s) == MdFileLoop(s, 1, 0)           \* 0-based position of the file name
Sub0(s, pos, n) == SubSeq(s, pos + 1, pos + n) \* std::string::substr / string_view{ptr + pos, n}
MdLine(s) == Sub0(s, MdColon(s) + 1, Len(s) - MdColon(s) - 1)
MdFullPath(s) == Sub0(s, 0, MdColon(s))
MdFileName(s) == Sub0(s, MdFilePos(s), MdColon(s) - MdFilePos(s))
MdShort(s) == Sub0(s, MdFilePos(s), Len(s) - MdFilePos(s))

\* PatternFormatter::format: named args joined as "k: v, k: v"
RECURSIVE NamedText(_, _)
NamedText(ps, i) == IF i > Len(ps) THEN <<>>
                    ELSE ((ps[i][1] \o <<":", " ">>) \o ps[i][2])
                         \o (IF i # Len(ps) THEN <<",", " ">> ELSE <<>>) \o NamedText(ps, i + 1)

\* what format() reads for each attribute (implementation side)
ImplVal(a, b) ==
  CASE a = "file_name" -> MdFileName(b.source_location)
    [] a = "full_path" -> MdFullPath(b.source_location)
    [] a = "line_number" -> MdLine(b.source_location)
    [] a = "source_location" -> b.source_location
    [] a = "short_source_location" -> MdShort(b.source_location)
    [] a = "named_args" -> NamedText(b.named, 1)
    [] OTHER -> b[a]

(* ------------------------------------------------------------------ _generate_fmt_format_string   *)
\* std::string::find_first_of(c, from) with 0-based positions; -1 = npos
Find0(s, c, from) == LET P == {i \in (from + 1)..Len(s) : s[i] = c} IN IF P = {} THEN -1 ELSE C!MinOf(P) - 1
Replace0(s, pos, n, by) == (SubSeq(s, 1, pos) \o by) \o SubSeq(s, pos + n + 1, Len(s))

RECURSIVE Rw(_, _, _, _, _)
Rw(s, pos, order, isset, argidx) ==
  IF pos = -1 THEN [rej |-> FALSE, why |-> "", fmt |-> s, order |-> order, isset |-> isset]
  ELSE LET open == Find0(s, "(", pos) IN
    IF open # -1 /\ open - pos = 1
    THEN LET close == Find0(s, ")", open) IN
      IF close = -1 THEN [rej |-> TRUE, why |-> "unterminated", fmt |-> s, order |-> order, isset |-> isset]
      ELSE LET attr == Sub0(s, pos, close + 1 - pos)
               col == Find0(attr, ":", 0)
               name == IF col # -1 THEN Sub0(attr, 2, col - 2) ELSE Sub0(attr, 2, Len(attr) - 3)
               by == IF col # -1 THEN (<<"{">> \o Sub0(attr, col, Len(attr) - col - 1)) \o <<"}">> ELSE <<"{", "}">>
               s2 == Replace0(s, pos, Len(attr), by)
           IN IF ~(Len(name) = 1 /\ IsArgName(name[1]))
              THEN [rej |-> TRUE, why |-> "unknown", fmt |-> s2, order |-> order, isset |-> isset]
              ELSE Rw(s2, Find0(s2, "%", 0),
                      [order EXCEPT ![ArgId(name[1])] = argidx],       \* order_index[id] = arg_idx++
                      isset \cup {MapVal(name[1])},                    \* is_set_in_pattern.set(enum)
                      argidx + 1)
    ELSE Rw(s, Find0(s, "%", pos + 1), order, isset, argidx)

Rewrite(pat) ==
  LET s == pat \o <<"\n">> IN                              \* pattern += "\n"
  Rw(s, Find0(s, "%", 0), [i \in 0..(NR - 1) |-> NR - 1], {}, 0)

(* ------------------------------------------------------------------ fmt::vformat_to (what is used) *)
RECURSIVE WNum(_)
WNum(w) == IF w = <<>> THEN 0
           ELSE 10 * WNum(SubSeq(w, 1, Len(w) - 1)) + (CHOOSE d \in 0..9 : ToString(d) = w[Len(w)])
FmtSpec(sp) ==        \* fmt's parse_format_specs for a string argument: [[fill]align][width]
  LET n == Len(sp)
      isal(c) == c \in {"<", ">", "^"}
      two == n >= 2 /\ isal(sp[2])
      one == ~two /\ n >= 1 /\ isal(sp[1])
      w == SubSeq(sp, IF two THEN 3 ELSE IF one THEN 2 ELSE 1, n)
      dig == {"0", "1", "2", "3", "4", "5", "6", "7", "8", "9"}
      ok == (\A i \in 1..Len(w) : w[i] \in dig) /\ (Len(w) > 0 => w[1] # "0") /\ (two => sp[1] \notin {"{", "}"})
  IN [ok |-> ok,
      fill |-> IF two THEN sp[1] ELSE " ",
      align |-> IF two THEN sp[2] ELSE IF one THEN sp[1] ELSE "<",
      width |-> IF ok THEN WNum(w) ELSE 0]
FmtPad(v, sp) ==
  LET d == sp.width - Len(v)
      fillN(k) == [i \in 1..k |-> sp.fill]
  IN IF d <= 0 THEN v
     ELSE IF sp.align = "<" THEN v \o fillN(d)
     ELSE IF sp.align = ">" THEN fillN(d) \o v
     ELSE (fillN(d \div 2) \o v) \o fillN(d - (d \div 2))

FmtErr == [err |-> TRUE, out |-> <<>>]
Prep(x, r) == IF r.err THEN r ELSE [err |-> FALSE, out |-> x \o r.out]
RECURSIVE Fmt(_, _, _, _)
Fmt(f, i, next, args) ==       \* i: 1-based scan position, next: automatic argument index (0-based)
  IF i > Len(f) THEN [err |-> FALSE, out |-> <<>>]
  ELSE IF f[i] = "{" THEN
         IF i < Len(f) /\ f[i + 1] = "{" THEN Prep(<<"{">>, Fmt(f, i + 2, next, args))
         ELSE LET close == Find0(f, "}", i) IN
              IF close = -1 \/ next >= NR THEN FmtErr
              ELSE LET inner == SubSeq(f, i + 1, close) IN
                   IF inner = <<>> THEN Prep(args[next], Fmt(f, close + 2, next + 1, args))
                   ELSE IF inner[1] # ":" THEN FmtErr
                   ELSE LET sp == FmtSpec(Tail(inner)) IN
                        IF ~sp.ok THEN FmtErr ELSE Prep(FmtPad(args[next], sp), Fmt(f, close + 2, next + 1, args))
  ELSE IF f[i] = "}" THEN
         IF i < Len(f) /\ f[i + 1] = "}" THEN Prep(<<"}">>, Fmt(f, i + 2, next, args)) ELSE FmtErr
  ELSE Prep(<<f[i]>>, Fmt(f, i + 1, next, args))

(* ------------------------------------------------------------------ _set_pattern and format        *)
\* the order of the _set_arg<Attribute::X> calls in _set_pattern
SetArgBody == <<"time", "file_name", "caller_function", "log_level", "log_level_short_code", "line_number",
                "logger", "full_path", "thread_id", "thread_name", "process_id", "source_location",
                "short_source_location", "message", "tags", "named_args">>
\* the order of the "if (_is_set_in_pattern[X]) _set_arg_val<X>(...)" blocks in format(); message is unconditional
FormatBody == <<"time", "file_name", "caller_function", "log_level", "log_level_short_code", "line_number",
                "logger", "full_path", "thread_id", "thread_name", "process_id", "source_location",
                "short_source_location", "named_args", "tags">>
RECURSIVE SetArgs(_, _, _)
SetArgs(args, i, order) ==    \* _args[_order_index[I]] = name placeholder
  IF i > Len(SetArgBody) THEN args
  ELSE SetArgs([args EXCEPT ![order[EnumNum(SetArgBody[i])]] = <<"P_" \o SetArgBody[i]>>], i + 1, order)
RECURSIVE FillArgs(_, _, _, _)
FillArgs(args, i, rw, b) ==
  IF i > Len(FormatBody) THEN args
  ELSE LET a == FormatBody[i] IN
       FillArgs(IF EnumNum(a) \in rw.isset THEN [args EXCEPT ![rw.order[EnumNum(a)]] = ImplVal(a, b)] ELSE args,
                i + 1, rw, b)
\* format(): returns [err, out]; out is the returned string_view
FormatI(pat, rw, b) ==
  IF pat = <<>> THEN [err |-> FALSE, out |-> <<>>]           \* empty pattern: no formatting at all
  ELSE LET a0 == SetArgs([i \in 0..(NR - 1) |-> <<"P_none">>], 1, rw.order)
           a1 == FillArgs(a0, 1, rw, b)
           a2 == [a1 EXCEPT ![rw.order[EnumNum("message")]] = b.message]
       IN Fmt(rw.fmt, 1, 0, a2)

(* ------------------------------------------------------------------ backend: lines of a statement  *)
RECURSIVE MLoop(_, _)
MLoop(m, start) ==
  IF ~(start < Len(m)) THEN <<>>
  ELSE LET end == Find0(m, "\n", start) IN
       IF end = -1 THEN << Sub0(m, start, Len(m) - start) >>
       ELSE << Sub0(m, start, end - start) >> \o MLoop(m, end + 1)
MultiLine(m) == IF m = <<>> THEN << <<>> >> ELSE MLoop(m, 0)
Single(m) == IF Len(m) > 0 /\ m[Len(m)] = "\n" THEN SubSeq(m, 1, Len(m) - 1) ELSE m
Dispatch(multi, named, m) == IF multi /\ ~named THEN MultiLine(m) ELSE << Single(m) >>

\* _apply_runtime_metadata: the formatted message is  msg SEP file SEP line SEP function
RtJoin(m, file, line, fn) == ((((((m \o <<"SEP">>) \o file) \o <<"SEP">>) \o line) \o <<"SEP">>) \o fn)
RuntimeMeta(full) ==
  LET d1 == Find0(full, "SEP", 0)
      d2 == Find0(full, "SEP", d1 + 1)
      d3 == Find0(full, "SEP", d2 + 1)
  IN [message |-> Sub0(full, 0, d1),
      fileline |-> (Sub0(full, d1 + 1, d2 - d1 - 1) \o <<":">>) \o Sub0(full, d2 + 1, d3 - d2 - 1),
      function |-> Sub0(full, d3 + 1, Len(full) - d3 - 1)]

\* the statements the sink receives for one statement (sequence of formatted lines), or "err"
RECURSIVE MapFormat(_, _, _, _, _)
MapFormat(pat, rw, b, pieces, i) ==
  IF i > Len(pieces) THEN <<>>
  ELSE << FormatI(pat, rw, [b EXCEPT !.message = pieces[i]]) >> \o MapFormat(pat, rw, b, pieces, i + 1)
SinkOuts(pat, b, multi, named) ==
  LET rw == Rewrite(pat)
      fs == MapFormat(pat, rw, b, Dispatch(multi, named, b.message), 1)
  IN [err |-> rw.rej \/ (\E i \in 1..Len(fs) : fs[i].err), outs |-> [i \in 1..Len(fs) |-> fs[i].out]]

\* _write_log_statement for a logger with several sinks: for every piece the logger's formatter produces
\* log_statement once; then PER SINK  log_to_write = log_statement, replaced by the sink's own formatter when the
\* sink has override_pattern_formatter_options.  sinks: sequence of [ov |-> has override, pat |-> its pattern].
RECURSIVE SinkLoop(_, _, _, _)
SinkLoop(sinks, i, stmt, b) ==       \* what each sink is handed for one piece: sequence of [err, out]
  IF i > Len(sinks) THEN <<>>
  ELSE LET log_to_write == IF ~sinks[i].ov THEN stmt
                           ELSE LET rwo == Rewrite(sinks[i].pat) IN
                                IF rwo.rej THEN FmtErr ELSE FormatI(sinks[i].pat, rwo, b)
       IN << log_to_write >> \o SinkLoop(sinks, i + 1, stmt, b)
RECURSIVE PieceLoop(_, _, _, _, _, _)
PieceLoop(pat, rw, b, pieces, i, sinks) ==
  IF i > Len(pieces) THEN <<>>
  ELSE LET bp == [b EXCEPT !.message = pieces[i]] IN
       << SinkLoop(sinks, 1, FormatI(pat, rw, bp), bp) >> \o PieceLoop(pat, rw, b, pieces, i + 1, sinks)
\* per sink: [err, outs]
PerSinkOuts(pat, b, multi, named, sinks) ==
  LET rw == Rewrite(pat)
      rows == PieceLoop(pat, rw, b, Dispatch(multi, named, b.message), 1, sinks)
  IN [k \in 1..Len(sinks) |-> [err |-> rw.rej \/ (\E i \in 1..Len(rows) : rows[i][k].err),
                                outs |-> [i \in 1..Len(rows) |-> rows[i][k].out]]]

(* ------------------------------------------------------------------ the state machine: case builder *)
Used(a) == \E i \in 1..Len(p) : p[i].t \in {"attr", "open"} /\ p[i].a = a
MsgPatterns == { << [t |-> "attr", a |-> "message", sp |-> 0] >>,
                 << [t |-> "lit", s |-> "x"], [t |-> "attr", a |-> "logger", sp |-> 0], [t |-> "lit", s |-> ":"],
                    [t |-> "attr", a |-> "message", sp |-> 2], [t |-> "lit", s |-> "x"] >>,
                 << [t |-> "attr", a |-> "short_source_location", sp |-> 0], [t |-> "lit", s |-> "x"],
                    [t |-> "attr", a |-> "caller_function", sp |-> 0] >>,
                 << [t |-> "attr", a |-> "message", sp |-> 0], [t |-> "lit", s |-> "x"],
                    [t |-> "attr", a |-> "named_args", sp |-> 0] >> }
Init == /\ p \in (IF Phase = "message" THEN MsgPatterns ELSE {<<>>})
        /\ msg = <<>>
        /\ src = <<>>

UsedSet == {p[i].a : i \in {j \in 1..Len(p) : p[j].t \in {"attr", "open"}}}
Fits(a) == ~Used(a) /\ \E S \in Subsets : (UsedSet \cup {a}) \subseteq S
Add(it) == Phase = "pattern" /\ Len(p) < MaxItems /\ p' = Append(p, it) /\ UNCHANGED <<msg, src>>
ALit == LitSyms # {} /\ \E s \in LitSyms : Add([t |-> "lit", s |-> s])
ABrace == WithBraces /\ \E s \in {"{", "}"} : Add([t |-> "brace", s |-> s])
AAttr == \E a \in Attrs : Fits(a) /\ Add([t |-> "attr", a |-> a, sp |-> 0])
AAttrSpec == \E a \in Attrs, k \in SpecIds : Fits(a) /\ Add([t |-> "attr", a |-> a, sp |-> k])
AUnknown == WithUnknown /\ \E k \in {0, 1} : Add([t |-> "unk", sp |-> k])
AOpen == WithOpen /\ \E a \in Attrs : Fits(a) /\ Add([t |-> "open", a |-> a])
AMsgSym == /\ Phase = "message" /\ Len(msg) < MaxMsg
           /\ \E c \in {"c", "\n"} : msg' = Append(msg, c)
           /\ UNCHANGED <<p, src>>
ASrcSym == /\ Phase = "source" /\ Len(src) < MaxSrc
           /\ \E c \in {"d", "/", ":", "7"} : src' = Append(src, c)
           /\ UNCHANGED <<p, msg>>
Next == ALit \/ ABrace \/ AAttr \/ AAttrSpec \/ AUnknown \/ AOpen \/ AMsgSym \/ ASrcSym
Spec == Init /\ [][Next]_vars

(* ------------------------------------------------------------------ what TLC checks                *)
BaseFixed == Base(MsgFixed, SrcFixed, Val("caller_function"))
ValsFixed == C!AllVals(BaseFixed)

\* The three pattern-phase properties take the shared intermediate results as (lazily evaluated) parameters:
\*   f = text of the pattern, it = the contract's reading of f, rw = Rewrite(f), r = FormatI(f, rw, BaseFixed)

\* C12, first sentence + rejection clause, for every pattern built: the transcription does what the contract says
PatternOKx(f, it, rw, r) ==
  /\ C!MustRejectI(it) => rw.rej
  /\ C!ValidI(f, it) => (~rw.rej /\ ~r.err /\ r.out = C!Subst(it, 1, ValsFixed) \o <<"\n">>)

\* the contract's reading of the grammar agrees with how the pattern was put together, wherever the item
\* sequence is the unique reading of its own text (no unterminated item, no literal "%" before a literal "(")
Canonical == /\ \A i \in 1..Len(p) : p[i].t # "open"
             /\ \A i \in 1..(Len(p) - 1) : ~(p[i].t = "lit" /\ p[i].s = "%" /\ p[i + 1].t = "lit" /\ p[i + 1].s = "(")
ItemText(it, esc) ==
  CASE it.t = "lit" -> <<it.s>>
    [] it.t = "brace" -> IF esc THEN <<it.s>> ELSE <<it.s, it.s>>
    [] it.t = "attr" -> LET v == ValsFixed[it.a] IN
                        IF it.sp = 0 THEN v ELSE C!Pad(v, C!SpecOf(Tail(SpecSyms[it.sp])))
RECURSIVE ItemRef(_, _, _)
ItemRef(items, i, esc) == IF i > Len(items) THEN <<>> ELSE ItemText(items[i], esc) \o ItemRef(items, i + 1, esc)
NoUnk == \A i \in 1..Len(p) : p[i].t # "unk"
NoBraceItem == \A i \in 1..Len(p) : p[i].t # "brace"
GrammarOKx(f, it) ==
  Canonical =>
    /\ C!MustRejectI(it) <=> ~NoUnk
    /\ (NoUnk /\ NoBraceItem /\ p # <<>>) => (C!ValidI(f, it) /\ C!Subst(it, 1, ValsFixed) = ItemRef(p, 1, FALSE))

\* model only (outside the contract's domain): escaped braces in literal text come out as single braces
EscapesOKx(r) ==
  (Canonical /\ NoUnk /\ p # <<>>) => (~r.err /\ r.out = ItemRef(p, 1, TRUE) \o <<"\n">>)

PatternOK == Phase = "pattern" => LET f == Flat(p)  it == C!Items(f, 1)  rw == Rewrite(f)
                                  IN PatternOKx(f, it, rw, FormatI(f, rw, BaseFixed))
GrammarOK == Phase = "pattern" => LET f == Flat(p) IN GrammarOKx(f, C!Items(f, 1))
EscapesOK == Phase = "pattern" => LET f == Flat(p) IN EscapesOKx(FormatI(f, Rewrite(f), BaseFixed))
\* the conjunction of the three with the intermediate results shared (what the configurations check)
AllPatternOK ==
  Phase = "pattern" =>
    LET f == Flat(p)
        it == C!Items(f, 1)
        rw == Rewrite(f)
        r == FormatI(f, rw, BaseFixed)
    IN PatternOKx(f, it, rw, r) /\ GrammarOKx(f, it) /\ EscapesOKx(r)

\* C12, second sentence: lines of a multi-line message in both modes, compile-time and runtime metadata
LinesOK ==
  Phase = "message" =>
    LET f == Flat(p) IN
    \A multi \in BOOLEAN, named \in BOOLEAN, rt \in BOOLEAN :
      LET file == <<"d", "/", "f">>
          line == <<"7">>
          fn == Val("caller_function")
          rm == RuntimeMeta(RtJoin(msg, file, line, fn))
          bI == IF rt THEN Base(rm.message, rm.fileline, rm.function) ELSE Base(msg, SrcFixed, fn)
          bC == IF rt THEN Base(msg, (file \o <<":">>) \o line, fn) ELSE Base(msg, SrcFixed, fn)
          so == SinkOuts(f, bI, multi, named)
      IN ~so.err /\ so.outs \in C!AllowedOuts(f, C!AllVals(bC), multi, named)

\* C12 per sink: every sink of a logger is handed the line of ITS effective pattern (the logger's pattern, or the
\* sink's override pattern), whatever sinks were served before it; every arrangement of 1..3 sinks out of
\* {plain, override A, override B}, both modes, multi-line messages
OvA == Flat(<< [t |-> "lit", s |-> "x"], [t |-> "attr", a |-> "message", sp |-> 0], [t |-> "lit", s |-> "%"],
               [t |-> "attr", a |-> "log_level", sp |-> 1] >>)
OvB == Flat(<< [t |-> "attr", a |-> "thread_name", sp |-> 0], [t |-> "lit", s |-> ":"] >>)
SinkArrangements == {s \in UNION {[1..n -> {"plain", "A", "B"}] : n \in 1..3} : \A i, j \in DOMAIN s : s[i] = s[j] => i = j}
SinksOK ==
  Phase = "message" =>
    LET f == Flat(p)
        b == Base(msg, SrcFixed, Val("caller_function"))
        eff(k) == IF k = "plain" THEN f ELSE IF k = "A" THEN OvA ELSE OvB
    IN \A multi \in BOOLEAN, named \in BOOLEAN, arr \in SinkArrangements :
         LET sinks == [i \in DOMAIN arr |-> [ov |-> arr[i] # "plain", pat |-> eff(arr[i])]]
             ps == PerSinkOuts(f, b, multi, named, sinks)
         IN \A k \in DOMAIN arr :
              ~ps[k].err /\ ps[k].outs \in C!AllowedOuts(eff(arr[k]), C!AllVals(b), multi, named)

\* the model's line splitting is exactly: split mode -> the contract's lines; whole mode -> one newline stripped
SplitExact ==
  Phase = "message" => /\ MultiLine(msg) = C!MsgLines(msg)
                       /\ Single(msg) = C!Strip1(msg)

\* MacroMetadata: file name / line / path derived from "path:line"
MetaOK ==
  (Phase = "source" /\ C!WellFormedSrc(src)) =>
    /\ MdFullPath(src) = C!FullPath(src)
    /\ MdLine(src) = C!LineNo(src)
    /\ MdFileName(src) = C!FileName(src)
    /\ MdShort(src) = C!ShortLoc(src)

(* ------------------------------------------------------------------ export for replay              *)
CaseOf ==
  IF Phase = "pattern"
  THEN LET f == Flat(p')
           rw == Rewrite(f)
           r == IF rw.rej THEN FmtErr ELSE FormatI(f, rw, BaseFixed)
           last == p'[Len(p')]
       IN [ph |-> "p", flat |-> f, rej |-> rw.rej, why |-> rw.why, err |-> r.err, out |-> r.out,
           valid |-> C!Valid(f), must |-> C!MustReject(f),
           act |-> IF last.t = "attr" /\ last.sp # 0 THEN "attr+spec" ELSE last.t]   \* which action built it
  ELSE IF Phase = "message"
  THEN [ph |-> "m", flat |-> Flat(p'), msg |-> msg',
        split |-> MultiLine(msg'), single |-> Single(msg')]
  ELSE [ph |-> "s", src |-> src', wf |-> C!WellFormedSrc(src')]
ExportA == Export => PrintT("BEH " \o ToJson(CaseOf))
\* the abstract statement the cases are evaluated with (printed once, for the replay driver)
ASSUME Export => PrintT("HDR " \o ToJson([vlen |-> [a \in AllNames |-> VLen(a)], src |-> SrcFixed,
                                           pairs |-> PairsFixed, specs |-> SpecSyms]))
=============================================================================
