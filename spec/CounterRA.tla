------------------------------- MODULE CounterRA -------------------------------
(* The dropped-message counter of a bounded dropping queue under the C++ memory model (C08: "the discard counts         *)
(* reported through the error notifier add up to the number of discarded ordinary log statements").                      *)
(*   logging thread X:  a log call whose statement does not fit: ThreadContext::increment_failure_counter():              *)
(*                      _failure_counter.fetch_add(1, MoInc)                                                  [XLog]      *)
(*   backend, idle branch: _check_failure_counter(): get_and_reset_failure_counter():                                     *)
(*                      if (_failure_counter.load(MoLoad) == 0) return 0;                                     [BLoad]     *)
(*                      return _failure_counter.exchange(0, MoReset);   -> "Dropped N log messages"          [BReset]    *)
(* The counter is a history of messages; a load may read any message not older than the reader's view; a read-modify-     *)
(* write reads the LAST message (that is what makes the counts add up, whatever the memory orders). Whether the reset is   *)
(* a read-modify-write (ResetIsRmw) is EXTRACTED from the code, like the orders and the number of statements that fit      *)
(* (harness/h_stop -DHSTOP_DROP in fine-grained mode: the REAL backend thread and REAL log calls parked at every access    *)
(* of the counter). The backend reaches its idle branch only with an empty queue, and a statement is dropped only into a   *)
(* full one: X fills the queue (Fit statements) while the backend is parked in the idle branch.                            *)
EXTENDS Integers, Sequences, FiniteSets, TLC, Json
CONSTANTS MaxLogs, Fit, MoInc, MoLoad, MoReset, ResetIsRmw, Export
VARIABLES C, viewB, pubC, qn, nlog, drops, reported, pcB, seen, hist
vars == <<C, viewB, pubC, qn, nlog, drops, reported, pcB, seen, hist>>
Init == C = <<0>> /\ viewB = 1 /\ pubC = 1 /\ qn = 0 /\ nlog = 0 /\ drops = 0 /\ reported = 0 /\ pcB = "load" /\ seen = 0 /\ hist = <<>>
Step(who, act, arg) == hist' = IF Export THEN Append(hist, [t |-> who, a |-> act, arg |-> arg, pcb |-> pcB', reported |-> reported',
                                                           dropped |-> (drops' > drops)]) ELSE hist
Last == C[Len(C)]
\* (the orders of the counter's own accesses do not matter for the values: nothing is published through it; they are recorded for
\* the evidence.) Happens-before reaches the counter through the QUEUE: a statement that fits is committed with release, after the
\* increments its thread made before (pubC = the newest counter message that commit publishes); the backend acquires the newest
\* commit every time it goes round, so it can no longer read an older counter message.
Max(a, b) == IF a > b THEN a ELSE b
XLog == /\ nlog < MaxLogs /\ nlog' = nlog + 1
        /\ IF qn < Fit THEN qn' = qn + 1 /\ pubC' = Len(C) /\ UNCHANGED <<C, drops>>
           ELSE C' = Append(C, Last + 1) /\ drops' = drops + 1 /\ UNCHANGED <<qn, pubC>>
        /\ UNCHANGED <<viewB, reported, pcB, seen>> /\ Step("X", "log", <<>>)
\* the idle branch's test; zero: the backend goes round (reads and writes everything queued) and comes back to the idle branch
BLoad(i) == /\ pcB = "load" /\ i \in viewB..Len(C)
            /\ IF C[i] = 0 THEN qn' = 0 /\ viewB' = Max(i, pubC) /\ UNCHANGED <<pcB, seen>>
               ELSE pcB' = "reset" /\ seen' = C[i] /\ viewB' = i /\ UNCHANGED qn
            /\ UNCHANGED <<C, pubC, nlog, drops, reported>> /\ Step("B", "load", <<i>>)
BReset == /\ pcB = "reset" /\ pcB' = "load" /\ qn' = 0 /\ seen' = 0
          /\ C' = Append(C, 0) /\ viewB' = Len(C) + 1
          /\ reported' = reported + (IF ResetIsRmw THEN Last ELSE seen)
          /\ UNCHANGED <<nlog, drops, pubC>> /\ Step("B", "reset", <<>>)
Next == XLog \/ (\E i \in 1..Len(C) : BLoad(i)) \/ BReset
Spec == Init /\ [][Next]_vars
\* C08: between two checks of the backend, what was reported plus what the counter still holds is what was dropped
DropsAddUp == pcB = "load" => reported + Last = drops
TypeOK == qn <= Fit /\ reported <= drops
\* liveness: once the thread has stopped logging, a backend that keeps running and eventually reads the newest message reports everything
BLatest == BLoad(Len(C))
FairSpec == Spec /\ WF_vars(BLatest) /\ WF_vars(BReset) /\ WF_vars(XLog)
AllReported == <>[](reported = drops /\ nlog = MaxLogs)
StateView == <<C, viewB, pubC, qn, nlog, drops, reported, pcB, seen>>
ExportA == Export => PrintT("BEH " \o ToJson(hist'))
=============================================================================
