SPECIFICATION Spec
CONSTANTS Caps = {1,2,3}
  MaxOps = 8
  ResetIndex = TRUE
  Export = TRUE
INVARIANTS RingMatchesWindow
VIEW StateView
ACTION_CONSTRAINT ExportA
CHECK_DEADLOCK FALSE
