------------------------------- MODULE Registry -------------------------------
(* Layer I for the lifecycle property (C17): the logger registry (LoggerManager: name-sorted, valid flag, freed by   *)
(* the backend only while every queue and transit buffer is empty), the sink registry (SinkManager: weak references *)
(* by name, an object lives as long as the user or a registered logger holds it, expired entries pruned after a      *)
(* logger removal), remove_logger (asynchronous) and remove_logger_blocking (request through the queue, the caller   *)
(* released when the backend has freed the logger), create_or_get_logger / create_or_get_sink / get_sink by name.    *)
(* One calling thread (t1) and the driver (D); the backend is stepped one poll at a time: a poll that finds work     *)
(* dispatches ONE event, a poll that finds nothing flushes the active sinks and runs the clean-ups.                  *)
(* Every action appends a scheduling step and its contract events (QuillContract vocabulary) to hist.               *)
EXTENDS Integers, Sequences, SequencesExt, FiniteSets, TLC, Json
CONSTANTS SinkNames,       \* set of sink names
          LoggerOrder,     \* sequence of logger names in registry (name) order
          SinkSets,        \* set of sink-name sequences a logger may be created with
          NStmt, NOps, NIdle, MaxGen,   \* bounds: statements, lifecycle operations, idle polls, objects per sink name
          AllowBlocking,   \* remove_logger_blocking may be called
          FailFlush,       \* set of sink names whose flush_sink throws every time (each throw caught and reported per sink)
          Export
VARIABLES held, alive, gen, entries, \* per sink name: user holds a reference, an object exists, objects created so far,
                                     \* entries in the sink registry (live or expired; pruned only after a logger removal)
          lgP, lgV, lgS,             \* per logger name: registered, valid, its sinks (names)
          q,                         \* the queue of t1 and the transit buffer, as one FIFO of records
          hasInval, rmFlag,          \* invalidated-loggers flag; logger -> a blocked caller waits for its removal
          pc, rmL,                   \* t1: "idle" | "rmwait"; the logger it waits for
          wr, nid, nops, nidle, hist
vars == <<held, alive, gen, entries, lgP, lgV, lgS, q, hasInval, rmFlag, pc, rmL, wr, nid, nops, nidle, hist>>
Loggers == {LoggerOrder[i] : i \in 1..Len(LoggerOrder)}
RangeOf(s) == {s[i] : i \in 1..Len(s)}

Init ==
  /\ held = [s \in SinkNames |-> FALSE] /\ alive = [s \in SinkNames |-> FALSE] /\ gen = [s \in SinkNames |-> 0]
  /\ entries = [s \in SinkNames |-> 0]
  /\ lgP = [l \in Loggers |-> FALSE] /\ lgV = [l \in Loggers |-> FALSE] /\ lgS = [l \in Loggers |-> <<>>]
  /\ q = <<>> /\ hasInval = FALSE /\ rmFlag = [l \in Loggers |-> FALSE] /\ pc = "idle" /\ rmL = ""
  /\ wr = [s \in SinkNames |-> <<>>] /\ nid = 0 /\ nops = 0 /\ nidle = 0 /\ hist = <<>>

Step(who, act, arg, evs) ==
  hist' = IF Export THEN hist \o <<[k |-> "step", who |-> who, act |-> act, arg |-> arg]>> \o evs ELSE hist
Op == nops < NOps /\ nops' = nops + 1

\* who still references a sink object: the user, or a registered logger (valid or awaiting its removal)
UsedBy(s, present, sinksOf) == {l \in Loggers : present[l] /\ s \in RangeOf(sinksOf[l])}

\* ------------------------------------------------------------------ sinks by name
CreateSink(s) ==        \* create_or_get_sink on a name without a live object
  /\ Op /\ ~alive[s] /\ gen[s] < MaxGen
  /\ alive' = [alive EXCEPT ![s] = TRUE] /\ held' = [held EXCEPT ![s] = TRUE] /\ gen' = [gen EXCEPT ![s] = @ + 1]
  /\ entries' = [entries EXCEPT ![s] = @ + 1]      \* an expired entry of the same name stays until the next pruning
  /\ wr' = [wr EXCEPT ![s] = <<>>]
  /\ Step("D", "sink", <<s>>, <<[k |-> "sink", s |-> s, lvl |-> 0, tw |-> <<>>, tf |-> IF s \in FailFlush THEN <<1>> ELSE <<>>]>>)
  /\ UNCHANGED <<lgP, lgV, lgS, q, hasInval, rmFlag, pc, rmL, nid, nidle>>

GetSink(s) ==           \* get_sink: found iff an object is alive (weak reference can be locked)
  /\ Op
  /\ Step("D", "getsink", <<s>>, <<[k |-> "sinkget", s |-> s, found |-> alive[s], same |-> alive[s] /\ held[s]]>>)
  /\ UNCHANGED <<held, alive, gen, entries, lgP, lgV, lgS, q, hasInval, rmFlag, pc, rmL, wr, nid, nidle>>

DropSink(s) ==          \* the user gives up its reference; the object dies now unless a registered logger holds it
  /\ Op /\ held[s]
  /\ held' = [held EXCEPT ![s] = FALSE]
  /\ LET dies == UsedBy(s, lgP, lgS) = {} IN
     /\ alive' = [alive EXCEPT ![s] = ~dies]
     /\ Step("D", "dropsink", <<s>>, <<[k |-> "dropsink", s |-> s]>> \o (IF dies THEN <<[k |-> "sinkdestroyed", s |-> s]>> ELSE <<>>))
  /\ UNCHANGED <<gen, entries, lgP, lgV, lgS, q, hasInval, rmFlag, pc, rmL, wr, nid, nidle>>

\* ------------------------------------------------------------------ loggers by name
CreateLogger(l, ss) ==  \* create_or_get_logger: a new logger with these sinks, or the existing valid one unchanged
  /\ Op /\ \A i \in 1..Len(ss) : held[ss[i]]
  /\ (~lgP[l] \/ lgV[l])
  /\ ~(pc = "rmwait" /\ rmL = l)     \* the property promises re-creation only after remove_logger_blocking has returned
  /\ IF lgP[l] THEN UNCHANGED <<lgP, lgV, lgS>>
     ELSE lgP' = [lgP EXCEPT ![l] = TRUE] /\ lgV' = [lgV EXCEPT ![l] = TRUE] /\ lgS' = [lgS EXCEPT ![l] = ss]
  /\ Step("D", "logger", <<l, ss>>, <<[k |-> "logger", lg |-> l, sinks |-> ss, fsinks |-> <<>>, lvl |-> 0, sys |-> TRUE, fresh |-> ~lgP[l]]>>)
  /\ UNCHANGED <<held, alive, gen, entries, q, hasInval, rmFlag, pc, rmL, wr, nid, nidle>>

Log(l) ==
  /\ pc = "idle" /\ nid < NStmt /\ lgP[l] /\ lgV[l]
  /\ nid' = nid + 1 /\ q' = Append(q, [id |-> nid + 1, lg |-> l, rm |-> FALSE])
  /\ Step("t1", "log", <<l, nid + 1>>,
          <<[k |-> "logcall", t |-> "t1", id |-> nid + 1, lg |-> l, lvl |-> 4, kind |-> "direct"],
            [k |-> "ts", t |-> "t1", now |-> 0], [k |-> "commit", t |-> "t1", now |-> 0],
            [k |-> "logret", t |-> "t1", id |-> nid + 1, ret |-> 1, argevals |-> 1]>>)
  /\ UNCHANGED <<held, alive, gen, entries, lgP, lgV, lgS, hasInval, rmFlag, pc, rmL, wr, nops, nidle>>

RemoveLogger(l) ==      \* asynchronous: the logger is marked invalid, the backend frees it later
  /\ Op /\ lgP[l] /\ lgV[l] /\ pc = "idle"
  /\ lgV' = [lgV EXCEPT ![l] = FALSE] /\ hasInval' = TRUE
  /\ Step("D", "remove", <<l>>, <<[k |-> "remove", lg |-> l]>>)
  /\ UNCHANGED <<held, alive, gen, entries, lgP, lgS, q, rmFlag, pc, rmL, wr, nid, nidle>>

RemoveBlockingCall(l) ==  \* the request is enqueued first, then the logger is marked invalid; the caller waits
  /\ AllowBlocking /\ Op /\ lgP[l] /\ lgV[l] /\ pc = "idle"
  /\ q' = Append(q, [id |-> 0, lg |-> l, rm |-> TRUE])
  /\ lgV' = [lgV EXCEPT ![l] = FALSE] /\ hasInval' = TRUE /\ pc' = "rmwait" /\ rmL' = l
  /\ Step("t1", "removeb", <<l>>, <<[k |-> "ctxuse", t |-> "t1"], [k |-> "remove", lg |-> l]>>)
  /\ UNCHANGED <<held, alive, gen, entries, lgP, lgS, rmFlag, wr, nid, nidle>>

RemoveBlockingRet ==
  /\ pc = "rmwait" /\ ~lgP[rmL] /\ pc' = "idle" /\ rmL' = ""
  /\ Step("t1", "removebret", <<rmL>>, <<[k |-> "removebret", lg |-> rmL, n |-> Cardinality({l \in Loggers : lgP[l]})]>>)
  /\ UNCHANGED <<held, alive, gen, entries, lgP, lgV, lgS, q, hasInval, rmFlag, wr, nid, nops, nidle>>

\* ------------------------------------------------------------------ backend
RECURSIVE Uniq(_, _)
Uniq(sq, seen) == IF sq = <<>> THEN <<>>
                  ELSE IF Head(sq) \in seen THEN Uniq(Tail(sq), seen) ELSE <<Head(sq)>> \o Uniq(Tail(sq), seen \cup {Head(sq)})
RECURSIVE CatValid(_)
CatValid(i) == IF i > Len(LoggerOrder) THEN <<>>
               ELSE (IF lgP[LoggerOrder[i]] /\ lgV[LoggerOrder[i]] THEN lgS[LoggerOrder[i]] ELSE <<>>) \o CatValid(i + 1)
ActiveSinks == Uniq(CatValid(1), {})

RECURSIVE FlushEvs(_)
FlushEvs(ss) == IF ss = <<>> THEN <<>>
                ELSE <<[k |-> "sflush", s |-> Head(ss), thr |-> Head(ss) \in FailFlush]>>
                     \o (IF Head(ss) \in FailFlush THEN <<[k |-> "notify", cls |-> "sinkflush", n |-> 0]>> ELSE <<>>) \o FlushEvs(Tail(ss))

BPoll ==
  IF q # <<>>
  THEN LET r == Head(q) IN
       /\ q' = Tail(q)
       /\ IF r.rm
          THEN /\ rmFlag' = [rmFlag EXCEPT ![r.lg] = TRUE] /\ UNCHANGED wr
               /\ Step("B", "poll", <<"work">>, <<>>)
          ELSE /\ wr' = [s \in SinkNames |-> IF s \in RangeOf(lgS[r.lg]) THEN Append(wr[s], r.id) ELSE wr[s]] /\ UNCHANGED rmFlag
               /\ Step("B", "poll", <<"work">>,
                       [i \in 1..Len(lgS[r.lg]) |-> [k |-> "write", s |-> lgS[r.lg][i], id |-> r.id, lvl |-> 4, ts |-> 0, thr |-> FALSE, nnamed |-> 0]])
       /\ UNCHANGED <<held, alive, gen, entries, lgP, lgV, lgS, hasInval, pc, rmL, nid, nops, nidle>>
  ELSE \* idle: flush the sinks of the valid loggers, then free every invalid logger (all queues are empty), then prune
       \* the sink registry; a sink object dies with the last logger that held it unless the user still holds it
       /\ nidle < NIdle /\ nidle' = nidle + 1
       /\ LET gone == IF hasInval THEN {l \in Loggers : lgP[l] /\ ~lgV[l]} ELSE {}
              present2 == [l \in Loggers |-> lgP[l] /\ l \notin gone]
              dead == {s \in SinkNames : alive[s] /\ ~held[s] /\ UsedBy(s, present2, lgS) = {}}
              as == ActiveSinks IN
          /\ lgP' = present2 /\ hasInval' = FALSE
          /\ alive' = [s \in SinkNames |-> alive[s] /\ s \notin dead]
          \* SinkManager::cleanup_unused_sinks runs only when loggers were freed
          /\ entries' = IF gone # {} THEN [s \in SinkNames |-> IF alive[s] /\ s \notin dead THEN 1 ELSE 0] ELSE entries
          /\ rmFlag' = [l \in Loggers |-> rmFlag[l] /\ l \notin gone]
          /\ Step("B", "poll", <<"idle">>,
                  FlushEvs(as)
                  \o [i \in 1..Cardinality(dead) |-> [k |-> "sinkdestroyed", s |-> SetToSeq(dead)[i]]]
                  \o <<[k |-> "loggercount", n |-> Cardinality({l \in Loggers : present2[l]})], [k |-> "quiescent", final |-> FALSE]>>)
       /\ UNCHANGED <<held, gen, lgV, lgS, q, pc, rmL, wr, nid, nops>>

Next == \/ \E s \in SinkNames : CreateSink(s) \/ GetSink(s) \/ DropSink(s)
        \/ \E l \in Loggers : (\E ss \in SinkSets : CreateLogger(l, ss)) \/ Log(l) \/ RemoveLogger(l) \/ RemoveBlockingCall(l)
        \/ RemoveBlockingRet \/ BPoll
Spec == Init /\ [][Next]_vars

\* ------------------------------------------------------------------ properties on the model (C17)
\* a queued record's logger is still registered, and its sinks are alive
NoUseAfterFree == \A i \in 1..Len(q) : lgP[q[i].lg] /\ \A s \in RangeOf(lgS[q[i].lg]) : alive[s]
\* a sink object exists exactly while the user or a registered logger references it
SinkLifetime == \A s \in SinkNames : alive[s] <=> (held[s] \/ UsedBy(s, lgP, lgS) # {})
\* a blocked remove_logger_blocking caller is waiting for a logger that is invalid
BlockedSane == pc = "rmwait" => ~lgV[rmL]
TypeOK == /\ \A l \in Loggers : lgV[l] => lgP[l]
          /\ \A s \in SinkNames : (held[s] => alive[s]) /\ (alive[s] => entries[s] >= 1)

StateView == <<held, alive, gen, entries, lgP, lgV, lgS, q, hasInval, rmFlag, pc, rmL, wr, nid, nops, nidle>>
ExportA == Export => PrintT("BEH " \o ToJson(hist'))
ExportSim == (Export /\ (TLCGet("level") = 40 \/ ~(ENABLED Next)')) => PrintT("BEH " \o ToJson(hist'))
=============================================================================
