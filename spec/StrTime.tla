------------------------------ MODULE StrTime ------------------------------
(* C13, exhaustive model: quill's TimestampFormatter (two StringFromTime caches around a fractional       *)
(* specifier, StrTimeImpl) driven by every sequence of instants drawn from a boundary set, in every        *)
(* scenario (zone transition table + instants, generated from the tz database, read from IOEnv.SCEN),      *)
(* next to the contract (StrTimeContract). TLC checks that no call ever shows a field that differs from   *)
(* the reference for that instant, and exports the sequences for replay on the real code.                 *)
(* A second, static specification (SpecStatic) sweeps the constructor over abstract patterns and the      *)
(* fraction writer over boundary values.                                                                 *)
EXTENDS StrTimeImpl, TLC, Json, IOUtils
CONSTANTS Modes,       \* subset of {"gmt", "local"}
          ShapeSel,    \* "all" / "few": shapes made of patched and unpatched conversions; "opaque": with a composite time conversion (%c)
          MaxLen,      \* bound on the number of calls in a sequence
          MaxPat,      \* bound on the abstract pattern length (static spec)
          FracVals,    \* nanosecond values tried by the static spec
          Export       \* TRUE: print every sequence as JSON (for replay)
\* scenario = [name, zone = <<<<from, off, zid>>, ...>>, inst = <<<<t, ns>>, ...>>, bm = <<bmLocal, bmGmt>>]
Scen == ndJsonDeserialize(IOEnv.SCEN)

VARIABLES sc, mode, shape,   \* scenario index, GmtTime/LocalTime, pattern shape [p1, fk, p2]
          c,                 \* the two StringFromTime caches
          bad,               \* some call showed something else than the reference
          hist,              \* indices of the instants fed so far
          pat, fv            \* static spec only: abstract pattern, nanosecond value
vars == <<sc, mode, shape, c, bad, hist, pat, fv>>

ShapesStd == {[p1 |-> a, fk |-> b[1], p2 |-> b[2]] : a \in {"full", "coarse"},
                 b \in {<<"none", "none">>, <<"ms", "none">>, <<"us", "full">>, <<"ns", "coarse">>}}
ShapesFew == {[p1 |-> "full", fk |-> "ms", p2 |-> "none"], [p1 |-> "coarse", fk |-> "us", p2 |-> "full"]}
ShapesOpaque == {[p1 |-> "opaque", fk |-> "none", p2 |-> "none"], [p1 |-> "full", fk |-> "ms", p2 |-> "opaque"]}

Init == /\ sc \in 1..Len(Scen) /\ mode \in Modes /\ shape \in (CASE ShapeSel = "all" -> ShapesStd [] ShapeSel = "few" -> ShapesFew [] OTHER -> ShapesOpaque)
        /\ c = <<Fresh, Fresh>> /\ bad = FALSE /\ hist = <<>> /\ pat = <<>> /\ fv = 0

Result(i) == LET e == Scen[sc].inst[i] IN FormatTs(c, shape, mode, Scen[sc].zone, Scen[sc].bm, e[1], e[2])
Call(i, r) ==
  /\ c' = r.c
  /\ bad' = (r.out # RefTs(shape, mode, Scen[sc].zone, Scen[sc].inst[i][1], Scen[sc].inst[i][2]))
  /\ hist' = Append(hist, i)
  /\ UNCHANGED <<sc, mode, shape, pat, fv>>
Enabled == Len(hist) < MaxLen /\ ~bad

\* one action per path of part 1 through StringFromTime::format_timestamp (coverage self-test)
AFallback == Enabled /\ \E i \in 1..Len(Scen[sc].inst) : LET r == Result(i) IN r.paths[1] = "fallback" /\ Call(i, r)
ARebuild  == Enabled /\ \E i \in 1..Len(Scen[sc].inst) : LET r == Result(i) IN r.paths[1] = "rebuild" /\ Call(i, r)
APatch    == Enabled /\ \E i \in 1..Len(Scen[sc].inst) : LET r == Result(i) IN r.paths[1] = "patch" /\ Call(i, r)
ASame     == Enabled /\ \E i \in 1..Len(Scen[sc].inst) : LET r == Result(i) IN r.paths[1] = "same" /\ Call(i, r)
Next == AFallback \/ ARebuild \/ APatch \/ ASame
Spec == Init /\ [][Next]_vars

\* C13 on the model: rendered fields = reference fields of that instant, fraction exact, for every call
NoStaleField == ~bad
TypeOK == /\ \A p \in 1..2 : c[p].ts <= c[p].next \/ c[p].ts = MinT
          /\ \A p \in 1..2 : c[p].ts = MinT \/ c[p].secs >= 0

\* one shortest sequence per transition of the VIEW-reduced graph (or every sequence when no VIEW is configured)
ExportA == Export => PrintT("BEH " \o ToJson([sc |-> sc, mode |-> mode, shape |-> shape, seq |-> hist']))
StateView == <<sc, mode, shape, c, bad>>

\* ------------------------------------------------------------------ static part: constructor and fraction writer
Toks == {"H", "d", "-", "X", "ms", "us", "ns"}
Patterns == UNION {[1..k -> Toks] : k \in 0..MaxPat}
InitStatic == /\ \/ (pat \in Patterns /\ fv = 0)
                 \/ (pat = <<>> /\ fv \in FracVals)
              /\ sc = 0 /\ mode = "gmt" /\ shape = [p1 |-> "none", fk |-> "none", p2 |-> "none"]
              /\ c = <<Fresh, Fresh>> /\ bad = FALSE /\ hist = <<>>
SpecStatic == InitStatic /\ [][UNCHANGED vars]_vars
\* rejected exactly when the property says so
CtorOK == Ctor(pat).ok = ~C!MustReject(pat)
\* an accepted pattern is split around its only fractional specifier
SplitOK == LET r == Ctor(pat) IN
           (r.ok /\ ~C!MustReject(pat)) =>
             /\ (IF r.fk = "none" THEN r.p1 ELSE r.p1 \o <<r.fk>> \o r.p2) = pat
             /\ \A i \in DOMAIN r.p1 : r.p1[i] \notin C!FracKinds
             /\ \A i \in DOMAIN r.p2 : r.p2[i] \notin C!FracKinds
\* right-aligned digits over a zero field = the zero-padded fraction
FracOK == \A fk \in C!FracKinds : WriteFrac(fk, fv) = C!FracDigits(fk, fv)
=============================================================================
