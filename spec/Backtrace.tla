------------------------------ MODULE Backtrace ------------------------------
(* Layer I for C18: BacktraceStorage transcribed (vector + _index ring, process(), set_capacity()) *)
(* next to the contract window. TLC checks that what the ring replays is what the contract allows *)
(* for every history of <= MaxOps operations, and exports the histories for replay on the code.   *)
EXTENDS Naturals, Sequences, FiniteSets, TLC, Json
CONSTANTS Caps,          \* capacities tried
          MaxOps,        \* history length bound
          ResetIndex,    \* TRUE: process() resets _index (the repaired code); FALSE: pinned upstream code
          Export         \* TRUE: print every complete history as JSON (for replay)
VARIABLES cap, idx, ring,   \* BacktraceStorage: _capacity, _index, _stored_events (ids)
          fl,               \* LoggerBase::backtrace_flush_level (levels: 4 = Info, 7 = Error, 99 = None)
          c,                \* contract state (BacktraceContract)
          n,                \* operations so far = next statement id
          hist, bad
C == INSTANCE BacktraceContract
vars == <<cap, idx, ring, fl, c, n, hist, bad>>

Init == cap = 0 /\ idx = 0 /\ ring = <<>> /\ fl = 99 /\ c = C!CInit /\ n = 0 /\ hist = <<>> /\ bad = FALSE

\* BacktraceStorage::process(): iterate from _index, wrapping at size(); then clear
RingOut == [i \in 1..Len(ring) |-> ring[((idx + i - 1) % Len(ring)) + 1]]
\* reading _stored_events[index] with index >= size() is out of bounds
RingOOB == Len(ring) > 0 /\ idx >= Len(ring)

Rec(op, arg, allowed) == Append(hist, [op |-> op, arg |-> arg, id |-> n + 1, allowed |-> allowed])

Reinit(newcap, newfl) ==
  /\ IF cap # newcap THEN cap' = newcap /\ idx' = 0 /\ ring' = <<>> ELSE UNCHANGED <<cap, idx, ring>>
  /\ fl' = newfl
  /\ c' = C!CReinit(c, newcap, newfl)
  /\ hist' = Rec("init", <<newcap, newfl>>, {<<>>})
  /\ UNCHANGED bad

Store ==
  /\ IF cap = 0 THEN UNCHANGED <<idx, ring>>
     ELSE IF Len(ring) < cap THEN ring' = Append(ring, n + 1) /\ UNCHANGED idx
     ELSE /\ ring' = [ring EXCEPT ![idx + 1] = n + 1]
          /\ idx' = IF idx < cap - 1 THEN idx + 1 ELSE 0
  /\ c' = C!CStore(c, n + 1)
  /\ hist' = Rec("store", <<>>, {<<>>})
  /\ UNCHANGED <<cap, fl, bad>>

DoProcess == /\ ring' = <<>>
             /\ idx' = IF ResetIndex THEN 0 ELSE idx

Flush ==
  /\ IF cap = 0 THEN UNCHANGED <<idx, ring, bad>>
     ELSE /\ bad' = (bad \/ RingOOB \/ (~RingOOB /\ RingOut \notin C!CFlushAllowed(c)))
          /\ DoProcess
  /\ c' = C!CFlush(c)
  /\ hist' = Rec("flush", <<>>, C!CFlushAllowed(c))
  /\ UNCHANGED <<cap, fl>>

Stmt(lvl) ==
  /\ IF cap # 0 /\ lvl >= fl
     THEN /\ bad' = (bad \/ RingOOB \/ (~RingOOB /\ (<<n + 1>> \o RingOut) \notin C!CStmtAllowed(c, n + 1, lvl)))
          /\ DoProcess
     ELSE UNCHANGED <<idx, ring, bad>>
  /\ c' = C!CStmt(c, lvl)
  /\ hist' = Rec("stmt", <<lvl>>, C!CStmtAllowed(c, n + 1, lvl))
  /\ UNCHANGED <<cap, fl>>

Step == n < MaxOps /\ n' = n + 1
AReinit == Step /\ \E k \in Caps, f \in {7, 99} : Reinit(k, f)
AStore == Step /\ Store
AFlush == Step /\ Flush
AStmtLow == Step /\ Stmt(4)
AStmtHigh == Step /\ Stmt(7)
Next == AReinit \/ AStore \/ AFlush \/ AStmtLow \/ AStmtHigh

Spec == Init /\ [][Next]_vars

\* C18 on the model: the ring never replays anything but an allowed window, and never reads out of bounds
RingMatchesWindow == ~bad
\* structural invariants of the storage
TypeOK == /\ Len(ring) <= cap /\ idx <= cap /\ (ResetIndex => (Len(ring) < cap => idx = 0))

\* ACTION_CONSTRAINT with a side effect: one shortest history per transition of the VIEW-reduced graph
ExportA == Export => PrintT("BEH " \o ToJson(hist'))
StateView == <<cap, idx, ring, fl, c, n, bad>>
=============================================================================
