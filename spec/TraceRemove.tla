----------------------------- MODULE TraceRemove -----------------------------
(* Trace validation for logger removal under release/acquire (C17): executions of the real LoggerManager / LoggerBase   *)
(* flags and a real queue recorded by harness/h_remove. Contract: the logger is freed only when every statement         *)
(* committed before is consumed (nothing queued refers to a freed logger); a requested removal is not forgotten: at the  *)
(* end of an execution a logger whose removal was requested is gone or the manager's flag is raised.                     *)
EXTENDS Integers, Sequences, TLC, Json, IOUtils
TraceLog == ndJsonDeserialize(IOEnv.TRACE)
VARIABLES l, m
vars == <<l, m>>
M0 == [committed |-> 0, consumed |-> 0, ok |-> TRUE, why |-> ""]
Fail(x, why) == IF x.ok THEN [x EXCEPT !.ok = FALSE, !.why = why] ELSE x
Check(x, cond, why) == IF cond THEN x ELSE Fail(x, why)
MStep(x, e) ==
  CASE e.e = "committed" -> [x EXCEPT !.committed = e.n]
    [] e.e = "read" -> [x EXCEPT !.consumed = e.consumed]
    [] e.e = "erase" -> Check(x, x.consumed = x.committed /\ e.consumed = e.committed,
                              "logger freed while a statement logged through it was still queued")
    [] e.e = "end" -> Check(x, (e.requested /\ e.present) => e.armed, "a requested logger removal was forgotten (flag cleared, logger kept)")
    [] OTHER -> x
Init == l = 1 /\ m = M0
Next == /\ l <= Len(TraceLog) /\ l' = l + 1
        /\ LET e == TraceLog[l] IN m' = IF e.e = "init" THEN M0 ELSE MStep(m, e)
Spec == Init /\ [][Next]_vars
Ok == m.ok
=============================================================================
