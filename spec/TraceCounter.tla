----------------------------- MODULE TraceCounter -----------------------------
(* Trace validation for the dropped-message counter (C08): executions of the REAL backend thread and REAL log calls on a   *)
(* bounded dropping queue recorded by harness/h_stop -DHSTOP_DROP. Contract: once the backend has run on (several full loop *)
(* iterations through its idle branch), the counts it reported add up to the number of dropped statements, and delivered   *)
(* plus dropped equals attempted.                                                                                          *)
EXTENDS Integers, Sequences, TLC, Json, IOUtils
TraceLog == ndJsonDeserialize(IOEnv.TRACE)
VARIABLES l, m
vars == <<l, m>>
M0 == [ok |-> TRUE, why |-> ""]
Fail(x, why) == IF x.ok THEN [x EXCEPT !.ok = FALSE, !.why = why] ELSE x
MStep(x, e) ==
  CASE e.e = "quiet" -> IF e.reported # e.drops
                        THEN Fail(x, "the reported discard counts do not add up to the number of dropped statements")
                        ELSE IF e.delivered + e.drops # e.xcalls THEN Fail(x, "delivered plus dropped differs from attempted") ELSE x
    [] e.e = "crash" -> Fail(x, "the process crashed or hung")
    [] OTHER -> x
Init == l = 1 /\ m = M0
Next == /\ l <= Len(TraceLog) /\ l' = l + 1
        /\ LET e == TraceLog[l] IN m' = IF e.e = "init" THEN M0 ELSE MStep(m, e)
Spec == Init /\ [][Next]_vars
Ok == m.ok
=============================================================================
