SPECIFICATION Spec
INVARIANT Conforms
CHECK_DEADLOCK FALSE
