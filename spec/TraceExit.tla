------------------------------ MODULE TraceExit ------------------------------
(* Trace validation for thread exit under release/acquire (C20, C03): executions of the real ThreadContext::_valid flag  *)
(* and the real bounded queue recorded by harness/h_exit (shim atomic, script-chosen load values). Contract: the context *)
(* of an exited thread is reclaimed only when every statement the thread committed has been consumed.                    *)
(* A line {"e":"init"} starts a new execution.                                                                           *)
EXTENDS Integers, Sequences, TLC, Json, IOUtils
TraceLog == ndJsonDeserialize(IOEnv.TRACE)
VARIABLES l, m
vars == <<l, m>>
M0 == [committed |-> 0, consumed |-> 0, exited |-> FALSE, ok |-> TRUE, why |-> ""]
Fail(x, why) == IF x.ok THEN [x EXCEPT !.ok = FALSE, !.why = why] ELSE x
Check(x, cond, why) == IF cond THEN x ELSE Fail(x, why)
MStep(x, e) ==
  CASE e.e = "committed" -> [x EXCEPT !.committed = e.n]
    [] e.e = "exited" -> [x EXCEPT !.exited = TRUE]
    [] e.e = "read" -> Check([x EXCEPT !.consumed = e.consumed], e.consumed <= x.committed, "consumed more than was committed")
    [] e.e = "reclaim" -> Check(Check(x, x.exited, "context of a live thread reclaimed"),
                                x.consumed = x.committed /\ e.consumed = e.committed,
                                "context of an exited thread reclaimed while committed statements were unread")
    [] OTHER -> x
Init == l = 1 /\ m = M0
Next == /\ l <= Len(TraceLog) /\ l' = l + 1
        /\ LET e == TraceLog[l] IN m' = IF e.e = "init" THEN M0 ELSE MStep(m, e)
Spec == Init /\ [][Next]_vars
Ok == m.ok
=============================================================================
