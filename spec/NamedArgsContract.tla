-------------------------- MODULE NamedArgsContract --------------------------
(* Layer A for C19: what a user may observe of a statement whose format string has named            *)
(* placeholders.  Pure operators only (no variables): used by NamedArgs (design-level check against *)
(* the transcribed scanner) and by TraceNamedArgs (judging executions recorded from the real code). *)
(*                                                                                                  *)
(* A template is a sequence of one-character strings.  The reference is fmt's grammar for           *)
(* replacement fields restricted to what the property talks about:                                  *)
(*     template ::= ( literal-char | "{{" | "}}" | "{" name [ ":" spec ] "}" )*                     *)
(*     name     ::= letter ( letter | digit | "_" )*          spec ::= any chars except "{" "}"     *)
(* Everything else (lone braces, "{}", "{0}", nested "{a:{b}}", names not starting with a letter)   *)
(* is outside the domain: the contract says nothing about such templates.                          *)
EXTENDS Naturals, Sequences, FiniteSets

Letters == {"a","b","c","d","e","f","g","h","i","j","k","l","m","n","o","p","q","r","s","t","u","v","w","x","y","z",
            "A","B","C","D","E","F","G","H","I","J","K","L","M","N","O","P","Q","R","S","T","U","V","W","X","Y","Z"}
Digits == {"0","1","2","3","4","5","6","7","8","9"}
NameStart(c) == c \in Letters
NameCont(c) == c \in Letters \/ c \in Digits \/ c = "_"

\* ---- reference parser: a left fold over the characters ------------------------------------------
\* m    : "lit" | "open" (after "{") | "name" | "spec" | "close" (after a "}" in literal text) | "bad"
\* pos  : positional template so far (names removed, specs kept verbatim, escapes kept)
\* keys : [(name, spec)] so far; spec includes its leading ":" ("" when the field has none), as in quill
\* toks : token kinds so far, for shape classification: L literal run, O "{{", C "}}", P {name}, S {name:spec}
R0 == [m |-> "lit", pos |-> <<>>, keys |-> <<>>, nm |-> <<>>, sp |-> <<>>, toks |-> <<>>]

TokL(toks) == IF Len(toks) > 0 /\ toks[Len(toks)] = "L" THEN toks ELSE Append(toks, "L")

RefStep(r, c) ==
  CASE r.m = "lit" ->
         IF c = "{" THEN [r EXCEPT !.m = "open"]
         ELSE IF c = "}" THEN [r EXCEPT !.m = "close"]
         ELSE [r EXCEPT !.pos = Append(@, c), !.toks = TokL(@)]
    [] r.m = "open" ->
         IF c = "{" THEN [r EXCEPT !.m = "lit", !.pos = @ \o <<"{", "{">>, !.toks = Append(@, "O")]
         ELSE IF NameStart(c) THEN [r EXCEPT !.m = "name", !.nm = <<c>>]
         ELSE [r EXCEPT !.m = "bad"]
    [] r.m = "name" ->
         IF c = "}" THEN [r EXCEPT !.m = "lit", !.pos = @ \o <<"{", "}">>,
                                   !.keys = Append(@, [name |-> r.nm, spec |-> <<>>]),
                                   !.nm = <<>>, !.toks = Append(@, "P")]
         ELSE IF c = ":" THEN [r EXCEPT !.m = "spec", !.sp = <<":">>]
         ELSE IF NameCont(c) THEN [r EXCEPT !.nm = Append(@, c)]
         ELSE [r EXCEPT !.m = "bad"]
    [] r.m = "spec" ->
         IF c = "}" THEN [r EXCEPT !.m = "lit", !.pos = @ \o <<"{">> \o r.sp \o <<"}">>,
                                   !.keys = Append(@, [name |-> r.nm, spec |-> r.sp]),
                                   !.nm = <<>>, !.sp = <<>>, !.toks = Append(@, "S")]
         ELSE IF c = "{" THEN [r EXCEPT !.m = "bad"]
         ELSE [r EXCEPT !.sp = Append(@, c)]
    [] r.m = "close" ->
         IF c = "}" THEN [r EXCEPT !.m = "lit", !.pos = @ \o <<"}", "}">>, !.toks = Append(@, "C")]
         ELSE [r EXCEPT !.m = "bad"]
    [] OTHER -> r

RECURSIVE RefFold(_, _, _)
RefFold(t, i, r) == IF i > Len(t) THEN r ELSE RefFold(t, i + 1, RefStep(r, t[i]))
RefOf(t) == RefFold(t, 1, R0)

Accepted(r) == r.m = "lit"          \* fmt accepts the template (within the domain above)
Viable(r) == r.m # "bad"            \* some extension may still be accepted
NFields(r) == Len(r.keys)
RefOut(r) == [pos |-> r.pos, keys |-> r.keys]

\* shape predicate: some placeholder is directly followed by an escaped closing brace
FieldThenEscClose(r) == \E i \in 1..(Len(r.toks) - 1) : r.toks[i] \in {"P", "S"} /\ r.toks[i + 1] = "C"

\* ---- strings ------------------------------------------------------------------------------------
\* TLC concatenates strings with \o; characters are one-character strings (or an escape such as "\\x0a")
RECURSIVE StrFrom(_, _)
StrFrom(s, i) == IF i > Len(s) THEN "" ELSE s[i] \o StrFrom(s, i + 1)
Str(s) == StrFrom(s, 1)

NL == "\\x0a"                        \* how the trace writes a newline character
\* the message member of the JSON object: the template with newlines replaced by a space or removed
MsgSpace(t) == Str([i \in 1..Len(t) |-> IF t[i] = NL THEN " " ELSE t[i]])
MsgDrop(t) == Str(SelectSeq(t, LAMBDA c : c # NL))

\* ---- the contract for one statement -------------------------------------------------------------
\* e: one recorded statement (see TraceNamedArgs).  Returns the set of clauses the execution fails.
\*   text   : log_message seen by a sink equals positional formatting of the arguments
\*   npairs : one key/value pair per argument
\*   keys   : i-th pair keyed by the i-th placeholder name
\*   vals   : i-th value is the i-th argument formatted with its own spec
\*   json1  : exactly one physical line, shaped as an object, was written for the statement
\*   jparse : the line parses as JSON whenever nothing needs escaping
\*   jmemb  : the parsed object holds timestamp, source location, thread, logger, level, template
\*   jpairs : ... and the pairs, in order
\*   logjkeys : LOGJ_ statements only (e.varnames non-empty): keys are the variable names, in order
HasMember(ms, v) == \E i \in 1..Len(ms) : ms[i][2] = v
PairsAt(ms, ps, off) == \A i \in 1..Len(ps) : ms[off + i] = ps[i]
HasPairs(ms, ps) == Len(ps) = 0 \/ \E off \in 0..(Len(ms) - Len(ps)) : PairsAt(ms, ps, off)

Failures(e, r) ==
  LET nf == NFields(r)
      o == e.oracle
      expPairs == [i \in 1..e.nargs |-> <<IF i <= nf THEN Str(r.keys[i].name) ELSE e.pairs[i][1], o.vals[i]>>]
      j == e.json
      mustParse == ~j.needesc
  IN  \* o.textnt = o.text without one trailing newline (the backend may strip it from the message)
      (IF e.text = o.text \/ e.text = o.textnt THEN {} ELSE {"text"})
      \* statements written through the LOGJ_ macros: the i-th key is the i-th variable name of the call
      \cup (IF \A i \in 1..Len(e.varnames) : i <= Len(e.pairs) => e.pairs[i][1] = e.varnames[i] THEN {} ELSE {"logjkeys"})
      \cup (IF Len(e.pairs) = e.nargs THEN {} ELSE {"npairs"})
      \cup (IF \A i \in 1..nf : i <= Len(e.pairs) => e.pairs[i][1] = Str(r.keys[i].name) THEN {} ELSE {"keys"})
      \cup (IF \A i \in 1..e.nargs : i <= Len(e.pairs) => e.pairs[i][2] = o.vals[i] THEN {} ELSE {"vals"})
      \cup (IF j.nlines = 1 /\ j.object THEN {} ELSE {"json1"})
      \cup (IF mustParse /\ ~j.parsed THEN {"jparse"} ELSE {})
      \cup (IF mustParse /\ j.parsed /\
               ~(/\ HasMember(j.members, e.meta.ts)
                 /\ (HasMember(j.members, e.meta.file) \/ HasMember(j.members, e.meta.path))
                 /\ HasMember(j.members, e.meta.line) /\ HasMember(j.members, e.meta.thread)
                 /\ HasMember(j.members, e.meta.logger) /\ HasMember(j.members, e.meta.level)
                 /\ (HasMember(j.members, MsgSpace(e.tpl)) \/ HasMember(j.members, MsgDrop(e.tpl))))
            THEN {"jmemb"} ELSE {})
      \cup (IF mustParse /\ j.parsed /\ Len(e.pairs) = e.nargs /\ ~HasPairs(j.members, expPairs)
            THEN {"jpairs"} ELSE {})

\* the statement is inside the property's domain: fmt accepts the template for these arguments
InDomain(e, r) == Accepted(r) /\ e.oracle.ok /\ e.nargs >= NFields(r) /\ (NFields(r) = 0 => e.nargs = 0)
=============================================================================
