--------------------------- MODULE TraceBacktrace ---------------------------
(* Trace validation for C18: executions recorded from the real quill (through the LOG_ macros, the *)
(* real queue and backend, into a recording sink) are judged by the contract. One line per operation: *)
(*   {"op": "reset"|"init"|"store"|"flush"|"stmt", "lg": k, "arg": [...], "id": n, "out": [ids]}    *)
(* "out" = ids the logger's sink received between this operation and the next (backend drained).   *)
EXTENDS Naturals, Sequences, FiniteSets, TLC, Json, IOUtils
C == INSTANCE BacktraceContract
TraceLog == ndJsonDeserialize(IOEnv.TRACE)
VARIABLES l, c, ok
vars == <<l, c, ok>>

Loggers == 0..3
Init == l = 1 /\ c = [g \in Loggers |-> C!CInit] /\ ok = TRUE

Next ==
  /\ l <= Len(TraceLog)
  /\ l' = l + 1
  /\ LET e == TraceLog[l] IN
     LET g == IF e.op = "reset" THEN 0 ELSE e.lg
         cg == c[g] IN
     CASE e.op = "reset" -> c' = [k \in Loggers |-> C!CInit] /\ ok' = ok
       \* e.other = number of statements that reached OTHER loggers' sinks during this operation (must be 0)
       [] e.op = "init"  -> c' = [c EXCEPT ![g] = C!CReinit(cg, e.arg[1], e.arg[2])]
                            /\ ok' = (ok /\ e.out = <<>> /\ e.other = 0)
       [] e.op = "store" -> c' = [c EXCEPT ![g] = C!CStore(cg, e.id)] /\ ok' = (ok /\ e.out = <<>> /\ e.other = 0)
       [] e.op = "flush" -> c' = [c EXCEPT ![g] = C!CFlush(cg)]
                            /\ ok' = (ok /\ e.out \in C!CFlushAllowed(cg) /\ e.other = 0)
       [] e.op = "stmt"  -> c' = [c EXCEPT ![g] = C!CStmt(cg, e.arg[1])]
                            /\ ok' = (ok /\ e.out \in C!CStmtAllowed(cg, e.id, e.arg[1]) /\ e.other = 0)

Spec == Init /\ [][Next]_vars
\* violated at the first operation whose observed output the contract does not allow (l - 1 = its line)
Conforms == ok
=============================================================================
