----------------------------- MODULE UnboundedRA -----------------------------
(* Layer I for C02 (and the shrink clause of C20): UnboundedSPSCQueue = chain of bounded nodes, at the     *)
(* granularity of its public functions, under a release/acquire model with view-carrying messages: every  *)
(* store message carries (if release) the storing thread's view of all locations and its vector clock; an *)
(* acquire load joins both, so a later load cannot return a store older than one that happens-before it.  *)
(* This is what makes the consumer's re-check of the old node after seeing `next` sound.                  *)
EXTENDS Naturals, Sequences, FiniteSets, TLC, Json
CONSTANTS InitCap, MaxCap, Sizes, MaxRecs, MaxNodes, ShrinkTo, MaxShrinks, BatchPct,
          MoCommitW, MoLoadR, MoLoadW, MoCommitR, MoPubNext, MoLoadNext,   \* "ra" | "rlx", EXTRACTED
          Recheck,      \* TRUE iff _read_next_queue re-reads the old node after seeing next (EXTRACTED)
          CommitBeforeSwitch, \* TRUE iff _handle_full_queue commits to the old node before publishing next (EXTRACTED)
          Export
VARIABLES cap, alive, ctor,             \* per node: capacity, not yet deleted, producer clock at construction
          wpos, rcache, rpos, wcache,   \* per node private positions
          AW, AR, NX,                   \* per node store histories: Seq([val, clk, view])
          V, clk,                       \* V[t] = [aw, ar, nx : [Nodes -> index]],  clk[t] vector clock
          nn, prod, cons,               \* nodes allocated, producer's node, consumer's node
          recs,                         \* [node, pos, len, wclk, rclk]
          ppc, pn, cpc, nread, dirty, nshrink, res,
          early, overwr, phantom, lost, deadacc, ctorrace, overalloc, badthrow, hist
vars == <<cap, alive, ctor, wpos, rcache, rpos, wcache, AW, AR, NX, V, clk, nn, prod, cons, recs, ppc, pn, cpc,
          nread, dirty, nshrink, res, early, overwr, phantom, lost, deadacc, ctorrace, overalloc, badthrow, hist>>
Nodes == 1..MaxNodes
P == 1
C == 2
Zero == [t \in 1..2 |-> 0]
Max(a, b) == IF a >= b THEN a ELSE b
JoinC(a, b) == [t \in 1..2 |-> Max(a[t], b[t])]
MinF == [n \in Nodes |-> 1]
MinView == [aw |-> MinF, ar |-> MinF, nx |-> MinF]
JoinV(a, b) == [aw |-> [n \in Nodes |-> Max(a.aw[n], b.aw[n])], ar |-> [n \in Nodes |-> Max(a.ar[n], b.ar[n])],
                nx |-> [n \in Nodes |-> Max(a.nx[n], b.nx[n])]]
Last(s) == s[Len(s)]
Batch(n) == (cap[n] * BatchPct) \div 100
Msg0 == [val |-> 0, clk |-> Zero, view |-> MinView]

Init ==
  /\ cap = [n \in Nodes |-> IF n = 1 THEN InitCap ELSE 0] /\ alive = [n \in Nodes |-> n = 1] /\ ctor = [n \in Nodes |-> 0]
  /\ wpos = [n \in Nodes |-> 0] /\ rcache = [n \in Nodes |-> 0] /\ rpos = [n \in Nodes |-> 0] /\ wcache = [n \in Nodes |-> 0]
  /\ AW = [n \in Nodes |-> <<Msg0>>] /\ AR = [n \in Nodes |-> <<Msg0>>] /\ NX = [n \in Nodes |-> <<Msg0>>]
  /\ V = [t \in 1..2 |-> MinView] /\ clk = [t \in 1..2 |-> Zero]
  /\ nn = 1 /\ prod = 1 /\ cons = 1 /\ recs = <<>> /\ ppc = "idle" /\ pn = 0 /\ cpc = "idle" /\ nread = 0 /\ dirty = FALSE
  /\ nshrink = 0 /\ res = "" /\ early = FALSE /\ overwr = FALSE /\ phantom = FALSE /\ lost = FALSE /\ deadacc = FALSE
  /\ ctorrace = FALSE /\ overalloc = FALSE /\ badthrow = FALSE /\ hist = <<>>

\* history entry with the projected state after the action (last conjunct of every action)
Vals(h) == [i \in 1..Len(h) |-> h[i].val]
Proj(n) == [cap |-> cap'[n], w |-> wpos'[n], rc |-> rcache'[n], r |-> rpos'[n], wc |-> wcache'[n],
            aw |-> Vals(AW'[n]), ar |-> Vals(AR'[n]), nextset |-> Last(NX'[n]).val # 0]
H(t, a, arg) == hist' = Append(hist, [t |-> t, a |-> a, arg |-> arg, res |-> res', nodes |-> nn',
                                      prod |-> Proj(prod'), cons |-> Proj(cons'), pnode |-> prod', cnode |-> cons',
                                      bad |-> early' \/ overwr' \/ phantom' \/ lost' \/ deadacc' \/ ctorrace' \/ overalloc' \/ badthrow'])

Fits(n, rc, k) == cap[n] - (wpos[n] - rc) >= k
RECURSIVE Grow(_, _)
Grow(c, k) == IF c >= k THEN c ELSE Grow(c * 2, k)

\* ---- message construction for a store by thread t whose view/clock AFTER the store are v2/c2
Rel(mo, c2, v2) == IF mo = "ra" THEN [clk |-> c2, view |-> v2] ELSE [clk |-> Zero, view |-> MinView]

\* --------------------------------------------------------------- producer
\* prepare_write(k): inner reservation (cached, then one acquire reload of AR), else _handle_full_queue
UPW(k, i) ==
  /\ ppc = "idle" /\ Len(recs) < MaxRecs
  /\ LET n == prod
         slow == ~Fits(n, rcache[n], k)
         rc2 == IF slow THEN AR[n][i].val ELSE rcache[n]
         V1 == IF slow THEN [V EXCEPT ![P].ar[n] = i] ELSE V
         V2 == IF slow /\ MoLoadR = "ra" THEN [V1 EXCEPT ![P] = JoinV(@, AR[n][i].view)] ELSE V1
         c1 == IF slow /\ MoLoadR = "ra" THEN [clk EXCEPT ![P] = JoinC(@, AR[n][i].clk)] ELSE clk
         newcap == Grow(cap[n] * 2, k)
     IN
     /\ (slow => i \in V[P].ar[n]..Len(AR[n])) /\ (~slow => i = 0)
     /\ rcache' = [rcache EXCEPT ![n] = rc2]
     /\ IF Fits(n, rc2, k)
        THEN /\ ppc' = "granted" /\ pn' = k /\ res' = "granted" /\ V' = V2 /\ clk' = c1
             /\ UNCHANGED <<cap, alive, ctor, wpos, AW, NX, nn, prod, overalloc, badthrow>>
        ELSE IF newcap > MaxCap
        THEN /\ res' = IF k > MaxCap THEN "throw" ELSE "null"
             /\ V' = V2 /\ clk' = c1
             /\ UNCHANGED <<cap, alive, ctor, wpos, AW, NX, nn, prod, ppc, pn, overalloc, badthrow>>
        ELSE \* grow: commit to the old node, allocate, publish next, switch, reserve in the new node
             /\ nn < MaxNodes
             /\ LET m == nn + 1
                    cA == [c1 EXCEPT ![P][P] = @ + 1]                  \* commit_write store
                    vA == IF CommitBeforeSwitch THEN [V2 EXCEPT ![P].aw[n] = Len(AW[n]) + 1] ELSE V2
                    cB == [cA EXCEPT ![P][P] = @ + 1]                  \* node construction
                    cD == [cB EXCEPT ![P][P] = @ + 1]                  \* next.store
                    vD == [vA EXCEPT ![P].nx[n] = Len(NX[n]) + 1]
                IN
                /\ AW' = IF CommitBeforeSwitch
                         THEN [AW EXCEPT ![n] = Append(@, [val |-> wpos[n]] @@ Rel(MoCommitW, cA[P], vA[P]))]
                         ELSE AW
                /\ cap' = [cap EXCEPT ![m] = newcap] /\ alive' = [alive EXCEPT ![m] = TRUE]
                /\ ctor' = [ctor EXCEPT ![m] = cB[P][P]]
                /\ NX' = [NX EXCEPT ![n] = Append(@, [val |-> m] @@ Rel(MoPubNext, cD[P], vD[P]))]
                /\ V' = vD /\ clk' = cD
                /\ nn' = m /\ prod' = m
                /\ ppc' = "granted" /\ pn' = k /\ res' = "grown"
                /\ overalloc' = (overalloc \/ newcap > MaxCap)
                /\ UNCHANGED <<wpos, badthrow>>
  /\ UNCHANGED <<rpos, wcache, AR, cons, recs, cpc, nread, dirty, nshrink, early, overwr, phantom, lost, deadacc, ctorrace>>
  /\ H(P, "upw", <<k, i>>)

Off(n, pos) == pos % cap[n]
Cells(n, pos, len) == {Off(n, pos) + d : d \in 0..(len - 1)}
Collide(j) == recs[j].node = prod /\ Cells(prod, recs[j].pos, recs[j].len) \cap Cells(prod, wpos[prod], pn) # {}

UWrite ==
  /\ ppc = "granted"
  /\ LET c2 == [clk EXCEPT ![P][P] = @ + 1] IN
     /\ clk' = c2
     /\ recs' = Append(recs, [node |-> prod, pos |-> wpos[prod], len |-> pn, wclk |-> c2[P][P], rclk |-> 0])
     /\ overwr' = (overwr \/ \E j \in 1..Len(recs) : Collide(j) /\ (recs[j].rclk = 0 \/ recs[j].rclk > clk[P][C]))
     /\ deadacc' = (deadacc \/ ~alive[prod])
  /\ ppc' = "written" /\ res' = ""
  /\ UNCHANGED <<cap, alive, ctor, wpos, rcache, rpos, wcache, AW, AR, NX, V, nn, prod, cons, pn, cpc, nread, dirty, nshrink,
                 early, phantom, lost, ctorrace, overalloc, badthrow>>
  /\ H(P, "write", <<>>)

UFinishCommit ==
  /\ ppc = "written"
  /\ LET n == prod
         c2 == [clk EXCEPT ![P][P] = @ + 1]
         v2 == [V EXCEPT ![P].aw[n] = Len(AW[n]) + 1] IN
     /\ wpos' = [wpos EXCEPT ![n] = @ + pn]
     /\ clk' = c2 /\ V' = v2
     /\ AW' = [AW EXCEPT ![n] = Append(@, [val |-> wpos[n] + pn] @@ Rel(MoCommitW, c2[P], v2[P]))]
     /\ deadacc' = (deadacc \/ ~alive[n])
  /\ ppc' = "idle" /\ pn' = 0 /\ res' = ""
  /\ UNCHANGED <<cap, alive, ctor, rcache, rpos, wcache, AR, NX, nn, prod, cons, recs, cpc, nread, dirty, nshrink,
                 early, overwr, phantom, lost, ctorrace, overalloc, badthrow>>
  /\ H(P, "fc", <<>>)

\* shrink(c): only when c <= capacity/2; allocates a smaller node and publishes it like a grow (no commit needed)
Shrink(c) ==
  /\ ppc = "idle" /\ nshrink < MaxShrinks
  /\ nshrink' = nshrink + 1
  /\ LET n == prod IN
     IF c > cap[n] \div 2
     THEN /\ res' = "noshrink"
          /\ UNCHANGED <<cap, alive, ctor, NX, V, clk, nn, prod>>
     ELSE /\ nn < MaxNodes
          /\ LET m == nn + 1
                 cB == [clk EXCEPT ![P][P] = @ + 1]
                 cD == [cB EXCEPT ![P][P] = @ + 1]
                 vD == [V EXCEPT ![P].nx[n] = Len(NX[n]) + 1] IN
             /\ cap' = [cap EXCEPT ![m] = c] /\ alive' = [alive EXCEPT ![m] = TRUE] /\ ctor' = [ctor EXCEPT ![m] = cB[P][P]]
             /\ NX' = [NX EXCEPT ![n] = Append(@, [val |-> m] @@ Rel(MoPubNext, cD[P], vD[P]))]
             /\ V' = vD /\ clk' = cD /\ nn' = m /\ prod' = m /\ res' = "shrunk"
  /\ UNCHANGED <<wpos, rcache, rpos, wcache, AW, AR, cons, recs, ppc, pn, cpc, nread, dirty,
                 early, overwr, phantom, lost, deadacc, ctorrace, overalloc, badthrow>>
  /\ H(P, "shrink", <<c>>)

\* --------------------------------------------------------------- consumer
\* inner prepare_read on node n given view/clock (vv, cc) and cached writer position wc: returns a record
InnerPR(n, vv, cc, wc, i) ==
  \* result: [got, wc, v, c] ; i = index chosen for the acquire load of AW[n] (0 = no load needed)
  IF wc # rpos[n] THEN [got |-> TRUE, wc |-> wc, v |-> vv, c |-> cc, used |-> FALSE]
  ELSE LET v1 == [vv EXCEPT !.aw[n] = i]
           v2 == IF MoLoadW = "ra" THEN JoinV(v1, AW[n][i].view) ELSE v1
           c2 == IF MoLoadW = "ra" THEN JoinC(cc, AW[n][i].clk) ELSE cc IN
       [got |-> AW[n][i].val # rpos[n], wc |-> AW[n][i].val, v |-> v2, c |-> c2, used |-> TRUE]
Legal(n, vv, wc, i) == IF wc # rpos[n] THEN i = 0 ELSE i \in vv.aw[n]..Len(AW[n])

NextRecOn(n) == nread < Len(recs) /\ recs[nread + 1].node = n /\ recs[nread + 1].pos = rpos[n]
Unread(n) == \E k \in (nread + 1)..Len(recs) : recs[k].node = n

UPR(i1, j, i2, i3) ==
  /\ cpc = "idle"
  /\ LET n == cons
         a == InnerPR(n, V[C], clk[C], wcache[n], i1) IN
     /\ Legal(n, V[C], wcache[n], i1)
     /\ IF a.got
        THEN /\ j = 0 /\ i2 = 0 /\ i3 = 0
             /\ wcache' = [wcache EXCEPT ![n] = a.wc] /\ V' = [V EXCEPT ![C] = a.v] /\ clk' = [clk EXCEPT ![C] = a.c]
             /\ cpc' = "got" /\ res' = "got"
             /\ phantom' = (phantom \/ ~NextRecOn(n))
             /\ deadacc' = (deadacc \/ ~alive[n]) /\ ctorrace' = (ctorrace \/ clk[C][P] < ctor[n])
             /\ UNCHANGED <<alive, AR, cons, lost, dirty>>
        ELSE \* old node looks empty: acquire-load next
             /\ j \in a.v.nx[n]..Len(NX[n])
             /\ LET vN1 == [a.v EXCEPT !.nx[n] = j]
                    vN == IF MoLoadNext = "ra" THEN JoinV(vN1, NX[n][j].view) ELSE vN1
                    cN == IF MoLoadNext = "ra" THEN JoinC(a.c, NX[n][j].clk) ELSE a.c
                    m == NX[n][j].val IN
               IF m = 0
               THEN /\ i2 = 0 /\ i3 = 0
                    /\ wcache' = [wcache EXCEPT ![n] = a.wc] /\ V' = [V EXCEPT ![C] = vN] /\ clk' = [clk EXCEPT ![C] = cN]
                    /\ res' = "empty"
                    /\ deadacc' = (deadacc \/ ~alive[n]) /\ ctorrace' = (ctorrace \/ clk[C][P] < ctor[n])
                    /\ UNCHANGED <<alive, AR, cons, cpc, phantom, lost, dirty>>
               ELSE \* _read_next_queue(next): try the old node once more, then commit, delete, switch
                    LET b == IF Recheck THEN InnerPR(n, vN, cN, a.wc, i2)
                             ELSE [got |-> FALSE, wc |-> a.wc, v |-> vN, c |-> cN, used |-> FALSE] IN
                    /\ (Recheck => Legal(n, vN, a.wc, i2)) /\ (~Recheck => i2 = 0)
                    /\ IF b.got
                       THEN /\ i3 = 0
                            /\ wcache' = [wcache EXCEPT ![n] = b.wc] /\ V' = [V EXCEPT ![C] = b.v] /\ clk' = [clk EXCEPT ![C] = b.c]
                            /\ cpc' = "got" /\ res' = "got-old"
                            /\ phantom' = (phantom \/ ~NextRecOn(n))
                            /\ deadacc' = (deadacc \/ ~alive[n]) /\ ctorrace' = (ctorrace \/ clk[C][P] < ctor[n])
                            /\ UNCHANGED <<alive, AR, cons, lost, dirty>>
                       ELSE \* commit_read(old) ; delete old ; switch ; prepare_read(new)
                            LET pub == (rpos[n] - Last(AR[n]).val) >= Batch(n)
                                          \/ (rpos[n] # Last(AR[n]).val /\ b.wc = rpos[n])
                                cP == IF pub THEN [t \in 1..2 |-> IF t = C THEN b.c[C] + 1 ELSE b.c[t]] ELSE b.c
                                vP == IF pub THEN [b.v EXCEPT !.ar[n] = Len(AR[n]) + 1] ELSE b.v
                                d == InnerPR(m, vP, cP, wcache[m], i3) IN
                            /\ Legal(m, vP, wcache[m], i3)
                            /\ AR' = IF pub THEN [AR EXCEPT ![n] = Append(@, [val |-> rpos[n]] @@ Rel(MoCommitR, cP, vP))] ELSE AR
                            /\ alive' = [alive EXCEPT ![n] = FALSE]
                            /\ cons' = m
                            /\ lost' = (lost \/ Unread(n))
                            /\ wcache' = [wcache EXCEPT ![n] = b.wc, ![m] = d.wc]
                            /\ V' = [V EXCEPT ![C] = d.v] /\ clk' = [clk EXCEPT ![C] = d.c]
                            /\ cpc' = IF d.got THEN "got" ELSE "idle"
                            /\ res' = IF d.got THEN "switched-got" ELSE "switched-empty"
                            /\ phantom' = (phantom \/ (d.got /\ ~(nread < Len(recs) /\ recs[nread + 1].node = m /\ recs[nread + 1].pos = rpos[m])))
                            /\ deadacc' = (deadacc \/ ~alive[n] \/ ~alive[m])
                            /\ ctorrace' = (ctorrace \/ clk[C][P] < ctor[n] \/ cN[P] < ctor[m])
                            /\ dirty' = FALSE
  /\ UNCHANGED <<cap, ctor, wpos, rcache, rpos, AW, NX, nn, prod, recs, ppc, pn, nread, nshrink, early, overwr, overalloc, badthrow>>
  /\ H(C, "upr", <<i1, j, i2, i3>>)

URead ==
  /\ cpc = "got" /\ nread < Len(recs)
  /\ LET k == nread + 1
         c2 == [clk EXCEPT ![C][C] = @ + 1] IN
     /\ clk' = c2
     /\ early' = (early \/ recs[k].wclk > clk[C][P])
     /\ recs' = [recs EXCEPT ![k].rclk = c2[C][C]]
     /\ deadacc' = (deadacc \/ ~alive[cons])
  /\ cpc' = "read" /\ res' = ""
  /\ UNCHANGED <<cap, alive, ctor, wpos, rcache, rpos, wcache, AW, AR, NX, V, nn, prod, cons, ppc, pn, nread, dirty, nshrink,
                 overwr, phantom, lost, ctorrace, overalloc, badthrow>>
  /\ H(C, "read", <<>>)

UFinishRead ==
  /\ cpc = "read"
  /\ rpos' = [rpos EXCEPT ![cons] = @ + recs[nread + 1].len]
  /\ nread' = nread + 1 /\ cpc' = "idle" /\ dirty' = TRUE /\ res' = ""
  /\ UNCHANGED <<cap, alive, ctor, wpos, rcache, wcache, AW, AR, NX, V, clk, nn, prod, cons, recs, ppc, pn, nshrink,
                 early, overwr, phantom, lost, deadacc, ctorrace, overalloc, badthrow>>
  /\ H(C, "fr", <<>>)

UCommitRead ==
  /\ cpc = "idle" /\ dirty
  /\ LET n == cons
         pub == (rpos[n] - Last(AR[n]).val) >= Batch(n) \/ (rpos[n] # Last(AR[n]).val /\ wcache[n] = rpos[n]) IN
     IF pub
     THEN LET c2 == [clk EXCEPT ![C][C] = @ + 1]
              v2 == [V EXCEPT ![C].ar[n] = Len(AR[n]) + 1] IN
          /\ clk' = c2 /\ V' = v2
          /\ AR' = [AR EXCEPT ![n] = Append(@, [val |-> rpos[n]] @@ Rel(MoCommitR, c2[C], v2[C]))]
     ELSE UNCHANGED <<clk, V, AR>>
  /\ dirty' = FALSE /\ res' = ""
  /\ deadacc' = (deadacc \/ ~alive[cons])
  /\ UNCHANGED <<cap, alive, ctor, wpos, rcache, rpos, wcache, AW, NX, nn, prod, cons, recs, ppc, pn, cpc, nread, nshrink,
                 early, overwr, phantom, lost, ctorrace, overalloc, badthrow>>
  /\ H(C, "cr", <<>>)

AUPW == \E k \in Sizes : \E i \in 0..Len(AR[prod]) : UPW(k, i)
AShrink == \E c \in ShrinkTo : Shrink(c)
AUPR == \E i1 \in 0..Len(AW[cons]), j \in 0..Len(NX[cons]), i2 \in 0..Len(AW[cons]), i3 \in 0..(MaxRecs + 1) : UPR(i1, j, i2, i3)
Next == AUPW \/ UWrite \/ UFinishCommit \/ AShrink \/ AUPR \/ URead \/ UFinishRead \/ UCommitRead
Spec == Init /\ [][Next]_vars

\* --------------------------------------------------------------- properties (C02)
NoRace == ~early /\ ~overwr /\ ~ctorrace
Fifo == ~phantom /\ ~lost                 \* in order, exactly once, old node finished before the new one
NoUseAfterRetire == ~deadacc
AllocBound == ~overalloc /\ \A n \in 1..nn : cap[n] <= MaxCap
Rejects == (res = "throw" => pn = 0)       \* oversize: error, nothing reserved
StateView == <<cap, alive, ctor, wpos, rcache, rpos, wcache, AW, AR, NX, V, clk, nn, prod, cons, recs, ppc, pn, cpc,
               nread, dirty, nshrink, res, early, overwr, phantom, lost, deadacc, ctorrace, overalloc, badthrow>>
ExportA == Export => PrintT("BEH " \o ToJson(hist'))
=============================================================================
