SPECIFICATION Spec
INVARIANT Ok16
CHECK_DEADLOCK FALSE
