SPECIFICATION Spec
INVARIANT WellFormed
CHECK_DEADLOCK FALSE
