-------------------------------- MODULE Quill --------------------------------
(* Layer I for the pipeline properties (C03 C05 C06 C08 C09 C20): frontend log/flush calls, per-thread queues   *)
(* with byte accounting and batched reader-position publishing, and BackendWorker::_poll cut exactly at the     *)
(* QUILL_VERIF yield points (one action per segment between two hooks), sequentially consistent; the queues are  *)
(* FIFO sequences of whole records (justified by SpscRA/UnboundedRA). Every action appends the observable events *)
(* it produces (QuillContract vocabulary) and a scheduling step to `hist`, so an exported behaviour is at once a  *)
(* schedule for harness/h_sys and an event trace that TraceQuill can judge (I => A on every exported behaviour).  *)
EXTENDS Integers, Sequences, FiniteSets, TLC, Json
CONSTANTS Threads,     \* logical frontend threads (strings)
          NStmt,       \* log statements per thread at most
          NFlush,      \* flush_log calls per thread at most
          Sizes,       \* record sizes (bytes) of log statements
          FlushSz,     \* record size of a flush request
          RmSz,        \* record size of a logger removal request (flag pointer + logger name)
          Bounded, Dropping,  \* queue type
          Cap,         \* queue capacity in bytes (bounded) / initial node capacity (unbounded)
          MaxCap,      \* unbounded queues: largest node ever allocated (unbounded_queue_max_capacity)
          Pct,         \* reader publish batch as a percentage of the node capacity (EXTRACTED)
          AllowShrink, \* shrink_thread_local_queue() may be called (C20)
          PublishWhenDrained, \* EXTRACTED
          Soft, Hard,  \* transit event limits
          Grace,       \* ordering grace period in clock units (0 = off)
          MaxTime,     \* bound on the virtual clock (state-space bound)
          AllowExit,   \* threads may exit
          ReportOnRemove, \* TRUE iff a context's drop counter is reported before the context is removed (EXTRACTED)
          Loggers,     \* logger names (all write to the one sink); a statement carries its logger
          AllowRemove, \* remove_logger() may be called (C17)
          RecheckOnRemove, \* TRUE iff the logger clean-up re-checks "all queues empty" for every logger it frees (EXTRACTED)
          Export
VARIABLES now,
          fpc, cur, nlog, nflush, need, flag,       \* frontend, per thread
          q, wpos, rpos, rpub, fail, valid, reg,    \* per-thread context: queue (records), byte positions, counters
          nodes,                                    \* per-thread chain of queue buffers, consumer's first, producer's last: [base, cap]
          ctxs, newFlag, invalidCnt,                \* registry (sequence of threads), new-context flag, invalid counter
          cache, ring,                              \* backend: context cache (sequence), per-thread transit ring (records)
          bpc, bi, tsNow, batchMode, lastIdle, flushWho, \* backend program counter
          written, flushedTo,                       \* the sink: records written, prefix covered by a flush
          rmWait, rmDone,                           \* remove_logger_blocking: logger -> waiting thread ("" = none, known to the backend); thread -> released
          lgValid, lgPresent, hasInval, acc,        \* logger registry: valid flag, still registered, invalidated-loggers flag; accepted ids
          nid, dropped, reported, anyLate, bad, hist

vars == <<now, fpc, cur, nlog, nflush, need, flag, q, wpos, rpos, rpub, fail, valid, reg, nodes, ctxs, newFlag, invalidCnt,
          cache, ring, bpc, bi, tsNow, batchMode, lastIdle, flushWho, written, flushedTo, rmWait, rmDone, lgValid, lgPresent, hasInval, acc,
          nid, dropped, reported, anyLate, bad, hist>>
Inf == 1000000
LgVars == <<lgValid, lgPresent, hasInval>>
RmVars == <<rmWait, rmDone>>
Range(s) == {s[i] : i \in 1..Len(s)}
NoRec == [id |-> 0, t |-> "", sz |-> 0, ts |-> 0, kind |-> "none", lg |-> ""]

Init ==
  /\ now = 0
  /\ fpc = [t \in Threads |-> "idle"] /\ cur = [t \in Threads |-> NoRec] /\ nlog = [t \in Threads |-> 0]
  /\ nflush = [t \in Threads |-> 0] /\ need = [t \in Threads |-> {}] /\ flag = [t \in Threads |-> FALSE]
  /\ q = [t \in Threads |-> <<>>] /\ wpos = [t \in Threads |-> 0] /\ rpos = [t \in Threads |-> 0] /\ rpub = [t \in Threads |-> 0]
  /\ fail = [t \in Threads |-> 0] /\ valid = [t \in Threads |-> TRUE] /\ reg = [t \in Threads |-> FALSE]
  /\ nodes = [t \in Threads |-> <<[base |-> 0, cap |-> Cap]>>]
  /\ ctxs = <<>> /\ newFlag = FALSE /\ invalidCnt = 0 /\ cache = <<>> /\ ring = [t \in Threads |-> <<>>]
  /\ bpc = "start" /\ bi = 1 /\ tsNow = Inf /\ batchMode = FALSE /\ lastIdle = FALSE /\ flushWho = ""
  /\ rmWait = [l \in Loggers |-> ""] /\ rmDone = [t \in Threads |-> FALSE]
  /\ lgValid = [l \in Loggers |-> TRUE] /\ lgPresent = [l \in Loggers |-> TRUE] /\ hasInval = FALSE /\ acc = {}
  /\ written = <<>> /\ flushedTo = 0 /\ nid = 0 /\ dropped = {} /\ reported = 0 /\ anyLate = FALSE /\ bad = "" /\ hist = <<>>

RECURSIVE SumFailR(_, _)
SumFailR(S, f) == IF S = {} THEN 0 ELSE LET x == CHOOSE y \in S : TRUE IN f[x] + SumFailR(S \ {x}, f)
\* history: scheduling step (who ran to its next yield point) followed by the contract events it produced
\* `pre` = projection of the state BEFORE the step (compared with the real code's state before it executes the step)
Pre == [t \in Threads |-> <<wpos[t] - rpos[t], rpos[t] - rpub[t], Len(ring[t]), nodes[t][Len(nodes[t])].cap, nodes[t][1].cap, Len(nodes[t])>>]
Step(who, act, arg, evs) ==
  hist' = IF Export THEN hist \o <<[k |-> "step", who |-> who, act |-> act, arg |-> arg, pre |-> Pre, nw |-> Len(written)]>> \o evs ELSE hist
Fail(cond, why) == IF cond \/ bad # "" THEN bad ELSE why

\* ------------------------------------------------------------------ frontend
Max2(a, b) == IF a > b THEN a ELSE b
PNode(t) == nodes[t][Len(nodes[t])]                       \* the producer's buffer
Free(t) == PNode(t).cap - (wpos[t] - Max2(rpub[t], PNode(t).base))
\* UnboundedSPSCQueue::_handle_full_queue: double until the record fits; refused beyond the maximum
RECURSIVE Grow(_, _)
Grow(c, sz) == IF c >= sz THEN c ELSE Grow(c * 2, sz)
NewCap(t, sz) == Grow(PNode(t).cap * 2, sz)
CanGrow(t, sz) == ~Bounded /\ NewCap(t, sz) <= MaxCap
Fits(t, sz) == Free(t) >= sz \/ CanGrow(t, sz)
NodesAfter(t, sz) == IF Free(t) >= sz THEN nodes[t] ELSE Append(nodes[t], [base |-> wpos[t], cap |-> NewCap(t, sz)])
BatchOf(c) == (c * Pct) \div 100

\* first half of a log call: level check passed, clock read (every read advances the clock), context registered
LogStart(t, sz, l) ==
  /\ UNCHANGED LgVars /\ UNCHANGED acc /\ UNCHANGED RmVars
  /\ fpc[t] = "idle" /\ nlog[t] < NStmt /\ now < MaxTime /\ lgValid[l]
  /\ now' = now + 1 /\ nid' = nid + 1
  /\ cur' = [cur EXCEPT ![t] = [id |-> nid + 1, t |-> t, sz |-> sz, ts |-> now + 1, kind |-> "log", lg |-> l]]
  /\ fpc' = [fpc EXCEPT ![t] = "ts"] /\ nlog' = [nlog EXCEPT ![t] = @ + 1]
  /\ UNCHANGED <<reg, ctxs, newFlag, nflush, need, flag, q, wpos, nodes, rpos, rpub, fail, valid, invalidCnt, cache, ring, bpc, bi, tsNow, batchMode, lastIdle, flushWho,
                 written, flushedTo, dropped, reported, anyLate, bad>>
  /\ Step(t, "logstart", <<sz, l>>, <<[k |-> "logcall", t |-> t, id |-> nid + 1, lg |-> l, lvl |-> 4, kind |-> "direct"],
                                   [k |-> "ts", t |-> t, now |-> now + 1]>>)

\* second half: reserve + encode + commit, or refusal (dropping: return false; blocking: park in the retry sleep)
TryEnqueue(t, act, r) ==
  IF Fits(t, r.sz)
  THEN /\ q' = [q EXCEPT ![t] = Append(@, r)] /\ wpos' = [wpos EXCEPT ![t] = @ + r.sz]
       /\ nodes' = [nodes EXCEPT ![t] = NodesAfter(t, r.sz)]
       /\ acc' = IF r.kind = "log" THEN acc \cup {r.id} ELSE acc
       /\ anyLate' = (anyLate \/ (Grace > 0 /\ now - r.ts > Grace))
       /\ IF r.kind = "log"
          THEN /\ fpc' = [fpc EXCEPT ![t] = "idle"] /\ cur' = [cur EXCEPT ![t] = NoRec]
               /\ UNCHANGED <<fail, dropped>>
               /\ Step(t, act, <<>>, <<[k |-> "commit", t |-> t, now |-> now],
                                       [k |-> "logret", t |-> t, id |-> r.id, ret |-> 1, argevals |-> 1]>>)
          ELSE /\ fpc' = [fpc EXCEPT ![t] = "flushwait"] /\ cur' = [cur EXCEPT ![t] = NoRec]
               /\ UNCHANGED <<fail, dropped>>
               /\ Step(t, act, <<>>, <<>>)
  ELSE /\ UNCHANGED <<q, wpos, nodes, anyLate, acc>>
       /\ IF r.kind = "log" /\ Dropping
          THEN /\ fail' = [fail EXCEPT ![t] = @ + 1] /\ dropped' = dropped \cup {r.id}
               /\ fpc' = [fpc EXCEPT ![t] = "idle"] /\ cur' = [cur EXCEPT ![t] = NoRec]
               /\ Step(t, act, <<>>, <<[k |-> "logret", t |-> t, id |-> r.id, ret |-> 0, argevals |-> 1]>>)
          ELSE \* blocking queue (counted once per call) or a control request on a dropping queue: retry loop
               /\ fail' = [fail EXCEPT ![t] = IF r.kind = "log" /\ fpc[t] # "blocked" THEN @ + 1 ELSE @]
               /\ fpc' = [fpc EXCEPT ![t] = "blocked"] /\ UNCHANGED <<cur, dropped>>
               /\ Step(t, act, <<>>, <<>>)

\* the thread's context is created and registered on its first call, after the clock read
Enqueue(t) ==
  /\ UNCHANGED LgVars /\ UNCHANGED RmVars
  /\ fpc[t] = "ts"
  /\ TryEnqueue(t, "enqueue", cur[t])
  /\ IF reg[t] THEN UNCHANGED <<reg, ctxs, newFlag>>
     ELSE reg' = [reg EXCEPT ![t] = TRUE] /\ ctxs' = Append(ctxs, t) /\ newFlag' = TRUE
  /\ UNCHANGED <<now, nlog, nflush, need, flag, rpos, rpub, valid, invalidCnt, cache, ring, bpc, bi, tsNow, batchMode,
                 lastIdle, flushWho, written, flushedTo, nid, reported, bad>>

Retry(t) ==
  /\ UNCHANGED LgVars /\ UNCHANGED RmVars
  /\ fpc[t] = "blocked"
  \* a control request refused by a dropping queue is retried by a NEW call (flush_log's loop is outside log_statement):
  \* the clock is read again; a blocking queue retries inside the call and keeps the first timestamp
  /\ IF Dropping /\ cur[t].kind # "log"
     THEN now < MaxTime /\ now' = now + 1 /\ TryEnqueue(t, "retry", [cur[t] EXCEPT !.ts = now + 1])
     ELSE UNCHANGED now /\ TryEnqueue(t, "retry", cur[t])
  /\ UNCHANGED <<nlog, nflush, need, flag, rpos, rpub, valid, reg, ctxs, newFlag, invalidCnt, cache, ring, bpc, bi, tsNow, batchMode,
                 lastIdle, flushWho, written, flushedTo, nid, reported, bad>>

\* flush_log(): clock read + enqueue of the request (never dropped) up to the first sleep of a wait loop
Accepted(t) == {r.id : r \in {x \in UNION {Range(q[u]) \cup Range(ring[u]) : u \in Threads} \cup Range(written) : x.kind = "log"}}
AllEnqueuedLog == {x.id : x \in {y \in UNION {Range(q[u]) \cup Range(ring[u]) : u \in Threads} \cup Range(written) : y.kind = "log"}}
OwnEnqueuedLog(t) == {x.id : x \in {y \in UNION {Range(q[u]) \cup Range(ring[u]) : u \in Threads} \cup Range(written) : y.kind = "log" /\ y.t = t}}

FlushStart(t) ==
  /\ UNCHANGED LgVars /\ UNCHANGED acc /\ UNCHANGED RmVars
  /\ fpc[t] = "idle" /\ nflush[t] < NFlush /\ now < MaxTime
  /\ now' = now + 1 /\ nid' = nid + 1 /\ nflush' = [nflush EXCEPT ![t] = @ + 1]
  /\ need' = [need EXCEPT ![t] = IF Grace > 0 THEN AllEnqueuedLog ELSE OwnEnqueuedLog(t)]
  /\ flag' = [flag EXCEPT ![t] = FALSE]
  /\ IF reg[t] THEN UNCHANGED <<reg, ctxs, newFlag>>
     ELSE reg' = [reg EXCEPT ![t] = TRUE] /\ ctxs' = Append(ctxs, t) /\ newFlag' = TRUE
  /\ LET r == [id |-> nid + 1, t |-> t, sz |-> FlushSz, ts |-> now + 1, kind |-> "flush", lg |-> ""] IN
     IF Fits(t, FlushSz)
     THEN /\ q' = [q EXCEPT ![t] = Append(@, r)] /\ wpos' = [wpos EXCEPT ![t] = @ + FlushSz]
          /\ nodes' = [nodes EXCEPT ![t] = NodesAfter(t, FlushSz)]
          /\ fpc' = [fpc EXCEPT ![t] = "flushwait"] /\ UNCHANGED cur
     ELSE /\ fpc' = [fpc EXCEPT ![t] = "blocked"] /\ cur' = [cur EXCEPT ![t] = r] /\ UNCHANGED <<q, wpos, nodes>>
  /\ UNCHANGED <<nlog, rpos, rpub, fail, valid, invalidCnt, cache, ring, bpc, bi, tsNow, batchMode, lastIdle, flushWho, written, flushedTo,
                 dropped, reported, anyLate, bad>>
  /\ Step(t, "flushstart", <<>>, <<[k |-> "ctxuse", t |-> t], [k |-> "flushcall", t |-> t]>>)

\* one iteration of the caller's wait loop
FlushCheck(t) ==
  /\ UNCHANGED LgVars /\ UNCHANGED acc /\ UNCHANGED RmVars
  /\ fpc[t] = "flushwait"
  /\ IF flag[t]
     THEN /\ fpc' = [fpc EXCEPT ![t] = "idle"]
          \* C06 on the model: everything promised is written and covered by a sink flush
          /\ bad' = Fail(\A id \in need[t] : id \in dropped \/ \E i \in 1..flushedTo : written[i].id = id,
                         "C06: flush_log returned before an earlier statement was written and flushed")
          /\ Step(t, "flushcheck", <<>>, <<[k |-> "flushret", t |-> t]>>)
     ELSE /\ UNCHANGED <<fpc, bad>> /\ Step(t, "flushcheck", <<>>, <<>>)
  /\ UNCHANGED <<now, cur, nlog, nflush, need, flag, q, wpos, nodes, rpos, rpub, fail, valid, reg, ctxs, newFlag, invalidCnt, cache, ring,
                 bpc, bi, tsNow, batchMode, lastIdle, flushWho, written, flushedTo, nid, dropped, reported, anyLate>>

ThreadExit(t) ==
  /\ UNCHANGED LgVars /\ UNCHANGED acc /\ UNCHANGED RmVars
  /\ AllowExit /\ fpc[t] = "idle" /\ reg[t] /\ valid[t]
  /\ fpc' = [fpc EXCEPT ![t] = "done"] /\ valid' = [valid EXCEPT ![t] = FALSE] /\ invalidCnt' = invalidCnt + 1
  /\ UNCHANGED <<now, cur, nlog, nflush, need, flag, q, wpos, nodes, rpos, rpub, fail, reg, ctxs, newFlag, cache, ring, bpc, bi, tsNow,
                 batchMode, lastIdle, flushWho, written, flushedTo, nid, dropped, reported, anyLate, bad>>
  /\ Step(t, "exit", <<>>, <<[k |-> "threadexit", t |-> t]>>)

\* remove_logger(l): invalidate and raise the flag; the user promises that no thread uses l afterwards (none is inside a call on it)
RemoveLogger(l) ==
  /\ AllowRemove /\ lgValid[l] /\ \A t \in Threads : cur[t].lg # l
  /\ lgValid' = [lgValid EXCEPT ![l] = FALSE] /\ hasInval' = TRUE
  /\ UNCHANGED <<now, fpc, cur, nlog, nflush, need, flag, q, wpos, nodes, rpos, rpub, fail, valid, reg, ctxs, newFlag, invalidCnt, cache, ring,
                 bpc, bi, tsNow, batchMode, lastIdle, flushWho, written, flushedTo, rmWait, rmDone, lgPresent, acc, nid, dropped, reported,
                 anyLate, bad>>
  /\ Step("D", "remove", <<l>>, <<[k |-> "remove", lg |-> l]>>)

\* remove_logger_blocking(l): clock read + enqueue of the request (retried like a flush request when it does not fit), then
\* remove_logger(l), up to the first sleep of the wait loop. (One action: the enqueue and the invalidation are not separated by
\* a yield point of the harness when the request fits; when it does not, the call parks in the retry loop first.)
RemoveBlockingStart(t, l) ==
  /\ AllowRemove /\ lgValid[l] /\ fpc[t] = "idle" /\ now < MaxTime /\ \A u \in Threads : cur[u].lg # l
  /\ Fits(t, RmSz)                      \* (the retry case is exercised by flush requests; keep this action simple)
  /\ now' = now + 1 /\ nid' = nid + 1
  /\ IF reg[t] THEN UNCHANGED <<reg, ctxs, newFlag>>
     ELSE reg' = [reg EXCEPT ![t] = TRUE] /\ ctxs' = Append(ctxs, t) /\ newFlag' = TRUE
  /\ q' = [q EXCEPT ![t] = Append(@, [id |-> nid + 1, t |-> t, sz |-> RmSz, ts |-> now + 1, kind |-> "rmreq", lg |-> l])]
  /\ wpos' = [wpos EXCEPT ![t] = @ + RmSz] /\ nodes' = [nodes EXCEPT ![t] = NodesAfter(t, RmSz)]
  /\ lgValid' = [lgValid EXCEPT ![l] = FALSE] /\ hasInval' = TRUE
  /\ fpc' = [fpc EXCEPT ![t] = "rmwait"] /\ cur' = [cur EXCEPT ![t] = [NoRec EXCEPT !.lg = l]]
  /\ rmDone' = [rmDone EXCEPT ![t] = FALSE]
  /\ UNCHANGED <<nlog, nflush, need, flag, rpos, rpub, fail, valid, invalidCnt, cache, ring, bpc, bi, tsNow, batchMode, lastIdle, flushWho,
                 written, flushedTo, rmWait, lgPresent, acc, dropped, reported, anyLate, bad>>
  /\ Step(t, "rmbstart", <<l>>, <<[k |-> "ctxuse", t |-> t], [k |-> "remove", lg |-> l]>>)

RemoveBlockingCheck(t) ==
  /\ fpc[t] = "rmwait"
  /\ UNCHANGED LgVars /\ UNCHANGED acc /\ UNCHANGED RmVars
  /\ IF rmDone[t]
     THEN /\ fpc' = [fpc EXCEPT ![t] = "idle"] /\ cur' = [cur EXCEPT ![t] = NoRec]
          \* C17 on the model: the call returns only after the removal has completed
          /\ bad' = Fail(~lgPresent[cur[t].lg], "C17: remove_logger_blocking returned before the logger was removed")
          /\ Step(t, "rmbcheck", <<>>, <<[k |-> "removebret", lg |-> cur[t].lg, n |-> Cardinality({l \in Loggers : lgPresent[l]})]>>)
     ELSE /\ UNCHANGED <<fpc, cur, bad>> /\ Step(t, "rmbcheck", <<>>, <<>>)
  /\ UNCHANGED <<now, nlog, nflush, need, flag, q, wpos, nodes, rpos, rpub, fail, valid, reg, ctxs, newFlag, invalidCnt, cache, ring,
                 bpc, bi, tsNow, batchMode, lastIdle, flushWho, written, flushedTo, nid, dropped, reported, anyLate>>

\* Frontend::shrink_thread_local_queue(c): effective when c is at most half the producer buffer's capacity - the producer
\* moves to a new, smaller buffer at once; the consumer follows after emptying the old one
ShrinkQueue(t, c) ==
  /\ UNCHANGED LgVars /\ UNCHANGED acc /\ UNCHANGED RmVars
  /\ AllowShrink /\ ~Bounded /\ fpc[t] = "idle" /\ c * 2 <= PNode(t).cap
  /\ nodes' = [nodes EXCEPT ![t] = Append(@, [base |-> wpos[t], cap |-> c])]
  /\ IF reg[t] THEN UNCHANGED <<reg, ctxs, newFlag>>
     ELSE reg' = [reg EXCEPT ![t] = TRUE] /\ ctxs' = Append(ctxs, t) /\ newFlag' = TRUE
  /\ UNCHANGED <<now, fpc, cur, nlog, nflush, need, flag, q, wpos, rpos, rpub, fail, valid, invalidCnt, cache, ring,
                 bpc, bi, tsNow, batchMode, lastIdle, flushWho, written, flushedTo, nid, dropped, reported, anyLate, bad>>
  /\ Step(t, "shrink", <<c>>, <<[k |-> "ctxuse", t |-> t], [k |-> "shrink", req |-> c, before |-> PNode(t).cap, after |-> c]>>)

Tick ==
  /\ UNCHANGED LgVars /\ UNCHANGED acc /\ UNCHANGED RmVars
  /\ Grace > 0 /\ now < MaxTime /\ now' = now + 1
  /\ UNCHANGED <<fpc, cur, nlog, nflush, need, flag, q, wpos, nodes, rpos, rpub, fail, valid, reg, ctxs, newFlag, invalidCnt, cache, ring,
                 bpc, bi, tsNow, batchMode, lastIdle, flushWho, written, flushedTo, nid, dropped, reported, anyLate, bad>>
  /\ Step("D", "tick", <<>>, <<>>)

\* ------------------------------------------------------------------ backend (one action per segment between yield points)
Reload(c) == IF newFlag THEN ctxs ELSE c             \* _update_active_thread_contexts_cache
Total(rg, c) == LET f[i \in 0..Len(c)] == IF i = 0 THEN 0 ELSE f[i - 1] + Len(rg[c[i]]) IN f[Len(c)]
\* queue.empty() as the consumer evaluates it: no record and no further buffer linked behind the consumer's
QEmpty(t) == q[t] = <<>> /\ Len(nodes[t]) = 1
HasPending(c) == \E i \in 1..Len(c) : ring[c[i]] = <<>> /\ ~QEmpty(c[i])

BStart ==
  /\ UNCHANGED LgVars /\ UNCHANGED acc /\ UNCHANGED RmVars
  /\ bpc = "start"
  /\ cache' = Reload(cache) /\ newFlag' = FALSE
  /\ IF Grace > 0 THEN now < MaxTime /\ now' = now + 1 /\ tsNow' = now + 1 - Grace ELSE UNCHANGED now /\ tsNow' = Inf
  /\ bi' = 1 /\ lastIdle' = FALSE
  /\ IF Reload(cache) = <<>> THEN bpc' = "idle0" /\ batchMode' = FALSE
     ELSE bpc' = "pop" /\ batchMode' = FALSE
  /\ UNCHANGED <<fpc, cur, nlog, nflush, need, flag, q, wpos, nodes, rpos, rpub, fail, valid, reg, ctxs, invalidCnt, ring, flushWho, written,
                 flushedTo, nid, dropped, reported, anyLate, bad>>
  /\ Step("B", "start", <<>>, <<>>)

\* _read_and_decode_frontend_queue for one context: do { prepare_read; take } while (bytes < capacity /\ ring size < Hard).
\* ns = buffer chain, nd = the consumer's buffer, pos = its byte position; capacity is read once before the loop; a
\* prepare_read that finds the buffer empty switches to the next one (freeing the old) - one switch per attempt
NodeEmpty(ns, nd, pos, qs) == IF nd < Len(ns) THEN pos = ns[nd + 1].base ELSE qs = <<>>
RECURSIVE Walk(_, _, _, _, _, _, _, _)
Walk(ns, qs, rlen, bytes, k, pos, nd, cap0) ==
  LET nd1 == IF NodeEmpty(ns, nd, pos, qs) /\ nd < Len(ns) THEN nd + 1 ELSE nd IN
  IF NodeEmpty(ns, nd1, pos, qs) \/ Head(qs).ts > tsNow THEN [k |-> k, nd |-> nd1]
  ELSE LET b2 == bytes + Head(qs).sz  n2 == rlen + 1 IN
       IF b2 < cap0 /\ n2 < Hard THEN Walk(ns, Tail(qs), n2, b2, k + 1, pos + Head(qs).sz, nd1, cap0)
       ELSE [k |-> k + 1, nd |-> nd1]
RECURSIVE SumSz(_)
SumSz(s) == IF s = <<>> THEN 0 ELSE Head(s).sz + SumSz(Tail(s))

BRead ==
  /\ UNCHANGED LgVars /\ UNCHANGED acc /\ UNCHANGED rmDone
  /\ bpc = "pop"
  /\ LET t == cache[bi]
         ns == nodes[t]
         w == Walk(ns, q[t], Len(ring[t]), 0, 0, rpos[t], 1, ns[1].cap)
         k == w.k
         taken == SubSeq(q[t], 1, k)
         rest == SubSeq(q[t], k + 1, Len(q[t]))
         r2 == rpos[t] + SumSz(taken)
         rpub0 == IF w.nd > 1 THEN ns[w.nd].base ELSE rpub[t]     \* a fresh buffer starts with nothing consumed
         unpub == r2 - rpub0
         pub == k > 0 /\ (unpub >= BatchOf(ns[w.nd].cap) \/ (PublishWhenDrained /\ unpub # 0 /\ NodeEmpty(ns, w.nd, r2, rest)))
         rg2 == [ring EXCEPT ![t] = @ \o taken]
         last == bi = Len(cache)
         n == Total(rg2, cache)
         batch == last /\ n # 0 /\ n >= Soft
         \* batch path: has_pending_events_for_caching_when_transit_event_buffer_empty() reloads the cache first
         c2 == IF batch THEN Reload(cache) ELSE cache
         qNE(u) == IF u = t THEN (rest # <<>> \/ w.nd < Len(ns)) ELSE ~QEmpty(u) IN
     \* decoding a LoggerRemovalRequest registers the caller's flag under the logger's name
     /\ rmWait' = [l \in Loggers |-> IF \E i \in 1..Len(taken) : taken[i].kind = "rmreq" /\ taken[i].lg = l THEN t ELSE rmWait[l]]
     /\ q' = [q EXCEPT ![t] = rest] /\ ring' = rg2 /\ rpos' = [rpos EXCEPT ![t] = r2]
     /\ rpub' = [rpub EXCEPT ![t] = IF pub THEN r2 ELSE rpub0]
     /\ nodes' = [nodes EXCEPT ![t] = SubSeq(ns, w.nd, Len(ns))]
     /\ cache' = c2 /\ newFlag' = IF batch THEN FALSE ELSE newFlag
     /\ bi' = IF last THEN 1 ELSE bi + 1
     /\ batchMode' = batch
     /\ bpc' = IF ~last THEN "pop"
               ELSE IF n = 0 THEN "idle0"
               ELSE IF n < Soft THEN "proc"
               ELSE IF \E i \in 1..Len(c2) : rg2[c2[i]] = <<>> /\ qNE(c2[i]) THEN "start" ELSE "proc"
     /\ Step("B", "read", <<t>>, <<>>)
  /\ UNCHANGED <<now, fpc, cur, nlog, nflush, need, flag, wpos, fail, valid, reg, ctxs, invalidCnt, tsNow, lastIdle, flushWho, written,
                 flushedTo, nid, dropped, reported, anyLate, bad>>

SumFail(S) == SumFailR(S, fail)
RepDrops(S) == IF Bounded /\ Dropping THEN SumFail(S) ELSE 0
RECURSIVE NotifySeq(_)
NotifySeq(c) == IF c = <<>> THEN <<>>
                ELSE (IF Bounded /\ fail[Head(c)] > 0
                      THEN <<[k |-> "notify", cls |-> IF Dropping THEN "dropped" ELSE "blocked", n |-> fail[Head(c)]]>> ELSE <<>>)
                     \o NotifySeq(Tail(c))
\* context clean-up: remove every invalid context whose queue and ring are empty (reporting its drop counter first
\* when the code does so)
Removable(c, rg) == {t \in Range(c) : ~valid[t] /\ QEmpty(t) /\ rg[t] = <<>>}
Without(sq, S) == LET P(x) == x \notin S IN SelectSeq(sq, P)

\* _process_lowest_timestamp_transit_event up to the hook after pop_front
MinIdx(c) == LET cand == {i \in 1..Len(c) : ring[c[i]] # <<>>} IN
             IF cand = {} THEN 0
             ELSE CHOOSE i \in cand : \A j \in cand : Head(ring[c[i]]).ts < Head(ring[c[j]]).ts \/ (Head(ring[c[i]]).ts = Head(ring[c[j]]).ts /\ i <= j)

BProc ==
  /\ UNCHANGED LgVars /\ UNCHANGED acc /\ UNCHANGED RmVars
  /\ bpc = "proc"
  /\ LET i == MinIdx(cache) IN
     IF i = 0
     THEN \* nothing cached any more: the batch loop ends, so does the poll
          /\ bpc' = "start" /\ UNCHANGED <<ring, written, flushedTo, bad, flushWho>>
          /\ Step("B", "proc", <<>>, <<>>)
     ELSE LET t == cache[i]  e == Head(ring[t]) IN
          /\ ring' = [ring EXCEPT ![t] = Tail(@)]
          /\ IF e.kind = "log"
             THEN /\ written' = Append(written, e) /\ UNCHANGED <<flushedTo, flushWho>>
                  \* C03 / C05 / C08 on the model
                  /\ bad' = Fail(/\ \A j \in 1..Len(written) : written[j].id # e.id
                                 /\ \A j \in 1..Len(written) : written[j].t = e.t => written[j].id < e.id
                                 /\ e.id \notin dropped
                                 /\ lgPresent[e.lg]
                                 /\ (Grace > 0 /\ ~anyLate /\ written # <<>>) => written[Len(written)].ts <= e.ts,
                                 "C03/C05/C08/C17: duplicate, out of thread order, dropped-yet-written, through a freed logger, or out of timestamp order")
                  /\ bpc' = "popped"
                  /\ Step("B", "proc", <<t>>, <<[k |-> "write", s |-> "S0", id |-> e.id, lvl |-> 4, ts |-> e.ts, thr |-> FALSE]>>)
             ELSE IF e.kind = "rmreq"
             THEN \* a logger removal request carries nothing to write
                  /\ UNCHANGED <<written, flushedTo, bad, flushWho>> /\ bpc' = "popped"
                  /\ Step("B", "proc", <<t>>, <<>>)
             ELSE \* flush request: flush every sink, remember whom to notify
                  /\ flushedTo' = Len(written) /\ UNCHANGED <<written, bad>>
                  /\ bpc' = "poppedflush" /\ flushWho' = e.t
                  /\ Step("B", "proc", <<t>>, <<[k |-> "sflush", s |-> "S0", thr |-> FALSE]>>)
  /\ UNCHANGED <<now, fpc, cur, nlog, nflush, need, flag, q, wpos, nodes, rpos, rpub, fail, valid, reg, ctxs, newFlag, invalidCnt, cache, bi,
                 tsNow, batchMode, lastIdle, nid, dropped, reported, anyLate>>

\* from the hook after pop_front to the next yield point (single: poll end; batch: BATCH_ITER)
BAfterPop ==
  /\ UNCHANGED LgVars /\ UNCHANGED acc /\ UNCHANGED RmVars
  /\ bpc \in {"popped", "poppedflush"}
  /\ IF bpc = "poppedflush"
     THEN \* clean up invalidated contexts, then release the caller (the flag of the flush whose event was just popped)
          LET rem == IF invalidCnt # 0 THEN Removable(cache, ring) ELSE {}
              rep == IF ReportOnRemove /\ Bounded THEN SumFail(rem) ELSE 0
              who == flushWho IN
          /\ cache' = Without(cache, rem) /\ ctxs' = Without(ctxs, rem)
          /\ invalidCnt' = invalidCnt - Cardinality(rem)
          /\ fail' = [t \in Threads |-> IF t \in rem /\ ReportOnRemove THEN 0 ELSE fail[t]]
          /\ reported' = reported + rep
          /\ flag' = [flag EXCEPT ![who] = TRUE]
          /\ Step("B", "afterpop", <<>>, IF rep > 0 THEN <<[k |-> "notify", cls |-> "dropped", n |-> rep]>> ELSE <<>>)
     ELSE /\ UNCHANGED <<cache, ctxs, invalidCnt, fail, reported, flag>>
          /\ Step("B", "afterpop", <<>>, <<>>)
  /\ bpc' = IF batchMode THEN "batchiter" ELSE "start"
  /\ UNCHANGED <<now, fpc, cur, nlog, nflush, need, q, wpos, nodes, rpos, rpub, valid, reg, newFlag, ring, bi, tsNow, batchMode, lastIdle, flushWho,
                 written, flushedTo, nid, dropped, anyLate, bad>>

\* batch loop: has_pending...() again (cache reload first); TRUE ends the poll
BBatchIter ==
  /\ UNCHANGED LgVars /\ UNCHANGED acc /\ UNCHANGED RmVars
  /\ bpc = "batchiter"
  /\ cache' = Reload(cache) /\ newFlag' = FALSE
  /\ bpc' = IF HasPending(Reload(cache)) THEN "start" ELSE "proc"
  /\ UNCHANGED <<now, fpc, cur, nlog, nflush, need, flag, q, wpos, nodes, rpos, rpub, fail, valid, reg, ctxs, invalidCnt, ring, bi, tsNow,
                 batchMode, lastIdle, flushWho, written, flushedTo, nid, dropped, reported, anyLate, bad>>
  /\ Step("B", "batchiter", <<>>, <<>>)

\* idle branch, one action per hook
BIdle0 ==      \* force flush all sinks
  /\ UNCHANGED LgVars /\ UNCHANGED acc /\ UNCHANGED RmVars
  /\ bpc = "idle0" /\ bpc' = "idle1" /\ flushedTo' = Len(written)
  /\ UNCHANGED <<now, fpc, cur, nlog, nflush, need, flag, q, wpos, nodes, rpos, rpub, fail, valid, reg, ctxs, newFlag, invalidCnt, cache, ring,
                 bi, tsNow, batchMode, lastIdle, flushWho, written, nid, dropped, reported, anyLate, bad>>
  /\ Step("B", "idle0", <<>>, <<[k |-> "sflush", s |-> "S0", thr |-> FALSE]>>)

BIdle1 ==      \* report and reset failure counters of the cached contexts
  /\ UNCHANGED LgVars /\ UNCHANGED acc /\ UNCHANGED RmVars
  /\ bpc = "idle1" /\ bpc' = "idle2"
  /\ LET rep == IF Bounded THEN SumFail(Range(cache)) ELSE 0 IN
     /\ reported' = reported + (IF Dropping THEN rep ELSE 0)
     /\ fail' = [t \in Threads |-> IF t \in Range(cache) /\ Bounded THEN 0 ELSE fail[t]]
     /\ Step("B", "idle1", <<>>, NotifySeq(cache))
  /\ UNCHANGED <<now, fpc, cur, nlog, nflush, need, flag, q, wpos, nodes, rpos, rpub, valid, reg, ctxs, newFlag, invalidCnt, cache, ring, bi,
                 tsNow, batchMode, lastIdle, flushWho, written, flushedTo, nid, dropped, anyLate, bad>>

BIdle2 ==      \* are all queues and rings empty? (cache reload first)
  /\ UNCHANGED LgVars /\ UNCHANGED acc /\ UNCHANGED RmVars
  /\ bpc = "idle2"
  /\ cache' = Reload(cache) /\ newFlag' = FALSE
  /\ bpc' = IF \A i \in 1..Len(Reload(cache)) : QEmpty(Reload(cache)[i]) /\ ring[Reload(cache)[i]] = <<>> THEN "idle3" ELSE "start"
  /\ UNCHANGED <<now, fpc, cur, nlog, nflush, need, flag, q, wpos, nodes, rpos, rpub, fail, valid, reg, ctxs, invalidCnt, ring, bi, tsNow,
                 batchMode, lastIdle, flushWho, written, flushedTo, nid, dropped, reported, anyLate, bad>>
  /\ Step("B", "idle2", <<>>, <<>>)

AllEmptyNow(c) == \A i \in 1..Len(c) : QEmpty(c[i]) /\ ring[c[i]] = <<>>
BIdle3 ==      \* clean up invalidated contexts, then invalidated loggers (and shrink rings); the poll ends
  /\ bpc = "idle3" /\ bpc' = "start" /\ lastIdle' = TRUE
  /\ LET rem == IF invalidCnt # 0 THEN Removable(cache, ring) ELSE {}
         rep == IF ReportOnRemove /\ Bounded /\ Dropping THEN SumFail(rem) ELSE 0
         c1 == Without(cache, rem)
         \* cleanup_invalidated_loggers(check): every invalid logger is freed iff all queues and rings are empty - re-checked
         \* (with a cache reload) for each of them, or taken from the check the poll made before (the variant the code must not be)
         pend == {l \in Loggers : lgPresent[l] /\ ~lgValid[l]}
         doLg == hasInval
         c2 == IF doLg /\ RecheckOnRemove /\ pend # {} /\ newFlag THEN Without(ctxs, rem) ELSE c1   \* reload reads the registry after the removal above
         emptyNow == IF RecheckOnRemove THEN AllEmptyNow(c2) ELSE TRUE
         gone == IF doLg /\ emptyNow THEN pend ELSE {} IN
     /\ cache' = c2 /\ ctxs' = Without(ctxs, rem)
     /\ newFlag' = IF doLg /\ RecheckOnRemove /\ pend # {} THEN FALSE ELSE newFlag
     /\ invalidCnt' = invalidCnt - Cardinality(rem)
     /\ fail' = [t \in Threads |-> IF t \in rem /\ ReportOnRemove THEN 0 ELSE fail[t]]
     /\ reported' = reported + rep
     /\ lgPresent' = [l \in Loggers |-> lgPresent[l] /\ l \notin gone]
     /\ rmDone' = [t \in Threads |-> rmDone[t] \/ \E l \in gone : rmWait[l] = t]
     /\ rmWait' = [l \in Loggers |-> IF l \in gone THEN "" ELSE rmWait[l]]
     /\ hasInval' = IF doLg THEN (pend \ gone) # {} ELSE hasInval
     /\ UNCHANGED lgValid
     \* C20 on the model: after an idle poll that found everything empty, retained contexts = live threads that logged
     /\ bad' = Fail((\A t \in Threads : QEmpty(t) /\ ring[t] = <<>> /\ ~newFlag) =>
                      Range(Without(ctxs, rem)) = {t \in Threads : reg[t] /\ valid[t]},
                    "C20: a dead thread's context is retained (or a live one removed) after an idle poll")
     /\ Step("B", "idle3", <<>>, (IF rep > 0 THEN <<[k |-> "notify", cls |-> "dropped", n |-> rep]>> ELSE <<>>)
                                  \o (IF gone # {} THEN <<[k |-> "loggercount", n |-> Cardinality({l \in Loggers : lgPresent[l]} \ gone)]>> ELSE <<>>))
  /\ UNCHANGED <<now, fpc, cur, nlog, nflush, need, flag, q, wpos, nodes, rpos, rpub, valid, reg, ring, bi, tsNow, batchMode, flushWho, written,
                 flushedTo, acc, nid, dropped, anyLate>>

Next == \/ \E t \in Threads : \/ \E sz \in Sizes, l \in Loggers : LogStart(t, sz, l)
                              \/ Enqueue(t) \/ Retry(t) \/ FlushStart(t) \/ FlushCheck(t) \/ ThreadExit(t)
        \/ (\E l \in Loggers : RemoveLogger(l)) \/ (\E t \in Threads, l \in Loggers : RemoveBlockingStart(t, l))
        \/ (\E t \in Threads : RemoveBlockingCheck(t)) \/ (\E t \in Threads : ShrinkQueue(t, Cap)) \/ Tick \/ BStart \/ BRead \/ BProc \/ BAfterPop \/ BBatchIter \/ BIdle0 \/ BIdle1 \/ BIdle2 \/ BIdle3
Spec == Init /\ [][Next]_vars
BackendNext == BStart \/ BRead \/ BProc \/ BAfterPop \/ BBatchIter \/ BIdle0 \/ BIdle1 \/ BIdle2 \/ BIdle3
FairSpec == Spec /\ WF_vars(BackendNext) /\ \A t \in Threads : WF_vars(Retry(t)) /\ WF_vars(FlushCheck(t)) /\ WF_vars(Enqueue(t))

\* ------------------------------------------------------------------ properties on the model
NoBad == bad = ""                       \* the per-action checks of C03 C05 C06 C08 C20 above
\* C09 (safety form): a blocked producer whose queue and ring are empty after a completed idle poll can reserve
NoStall == \A t \in Threads : (fpc[t] = "blocked" /\ q[t] = <<>> /\ ring[t] = <<>> /\ bpc = "start" /\ lastIdle /\ cur[t].sz <= (IF Bounded THEN Cap ELSE MaxCap))
                               => Fits(t, cur[t].sz)
\* C08: when everything is quiet the reported discards add up (bounded dropping)
Quiet == bpc = "start" /\ lastIdle /\ \A t \in Threads : fpc[t] \in {"idle", "done", "rmwait"} /\ q[t] = <<>> /\ ring[t] = <<>> /\ fail[t] = 0
DropsAddUp == (Bounded /\ Dropping /\ Quiet) => reported = Cardinality(dropped)
\* C03: at quiet points everything accepted has been written
AllDelivered == Quiet => \A id \in acc : \E i \in 1..Len(written) : written[i].id = id
TypeOK == /\ \A t \in Threads : wpos[t] >= rpos[t] /\ rpos[t] >= rpub[t] /\ (Bounded => wpos[t] - rpub[t] <= Cap)
          \* C02 on the model: no buffer beyond the configured maximum, chain ordered, producer's buffer never overfull
          /\ \A t \in Threads : /\ Len(nodes[t]) >= 1 /\ Free(t) >= 0
                                /\ \A i \in 1..Len(nodes[t]) : nodes[t][i].cap <= Max2(Cap, MaxCap)
                                /\ \A i \in 1..Len(nodes[t]) - 1 : nodes[t][i].base <= nodes[t][i + 1].base
          /\ flushedTo <= Len(written) /\ invalidCnt >= 0
\* liveness (FairSpec): a blocked call resumes, a flush returns, every enqueued statement is written
Resumes == \A t \in Threads : (fpc[t] = "blocked" /\ cur[t].sz <= Cap) ~> (fpc[t] # "blocked")
FlushReturns == \A t \in Threads : (fpc[t] = "flushwait") ~> (fpc[t] = "idle")

StateView == <<now, fpc, cur, nlog, nflush, need, flag, q, wpos, rpos, rpub, fail, valid, reg, nodes, ctxs, newFlag, invalidCnt,
               cache, ring, bpc, bi, tsNow, batchMode, lastIdle, flushWho, written, flushedTo, rmWait, rmDone, lgValid, lgPresent, hasInval, acc,
               nid, dropped, reported, anyLate, bad>>
ExportA == Export => PrintT("BEH " \o ToJson(hist'))
\* simulation mode: one behaviour per simulated trace, printed when the trace reaches level 60 (tlc -simulate -depth 62) or its end
ExportSim == (Export /\ (TLCGet("level") = 60 \/ ~(ENABLED Next)')) => PrintT("BEH " \o ToJson(hist'))
=============================================================================
