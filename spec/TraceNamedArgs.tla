--------------------------- MODULE TraceNamedArgs ---------------------------
(* Trace validation for C19: statements executed on the real quill (frontend, queue, backend, a    *)
(* recording sink and the real JsonFileSink whose file is read back) are judged by the contract    *)
(* NamedArgsContract.  One line per statement:                                                     *)
(*  {"op":"stmt","i":n,"tpl":[chars],"nargs":k,                                                    *)
(*   "oracle":{"ok":b,"pos":s,"specs":[s],"text":s,"textnt":s,"vals":[s]},  fmt itself on the REFERENCE template *)
(*   "varnames":[s],                                               LOGJ_ statements: variable names of the call *)
(*   "text":s,"pairs":[[k,v]],                                     what the recording sink received    *)
(*   "meta":{"ts","file","path","line","thread","logger","level"}, what the statement was issued with  *)
(*   "json":{"nlines":n,"object":b,"parsed":b,"needesc":b,"members":[[k,v]]}}   bytes the JSON sink wrote *)
(* Other lines: {"op":"reset"} separates processes; {"op":"ref","i":n,"tpl":[chars]} asks for the  *)
(* reference parse of a template (printed as REF ...; used to prepare the harness scripts).        *)
(* Every rejected statement is printed (REJ {i, why}); Conforms fails at the end of the trace if   *)
(* there was any, so one run judges all executions.                                                 *)
EXTENDS Naturals, Sequences, FiniteSets, TLC, Json, IOUtils
C == INSTANCE NamedArgsContract
TraceLog == ndJsonDeserialize(IOEnv.TRACE)
VARIABLES l, nrej, nood, nbad
vars == <<l, nrej, nood, nbad>>

Init == l = 1 /\ nrej = 0 /\ nood = 0 /\ nbad = 0

Strs(ss) == [i \in 1..Len(ss) |-> C!Str(ss[i])]
RefLine(e) ==
  LET r == C!RefOf(e.tpl) IN
  PrintT("REF " \o ToJson([i |-> e.i, acc |-> C!Accepted(r), pos |-> C!Str(r.pos),
                            names |-> [k \in 1..Len(r.keys) |-> C!Str(r.keys[k].name)],
                            specs |-> [k \in 1..Len(r.keys) |-> C!Str(r.keys[k].spec)],
                            toks |-> C!Str(r.toks)]))

\* the oracle carried in the trace must have been computed for the reference parse of this very template
OracleSane(e, r) ==
  /\ e.oracle.pos = C!Str(r.pos)
  /\ Len(e.oracle.specs) = C!NFields(r)
  /\ \A k \in 1..C!NFields(r) : e.oracle.specs[k] = C!Str(r.keys[k].spec)
  /\ Len(e.oracle.vals) = e.nargs

Next ==
  /\ l <= Len(TraceLog)
  /\ l' = l + 1
  /\ LET e == TraceLog[l] IN
     CASE e.op = "reset" -> UNCHANGED <<nrej, nood, nbad>>
       [] e.op = "ref" -> RefLine(e) /\ UNCHANGED <<nrej, nood, nbad>>
       [] e.op = "stmt" ->
            LET r == C!RefOf(e.tpl) IN
            IF ~C!Accepted(r) \/ ~C!InDomain(e, r)
            THEN PrintT("OOD " \o ToJson([i |-> e.i])) /\ nood' = nood + 1 /\ UNCHANGED <<nrej, nbad>>
            ELSE IF ~OracleSane(e, r)
            THEN PrintT("BADORACLE " \o ToJson([i |-> e.i])) /\ nbad' = nbad + 1 /\ UNCHANGED <<nrej, nood>>
            ELSE LET f == C!Failures(e, r) IN
                 IF f = {} THEN UNCHANGED <<nrej, nood, nbad>>
                 ELSE /\ PrintT("REJ " \o ToJson([i |-> e.i, why |-> f]))
                      /\ nrej' = nrej + 1 /\ UNCHANGED <<nood, nbad>>

Spec == Init /\ [][Next]_vars
\* evaluated at the end of the trace: no recorded execution was rejected by the contract
Conforms == (l > Len(TraceLog)) => nrej = 0
OracleOK == nbad = 0
=============================================================================
