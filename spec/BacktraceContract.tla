-------------------------- MODULE BacktraceContract --------------------------
(* Layer A for C18: what a user may observe of LOG_BACKTRACE / flush_backtrace / init_backtrace.   *)
(* State per logger: the SET of windows the property allows (a set because the property does not *)
(* say whether re-initialisation keeps or forgets what is stored; both are accepted).             *)
EXTENDS Naturals, Sequences, FiniteSets

LastN(s, n) == IF Len(s) <= n THEN s ELSE SubSeq(s, Len(s) - n + 1, Len(s))

\* contract state of one logger: cap = 0 means "init_backtrace never called"
CInit == [cap |-> 0, fl |-> 99, wins |-> {<<>>}]

CReinit(c, newcap, newfl) ==
  [cap |-> newcap, fl |-> newfl,
   wins |-> IF c.cap = 0 THEN {<<>>} ELSE {<<>>} \cup {LastN(w, newcap) : w \in c.wins}]

\* a backtrace statement is never written when logged; without init it is reported and dropped
CStore(c, id) ==
  IF c.cap = 0 THEN c ELSE [c EXCEPT !.wins = {LastN(Append(w, id), c.cap) : w \in c.wins}]

\* outputs allowed for an explicit flush, and the state afterwards
CFlushAllowed(c) == IF c.cap = 0 THEN {<<>>} ELSE c.wins
CFlush(c) == [c EXCEPT !.wins = {<<>>}]

\* an ordinary statement `id` at level `lvl`: written itself; at/above the flush level the window follows
CStmtAllowed(c, id, lvl) ==
  IF c.cap # 0 /\ lvl >= c.fl THEN {<<id>> \o w : w \in c.wins} ELSE {<<id>>}
CStmt(c, lvl) == IF c.cap # 0 /\ lvl >= c.fl THEN CFlush(c) ELSE c
=============================================================================
