SPECIFICATION Spec
INVARIANT Faithful
CHECK_DEADLOCK FALSE
