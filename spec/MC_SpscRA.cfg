SPECIFICATION Spec
CONSTANTS Cap = 4
 M = 16
 Start = 13
 Sizes = {1,2,4}
 MaxRecs = 4
 Batch = 1
 MoCommitW = "ra"
 MoLoadR = "ra"
 MoLoadW = "ra"
 MoCommitR = "ra"
 PublishWhenDrained = FALSE
 MaxDeny = 1
 Export = FALSE
INVARIANTS NoRace Fifo GrantFits Contiguous ConsumedIsPrefix
VIEW StateView
CHECK_DEADLOCK FALSE
