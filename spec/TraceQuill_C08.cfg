SPECIFICATION Spec
INVARIANT Ok08
CHECK_DEADLOCK FALSE
