---------------------------- MODULE LifeContract ----------------------------
(* Layer A for C07: what an outside observer may see of stop / exit / handled signals.              *)
(* Observable events (DESIGN Appendix A): Start (returned, is_running), LogReturn(t,n), StopCall,   *)
(* StopReturn + FileContent, EndCall (the request that ends the process: exit / return from main /  *)
(* a signal raised at thread t between two of its statements), ProcessEnd(status) + FileContent.    *)
(* A file is a sequence of lines; a line is a record [k, t, n, sig]:                                *)
(*   statement n of thread t  [k |-> "s", t |-> t, n |-> n, sig |-> "-"]                            *)
(*   handler notice           [k |-> "n", t |-> "-", n |-> 0, sig |-> s]   ("Received signal ...") *)
(*   handler critical line    [k |-> "c", ...]  ("Program terminated unexpectedly ...")            *)
(*   anything else            [k |-> "x", ...]                                                      *)
(* The stop()/exit clause of C07 is conditional on wait_for_queues_to_empty_before_exit (wait); the   *)
(* signal clause is not: with wait = FALSE a stop / exit request promises nothing, a handled signal *)
(* still promises the signalled thread's earlier statements, the notice and the right status.       *)
(* The contract is deliberately silent about: statements of threads other than the signalled one,   *)
(* statements whose log call had not returned when the stop was requested, duplicates, cross-thread *)
(* order, whether is_running() is false after stop, what a signal does while no backend runs.       *)
EXTENDS Naturals, Sequences, FiniteSets

Graceful == {"INT", "TERM"}
Stmt(t, n) == [k |-> "s", t |-> t, n |-> n, sig |-> "-"]
Notice(s) == [k |-> "n", t |-> "-", n |-> 0, sig |-> s]
Crit(s) == [k |-> "c", t |-> "-", n |-> 0, sig |-> s]
FlushReq == [k |-> "f", t |-> "-", n |-> 0, sig |-> "-"]

NoStatus == [kind |-> "none", code |-> 0, sig |-> "-"]
Exited(c) == [kind |-> "exited", code |-> c, sig |-> "-"]
Killed(s) == [kind |-> "killed", code |-> 0, sig |-> s]

\* least index >= p at which `it` occurs in `lines`, 0 if none
RECURSIVE Find(_, _, _)
Find(lines, it, p) == IF p > Len(lines) THEN 0 ELSE IF lines[p] = it THEN p ELSE Find(lines, it, p + 1)

\* statements j..k of thread t occur, in this order, within lines[p..upto] (as a subsequence)
RECURSIVE HasFrom(_, _, _, _, _, _)
HasFrom(lines, t, j, k, p, upto) ==
  IF j > k THEN TRUE
  ELSE LET i == Find(lines, Stmt(t, j), p) IN i # 0 /\ i <= upto /\ HasFrom(lines, t, j + 1, k, i + 1, upto)

\* "loses no statement": the first k statements of t are in the file, in order
HasStmts(lines, t, k) == HasFrom(lines, t, 1, k, 1, Len(lines))

\* the signalled thread's k earlier statements, in order, FOLLOWED BY the notice
SigLinesOK(lines, t, k, s) ==
  \E i \in 1..Len(lines) : lines[i] = Notice(s) /\ HasFrom(lines, t, 1, k, 1, i - 1)

\* the process dies from the original signal, or exits successfully for SIGINT / SIGTERM
SigStatusOK(s, status) == status = (IF s \in Graceful THEN Exited(0) ELSE Killed(s))

SigEndOK(lines, t, k, s, status) == SigLinesOK(lines, t, k, s) /\ SigStatusOK(s, status)

(* ------------------------------------------------------------------------------------------------ *)
(* The contract as a state machine over the observable events (used by TraceLife).                  *)
(*   done[t]  statements of t whose log call has returned                                           *)
(*   must[t]  statements of t that a stop request has promised to the file                          *)
(*   up       a Start has returned and no stop / end has been requested since                       *)
(*   end      the request that ends the process, once made                                          *)
(*   wait     BackendOptions::wait_for_queues_to_empty_before_exit of this process                  *)
NoEnd == [kind |-> "none", t |-> "-", sig |-> "-", code |-> 0, k |-> 0, scope |-> FALSE]
CInit(T, wait) == [done |-> [t \in T |-> 0], must |-> [t \in T |-> 0], up |-> FALSE, end |-> NoEnd, wait |-> wait]

CLogRet(c, t, n) == [c EXCEPT !.done[t] = n]

\* "the backend can be started again afterwards": Start must leave a running backend, every time
CStartOK(c, running) == running
CStart(c) == [c EXCEPT !.up = TRUE]

\* a stop request promises every statement whose log call returned before it (only a running backend is stopped)
CStopCall(c) == [c EXCEPT !.must = IF c.up /\ c.wait THEN c.done ELSE c.must, !.up = FALSE]
\* ... and they are written and flushed when stop() returns (= the backend thread has terminated)
CStopRetOK(c, lines) == \A t \in DOMAIN c.must : HasStmts(lines, t, c.must[t])

\* exit()/return from main = a stop request by normal process exit; a signal promises the signalled thread's
\* own earlier statements plus the notice, provided the backend was up when it hit (scope)
CEndCall(c, kind, t, s, code) ==
  [c EXCEPT !.end = [kind |-> kind, t |-> t, sig |-> s, code |-> code,
                     k |-> IF kind = "sig" THEN c.done[t] ELSE 0, scope |-> c.up],
            !.must = IF kind # "sig" /\ c.up /\ c.wait THEN c.done ELSE c.must,
            !.up = IF kind # "sig" THEN FALSE ELSE c.up]

CEndOK(c, status, lines) ==
  /\ \A t \in DOMAIN c.must : HasStmts(lines, t, c.must[t])        \* what earlier stops promised is still there
  /\ CASE c.end.kind \in {"exit", "ret"} -> status = Exited(c.end.code)
       [] c.end.kind = "sig" -> (c.end.scope => SigEndOK(lines, c.end.t, c.end.k, c.end.sig, status))
       [] OTHER -> FALSE                                              \* the process ended though nobody asked it to
=============================================================================
