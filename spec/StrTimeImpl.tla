---------------------------- MODULE StrTimeImpl ----------------------------
(* Layer I for C13, the pure part: StringFromTime::format_timestamp, TimestampFormatter's constructor and  *)
(* _write_fractional_seconds transcribed as operators (one per code path), shared by the exhaustive model *)
(* (StrTime) and by trace validation (TraceStrTime). Constants are extracted from the code at check time. *)
EXTENDS Integers, Sequences, FiniteSets
CONSTANTS RecalcLocal,     \* LocalTime: the cached string is rebuilt at points of a grid of this period (code: 900 s)
          RecalcGmt,       \* GmtTime: same (code: 43200 s = noon and midnight)
          RepeatRejected   \* does the constructor reject a further fractional specifier after the first (pinned code: FALSE)
C == INSTANCE StrTimeContract

\* epoch 0 relative to the base: a fresh StringFromTime has _cached_timestamp = _next_recalculation_timestamp = 0,
\* which lies before every instant considered (2001..2100)
MinT == -1000000000
Fresh == [ts |-> MinT, next |-> MinT, secs |-> 0, pre |-> C!NoFields]

\* _next_quarter_hour_timestamp / _next_noon_or_midnight_timestamp: the next point of a grid; bm = <<bmLocal, bmGmt>>
\* = (base - grid anchor) mod period, because instants are relative to the base
NextRecalc(mode, t, bm) ==
  LET P == IF mode = "gmt" THEN RecalcGmt ELSE RecalcLocal
      b == IF mode = "gmt" THEN bm[2] ELSE bm[1]
  IN ((t + b) \div P) * P + P - b

\* the digit patch of format_timestamp (hours / minutes / seconds from _cached_seconds, the 12-hour forms, epoch)
Patch(pre, secs, t) ==
  LET h == secs \div 3600
      m == (secs - h * 3600) \div 60
      s == secs - h * 3600 - m * 60
      h12 == IF h = 0 THEN 12 ELSE IF h > 12 THEN h - 12 ELSE h
  IN [pre EXCEPT !.H = h, !.M = m, !.S = s, !.I = h12, !.l = h12, !.k = h, !.s = t]

\* StringFromTime::format_timestamp on cache cp. hasIdx: the part contains a patched conversion (_cached_indexes
\* not empty). Returns the new cache, the fields shown by the returned string and the path taken.
FormatPart(cp, hasIdx, mode, zone, bm, t) ==
  IF t < cp.ts
  THEN \* back in time: strftime of the whole format, cache untouched
       [c |-> cp, out |-> C!Fields(mode, zone, t), path |-> "fallback"]
  ELSE LET rb == t >= cp.next
           c1 == IF rb THEN [ts |-> t, next |-> NextRecalc(mode, t, bm), secs |-> C!Sod(mode, zone, t),
                             pre |-> C!Fields(mode, zone, t)]
                       ELSE cp
       IN IF ~hasIdx \/ c1.ts = t
          THEN [c |-> c1, out |-> c1.pre, path |-> IF rb THEN "rebuild" ELSE "same"]
          ELSE LET secs2 == c1.secs + (t - c1.ts)
                   pre2 == Patch(c1.pre, secs2, t)
               IN [c |-> [c1 EXCEPT !.ts = t, !.secs = secs2, !.pre = pre2], out |-> pre2, path |-> "patch"]

\* what a part shows: "full" = date, am/pm, zone and every patched conversion; "coarse" = no patched conversion;
\* "opaque" = no patched conversion but a composite one that prints the time of day (%c): nothing patches it
HasIdx(sh) == sh = "full"
Proj(sh, f) == IF sh \in {"full", "opaque"} THEN f ELSE IF sh = "coarse" THEN C!CoarseOf(f) ELSE <<>>

\* _write_fractional_seconds: a field of zeros, the unpadded digits copied so that they end at the end of the field
RECURSIVE Digits(_)
Digits(v) == IF v < 10 THEN <<v>> ELSE Append(Digits(v \div 10), v % 10)
WriteFrac(fk, ns) ==
  LET W == C!FracWidth(fk)
      d == Digits(C!FracValue(fk, ns))
  IN [i \in 1..W |-> IF i > W - Len(d) THEN d[i - (W - Len(d))] ELSE 0]

\* TimestampFormatter::format_timestamp; shape = [p1, fk, p2], c = <<cache of part 1, cache of part 2>>
FormatTs(c, shape, mode, zone, bm, t, ns) ==
  LET r1 == FormatPart(c[1], HasIdx(shape.p1), mode, zone, bm, t)
      r2 == IF shape.p2 = "none" THEN [c |-> c[2], out |-> C!NoFields, path |-> "none"]
            ELSE FormatPart(c[2], HasIdx(shape.p2), mode, zone, bm, t)
  IN [c |-> <<r1.c, r2.c>>,
      out |-> [p1 |-> Proj(shape.p1, r1.out), frac |-> WriteFrac(shape.fk, ns), p2 |-> Proj(shape.p2, r2.out)],
      raw |-> <<r1.out, r2.out>>,
      paths |-> <<r1.path, r2.path>>]
\* the contract's answer for the same call
RefTs(shape, mode, zone, t, ns) ==
  [p1 |-> Proj(shape.p1, C!Fields(mode, zone, t)), frac |-> C!FracDigits(shape.fk, ns),
   p2 |-> Proj(shape.p2, C!Fields(mode, zone, t))]

\* TimestampFormatter's constructor on a pattern given as a sequence of token kinds ("ms" "us" "ns" "X" or
\* anything else): first occurrence of each specifier, mixed ones rejected, split around the one found, %X
\* rejected by StringFromTime::init of either part
First(p, k) == IF \E i \in DOMAIN p : p[i] = k THEN CHOOSE i \in DOMAIN p : p[i] = k /\ \A j \in 1..(i - 1) : p[j] # k ELSE 0
Ctor(p) ==
  LET ms == First(p, "ms")
      us == First(p, "us")
      ns == First(p, "ns")
      mixed == (ms # 0 /\ us # 0) \/ ((ms # 0 \/ us # 0) /\ ns # 0)
      fk == IF ns # 0 THEN "ns" ELSE IF us # 0 THEN "us" ELSE IF ms # 0 THEN "ms" ELSE "none"
      b == IF ns # 0 THEN ns ELSE IF us # 0 THEN us ELSE ms
      p1 == IF b = 0 THEN p ELSE SubSeq(p, 1, b - 1)
      p2 == IF b = 0 THEN <<>> ELSE SubSeq(p, b + 1, Len(p))
      again == \E i \in DOMAIN p2 : p2[i] \in C!FracKinds
      hasX == \E i \in DOMAIN p : p[i] = "X"
  IN [ok |-> ~mixed /\ ~hasX /\ ~(RepeatRejected /\ again), fk |-> fk, p1 |-> p1, p2 |-> p2]
=============================================================================
