------------------------------ MODULE NamedArgs ------------------------------
(* Layer I for C19, next to the contract (NamedArgsContract).                                       *)
(*   Detect    = MacroMetadata::_contains_named_args, transcribed loop for loop                      *)
(*   Scan      = BackendWorker::_process_named_args_format_message, transcribed: the find_first_of   *)
(*               cursor logic with its "is the next brace adjacent" tests, not an idealisation       *)
(*   Cache     = _named_args_templates: first lookup of a format string parses, later ones reuse     *)
(*   JoinSplit = _format_and_split_arguments: values formatted into one string joined by the magic   *)
(*               separator, then split again with find()                                             *)
(* Three independent explorations share the module (one SPECIFICATION each):                         *)
(*   SpecEnum  : every template over Alphabet up to MaxLen (one state per template)                  *)
(*   SpecCache : every history of <= CacheOps lookups over the accepted templates of length <= CacheLen *)
(*   SpecSplit : every list of <= MaxArgs values of <= VLen bytes over {sep bytes, plain, quote}     *)
EXTENDS Integers, Sequences, FiniteSets, TLC, Json
CONSTANTS Alphabet,          \* one-character strings
          MaxLen,            \* template length bound
          Prune,             \* TRUE: do not extend prefixes no extension of which fmt accepts
          SkipEscapedClose,  \* TRUE: the scanner treats "}}" after the first "}" of a field as escaped
                             \*       (behaviour of the code, extracted by a probe at check time)
          ExportAll,         \* export every template of length <= ExportAll (model prediction, for replay)
          ExportAcc,         \* export every accepted template of length <= ExportAcc that is not literal text only
          CacheLen, CacheOps,
          MaxArgs, VLen,
          ExportSplit        \* TRUE: export every value list with the model's split result (for replay)
C == INSTANCE NamedArgsContract

VARIABLES t, r,              \* SpecEnum: template, reference-parser state after t
          pool, cache, last, \* SpecCache: templates used, first-seen-ordered cache, results of the lookups so far
          vs                 \* SpecSplit: argument values (byte sequences)
vars == <<t, r, pool, cache, last, vs>>

NPOS == -1
At(s, i) == s[i + 1]                                  \* 0-based indexing as in the code
Sub(s, from, cnt) == SubSeq(s, from + 1, from + cnt)  \* substr(from, cnt), cnt never past the end here

\* std::string_view::find_first_of(c, from) / find(c, from)
RECURSIVE Find(_, _, _)
Find(s, c, from) ==
  IF from = NPOS \/ from >= Len(s) THEN NPOS
  ELSE IF At(s, from) = c THEN from ELSE Find(s, c, from + 1)

\* ------------------------------------------------------------------ Detect (_contains_named_args)
RECURSIVE DInner(_, _, _), DOuter(_, _, _)
DInner(s, pos, cnt) ==                                \* while (pos < fmt.length()) looking for the closing brace
  IF pos >= Len(s) THEN [pos |-> pos, cnt |-> cnt]
  ELSE IF At(s, pos) = "}"
       THEN IF pos + 1 >= Len(s) THEN [pos |-> pos + 1, cnt |-> cnt]            \* ++pos; break
            ELSE IF At(s, pos + 1) = "}" THEN DInner(s, pos + 2, cnt + 1)       \* escaped: ++pos; ++char_cnt; continue
            ELSE [pos |-> pos + 1, cnt |-> cnt]                                 \* match found: break
       ELSE DInner(s, pos + 1, cnt + 1)
DOuter(s, pos, found) ==
  IF pos >= Len(s) THEN found
  ELSE IF At(s, pos) = "{"
       THEN IF pos + 1 >= Len(s) THEN found                                      \* ++pos; break
            ELSE LET fc == At(s, pos + 1) IN
                 IF fc = "{" THEN DOuter(s, pos + 2, found)                      \* ++pos; continue (skips the final ++pos)
                 ELSE LET d == DInner(s, pos + 1, 0) IN
                      DOuter(s, d.pos + 1, found \/ (d.cnt # 0 /\ fc \in C!Letters))
       ELSE DOuter(s, pos + 1, found)
Detect(s) == DOuter(s, 0, FALSE)

\* ------------------------------------------------------------------ Scan (_process_named_args_format_message)
RECURSIVE SInner(_, _), SOuter(_, _, _, _, _)
\* the inner while over close_bracket_pos: position at which the field is cut, NPOS if the loop runs out
SInner(s, close) ==
  IF close = NPOS THEN NPOS
  ELSE LET c2 == Find(s, "}", close + 1) IN
       IF SkipEscapedClose /\ c2 # NPOS /\ c2 - 1 = close
       THEN SInner(s, Find(s, "}", c2 + 1))
       ELSE close
SOuter(s, open, cur, out, keys) ==
  IF open = NPOS
  THEN [pos |-> out \o Sub(s, cur, Len(s) - cur), keys |-> keys]
  ELSE LET o2 == Find(s, "{", open + 1) IN
       IF o2 # NPOS /\ o2 - 1 = open
       THEN SOuter(s, Find(s, "{", o2 + 1), cur, out, keys)                      \* "{{": skip both
       ELSE LET close == SInner(s, Find(s, "}", open + 1)) IN
            IF close = NPOS
            THEN SOuter(s, NPOS, cur, out, keys)                                 \* find('{', npos) = npos
            ELSE LET inside == Sub(s, open + 1, close - (open + 1))
                     colon == Find(inside, ":", 0)
                     syntax == IF colon # NPOS THEN Sub(inside, colon, Len(inside) - colon) ELSE <<>>
                     name == IF colon # NPOS THEN Sub(inside, 0, colon) ELSE inside
                 IN  SOuter(s, Find(s, "{", close), close + 1,
                            out \o Sub(s, cur, open - cur) \o <<"{">> \o syntax \o <<"}">>,
                            Append(keys, [name |-> name, spec |-> syntax]))
Scan(s) == SOuter(s, Find(s, "{", 0), 0, <<>>, <<>>)

\* what the backend uses for a statement seen for the first time: named path iff the flag is set
Pipeline(s) == IF Detect(s) THEN Scan(s) ELSE [pos |-> s, keys |-> <<>>]

\* ------------------------------------------------------------------ SpecEnum
InitEnum == t = <<>> /\ r = C!R0 /\ pool = {} /\ cache = <<>> /\ last = <<>> /\ vs = <<>>
Extend == /\ Len(t) < MaxLen
          /\ \E c \in Alphabet : t' = Append(t, c) /\ r' = C!RefStep(r, c)
          /\ UNCHANGED <<pool, cache, last, vs>>
SpecEnum == InitEnum /\ [][Extend]_vars
PruneC == Prune => C!Viable(r)

Agrees == Pipeline(t) = C!RefOut(r)
\* C19 on the model: for every template fmt accepts, positional template and [(name, spec)] equal the reference
ScanMatchesRef == C!Accepted(r) => Agrees
\* classification of the disagreements: exactly the templates with a placeholder directly followed by "}}"
DisagreeOnlyInShape == C!Accepted(r) => (Agrees <=> ~(SkipEscapedClose /\ C!FieldThenEscClose(r)))
\* the incremental reference state is the reference parse of t
RefIncremental == r = C!RefOf(t)

KeysJ(ks) == [i \in 1..Len(ks) |-> <<C!Str(ks[i].name), C!Str(ks[i].spec)>>]
ExportC ==
  LET acc == C!Accepted(r) IN
  IF (acc /\ Len(t) <= ExportAcc /\ \E i \in 1..Len(r.toks) : r.toks[i] # "L") \/ Len(t) <= ExportAll
  THEN LET p == Pipeline(t)
           s == Scan(t) IN
       PrintT("BEH " \o ToJson([t |-> C!Str(t), acc |-> acc, det |-> Detect(t),
                                 spos |-> C!Str(s.pos), skeys |-> KeysJ(s.keys),
                                 rpos |-> C!Str(r.pos), rkeys |-> KeysJ(r.keys), toks |-> C!Str(r.toks),
                                 agree |-> (p = C!RefOut(r))]))
  ELSE TRUE

\* ------------------------------------------------------------------ SpecCache
RECURSIVE SeqsUpTo(_)
SeqsUpTo(n) == IF n = 0 THEN {<<>>} ELSE LET S == SeqsUpTo(n - 1) IN S \cup {Append(s, c) : s \in {x \in S : Len(x) = n - 1}, c \in Alphabet}
CacheTemplates == {s \in SeqsUpTo(CacheLen) : C!Accepted(C!RefOf(s)) /\ C!NFields(C!RefOf(s)) > 0}
InitCache == t = <<>> /\ r = C!R0 /\ pool = CacheTemplates /\ cache = <<>> /\ last = <<>> /\ vs = <<>>
\* _named_args_templates.find(format) ... try_emplace(format, _process_named_args_format_message(format))
Hit(s) == {i \in 1..Len(cache) : cache[i].key = s}
LookupHit ==
  /\ Len(last) < CacheOps
  /\ \E s \in pool :
       /\ Hit(s) # {}
       /\ last' = Append(last, [tpl |-> s, res |-> cache[CHOOSE i \in Hit(s) : TRUE].val, hit |-> TRUE])
  /\ UNCHANGED <<t, r, pool, cache, vs>>
LookupMiss ==
  /\ Len(last) < CacheOps
  /\ \E s \in pool :
       /\ Hit(s) = {}
       /\ cache' = Append(cache, [key |-> s, val |-> Scan(s)])
       /\ last' = Append(last, [tpl |-> s, res |-> Scan(s), hit |-> FALSE])
  /\ UNCHANGED <<t, r, pool, vs>>
SpecCache == InitCache /\ [][LookupHit \/ LookupMiss]_vars
\* the result of a lookup does not depend on what was looked up before
CacheOrderIndependent == \A i \in 1..Len(last) : last[i].res = Scan(last[i].tpl)
CacheKeysDistinct == \A i, j \in 1..Len(cache) : cache[i].key = cache[j].key => i = j

\* ------------------------------------------------------------------ SpecSplit
Bytes == {"1", "2", "3", "x", "q"}             \* the three separator bytes \x01 \x02 \x03, a plain byte, a quote
Sep == <<"1", "2", "3">>
InitSplit == t = <<>> /\ r = C!R0 /\ pool = {} /\ cache = <<>> /\ last = <<>> /\ vs = <<>>
NewArg == Len(vs) < MaxArgs /\ vs' = Append(vs, <<>>) /\ UNCHANGED <<t, r, pool, cache, last>>
AddByte == /\ Len(vs) > 0 /\ Len(vs[Len(vs)]) < VLen
           /\ \E b \in Bytes : vs' = [vs EXCEPT ![Len(vs)] = Append(@, b)]
           /\ UNCHANGED <<t, r, pool, cache, last>>
SpecSplit == InitSplit /\ [][NewArg \/ AddByte]_vars

\* std::string::find(delimiter, start)
RECURSIVE FindSep(_, _)
FindSep(s, from) ==
  IF from + Len(Sep) > Len(s) THEN NPOS
  ELSE IF Sub(s, from, Len(Sep)) = Sep THEN from ELSE FindSep(s, from + 1)
RECURSIVE JoinFrom(_, _)
JoinFrom(v, i) == IF i > Len(v) THEN <<>> ELSE v[i] \o (IF i < Len(v) THEN Sep ELSE <<>>) \o JoinFrom(v, i + 1)
Join(v) == JoinFrom(v, 1)
\* while ((end = find(delimiter, start)) != npos) { if (idx < n) out[idx++] = substr(start, end-start); start = end + 3; }
\* if (idx < n) out[idx] = substr(start);
RECURSIVE SplitLoop(_, _, _, _)
SplitLoop(s, start, idx, out) ==
  LET end == FindSep(s, start) IN
  IF end # NPOS
  THEN SplitLoop(s, end + Len(Sep), IF idx < Len(out) THEN idx + 1 ELSE idx,
                 IF idx < Len(out) THEN [out EXCEPT ![idx + 1] = Sub(s, start, end - start)] ELSE out)
  ELSE IF idx < Len(out) THEN [out EXCEPT ![idx + 1] = Sub(s, start, Len(s) - start)] ELSE out
JoinSplit(v) == SplitLoop(Join(v), 0, 0, [i \in 1..Len(v) |-> <<>>])

RECURSIVE SumLen(_, _)
SumLen(v, i) == IF i > Len(v) THEN 0 ELSE Len(v[i]) + SumLen(v, i + 1)
\* export configuration: total number of bytes bounded by VLen instead of the length of each value
SplitBudgetC == ExportSplit => SumLen(vs, 1) <= VLen
ExportSplitC == (ExportSplit /\ Len(vs) > 0) => PrintT("SPL " \o ToJson([vs |-> vs, out |-> JoinSplit(vs)]))
ContainsSep(s) == FindSep(s, 0) # NPOS
\* C19 on the model: every value comes back as it went in
SplitRoundTrip == JoinSplit(vs) = vs
\* classification: the round trip fails exactly when some value contains the complete separator
SplitFailsOnlyOnSep == (JoinSplit(vs) = vs) <=> ~(\E i \in 1..Len(vs) : ContainsSep(vs[i]))
=============================================================================
