------------------------------- MODULE FileSink -------------------------------
(* Implementation-shaped model (layer I) of quill::FileSink / quill::StreamSink for the sink clause of C06: "when          *)
(* flush_log() returns, every statement ... has been written to all of its sinks and those sinks have been flushed, so it   *)
(* can be read from the destination".  One action per public operation, cut the way the code is cut:                        *)
(*                                                                                                                          *)
(*  Open(m) / Restart(m)  FileSink::FileSink -> open_file(_filename, _config.open_mode())        FileSink.h 226-245, 350-379 *)
(*                        fopen(path, "a"|"w"), setvbuf(_write_buffer, write_buffer_size); a new object: _write_occurred    *)
(*                        false, _last_fsync_timestamp{} (the epoch of steady_clock = boot: long ago).                      *)
(*                        Restart first runs ~FileSink -> close_file(): fclose(_file) writes the stdio buffer to the inode  *)
(*                        the FILE* refers to (FileSink.h 247, 384-403).                                                   *)
(*  Write(id)             StreamSink::write_log: if (!_file) return; [before_write callback]; safe_fwrite(...);             *)
(*                        _write_occurred = true                                                   StreamSink.h 133-160     *)
(*                        fwrite appends to the stdio buffer `buf`; when the statement does not fit any more, stdio first    *)
(*                        writes the WHOLE buffer to the file (glibc _IO_new_file_xsputn; observed by the probe with        *)
(*                        statements of write_buffer_size/BufCap bytes, so that statement granularity is exact).            *)
(*  Flush                 FileSink::flush_sink:                                                    FileSink.h 252-276       *)
(*                          if (!_write_occurred || !_file) return;                     [SkipClean]                         *)
(*                          StreamSink::flush_sink(): same test; flush(): _write_occurred = false; fflush(_file)  165-173,  *)
(*                                                                                                          209-213         *)
(*                          if (_config.fsync_enabled()) fsync_file():                              FileSink.h 408-425      *)
(*                             now = steady_clock::now(); if ((now - _last_fsync_timestamp) < minimum_fsync_interval)       *)
(*                             return;  _last_fsync_timestamp = now;  ::fsync(fileno(_file))                                *)
(*                                                    [FsyncWhenOff, FsyncEarly, FsyncElapsed, SkipKeepsLast]               *)
(*                          if (!fs::exists(_filename)) { close_file(); open_file(_filename, "w"); }                        *)
(*                                                                             [ReopenMissing, ReopenAppend]                *)
(*  Delete                the USER unlinks the file while the sink has it open: the FILE* keeps the unlinked inode, writes   *)
(*                        and flushes go there (nobody can read them from the path) until the next effective flush_sink     *)
(*                        re-opens.                                                                                         *)
(*  Tick                  time passes (only relevant for minimum_fsync_interval).                                           *)
(*                                                                                                                          *)
(* The constants in [brackets], BufCap, CloseFlushes, KeepA, KeepW are EXTRACTED from the real code by probe runs of        *)
(* harness/h_filesink (tools/filesinkmodel.py: extract); FsyncEnabled / Interval / Modes / Pre are the configuration of     *)
(* the run.  The contract (spec/FileSinkContract.tla, the same text that judges the real executions) is carried along as    *)
(* the history variable c: I => A is the invariant ContractHolds.  Every transition is exported (hist, ExportA) and          *)
(* replayed on the real sink; the step-by-step comparison of disk / exists / wo / att / nfs is DRIFT, never a verdict.       *)
EXTENDS Integers, Sequences, FiniteSets, TLC, Json, FileSinkContract
CONSTANTS MaxWrites, MaxOps, MaxTime, Modes, Pre,            \* bounds; open modes tried; Pre = 1: the file exists with statement 0
          FsyncEnabled, Interval,                            \* configuration (Interval in ticks)
          BufCap,                                            \* statements that fit into the stdio buffer (99: never full)
          SkipClean, FsyncWhenOff, FsyncEarly, FsyncElapsed, SkipKeepsLast, ReopenMissing, ReopenAppend, CloseFlushes, KeepA, KeepW,
          Export
VARIABLES open,      \* a sink object exists
          mode,      \* its open mode
          disk,      \* what a reader of the path sees: sequence of statement ids (<<>> when the path does not exist)
          exists,    \* the path exists
          buf,       \* the stdio buffer of the sink's FILE*
          wo,        \* _write_occurred
          att,       \* the FILE* is the path's inode
          app,       \* the FILE*'s descriptor has O_APPEND (the mode it was really opened with)
          now, lastFs, nfs,   \* time (ticks), _last_fsync_timestamp, number of fsync calls
          nid, nops, \* next statement id, operations so far
          lf,        \* about the last action: [eff: it was a flush that found _write_occurred, fsd: it called fsync]
          c,         \* the contract's state
          hist
vars == <<open, mode, disk, exists, buf, wo, att, app, now, lastFs, nfs, nid, nops, lf, c, hist>>
Never == -1000            \* a fresh sink's _last_fsync_timestamp is the clock's epoch (boot time)
PreSeq == IF Pre = 1 THEN <<0>> ELSE <<>>
B(x) == IF x THEN 1 ELSE 0
LF0 == [eff |-> FALSE, fsd |-> FALSE]
\* the event the harness would record for this step (the fields the contract reads)
Ev(kind, id, m, d, nf, t) == [e |-> kind, id |-> id, mode |-> m, fsync |-> B(FsyncEnabled), interval |-> Interval, disk |-> d,
                              partial |-> 0, bad |-> 0, fsyncs |-> nf, unsynced |-> 0, t |-> t, err |-> ""]
Init == /\ open = FALSE /\ mode = "-" /\ disk = PreSeq /\ exists = (Pre = 1) /\ buf = <<>> /\ wo = FALSE /\ att = FALSE /\ app = FALSE
        /\ now = 0 /\ lastFs = Never /\ nfs = 0 /\ nid = 1 /\ nops = 0 /\ lf = LF0
        /\ c = (IF Pre = 1 THEN CStep(C0, Ev("pre", 0, "-", PreSeq, 0, 0)) ELSE C0) /\ hist = <<>>
Step(act, id, m) == hist' = IF Export THEN Append(hist, [a |-> act, id |-> id, m |-> m, disk |-> disk', exists |-> B(exists'), wo |-> B(wo'),
                                                       att |-> B(att'), app |-> B(app'), nfs |-> nfs', now |-> now', nbuf |-> Len(buf')]) ELSE hist
Keep(m) == IF m = "a" THEN KeepA ELSE KeepW

\* fopen(path, m) by a new sink object; d = what the path holds at that moment
OpenFile(kind, m, d) ==
  /\ open' = TRUE /\ mode' = m /\ disk' = (IF Keep(m) THEN d ELSE <<>>) /\ exists' = TRUE /\ att' = TRUE /\ app' = (m = "a")
  /\ buf' = <<>> /\ wo' = FALSE /\ lastFs' = Never /\ nops' = nops + 1 /\ lf' = LF0
  /\ UNCHANGED <<now, nfs, nid>>
  /\ c' = CStep(c, Ev(kind, 0, m, disk', nfs, now))
  /\ Step(kind, 0, m)
Open(m) == ~open /\ OpenFile("open", m, disk)
\* ~FileSink: fclose writes the buffer to the FILE*'s inode (readable only if that still is the path's)
Restart(m) == open /\ nops < MaxOps /\ OpenFile("restart", m, IF att /\ CloseFlushes THEN disk \o buf ELSE disk)

Write == /\ open /\ nops < MaxOps /\ nid <= MaxWrites
         /\ LET full == Len(buf) >= BufCap
            IN /\ buf' = IF full THEN <<nid>> ELSE Append(buf, nid)
               /\ disk' = IF full /\ att THEN disk \o buf ELSE disk
         /\ wo' = TRUE /\ nid' = nid + 1 /\ nops' = nops + 1 /\ lf' = LF0
         /\ UNCHANGED <<open, mode, exists, att, app, now, lastFs, nfs>>
         /\ c' = CStep(c, Ev("write", nid, mode, disk', nfs, now))
         /\ Step("write", nid, mode)

Flush == /\ open /\ nops < MaxOps /\ nops' = nops + 1
         /\ IF SkipClean /\ ~wo
            THEN UNCHANGED <<disk, exists, buf, wo, att, app, lastFs, nfs>> /\ lf' = LF0
            ELSE LET d1 == IF att THEN disk \o buf ELSE disk                      \* _write_occurred = false; fflush(_file)
                     due == now - lastFs >= Interval
                     will == IF FsyncEnabled THEN (IF due THEN FsyncElapsed ELSE FsyncEarly) ELSE FsyncWhenOff
                     reopen == ReopenMissing /\ ~exists                            \* close_file(); open_file(_filename, "w")
                 IN /\ wo' = FALSE /\ buf' = <<>>
                    /\ nfs' = nfs + B(will)
                    /\ lastFs' = IF FsyncEnabled /\ (will \/ ~SkipKeepsLast) THEN now ELSE lastFs
                    /\ disk' = IF reopen THEN <<>> ELSE d1
                    /\ exists' = (exists \/ reopen) /\ att' = (att \/ reopen) /\ app' = (IF reopen THEN ReopenAppend ELSE app)
                    /\ lf' = [eff |-> wo, fsd |-> will]
         /\ UNCHANGED <<open, mode, now, nid>>
         /\ c' = CStep(c, Ev("flush", 0, mode, disk', nfs', now))
         /\ Step("flush", 0, mode)

Delete == /\ open /\ nops < MaxOps /\ exists
          /\ exists' = FALSE /\ att' = FALSE /\ disk' = <<>> /\ nops' = nops + 1 /\ lf' = LF0
          /\ UNCHANGED <<open, mode, buf, wo, app, now, lastFs, nfs, nid>>
          /\ c' = CStep(c, Ev("delete", 0, mode, disk', nfs, now))
          /\ Step("delete", 0, mode)

Tick == /\ open /\ nops < MaxOps /\ FsyncEnabled /\ Interval > 0 /\ now < MaxTime
        /\ now' = now + 1 /\ nops' = nops + 1 /\ lf' = LF0
        /\ UNCHANGED <<open, mode, disk, exists, buf, wo, att, app, lastFs, nfs, nid, c>>
        /\ Step("tick", 1, mode)

Next == (\E m \in Modes : Open(m) \/ Restart(m)) \/ Write \/ Flush \/ Delete \/ Tick
Spec == Init /\ [][Next]_vars

\* ---- the contract on the model
ContractHolds == c.ok                                        \* I => A, the text that judges the real executions
NoDupNoReorder == \A i \in 1..(Len(disk) - 1) : disk[i] < disk[i + 1]     \* ids are handed out in increasing order
FsyncEveryFlush == (FsyncEnabled /\ Interval = 0 /\ lf.eff) => lf.fsd
FsyncOnlyIfEnabled == (~FsyncEnabled) => nfs = 0
BufferBounded == Len(buf) <= BufCap \/ BufCap = 0
TypeOK == /\ (~exists => disk = <<>> /\ ~att) /\ (att => exists /\ open) /\ (wo => open) /\ nfs >= 0 /\ lastFs <= now
StateView == <<open, mode, disk, exists, buf, wo, att, app, now, lastFs, nfs, nid, nops, lf, c>>
ExportA == Export => PrintT("BEH " \o ToJson(hist'))
=============================================================================
