----------------------------- MODULE TraceLife -----------------------------
(* Trace validation for C07: what a forked child running the real quill backend let an outside observer see *)
(* (harness/h_life.cpp) is judged by the contract LifeContract. One JSON line per observable event, in the  *)
(* order of the child's global event counter (one seq_cst fetch_add per event), then what the parent saw:   *)
(*   {"op":"reset","wait":b}                             next scenario; b = wait_for_queues_to_empty_before_exit *)
(*   {"op":"start","running":b}                          Backend::start returned, is_running() = b          *)
(*   {"op":"logret","t":t,"n":n}                         the n-th log call of thread t has returned         *)
(*   {"op":"stopcall"} / {"op":"stopret","lines":[..]}   Backend::stop() about to be called / has returned, *)
(*                                                       with the content of the file read at that moment   *)
(*   {"op":"endcall","kind":"exit"|"ret"|"sig","t":t,"sig":s,"code":c}   the request that ends the process  *)
(*   {"op":"end","status":[kind,code,sig],"lines":[..]}  wait status and file content seen by the parent    *)
(* A rejected event does not stop the run: it is reported as  REJ {"l": line, "why": ...}  so that one JVM  *)
(* judges thousands of executions; acceptance = no REJ and distinct states = lines + 1.                    *)
EXTENDS Naturals, Sequences, FiniteSets, TLC, Json, IOUtils
C == INSTANCE LifeContract
TraceLog == ndJsonDeserialize(IOEnv.TRACE)
T == {"m", "w1", "w2"}
VARIABLES l, c, rej, wf
vars == <<l, c, rej, wf>>

Init == l = 1 /\ c = C!CInit(T, TRUE) /\ rej = 0 /\ wf = TRUE

\* the contract's verdict on one event
Judge(b, why) == /\ rej' = (IF b THEN rej ELSE rej + 1)
                 /\ (b \/ PrintT("REJ " \o ToJson([l |-> l, why |-> why])))

Next ==
  /\ l <= Len(TraceLog)
  /\ l' = l + 1
  /\ LET e == TraceLog[l] IN
     CASE e.op = "reset" -> c' = C!CInit(T, e.wait) /\ UNCHANGED <<rej, wf>>
       [] e.op = "start" -> /\ c' = C!CStart(c) /\ UNCHANGED wf
                            /\ Judge(C!CStartOK(c, e.running), "start: backend not running after Backend::start")
       [] e.op = "logret" -> /\ c' = C!CLogRet(c, e.t, e.n)
                             /\ wf' = (wf /\ e.t \in T /\ e.n = c.done[e.t] + 1 /\ c.end.kind \in {"none", "sig"})
                             /\ UNCHANGED rej
       [] e.op = "stopcall" -> c' = C!CStopCall(c) /\ wf' = (wf /\ c.end.kind = "none") /\ UNCHANGED rej
       [] e.op = "stopret" -> /\ c' = c /\ UNCHANGED wf
                              /\ Judge(C!CStopRetOK(c, e.lines), "stop: a statement completed before the stop request is not in the file when stop() returns")
       [] e.op = "endcall" -> /\ c' = C!CEndCall(c, e.kind, e.t, e.sig, e.code)
                              /\ wf' = (wf /\ c.end.kind = "none" /\ e.kind \in {"exit", "ret", "sig"})
                              /\ UNCHANGED rej
       [] e.op = "end" -> /\ c' = c /\ UNCHANGED wf
                          /\ Judge(C!CEndOK(c, e.status, e.lines),
                                   IF c.end.kind = "sig" THEN "signal: wrong status, or the thread's statements + notice are not in the file"
                                   ELSE IF c.end.kind = "none" THEN "process ended although no exit / signal was requested"
                                   ELSE "exit: wrong status, or a statement completed before exit is not in the file")

Spec == Init /\ [][Next]_vars
\* the trace itself is well formed (a harness matter, never a verdict)
WellFormed == wf
=============================================================================
