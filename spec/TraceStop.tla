------------------------------ MODULE TraceStop ------------------------------
(* Trace validation for the backend stop under release/acquire (C07): executions of the REAL backend thread, the REAL    *)
(* Backend::stop() and REAL log calls recorded by harness/h_stop (shim atomic, script-chosen load values). Contract: when *)
(* stop() has returned (the backend thread has terminated), every statement whose log call completed before the stop     *)
(* was requested has been written to the sink; nothing is written twice; when flush_log() returns the caller's earlier    *)
(* statements are written and the writes happen-before the return (C06); when remove_logger_blocking() returns the logger *)
(* is gone, its sink destroyed, and the destruction happens-before the return (C17). {"e":"init"} starts a new execution.  *)
EXTENDS Integers, Sequences, TLC, Json, IOUtils
TraceLog == ndJsonDeserialize(IOEnv.TRACE)
VARIABLES l, m
vars == <<l, m>>
M0 == [cache |-> 2, committed |-> 0, atflush |-> 0, atstop |-> -1, ycommitted |-> 0, yjoined |-> -1, yowed |-> 0, ok |-> TRUE, why |-> ""]
Fail(x, why) == IF x.ok THEN [x EXCEPT !.ok = FALSE, !.why = why] ELSE x
Check(x, cond, why) == IF cond THEN x ELSE Fail(x, why)
MStep(x, e) ==
  CASE e.e = "committed" -> Check([x EXCEPT !.committed = e.n], x.atstop < 0, "harness: statement logged after the stop request")
    [] e.e = "flushcall" -> [x EXCEPT !.atflush = x.committed]
    [] e.e = "flushed" -> Check(Check(x, e.delivered >= x.atflush,
                                      "flush_log() returned while statements the caller logged before it were unwritten"),
                                e.visible, "flush_log() returned but the sink writes are not ordered before the caller (data race on the destination)")
    [] e.e = "bstep" /\ "cache" \in DOMAIN e ->
         \* the backend's cache lost a context: the exited thread's context was reclaimed - everything it committed must have been written
         IF e.cache < x.cache /\ e.delivered_y < e.ycommitted
         THEN Fail([x EXCEPT !.cache = e.cache], "thread-context of an exited thread reclaimed while statements it committed were unwritten")
         ELSE [x EXCEPT !.cache = e.cache]
    [] e.e = "removed" -> Check(Check(x, e.sinkdead /\ e.loggers = 0,
                                      "remove_logger_blocking() returned before the removal had completed (logger still registered or its sink alive)"),
                                e.visible, "remove_logger_blocking() returned but the destruction of the sink is not ordered before the caller")
    [] e.e = "ycommitted" -> [x EXCEPT !.ycommitted = e.n]
    [] e.e = "joined" -> [x EXCEPT !.yjoined = x.ycommitted]       \* the second thread has ended and X has joined it
    [] e.e = "stopreq" -> [x EXCEPT !.atstop = x.committed, !.yowed = IF x.yjoined >= 0 THEN x.yjoined ELSE 0]
    [] e.e = "stopped" -> Check(Check(Check(Check(x, x.atstop >= 0, "backend thread terminated without a stop request"),
                                      e.delivered >= x.atstop,
                                      "backend stopped while statements committed before the stop request were unwritten"),
                                e.delivered <= x.committed /\ e.delivered_y <= x.ycommitted, "more statements written than were logged"),
                                e.delivered_y >= x.yowed,
                                "backend stopped while statements of a thread that had exited (and been joined) before the stop request were unwritten")
    [] e.e = "crash" -> Fail(x, "the process crashed or hung")
    [] OTHER -> x
Init == l = 1 /\ m = M0
Next == /\ l <= Len(TraceLog) /\ l' = l + 1
        /\ LET e == TraceLog[l] IN m' = IF e.e = "init" THEN M0 ELSE MStep(m, e)
Spec == Init /\ [][Next]_vars
Ok == m.ok
=============================================================================
