\* one pass, no invariant: the rejected lines are printed at the end (REJ [...]); used by props/C04.py
SPECIFICATION Spec
CHECK_DEADLOCK FALSE
