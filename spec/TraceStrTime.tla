--------------------------- MODULE TraceStrTime ---------------------------
(* Trace validation for C13. Executions recorded from the real quill::detail::TimestampFormatter (harness   *)
(* h_time, one process per TZ) are judged by the contract; next to it the implementation-shaped model     *)
(* (StrTimeImpl) is run along the same calls and its prediction is compared with what the code printed.   *)
(*   {"op":"new","pat":["%","H",...],"mode":"gmt"|"local","acc":b,"zone":[[from,off,zid],...],           *)
(*    "bm":[bmLocal,bmGmt],"bh":B div 100000,"bl":B mod 100000}         constructor call, starts an execution *)
(*   {"op":"fmt","t":rel,"ns":n,"out":text,"ref":text,"slow":b,"loc":wall,"off":o,"zid":z,             *)
(*    "got":[[part,kind,hi,lo],...]}                                      one format_timestamp call          *)
(*   {"op":"crash","signal":n}                                         the process died in the code under test *)
(* out = what the code rendered; ref = libc gmtime_r/localtime_r + strftime for that instant with the      *)
(* fraction substituted (the reference the property names); loc/off/zid = libc's calendar for the instant; *)
(* got = the numeric H M S I k l s fields as printed by the code; slow = the call went to strftime.        *)
(* Conforms (the verdict): every constructor call is accepted/rejected as the property says and every     *)
(* rendered text equals the reference. Model mismatches are printed ("DRIFT", "CAL"), never a verdict.    *)
EXTENDS StrTimeImpl, TLC, Json, IOUtils
TraceLog == ndJsonDeserialize(IOEnv.TRACE)
VARIABLES l,        \* next line
          ok,       \* contract verdict so far
          live,     \* the current formatter exists (constructor accepted)
          cfg,      \* the "new" line of the current execution
          shape,    \* model: pattern shape derived from the pattern text; predict = FALSE when the model does not apply
          c,        \* model: the two StringFromTime caches
          noted     \* kinds of model mismatch already printed ("CAL", "DRIFT")
vars == <<l, ok, live, cfg, shape, c, noted>>

\* ------------------------------------------------------------------ reading a pattern (sequence of 1-char strings)
Flags == {"_", "-", "0", "^", "#", "+"}
Digs == {"0", "1", "2", "3", "4", "5", "6", "7", "8", "9"}
\* tokens <<class, char(s)>>: <<"lit", ch>>, <<"pct", "%">> (%%), <<"frac", "ms"|"us"|"ns">>, <<"conv", letter>>,
\* <<"mod", letter>> (E/O-modified or flagged conversion)
RECURSIVE Toks(_, _)
Toks(p, i) ==
  IF i > Len(p) THEN <<>>
  ELSE IF p[i] # "%" \/ i = Len(p) THEN <<<<"lit", p[i]>>>> \o Toks(p, i + 1)
  ELSE IF p[i + 1] = "%" THEN <<<<"pct", "%">>>> \o Toks(p, i + 2)
  ELSE IF p[i + 1] = "Q" /\ i + 3 <= Len(p) /\ p[i + 2] \in {"m", "u", "n"} /\ p[i + 3] = "s"
       THEN <<<<"frac", p[i + 2] \o "s">>>> \o Toks(p, i + 4)
  ELSE IF p[i + 1] \in ({"E", "O"} \cup Flags \cup Digs) /\ i + 2 <= Len(p)
       THEN <<<<"mod", p[i + 2]>>>> \o Toks(p, i + 3)
  ELSE <<<<"conv", p[i + 1]>>>> \o Toks(p, i + 2)
\* the same pattern as the sequence of kinds the contract and the constructor model speak about
KindOf(tk) == IF tk[1] = "frac" THEN tk[2]
              ELSE IF tk[1] = "conv" /\ tk[2] = "X" THEN "X"
              ELSE IF tk[1] = "conv" THEN tk[2] ELSE tk[1]
Kinds(ts) == [i \in DOMAIN ts |-> KindOf(ts[i])]

PlainConv == {"a", "A", "b", "B", "C", "d", "D", "e", "F", "g", "G", "h", "H", "I", "j", "k", "l", "m", "M", "n",
              "p", "P", "r", "R", "s", "S", "t", "T", "u", "U", "V", "w", "W", "x", "y", "Y", "z", "Z"}
Patched == {"H", "M", "S", "I", "k", "l", "s", "r", "R", "T"}
\* letters that, written as literal text directly after %%, read like a conversion the formatter looks for
AfterPct == {"H", "M", "S", "I", "k", "l", "s", "r", "R", "T", "Q", "X", "c", "E", "O"}
\* a pattern made only of the plain conversions, literal text, %% and fractional specifiers
Plain(ts) == /\ \A i \in DOMAIN ts : \/ ts[i][1] \in {"lit", "pct", "frac"}
                                     \/ ts[i][1] = "conv" /\ ts[i][2] \in PlainConv
             /\ \A i \in DOMAIN ts : (ts[i][1] = "pct" /\ i < Len(ts) /\ ts[i + 1][1] = "lit") => ts[i + 1][2] \notin AfterPct
\* contract on the constructor: must reject what the property says; must accept a plain pattern; free otherwise
CtorAllowed(ts, acc) == IF C!MustReject(Kinds(ts)) THEN ~acc ELSE (Plain(ts) => acc)

PartShape(ks) == IF \E i \in DOMAIN ks : ks[i] \in Patched THEN "full" ELSE "coarse"
ShapeOf(ts) ==
  LET r == Ctor(Kinds(ts))
  IN [p1 |-> PartShape(r.p1), fk |-> r.fk, p2 |-> IF r.fk = "none" \/ r.p2 = <<>> THEN "none" ELSE PartShape(r.p2),
      ne |-> <<r.p1 # <<>>, r.p2 # <<>>>>,      \* an empty part never reaches strftime
      predict |-> Plain(ts) /\ ~C!MustReject(Kinds(ts))]

\* ------------------------------------------------------------------ the machine
Init == /\ l = 1 /\ ok = TRUE /\ live = FALSE /\ cfg = [mode |-> "gmt"] /\ noted = {}
        /\ shape = [p1 |-> "coarse", fk |-> "none", p2 |-> "none", ne |-> <<FALSE, FALSE>>, predict |-> FALSE] /\ c = <<Fresh, Fresh>>

EpochHi(s) == cfg.bh + ((cfg.bl + s) \div 100000)
EpochLo(s) == (cfg.bl + s) % 100000
GotAsModel(r, g) ==   \* g = <<part, kind, hi, lo>> printed by the code; r = model result
  IF g[2] = "s" THEN g[3] = EpochHi(r.raw[g[1]].s) /\ g[4] = EpochLo(r.raw[g[1]].s)
  ELSE g[4] = r.raw[g[1]][g[2]]

New(e) ==
  LET ts == Toks(e.pat, 1) IN
  /\ ok' = (ok /\ CtorAllowed(ts, e.acc))
  /\ (~CtorAllowed(ts, e.acc)) => PrintT("REJECT " \o ToString(l))
  /\ live' = e.acc
  /\ cfg' = e
  /\ shape' = ShapeOf(ts)
  /\ c' = <<Fresh, Fresh>>
  /\ IF "DRIFT" \notin noted /\ Plain(ts) /\ Ctor(Kinds(ts)).ok # e.acc
     THEN PrintT("DRIFT " \o ToString(l)) /\ noted' = noted \cup {"DRIFT"}
     ELSE noted' = noted

Fmt(e) ==
  LET r == FormatTs(c, shape, cfg.mode, cfg.zone, cfg.bm, e.t, e.ns)
      calOK == /\ e.loc = C!Wall(cfg.mode, cfg.zone, e.t)
               /\ cfg.mode = "local" => (e.off = C!ZoneAt(cfg.zone, e.t)[2] /\ e.zid = C!ZoneAt(cfg.zone, e.t)[3])
      predOK == /\ e.slow = (\E p \in 1..2 : shape.ne[p] /\ r.paths[p] \in {"rebuild", "fallback"})
                /\ \A i \in DOMAIN e.got : GotAsModel(r, e.got[i])
  IN /\ ok' = (ok /\ live /\ e.out = e.ref)
     /\ (~(live /\ e.out = e.ref)) => PrintT("REJECT " \o ToString(l))
     /\ c' = r.c
     /\ IF ~calOK /\ "CAL" \notin noted THEN PrintT("CAL " \o ToString(l)) /\ noted' = noted \cup {"CAL"}
        ELSE IF shape.predict /\ ~predOK /\ "DRIFT" \notin noted
             THEN PrintT("DRIFT " \o ToString(l)) /\ noted' = noted \cup {"DRIFT"}
        ELSE noted' = noted
     /\ UNCHANGED <<live, cfg, shape>>

\* the process died inside the code under test (abort, SIGSEGV ...): nothing was rendered for the call in progress
Crash(e) == /\ ok' = FALSE /\ PrintT("REJECT " \o ToString(l))
            /\ live' = FALSE /\ UNCHANGED <<cfg, shape, c, noted>>

Next ==
  /\ l <= Len(TraceLog)
  /\ l' = l + 1
  /\ LET e == TraceLog[l] IN
     CASE e.op = "new" -> New(e)
       [] e.op = "fmt" -> Fmt(e)
       [] e.op = "crash" -> Crash(e)

Spec == Init /\ [][Next]_vars
\* violated at the first line the contract does not allow (l - 1 = that line). Batch validation (TraceStrTimeBatch.cfg)
\* runs without the invariant and reads the "REJECT <line>" prints instead, so one pass judges every execution.
Conforms == ok
=============================================================================
