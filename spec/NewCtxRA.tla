------------------------------- MODULE NewCtxRA -------------------------------
(* Registration of a new thread's context under the C++ release/acquire model (C03: "every accepted statement reaches  *)
(* each sink ... for any number of threads": a context the backend never picks up is a thread whose statements are     *)
(* never written).                                                                                                     *)
(*   logging thread z, first log call:  ThreadContextManager::register_thread_context():                               *)
(*        lock; _thread_contexts.push_back(ctx); unlock;  _new_thread_context_flag.store(true, MoSet)   [ZReg, ZFlag]   *)
(*        (the order of the two is EXTRACTED: the thread is parked at the lock's exchange and at the flag's store)      *)
(*        ... the statement is committed to the new queue                                                              *)
(*   backend, _update_active_thread_contexts_cache() (start of every _poll, and again in the idle branch / _exit):      *)
(*        if (_new_thread_context_flag.load(MoLoad)) { _new_thread_context_flag.store(false, MoClear);  [BLoad, BClear] *)
(*                                                     lock; cache = copy of _thread_contexts; unlock; }              *)
(* The flag is a history of messages [val, rel, ev]; loads may read any message not older than the reader's view and   *)
(* than the newest store that happens-before it. The registry is plain data under the Spinlock: acquiring the lock      *)
(* joins the clock the last unlock published (SpinlockRA.tla is the lock's own model). The memory orders and the        *)
(* order "clear, then copy" are EXTRACTED from the code (harness/h_stop in fine-grained mode: the REAL backend thread   *)
(* and REAL first log calls of two new threads, parked at every access of the flag).                                   *)
EXTENDS Integers, Sequences, FiniteSets, TLC, Json
CONSTANTS Zs,                         \* the registering threads
          MoSet, MoLoad, MoClear,     \* "rlx" | "acq" | "rel" | "ar"
          ClearBeforeCopy,            \* the backend clears the flag before it copies the registry (as the code does)
          RegBeforeFlag,              \* a new thread pushes its context (under the lock) before it raises the flag (as the code does)
          Export
VARIABLES F, lk, clk, viewB, reg, cache, pc, pcB, hist
vars == <<F, lk, clk, viewB, reg, cache, pc, pcB, hist>>
T == Zs \cup {"B"}
Zero == [t \in T |-> 0]
Join(a, b) == [t \in T |-> IF a[t] > b[t] THEN a[t] ELSE b[t]]
Leq(a, b) == \A t \in T : a[t] <= b[t]
IsAcq(mo) == mo \in {"acq", "ar"}
IsRel(mo) == mo \in {"rel", "ar"}
Msg(v, rel, ev) == [val |-> v, rel |-> rel, ev |-> ev]
Tick(c, t) == [c EXCEPT ![t] = @ + 1]
Init == /\ F = <<Msg(0, Zero, Zero)>> /\ lk = Zero /\ clk = [t \in T |-> Zero] /\ viewB = 1
        /\ reg = {} /\ cache = {} /\ pc = [z \in Zs |-> "idle"] /\ pcB = "load" /\ hist = <<>>
Step(who, act, arg) == hist' = IF Export THEN Append(hist, [t |-> who, a |-> act, arg |-> arg, cache |-> Cardinality(cache'), pcb |-> pcB']) ELSE hist
LoB == LET hb == {j \in 1..Len(F) : Leq(F[j].ev, clk["B"])} IN
       LET m == IF hb = {} THEN 1 ELSE CHOOSE j \in hb : \A k \in hb : k <= j IN
       IF m > viewB THEN m ELSE viewB
\* a critical section of thread t under the registry lock: acquire (joins the last unlock), ..., release (publishes)
Locked(t) == Tick(Tick(Join(clk[t], lk), t), t)

First(z) == pc[z] = "idle"
Second(z) == pc[z] = "half"
Adv(z) == pc' = [pc EXCEPT ![z] = IF pc[z] = "idle" THEN "half" ELSE "done"]
ZReg(z) == /\ (IF RegBeforeFlag THEN First(z) ELSE Second(z)) /\ Adv(z)
           /\ reg' = reg \cup {z} /\ clk' = [clk EXCEPT ![z] = Locked(z)] /\ lk' = Locked(z)
           /\ UNCHANGED <<F, viewB, cache, pcB>> /\ Step(z, "reg", <<>>)
ZFlag(z) == /\ (IF RegBeforeFlag THEN Second(z) ELSE First(z)) /\ Adv(z)
            /\ LET c2 == Tick(clk[z], z) IN
               /\ F' = Append(F, Msg(1, IF IsRel(MoSet) THEN c2 ELSE Zero, c2)) /\ clk' = [clk EXCEPT ![z] = c2]
            /\ UNCHANGED <<lk, viewB, reg, cache, pcB>> /\ Step(z, "flag", <<>>)
Copy(c) == Locked("B")
BLoad(i) == /\ pcB = "load" /\ i \in LoB..Len(F) /\ viewB' = i
            /\ LET c1 == IF IsAcq(MoLoad) THEN Join(clk["B"], F[i].rel) ELSE clk["B"] IN
               IF F[i].val = 0 THEN /\ clk' = [clk EXCEPT !["B"] = c1] /\ UNCHANGED <<lk, cache, pcB>>
               ELSE IF ClearBeforeCopy THEN /\ clk' = [clk EXCEPT !["B"] = c1] /\ pcB' = "clear" /\ UNCHANGED <<lk, cache>>
               ELSE LET c2 == Tick(Tick(Join(c1, lk), "B"), "B") IN      \* copies first
                    /\ clk' = [clk EXCEPT !["B"] = c2] /\ lk' = c2 /\ cache' = reg /\ pcB' = "clear"
            /\ UNCHANGED <<F, reg, pc>> /\ Step("B", "load", <<i>>)
BClear == /\ pcB = "clear" /\ pcB' = "load"
          /\ LET c2 == Tick(clk["B"], "B") IN
             /\ F' = Append(F, Msg(0, IF IsRel(MoClear) THEN c2 ELSE Zero, c2)) /\ viewB' = Len(F) + 1
             /\ IF ClearBeforeCopy
                THEN LET c3 == Tick(Tick(Join(c2, lk), "B"), "B") IN clk' = [clk EXCEPT !["B"] = c3] /\ lk' = c3 /\ cache' = reg
                ELSE clk' = [clk EXCEPT !["B"] = c2] /\ UNCHANGED <<lk, cache>>
          /\ UNCHANGED <<reg, pc>> /\ Step("B", "clear", <<>>)
Next == (\E z \in Zs : ZReg(z) \/ ZFlag(z)) \/ (\E i \in 1..Len(F) : BLoad(i)) \/ BClear
Spec == Init /\ [][Next]_vars

\* no registration is lost: once every thread has registered and the backend is between two updates, either its cache has every
\* context or the newest message of the flag still tells it to look again
NoLostCtx == ((\A z \in Zs : pc[z] = "done") /\ pcB = "load") => (cache = reg \/ F[Len(F)].val = 1)
TypeOK == cache \subseteq reg /\ pcB \in {"load", "clear"}
\* the flag's history is bounded by construction (each thread flags once, each clear needs a `true` read) - but stale `true`
\* reads can repeat: bound the history for the exhaustive run
Bound == Len(F) <= 2 * Cardinality(Zs) + 4
\* liveness: a backend that keeps running and eventually reads the NEWEST message of the flag (the memory model's "stores become
\* visible in finite time") picks every registered context up
BLatest == BLoad(Len(F))
FairSpec == Spec /\ WF_vars(BLatest) /\ WF_vars(BClear) /\ \A z \in Zs : WF_vars(ZReg(z)) /\ WF_vars(ZFlag(z))
PickedUp == <>[](cache = reg /\ reg = Zs)
StateView == <<F, lk, clk, viewB, reg, cache, pc, pcB>>
ExportA == Export => PrintT("BEH " \o ToJson(hist'))
=============================================================================
