--------------------------- MODULE RotateContract ---------------------------
(* Layer A for C14 / C15: what a user may observe of a RotatingFileSink in its directory.                  *)
(* The contract sees, after every operation (construct / restart / one write_log call), the set of files    *)
(* whose names belong to the sink (stem.*.ext), each parsed into the statement ids it contains.            *)
(* Statement ids increase in written order, so "in order" is numeric order of ids.                         *)
(*                                                                                                         *)
(* cfg  = [limit, maxb, over, scheme, freq, P]                                                             *)
(*        limit  bytes, 0 = size rotation off         maxb  max_backup_files (Unlimited = none)            *)
(*        over   1 = overwrite_rolled_files           scheme 0 Index, 1 Date, 2 DateAndTime                *)
(*        freq   0 none, 1 daily HH:MM, 2 hourly/minutely with period P (same unit as t)                   *)
(* file = [k, d, x, ids, sz, bad]                                                                          *)
(*        k  0 = current file (no suffix), 1 = rotated (name follows the scheme), 2 = sink-related name    *)
(*           that does not follow the scheme;  d = rank of the date/date-time suffix (0 none; ranks are    *)
(*           chronological), x = index suffix (0 none), ids = statements in file order, sz = bytes,        *)
(*           bad = 1 if the content is anything but whole statements                                       *)
(* event= [op "C"|"R"|"W", mode 0 append / 1 write, rm, t, dk, p1, cand, id, sz, files, ubad, err]         *)
(*        rm = 1 (restart only): the active file disappeared while no sink was open (crash between rename  *)
(*        and re-open, external tool); its statements count as deliberately deleted, every other retained  *)
(*        file must keep its statements, order, naming and count bound,                                    *)
(*        t  instant of the operation (start_time / record timestamp), dk = rank of t's suffix under the   *)
(*        scheme, p1 = first scheduled point after t (C/R; calendar supplied by the caller),               *)
(*        cand = admissible next points if this write passes a point (calendar supplied by the caller:     *)
(*        daily: the next HH:MM after t; hourly/minutely: t+P and unit-floor(t)+P), ubad = unrelated files *)
(*        missing or modified, err = 1 if the operation threw.                                             *)
(*                                                                                                         *)
(* Interpretive choices (each is the weaker reading of the property text):                                 *)
(*  - unit = one write_log call; a file may exceed the limit only if it holds a single statement or it     *)
(*    grew while rotation was stopped by the no-overwrite rule;                                            *)
(*  - a size rotation is "needed" when cur + sz >= limit (equality tolerated either way);                  *)
(*  - a w-mode construct starts a new sequence: earlier statements are outside the contract from then on,   *)
(*    but files they left behind may still be counted by the sink for the stop / delete rules;              *)
(*  - hourly/minutely: after the first point the next point may be trigger+P, firstpoint+jP or             *)
(*    unit-floor(trigger)+P (any consistent reading is accepted); daily: calendar HH:MM only;              *)
(*  - an empty current file is never "the file that was open before the point";                            *)
(*  - time separation is not demanded while rotation is stopped by the no-overwrite rule;                  *)
(*  - a rotated file's suffix must be the instant the file was created by the sink, or the instant of a    *)
(*    later (re)construct that re-opened it, or its first statement's instant if it was created empty.     *)
EXTENDS Naturals, Sequences, FiniteSets

Unlimited == 9999
Range(s) == {s[i] : i \in DOMAIN s}
Ids(f, fl) == SelectSeq(f.ids, LAMBDA a : a >= fl)
IdSet(f, fl) == {a \in Range(f.ids) : a >= fl}
Increasing(s) == \A i \in 1..(Len(s) - 1) : s[i] < s[i + 1]
MaxOf(S) == CHOOSE a \in S : \A b \in S : b <= a
MinOf(S) == CHOOSE a \in S : \A b \in S : a <= b

\* naming order: f is older than g
Older(f, g) == \/ f.k = 1 /\ g.k = 0
               \/ f.k = 1 /\ g.k = 1 /\ (f.d < g.d \/ (f.d = g.d /\ f.x > g.x))

Seqn(F, fl) == {f \in F : f.k \in {0, 1, 2} /\ (f.k = 0 \/ IdSet(f, fl) # {})}
Rotd(F, fl) == {f \in Seqn(F, fl) : f.k = 1}
\* every file whose name follows the scheme, whichever run wrote it (what the sink itself may count)
RotAll(F) == {f \in F : f.k = 1}
CurIds(F, fl) == IF \E f \in F : f.k = 0 THEN Ids(CHOOSE f \in F : f.k = 0, fl) ELSE <<>>
CurSz(F) == IF \E f \in F : f.k = 0 THEN (CHOOSE f \in F : f.k = 0).sz ELSE 0

CInit == [cfg |-> [limit |-> 0, maxb |-> Unlimited, over |-> 1, scheme |-> 0, freq |-> 0, P |-> 0],
          fl |-> 1, nid |-> 0, live |-> {}, prev |-> {}, nexts |-> {}, opens |-> {}, named |-> {}, bigok |-> {},
          restarted |-> FALSE, alive |-> FALSE, why |-> {}]
CReset(cfg) == [CInit EXCEPT !.cfg = cfg]

\* clauses checked on every observation
Common(cfg, fl, live, bigok, named, opens, F, rs, e) ==
  LET S == Seqn(F, fl)
      R == Rotd(F, fl)
      present == UNION {IdSet(f, fl) : f \in S}
      sfx == IF rs THEN "_after_restart" ELSE ""
  IN  (IF \E f \in F : f.k \in {0, 1, 2} /\ f.bad = 1 THEN {"whole"} ELSE {})
      \cup (IF ~(live \subseteq present) THEN {"lost" \o sfx} ELSE {})
      \cup (IF ~(present \subseteq live) THEN {"alien"} ELSE {})
      \cup (IF \E f, g \in S : f # g /\ IdSet(f, fl) \cap IdSet(g, fl) # {} THEN {"dup"} ELSE {})
      \cup (IF \/ \E f \in S : ~Increasing(Ids(f, fl))
               \/ \E f, g \in S : /\ Older(f, g) /\ IdSet(f, fl) # {} /\ IdSet(g, fl) # {}
                                  /\ MaxOf(IdSet(f, fl)) > MinOf(IdSet(g, fl))
            THEN {"order" \o sfx} ELSE {})
      \cup (IF \E f \in S : f.k = 2 THEN {"name"} ELSE {})
      \cup (IF Cardinality(R) > cfg.maxb THEN {"count" \o sfx} ELSE {})
      \cup (IF cfg.limit > 0 /\ \E f \in S : f.sz > cfg.limit /\ Len(Ids(f, fl)) > 1 /\ Ids(f, fl)[1] \notin bigok
            THEN {"size"} ELSE {})
      \cup (IF cfg.scheme # 0 /\ \E f \in R :
                 LET a == Ids(f, fl)[1] IN
                 IF \E p \in named : p[1] = a THEN <<a, f.d>> \notin named ELSE f.d \notin opens
            THEN {"named_open"} ELSE {})
      \cup (IF e.ubad # 0 THEN {"unrelated"} ELSE {})
      \cup (IF e.err # 0 THEN {"error"} ELSE {})

\* remember under which suffix each rotated file (identified by its first statement) was first seen
Named(named, F, fl) ==
  named \cup {<<Ids(f, fl)[1], f.d>> : f \in {g \in Rotd(F, fl) : ~\E p \in named : p[1] = Ids(g, fl)[1]}}

Construct(c, e) ==
  LET w == e.mode = 1
      fl == IF w THEN c.nid + 1 ELSE c.fl
      live == IF w THEN {} ELSE IF e.rm = 1 THEN c.live \ Range(CurIds(c.prev, c.fl)) ELSE c.live
      rs == IF w THEN FALSE ELSE (c.restarted \/ e.op = "R")
      bigok == IF w THEN {} ELSE c.bigok
      named == IF w THEN {} ELSE c.named
      opens == IF w \/ CurIds(e.files, fl) = <<>> THEN {e.dk} ELSE c.opens \cup {e.dk}
  IN [c EXCEPT !.fl = fl, !.live = live, !.restarted = rs, !.bigok = bigok,
               !.named = Named(named, e.files, fl), !.opens = opens,
               !.nexts = IF c.cfg.freq = 0 THEN {} ELSE {e.p1},
               !.prev = e.files, !.alive = (e.err = 0),
               !.why = Common(c.cfg, fl, live, bigok, named, c.opens, e.files, rs, e)]

Write(c, e) ==
  LET cfg == c.cfg
      fl == c.fl
      PC == CurIds(c.prev, fl)
      NC == CurIds(e.files, fl)
      sep == PC # <<>> /\ NC = <<e.id>>
      fresh == PC = <<>>
      app == ~sep /\ ~fresh
      prevS == Seqn(c.prev, fl)
      present == UNION {IdSet(f, fl) : f \in Seqn(e.files, fl)}
      lost == c.live \ present
      kept == c.live \ lost
      delOK == \/ lost = {}
               \/ /\ cfg.over = 1 /\ cfg.maxb # Unlimited /\ sep
                  /\ \A f \in prevS : IdSet(f, fl) \subseteq lost \/ IdSet(f, fl) \cap lost = {}
                  /\ \A a \in lost, b \in kept : a < b
                  /\ Cardinality(RotAll(e.files)) >= cfg.maxb
      live == kept \cup {e.id}
      stoppedBefore == cfg.over = 0 /\ Cardinality(RotAll(c.prev)) >= cfg.maxb
      stoppedNow == cfg.over = 0 /\ Cardinality(RotAll(e.files)) >= cfg.maxb
      pend == {n \in c.nexts : e.t >= n}
      stay == c.nexts \ pend
      cands == Range(e.cand) \cup (IF cfg.freq = 2 THEN {n + ((e.t - n) \div cfg.P + 1) * cfg.P : n \in pend} ELSE {})
      sizeJust == cfg.limit > 0 /\ CurSz(c.prev) + e.sz >= cfg.limit
      timeJust == pend # {}
      missed == cfg.freq # 0 /\ app /\ stay = {} /\ ~stoppedBefore
      spurious == sep /\ ~sizeJust /\ ~timeJust
      nx0 == IF cfg.freq = 0 THEN {}
             ELSE IF sep THEN (IF timeJust THEN cands ELSE {}) \cup (IF sizeJust \/ ~timeJust THEN stay ELSE {})
             ELSE IF app /\ ~stoppedBefore THEN stay
             ELSE stay \cup (IF timeJust THEN cands ELSE {})
      nexts == IF cfg.freq # 0 /\ nx0 = {} THEN cands ELSE nx0
      opens == IF sep THEN {e.dk} ELSE IF fresh THEN c.opens \cup {e.dk} ELSE c.opens
      big == IF cfg.limit > 0 /\ stoppedNow /\ Len(NC) > 1 /\ CurSz(e.files) > cfg.limit THEN c.bigok \cup {NC[1]} ELSE c.bigok
      sfx == IF c.restarted THEN "_after_restart" ELSE ""
  IN [c EXCEPT !.nid = e.id, !.live = live, !.prev = e.files, !.nexts = nexts, !.opens = opens, !.bigok = big,
               !.named = Named(c.named, e.files, fl),
               !.why = Common(cfg, fl, live, big, c.named, c.opens, e.files, c.restarted, e)
                       \cup (IF ~delOK THEN {"deleted" \o sfx} ELSE {})
                       \cup (IF missed THEN {"time_missed"} ELSE {})
                       \cup (IF spurious THEN {"spurious"} ELSE {})]

Step(c, e) == IF e.op \in {"C", "R"} THEN Construct(c, e)
              ELSE IF c.alive THEN Write(c, e) ELSE [c EXCEPT !.why = {"error"}]

\* the clauses that belong to each property
C14Clauses == {"whole", "lost", "alien", "dup", "order", "name", "count", "size", "deleted", "unrelated", "error",
               "lost_after_restart", "order_after_restart", "count_after_restart", "deleted_after_restart"}
C15Clauses == {"time_missed", "spurious", "named_open"}
=============================================================================
