---------------------------- MODULE TraceRotate ----------------------------
(* Trace validation for C14 / C15: executions recorded from the real quill::RotatingFileSink (harness h_rot: *)
(* directory listing + file contents after every operation) are judged by RotateContract.                  *)
(* One line per operation, executions separated by {"op":"reset","cfg":{...}} lines:                       *)
(*   {"op":"C"|"R"|"W","mode":0|1,"t":n,"dk":n,"p1":n,"cand":[n..],"id":n,"sz":n,                         *)
(*    "files":[{"k":..,"d":..,"x":..,"ids":[..],"sz":..,"bad":..}..],"ubad":n,"err":n}                     *)
(* Every operation the contract does not allow is printed once per execution as  REJ {"l":line,"why":[..]}  *)
(* (the run is not stopped, so one JVM judges thousands of executions, including those that fail).          *)
EXTENDS Naturals, Sequences, FiniteSets, TLC, Json, IOUtils
C == INSTANCE RotateContract
TraceLog == ndJsonDeserialize(IOEnv.TRACE)
VARIABLES l, c, rej
vars == <<l, c, rej>>

Init == l = 1 /\ c = C!CInit /\ rej = FALSE

Next ==
  /\ l <= Len(TraceLog)
  /\ l' = l + 1
  /\ LET e == TraceLog[l] IN
     IF e.op = "reset"
     THEN c' = C!CReset(e.cfg) /\ rej' = FALSE
     ELSE /\ c' = C!Step(c, [e EXCEPT !.files = C!Range(e.files)])
          /\ rej' = (rej \/ c'.why # {})
          /\ (~rej /\ c'.why # {}) => PrintT("REJ " \o ToJson([l |-> l, why |-> c'.why]))

Spec == Init /\ [][Next]_vars
\* consumed-everything is checked by the caller: distinct states = lines + 1
Sane == l >= 1
=============================================================================
