\* Stand-alone configuration of Codec.tla with the constants of the pinned tree (x86-64, libstdc++). The checks do NOT use this
\* file: props/C04.py generates its configurations with the constants measured on the current /repo/include (tools/codec.py).
\* run with: -simulate num=N -depth 12 -workers 1 -seed S
SPECIFICATION Spec
CONSTANTS
 HeaderBytes = 32
 LevelBytes = 1
 CountBytes = 8
 LenBytes = 4
 OptBytes = 1
 SrefBytes = 16
 PtrBytes = 8
 DTrivSize = 24
 DNonSize = 16
 DNonAlign = 8
 DAllocSize = 56
 DAllocAlign = 8
 Threads = {1}
 MaxStmts = 2
 MaxArgs = 3
 MaxArgsFirst = 3
 MaxPending = 2
 PoolName = "none"
 DynChoices = {FALSE, TRUE}
 Export = TRUE
 Sim = TRUE
 SimDepth = 3
 ClearRule = "code"
 DecodeRule = "code"
 MutateSref = FALSE
INVARIANTS ReservedWrittenConsumed CacheIndexInBounds CacheReadsMatchPushes Snapshot
VIEW StateView
ACTION_CONSTRAINT ExportA
CHECK_DEADLOCK FALSE
