SPECIFICATION Spec
CONSTANTS Threads = {"t1","t2"}
 NStmt = 2
 NFlush = 1
 Sizes = {3}
 FlushSz = 2
 Bounded = TRUE
 Dropping = FALSE
 Cap = 8
 Batch = 1
 PublishWhenDrained = TRUE
 Soft = 2
 Hard = 2
 Grace = 0
 MaxTime = 12
 AllowExit = TRUE
 ReportOnRemove = TRUE
 Export = FALSE
INVARIANTS NoBad NoStall DropsAddUp TypeOK
VIEW StateView
CHECK_DEADLOCK FALSE
