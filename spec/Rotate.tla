------------------------------- MODULE Rotate -------------------------------
(* Layer I for C14 / C15: quill::RotatingSink transcribed (one operator per code step):                     *)
(*   _created_files deque, _file_size, _next_rotation_time, _open_file_timestamp, _rotate_files (stop rule,  *)
(*   empty-file rule, rename chain oldest -> newest with index bump on equal suffix, delete beyond the      *)
(*   backup count, reopen "w"), _clean_and_recover_files for the three naming schemes, open mode a / w,      *)
(*   restart = destroy + construct, _time_rotation / _size_rotation / write.                                *)
(* The directory is a function  name -> sequence of statement ids,  a name is [d, x] (d = rank of the date  *)
(* suffix, 0 = none; x = index suffix, 0 = none); [d |-> 0, x |-> 0] is the current file.                   *)
(* Abstract calendar: instants are small integers; a day is DayLen units and starts DayOff units before a   *)
(* multiple of DayLen; the daily point is DailyOff units into the day; an hour/minute is U units (offset    *)
(* UOff).  The contract (RotateContract) is evaluated on the model's directory after every operation; TLC   *)
(* checks that it never rejects, and exports every history with the predicted directory for replay.         *)
EXTENDS Integers, Sequences, FiniteSets, TLC, Json
CONSTANTS Limits, Sizes, MaxBs, Overs, Schemes, Cleans, Modes, Freqs, Intervals, DTs,
          RMs,           \* subset of {0, 1}: 1 = the active file disappears between destroy and an append-mode construct
          DayLen, DayOff, DailyOff, U, UOff, MaxOps, MaxRestarts,
          FixDaily,      \* TRUE: next daily point = next calendar HH:MM after the record (the proposed repair)
          Tolerated,     \* contract clauses not counted in this configuration (known deviations)
          Export,        \* TRUE: print every history of exactly ExportDepth operations (with the predicted directory)
          ExportDepth
VARIABLES cf,            \* configuration of this history
          dir, created, fsize, nextRot, openTs, alive,
          szs,           \* sizes of the statements written so far (id = position)
          now, nops, nrest,
          c,             \* contract state
          hist           \* operations with the predicted directory after each
A == INSTANCE RotateContract
vars == <<cf, dir, created, fsize, nextRot, openTs, alive, szs, now, nops, nrest, c, hist>>

Cur == [d |-> 0, x |-> 0]
Empty == [k \in {} |-> <<>>]
Remove(D, nm) == [k \in (DOMAIN D) \ {nm} |-> D[k]]
Put(D, nm, v) == [k \in (DOMAIN D) \cup {nm} |-> IF k = nm THEN v ELSE D[k]]
\* fs::rename: no-op (error ignored) when the source is missing, replaces the target otherwise
Rename(D, a, b) == IF a \in DOMAIN D /\ a # b THEN Put(Remove(D, a), b, D[a]) ELSE D

RECURSIVE SumSz(_, _)
SumSz(ids, sz) == IF ids = <<>> THEN 0 ELSE sz[Head(ids)] + SumSz(Tail(ids), sz)

\* ---- abstract calendar
DayNo(t) == (t + DayOff) \div DayLen
DK(t) == IF cf.scheme = 0 THEN 0 ELSE IF cf.scheme = 1 THEN DayNo(t) + 1 ELSE t + 1
NextDaily(t) == LET p == DayNo(t) * DayLen - DayOff + DailyOff IN IF p > t THEN p ELSE p + DayLen
UFloor(t) == ((t + UOff) \div U) * U - UOff
Period == IF cf.freq = 1 THEN DayLen ELSE cf.N * U
\* _calculate_initial_rotation_tp
InitialPoint(t) == IF cf.freq = 1 THEN NextDaily(t) ELSE UFloor(t) + U
\* _calculate_rotation_tp
NextPoint(ts) == IF cf.freq = 1 /\ FixDaily THEN NextDaily(ts) ELSE ts + Period

\* ---- _rotate_files
RECURSIVE Chain(_, _, _, _)
Chain(i, D, cr, sfx) ==
  IF i = 0 THEN [D |-> D, cr |-> cr]
  ELSE LET e == cr[i] IN
       IF cf.scheme = 0 \/ e.d = sfx
       THEN LET ne == [d |-> sfx, x |-> e.x + 1] IN Chain(i - 1, Rename(D, e, ne), [cr EXCEPT ![i] = ne], sfx)
       ELSE IF e.d = 0
       THEN LET ne == [d |-> sfx, x |-> e.x] IN Chain(i - 1, Rename(D, e, ne), [cr EXCEPT ![i] = ne], sfx)
       ELSE Chain(i - 1, D, cr, sfx)

Same == [dir |-> dir, created |-> created, openTs |-> openTs, fsize |-> fsize]
RotateFiles(ts) ==
  IF Len(created) > cf.maxb /\ cf.over = 0 THEN Same            \* stop: not allowed to overwrite
  ELSE IF dir[Cur] = <<>> THEN Same                               \* file size 0: nothing to rotate
  ELSE LET sfx == IF cf.scheme = 0 THEN 0 ELSE DK(openTs)
           ch == Chain(Len(created), dir, created, sfx)
           n == Len(created)
           del == n > cf.maxb
           D2 == IF del THEN Remove(ch.D, ch.cr[n]) ELSE ch.D
           cr2 == IF del THEN SubSeq(ch.cr, 1, n - 1) ELSE ch.cr
       IN [dir |-> Put(D2, Cur, <<>>), created |-> <<Cur>> \o cr2, openTs |-> ts, fsize |-> 0]

\* ---- _clean_and_recover_files + constructor
RECURSIVE SortX(_)
SortX(S) == IF S = {} THEN <<>>
            ELSE LET m == CHOOSE a \in S : \A b \in S : a.x <= b.x IN <<m>> \o SortX(S \ {m})
Recovered(D0, mode, start) ==
  IF cf.scheme = 2 \/ mode = 1 THEN <<>>
  ELSE IF cf.scheme = 0 THEN SortX({nm \in DOMAIN D0 : nm.d = 0 /\ nm.x >= 1})
  ELSE SortX({nm \in DOMAIN D0 : nm.d = DK(start)})
Cleaned(D0, mode, start) ==
  IF cf.scheme = 2 \/ mode = 0 \/ cf.clean = 0 THEN D0
  ELSE IF cf.scheme = 0 THEN Empty
  ELSE [nm \in {k \in DOMAIN D0 : k.d # DK(start)} |-> D0[nm]]

Files(D, sz) == {[k |-> IF nm = Cur THEN 0 ELSE 1, d |-> nm.d, x |-> nm.x, ids |-> D[nm], sz |-> SumSz(D[nm], sz), bad |-> 0]
                 : nm \in DOMAIN D}
Pred(D) == {[d |-> nm.d, x |-> nm.x, ids |-> D[nm]] : nm \in DOMAIN D}
ACfg == [limit |-> cf.limit, maxb |-> IF cf.maxb = 99 THEN A!Unlimited ELSE cf.maxb, over |-> cf.over,
         scheme |-> cf.scheme, freq |-> cf.freq, P |-> IF cf.freq = 2 THEN Period ELSE 0]

DoConstruct(opname, mode, start, rm) ==
  LET D0 == IF rm = 1 THEN Remove(dir, Cur) ELSE dir      \* the active file disappeared while no sink was open
      D1 == Cleaned(D0, mode, start)
      D2 == IF mode = 1 \/ Cur \notin DOMAIN D1 THEN Put(D1, Cur, <<>>) ELSE D1
      ev == [op |-> opname, mode |-> mode, rm |-> rm, t |-> start, dk |-> DK(start),
             p1 |-> IF cf.freq = 0 THEN 0 ELSE InitialPoint(start), cand |-> <<>>, id |-> 0, sz |-> 0,
             files |-> Files(D2, szs), ubad |-> 0, err |-> 0]
  IN /\ dir' = D2
     /\ created' = <<Cur>> \o Recovered(D0, mode, start)
     /\ nextRot' = IF cf.freq = 0 THEN 0 ELSE InitialPoint(start)
     /\ openTs' = start
     /\ fsize' = SumSz(D2[Cur], szs)
     /\ alive' = TRUE
     /\ now' = start
     /\ c' = A!Step(IF nops = 0 THEN A!CReset(ACfg) ELSE c, ev)
     /\ hist' = Append(hist, [op |-> opname, mode |-> mode, rm |-> rm, t |-> start, id |-> 0, sz |-> 0, pred |-> Pred(D2)])
     /\ UNCHANGED <<cf, szs>>

DoWrite(sz, ts) ==
  LET id == Len(szs) + 1
      sz2 == Append(szs, sz)
      tr == cf.freq # 0 /\ ts >= nextRot                                   \* _time_rotation
      r == IF tr THEN RotateFiles(ts)
           ELSE IF cf.limit # 0 /\ fsize + sz > cf.limit THEN RotateFiles(ts)  \* _size_rotation
           ELSE Same
      D2 == Put(r.dir, Cur, Append(r.dir[Cur], id))
      ev == [op |-> "W", mode |-> 0, rm |-> 0, t |-> ts, dk |-> DK(ts), p1 |-> 0,
             cand |-> IF cf.freq = 0 THEN <<>> ELSE IF cf.freq = 1 THEN <<NextDaily(ts)>> ELSE <<ts + Period, UFloor(ts) + Period>>,
             id |-> id, sz |-> sz, files |-> Files(D2, sz2), ubad |-> 0, err |-> 0]
  IN /\ dir' = D2
     /\ created' = r.created
     /\ openTs' = r.openTs
     /\ fsize' = r.fsize + sz
     /\ nextRot' = IF tr THEN NextPoint(ts) ELSE nextRot
     /\ szs' = sz2
     /\ now' = ts
     /\ c' = A!Step(c, ev)
     /\ hist' = Append(hist, [op |-> "W", mode |-> 0, rm |-> 0, t |-> ts, id |-> id, sz |-> sz, pred |-> Pred(D2)])
     /\ UNCHANGED <<cf, alive>>

Cfgs == [limit : Limits, maxb : MaxBs, over : Overs, scheme : Schemes, clean : Cleans, freq : Freqs, N : Intervals]
\* symmetric / meaningless combinations are dropped
CfgOK(k) == /\ (k.freq # 2 => k.N = 1)
            /\ (k.maxb = 99 => k.over = 1)
            /\ (k.limit = 0 => k.freq # 0)

Init == /\ cf \in {k \in Cfgs : CfgOK(k)}
        /\ dir = Empty /\ created = <<>> /\ fsize = 0 /\ nextRot = 0 /\ openTs = 0 /\ alive = FALSE
        /\ szs = <<>> /\ now = 0 /\ nops = 0 /\ nrest = 0 /\ c = A!CInit /\ hist = <<>>

Step == nops < MaxOps /\ nops' = nops + 1
\* the Index scheme without time rotation never looks at time
DTok(dt) == (cf.scheme = 0 /\ cf.freq = 0) => dt = 0
AConstruct == /\ Step /\ nops = 0 /\ nrest' = nrest
              /\ \E m \in Modes, dt \in DTs : DTok(dt) /\ DoConstruct("C", m, now + dt, 0)
AWrite == /\ Step /\ alive /\ nrest' = nrest
          /\ \E s \in Sizes, dt \in DTs : DTok(dt) /\ DoWrite(s, now + dt)
ARestart == /\ Step /\ alive /\ nrest < MaxRestarts /\ nrest' = nrest + 1
            /\ \E m \in Modes, dt \in DTs, rm \in RMs : DTok(dt) /\ (rm = 1 => m = 0) /\ DoConstruct("R", m, now + dt, rm)
Next == AConstruct \/ AWrite \/ ARestart
Spec == Init /\ [][Next]_vars

\* C14 / C15 on the model: the contract never rejects the model's directory
ContractHolds == c.why \subseteq Tolerated
C14Holds == (c.why \cap A!C14Clauses) \subseteq Tolerated
C15Holds == (c.why \cap A!C15Clauses) \subseteq Tolerated
\* structural invariants of the transcription
TypeOK == /\ alive => (Cur \in DOMAIN dir /\ Len(created) >= 1 /\ created[1] = Cur /\ fsize = SumSz(dir[Cur], szs))
          /\ \A i \in 1..Len(created) : \A j \in 1..Len(created) : i # j => created[i] # created[j]
\* reachability self-tests (each must be VIOLATED): rotation, deletion, stop rule, recovery are exercised
NoRotation == ~(\E nm \in DOMAIN dir : nm # Cur)
NoDeletion == c.fl > 1 \/ UNION {A!Range(dir[nm]) : nm \in DOMAIN dir} = 1..Len(szs)
NoStop == ~(alive /\ cf.limit # 0 /\ fsize > cf.limit /\ Len(dir[Cur]) > 1)
NoRecovery == Len(created) <= 1 \/ nrest = 0
\* an append restart after the active file disappeared, with rotated files recovered and a later rotation
NoRecoveryWithoutActive == ~(\E i \in 1..Len(hist) : hist[i].rm = 1 /\ Cardinality(hist[i].pred) > 1 /\ \E j \in (i + 1)..Len(hist) : Cardinality(hist[j].pred) > Cardinality(hist[i].pred))
NoTimeSplit == ~(cf.limit = 0 /\ \E nm \in DOMAIN dir : nm # Cur)
NoSizeSplitUnderTime == ~(cf.freq # 0 /\ cf.limit # 0 /\ alive /\ nextRot = InitialPoint(hist[1].t) /\ \E nm \in DOMAIN dir : nm # Cur)

StateView == <<cf, dir, created, fsize, nextRot, openTs, alive, szs, now, nops, nrest, c>>
ExportA == (Export /\ nops' = ExportDepth) => PrintT("BEH " \o ToJson([cf |-> cf, ops |-> hist']))
=============================================================================
