SPECIFICATION Spec
INVARIANT Ok03
CHECK_DEADLOCK FALSE
