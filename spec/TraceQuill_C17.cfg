SPECIFICATION Spec
INVARIANT Ok17
CHECK_DEADLOCK FALSE
