SPECIFICATION Spec
INVARIANT Ok05
CHECK_DEADLOCK FALSE
