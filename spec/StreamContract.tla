--------------------------- MODULE StreamContract ---------------------------
(* Layer A for C02 (and the shrink clause of C20): what the two users of an unbounded queue may observe. *)
EXTENDS Naturals, Sequences, FiniteSets

MInit(initcap, maxcap) ==
  [max |-> maxcap, q |-> <<>>, reading |-> 0, lastcap |-> initcap, ok |-> TRUE, ok09 |-> TRUE]

\* reservation: granted, refused (caller blocks or drops) or rejected with an error.
\*   n > max            => error, nothing reserved
\*   n <= max           => never an error; the queue never allocates beyond max
MReserve(m, e) ==
  [m EXCEPT !.ok = m.ok /\ ~e.bad /\ (e.n > m.max => (e.threw /\ ~e.granted)) /\ (e.n <= m.max => ~e.threw)
                        /\ e.maxalloc <= m.max,
            \* C09: probe issued when everything was consumed: a record of at most the maximum capacity is accepted
            !.ok09 = m.ok09 /\ ~(e.probe /\ e.n <= m.max /\ ~e.granted),
            !.lastcap = IF e.granted THEN e.pcap ELSE m.lastcap]
MWrite(m, e) == [m EXCEPT !.ok = m.ok /\ ~e.bad]
MCommit(m, e) == [m EXCEPT !.q = Append(m.q, e.id)]
MPrepRead(m, e) == [m EXCEPT !.ok = m.ok /\ ~e.bad]
\* exactly the next committed record, whole and intact, wherever (old or new buffer) it lives
MRead(m, e) ==
  [m EXCEPT !.ok = m.ok /\ ~e.bad /\ Len(m.q) > 0 /\ e.committed /\ (Len(m.q) > 0 => e.id = Head(m.q)),
            !.q = IF Len(m.q) > 0 THEN Tail(m.q) ELSE m.q]
\* shrink request: takes effect iff the target is at most half the current capacity; capacity never grows by it
MShrink(m, e) ==
  [m EXCEPT !.ok = m.ok /\ ~e.bad /\ e.maxalloc <= m.max
                   /\ (IF e.c * 2 <= e.before THEN e.after < e.before /\ e.after >= e.c ELSE e.after = e.before),
            !.lastcap = e.after]
\* after the producer stopped and the consumer drained with up-to-date loads nothing committed may remain
MDrained(m, e) == [m EXCEPT !.ok = m.ok /\ e.pending = 0 /\ Len(m.q) = 0]

\* empty() evaluated with up-to-date loads must not claim "empty" while a committed record is still unconsumed
\* (BackendWorker::_exit, ManualBackendWorker::poll and the context clean-up decide on it)
MEmpty(m, e) == [m EXCEPT !.ok = m.ok /\ ~e.bad /\ (e.empty => Len(m.q) = 0)]

MStep(m, e) ==
  CASE e.k = "upw" -> MReserve(m, e)
    [] e.k = "uempty" -> MEmpty(m, e)
    [] e.k = "write" -> MWrite(m, e)
    [] e.k = "fc" -> MCommit(m, e)
    [] e.k = "upr" -> MPrepRead(m, e)
    [] e.k = "read" -> MRead(m, e)
    [] e.k = "shrink" -> MShrink(m, e)
    [] e.k = "drained" -> MDrained(m, e)
    [] OTHER -> [m EXCEPT !.ok = m.ok /\ ~e.bad]
=============================================================================
