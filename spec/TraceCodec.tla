----------------------------- MODULE TraceCodec -----------------------------
(* Trace validation for C04: executions recorded from the real quill code (generated statements logged through  *)
(* the LOG_ macros / log_statement, the real queue and the manual backend into a recording sink) are judged by *)
(* the contract of the property. One line per observed step:                                                   *)
(*  {"op":"reset"}                                              new process / new case group                   *)
(*  {"op":"stmt", "t", "reserved", "hdr", "dynb", "tp":[size,written,consumed], "got", "gotnull", "exp":[..],   *)
(*   "raw":[..], "hasstr", "orafail", "pred", "cb", "ca", "clears", "npush"}                                    *)
(*      reserved = producer writer-position delta of the call (-1: unknown, first call of a fresh thread)       *)
(*      tp       = the three passes of the real codec run on the same arguments: bytes the Size pass asks for,   *)
(*                 bytes Encode wrote, bytes Decode consumed (argument part only)                               *)
(*      got      = log_message the sink received (hex); exp = THE call-site fmtquill::format text after the      *)
(*                 configured sanitiser (unordered containers in the source's own iteration order); raw = same   *)
(*                 before sanitisation; the arguments were mutated/destroyed after the call when the case says so *)
(*                 ("alt", the texts for other element orders, is only used to NAME a rejection, never to accept) *)
(*  {"op":"poll", "t", "consumed", "nodechg"}   consumer reader-position delta of one drain of thread t's queue  *)
EXTENDS Naturals, Integers, Sequences, FiniteSets, TLC, Json, IOUtils
TraceLog == ndJsonDeserialize(IOEnv.TRACE)
VARIABLES l,        \* next line
          pend,     \* [thread -> bytes reserved and not yet consumed]; -1 = unknown
          rej,      \* contract (layer A): lines the contract rejects, in order (decides violations)
          faithful  \* layer I: the byte counts / cache lengths Codec.tla predicts; a mismatch is drift, not a verdict
vars == <<l, pend, rej, faithful>>
Tids == 0..255
Range(s) == {s[i] : i \in 1..Len(s)}

Init == l = 1 /\ pend = [t \in Tids |-> 0] /\ rej = <<>> /\ faithful = TRUE

\* the message equals the call-site formatting (after the sanitiser; the sanitiser is documented to apply only
\* when an argument is a string, so without one the unsanitised text is accepted as well)
TextOK(e) == e.orafail \/ (~e.gotnull /\ (e.got \in Range(e.exp) \/ (~e.hasstr /\ e.got \in Range(e.raw))))
\* reserved = written = consumed, argument part measured by the three passes, whole record by the queue positions
PassesOK(e) == e.tp[1] < 0 \/ (e.tp[1] = e.tp[2] /\ e.tp[2] = e.tp[3])
ReservedOK(e) == e.reserved < 0 \/ e.tp[1] < 0 \/ e.reserved = e.hdr + e.tp[2] + e.dynb
PredOK(e) == /\ (e.pred < 0 \/ e.reserved < 0 \/ e.reserved = e.pred)
             /\ (e.cb < 0 \/ e.ca < 0 \/ e.npush < 0 \/ e.ca = (IF e.clears THEN e.npush ELSE e.cb))

Next ==
  /\ l <= Len(TraceLog)
  /\ l' = l + 1
  /\ LET e == TraceLog[l] IN
     CASE e.op = "reset" -> pend' = [t \in Tids |-> 0] /\ UNCHANGED <<rej, faithful>>
       [] e.op = "stmt" ->
            /\ rej' = IF TextOK(e) /\ PassesOK(e) /\ ReservedOK(e) THEN rej ELSE Append(rej, l)
            /\ faithful' = (faithful /\ PredOK(e))
            /\ pend' = [pend EXCEPT ![e.t] = IF @ < 0 \/ e.reserved < 0 THEN -1 ELSE @ + e.reserved]
       [] e.op = "poll" ->
            /\ rej' = IF pend[e.t] < 0 \/ e.nodechg \/ e.consumed = pend[e.t] THEN rej ELSE Append(rej, l)
            /\ pend' = [pend EXCEPT ![e.t] = 0]
            /\ UNCHANGED faithful

  \* after the last line: report every rejected line (TraceCodecAll.cfg: one pass over thousands of executions)
  /\ (l' = Len(TraceLog) + 1) => PrintT("REJ " \o ToJson(rej'))

Spec == Init /\ [][Next]_vars
\* violated at the first step the contract rejects (l - 1 = its line)
Conforms == rej = <<>>
Faithful == faithful
=============================================================================
