#!/bin/sh
# Offline setup: nothing to fetch. Harnesses are (re)compiled by the checks against /repo/include.
set -e
cd "$(dirname "$0")"
mkdir -p build evidence
chmod +x check
java -version >/dev/null 2>&1 || { echo "java missing"; exit 1; }
g++ --version >/dev/null 2>&1 || { echo "g++ missing"; exit 1; }
# warm the build cache of the shared harnesses (optional; failures are reported by the checks themselves)
python3 tools/prebuild.py || true
