"""C15 - time rotation (daily HH:MM / hourly / minutely) separates statements at the configured points, names rotated
files after the instant they were opened, and composes with size rotation and the backup limit.
Spec: spec/Rotate.tla with a schedule (abstract calendar), spec/RotateContract.tla, spec/TraceRotate.tla.
Binding: every complete history TLC exports (all histories to a depth) is mapped to real epoch timestamps (GMT and
DST zones for daily rotation, GMT and a +05:30 zone for hourly, GMT for minutely) and, together with seeded random long
histories built around the boundary instants, replayed into the real quill::RotatingFileSink (harness/h_rot.cpp);
the recorded directory after every write_log call is judged by TLC against the contract, whose calendar is python's
zoneinfo, not the library's."""
import random
from datetime import datetime
import vlib, rot

PROPS = {"time_missed", "spurious", "named_open", "whole", "lost", "alien", "dup", "order", "name", "count", "size",
         "deleted", "error"}
DAILY = dict(Freqs="{1}", DayLen=4, DayOff=1, DailyOff=2, DTs="{0, 1, 2, 5}", Limits="{0, 4}", MaxBs="{1, 99}",
             Cleans="{1}", Modes="{1}", Schemes="{0, 1, 2}", MaxRestarts=0, Sizes="{1, 3}")
PERIODIC = dict(Freqs="{2}", DayLen=48, DayOff=45, U=2, UOff=1, Intervals="{1, 2}", DTs="{0, 1, 2, 5}", Limits="{0, 4}",
                MaxBs="{1, 99}", Cleans="{1}", Modes="{1}", Schemes="{0, 1, 2}", MaxRestarts=0, Sizes="{1, 3}")
# (zone name, a local date two days before a UTC-offset change)
DST = [("America/New_York", datetime(2024, 3, 8)), ("America/New_York", datetime(2024, 11, 1)),
       ("Europe/Berlin", datetime(2024, 3, 29)), ("Australia/Lord_Howe", datetime(2024, 4, 5)),
       ("Australia/Lord_Howe", datetime(2024, 10, 4))]
DAILY_TIMES = ["00:00", "00:30", "03:30", "06:30", "10:00", "12:00", "18:45", "23:59"]   # outside every gap / fold used


def random_history(rng, k):
    freq = rng.choice("DDDHM")
    cfg = {"limit": rng.choice([0, 0, 512, 1000]), "maxb": rng.choice([-1, -1, 1, 2, 5]), "over": 1,
           "scheme": rng.choice("IDT"), "freq": freq, "interval": 1, "daily": "00:00", "zone": "G", "tz": "GMT", "clean": 1}
    if cfg["maxb"] >= 0:
        cfg["over"] = rng.choice([0, 1, 1])
    if freq == "D":
        cfg["daily"] = rng.choice(DAILY_TIMES)
        if rng.random() < 0.6:
            cfg["zone"] = "L"
            cfg["tz"], base = rng.choice(DST)
            t = int(base.replace(tzinfo=rot.tz_of(cfg)).timestamp())
        else:
            t = 1686528000
        t += rng.randint(0, 2 * 86400)
    else:
        cfg["interval"] = rng.choice([1, 1, 2, 3])
        if rng.random() < 0.4:
            cfg["zone"], cfg["tz"] = "L", "Asia/Kolkata"
        t = 1686528000 + rng.randint(0, 86400)
    P = 86400 if freq == "D" else rot.period(cfg)
    ops = [("C", rng.choice("aw"), t)]
    trig = None      # last instant at which a calendar point was passed
    nxt = rot.first_point(t, cfg)
    for sid in range(1, rng.randint(6, 40)):
        c = [t, t, t + 1, t + rng.randint(1, max(2, P // 3)), nxt - 1, nxt, nxt + 1, nxt + rng.randint(1, max(2, P // 2)),
             t + P, t + P - 1, t + (5 * P) // 2]
        if trig is not None:
            c += [trig + P - 1, trig + P, trig + P + 1]
        t2 = rng.choice([x for x in c if x >= t])
        if t2 >= nxt:
            trig = t2
            nxt = rot.next_daily(t2, cfg) if freq == "D" else rot.unit_floor(t2, cfg) + rot.UNIT[freq]
        t = t2
        sz = rng.choice([32, 64, rng.randint(16, 400)]) if cfg["limit"] else 32
        ops.append(("W", sid, sz, t))
    return {"k": k, "cfg": cfg, "pre": [], "ops": ops}


def probe_daily_rule(exe):
    """Behavioural constant of the implementation-shaped model, observed on the real sink at check time: is the next daily
    point computed from the calendar (TRUE) or as trigger + 24h (FALSE, the pinned code)?  Only the model's predictions
    (drift comparison) depend on it; the verdict never does."""
    D = 1686528000   # 2023-06-12 00:00:00 GMT
    it = {"k": 0, "cfg": {"limit": 0, "maxb": -1, "over": 1, "scheme": "I", "freq": "D", "interval": 1, "daily": "12:00",
                          "zone": "G", "tz": "GMT", "clean": 1}, "pre": [],
          "ops": [("C", "w", D + 18 * 3600), ("W", 1, 64, D + 48 * 3600), ("W", 2, 64, D + 60 * 3600)]}
    obs = rot.run_all(exe, [it], nb=1)
    cur = rot.final_dir(it, obs).get("logfile.log")
    if cur == [2]:
        return True
    if cur == [1, 2]:
        return False
    raise vlib.Infra(f"daily-rule probe: unexpected directory {rot.final_dir(it, obs)}")


def run(ck):
    quick = ck.tier == "quick"
    rng = random.Random(ck.seed)
    ck.rule = ("histories = every complete history of the Rotate model with a schedule to the export depth (TLC; daily / hourly / "
               "minutely, interval {1,2}, 3 naming schemes, with and without size limit and backup limit, instants just before / at / "
               "after a point and gaps of several periods), each mapped to GMT and to DST-zone / +05:30 timestamps; + seeded random "
               "long histories around the boundary instants; non-trivial = the real sink rotated at least once; distinct by "
               "configuration + operation sequence")
    ck.assumptions = [
        "daily: the scheduled points are every calendar day at HH:MM:00 wall-clock time of the sink's zone (reference calendar: python zoneinfo); "
        "HH:MM values inside a DST gap or fold are not explored",
        "hourly/minutely: first point = next hour/minute boundary (sink's zone) after the start instant; after a point was passed by a statement "
        "at instant r the next point may be r+P, firstpoint+j*P or unit-floor(r)+P (any consistent reading accepted): wall-clock aligned "
        "hourly points are not demanded because neither the property nor the documentation promises them",
        "an empty current file is never 'the file that was open before the point' (the sink skips the rotation of an empty file)",
        "time separation is not demanded while rotation is stopped by the no-overwrite rule (C14)",
        "a rotated file's suffix = the instant the sink created it (start_time, or the timestamp of the statement that triggered the "
        "rotation), or its first statement's instant if it was created empty",
        "timestamps non-decreasing, no restarts (the property's quantifier), one write_log call = one statement",
        "size clauses as in C14 (rotation at exact fill tolerated either way)",
    ]
    rot.load_proposed(ck)
    exe = rot.build()
    calendar_rule = probe_daily_rule(exe)
    ck.extra["extracted"] = {"daily_next_point_rule": "next calendar HH:MM after the trigger" if calendar_rule else "trigger + 24h"}
    # ---- 1. design level
    d = 5 if quick else 7
    dp = 5 if quick else 6
    REACH = ("NoRotation", "NoTimeSplit", "NoSizeSplitUnderTime", "NoStop", "NoDeletion")
    d_e = 5
    dd = dict(DAILY); dd["MaxOps"] = 6
    jobs = [("MC_C15_daily_repaired", rot.mc_cfg("MC_C15_daily_repaired", MaxOps=d, FixDaily="TRUE", **DAILY), dict(timeout=1700), 6),
            ("MC_C15_periodic", rot.mc_cfg("MC_C15_periodic", export=True, MaxOps=dp, ExportDepth=4 if quick else d_e, **PERIODIC), dict(timeout=1700), 5 if quick else 6),
            ("MC_C15_coverage", rot.mc_cfg("MC_C15_coverage", MaxOps=4, FixDaily="TRUE", **DAILY), dict(coverage=True, timeout=600), 1),
            ]
    # the daily rule as coded (trigger + 24h), refuted by TLC: one counterexample per clause, replayed on the real sink below
    WIT = [("MC_C15_daily_as_coded_0", "{}"), ("MC_C15_daily_as_coded_1", '{"time_missed"}')]
    jobs += [(lbl, rot.mc_cfg(lbl, MaxOps=6, Tolerated=tol, **DAILY), dict(timeout=600), 1) for lbl, tol in WIT]
    jobs += rot.reach_jobs(ck, dd, REACH)
    jobs += [("Export_C15_daily", rot.mc_cfg("Export_C15_daily", invariants=("TypeOK",), export=True, MaxOps=d_e, FixDaily="TRUE" if calendar_rule else "FALSE", **DAILY), dict(timeout=1700), 3)]
    res = dict(rot.tlc_parallel(jobs))
    rot.coverage_selftest(res["MC_C15_coverage"], actions=("AConstruct", "AWrite"))
    ck.add_tlc(res["MC_C15_coverage"], "MC_C15_coverage")
    rot.must_hold(ck, "MC_C15_daily_repaired", res["MC_C15_daily_repaired"])
    rot.must_hold(ck, "MC_C15_periodic", res["MC_C15_periodic"], count=False)
    witnesses = []
    for lbl, tol in WIT:
        w = res[lbl]
        ck.add_tlc(w, lbl)
        if w.violated and w.trace:
            witnesses.append({"cf": w.trace[-1]["cf"], "ops": w.trace[-1]["hist"], "clauses": w.trace[-1]["c"]["why"]})
    ck.extra["model_counterexamples_daily_as_coded"] = [
        {"cf": x["cf"], "clauses": x["clauses"], "history": [[h["op"], h["mode"], h["t"], h["id"], h["sz"]] for h in x["ops"]],
         "calendar": "day = 4 units, t=0 is 1 unit after midnight, daily point 2 units into the day (t = 1, 5, 9, ...)"} for x in witnesses]
    rot.reach_check(ck, res, REACH)
    sampled = False
    ck.extra["model_bounds"] = {"daily_depth": d, "periodic_depth": dp, "instants": "increments {0,1,2,5} units; day = 4 units, hour/minute = 2 units",
                                "note": "daily is exhaustively verified for the repaired next-point rule (FixDaily); the rule as coded "
                                        "(trigger + 24h) is refuted by TLC and the counterexample class is confirmed on the real sink"}
    # ---- 2. behaviours
    ex = {lbl: rot.take_behaviours(ck, res, lbl) for lbl in ("Export_C15_daily", "MC_C15_periodic")}
    ck.extra["histories_exported_by_tlc"] = sum(len(b) for b in ex.values())
    dm = [rot.Mapping(datetime(2023, 6, 12, 6, 0), 21600, "G", "GMT", daily="12:00", freq="D", daylen=4, dayoff=1)]
    for tzname, base in DST:
        dm.append(rot.Mapping(base.replace(hour=6), 21600, "L", tzname, daily="12:00", freq="D", daylen=4, dayoff=1, compare=False))
    pm = [rot.Mapping(datetime(2023, 6, 12, 22, 30), 1800, "G", "GMT", freq="H", daylen=48, dayoff=45),
          rot.Mapping(datetime(2023, 6, 12, 22, 30), 1800, "L", "Asia/Kolkata", freq="H", daylen=48, dayoff=45),
          rot.Mapping(datetime(2023, 6, 12, 23, 58, 30), 30, "G", "GMT", freq="M", daylen=48, dayoff=45)]
    items, k = [], 0
    if not calendar_rule:
        for x in witnesses:
            items.append(rot.from_behaviour(k, x, dm[0])); k += 1
    for lbl, maps in (("Export_C15_daily", dm), ("MC_C15_periodic", pm)):
        b = ex[lbl]
        cap = 6000 if quick else 110000
        if len(b) > cap:
            b = rng.sample(b, cap)
            sampled = True
        for i, x in enumerate(b):
            for mi, mp in enumerate(maps):
                # GMT for every history; the other mappings take turns (quick: every second history, thorough: every history)
                if mi != 0 and (i % ((2 if quick else 1) * (len(maps) - 1))) != mi - 1:
                    continue
                items.append(rot.from_behaviour(k, x, mp)); k += 1
    # exhaustive = the model was checked exhaustively for the bound AND every exported history was replayed on the real sink
    ck.exhaustive = not sampled
    ck.extra["model_exhaustive_for_bounds"] = True
    n_tlc = len(items)
    nrand = 2500 if quick else 40000
    for _ in range(nrand):
        items.append(random_history(rng, k)); k += 1
    # ---- 3./4. real sink + TLC trace validation
    # random histories first in the sample list: put one long random history next to the TLC ones
    rot.process(ck, exe, items[:n_tlc], PROPS)
    rot.process(ck, exe, items[n_tlc:], PROPS, nsamples=1)
    ck.extra["histories_from_tlc_replayed"] = n_tlc
    ck.extra["histories_random"] = nrand
    ck.extra["zones"] = ["GMT"] + sorted({z for z, _ in DST}) + ["Asia/Kolkata"]


def replay(ck, path):
    rot.replay(ck, path)
