"""C03 - every accepted statement reaches each sink of its logger once, in thread order (blocking queues).
Contract: spec/QuillContract.tla (ok03), trace validation spec/TraceQuill.tla; implementation-shaped exploration: spec/Quill.tla.
Binding: seeded random schedules (log calls of several threads with sizes up to the queue capacity, thread exits with pending
statements, whole and fine-grained backend polls parked at the QUILL_VERIF yield points) executed on the real frontend/backend
via harness/h_sys under the token scheduler; recorded executions validated by TLC."""
import random
import vlib, qsys


def scenario(rng, qk):
    qt, cap, mx = qk.split(":")
    cap, mx = int(cap), int(mx)
    bounded = qt.startswith("B")
    s = qsys.Scn(rng, qt, cap, mx, grace=rng.choice([0, 0, 1]), soft=rng.choice([1, 2, 4]), hard=rng.choice([4, 8]),
                 ring=rng.choice([1, 2, 4]))
    nsinks = rng.randint(1, 2)
    for i in range(nsinks):
        s.sink(f"S{i}")
    s.logger("L0", ["S0"] if nsinks == 1 else rng.choice([["S0"], ["S0", "S1"]]), lvl=0)
    if rng.random() < 0.5:
        s.logger("L1", [f"S{nsinks - 1}"], lvl=0)
    nth = rng.randint(1, 4)
    for t in range(nth):
        s.start(f"t{t}")
    limit = mx if not bounded else cap
    for _ in range(rng.randint(10, 45)):
        r = rng.random()
        if r < 0.62 and s.alive:
            t = rng.choice(sorted(s.alive))
            pad = min(qsys.pads(rng, cap, bounded), limit - qsys.HDR)
            s.log(t, rng.choice(s.loggers), pad=max(0, pad))
        elif r < 0.66 and len(s.alive) > 1:
            s.join(rng.choice(sorted(s.alive)))          # thread exits, possibly with statements still queued
        elif r < 0.70 and len(s.alive) > 1:
            # an already registered thread logs and exits while the backend is between the emptiness check of an idle poll
            # and its context clean-up
            t = rng.choice(sorted(s.alive))
            for u in sorted(s.alive):
                s.op(f"T {u} go")
            s.op("B drain")
            s.op("B pollf")
            s.op("B until:IDLE3")
            s.log(t, rng.choice(s.loggers), pad=rng.randint(0, 16))
            s.join(t)
            s.op("B until:-")
        elif r < 0.74 and len(s.threads) < 6:
            s.start(f"t{len(s.threads)}")
        elif r < 0.78:
            s.op(f"tick {rng.randint(1, 3)}")
        elif r < 0.82 and s.alive:
            s.op(f"T {rng.choice(sorted(s.alive))} flush {rng.choice(s.loggers)}")   # control event through the same queue
        elif r < 0.86 and s.alive:
            s.op(f"T {rng.choice(sorted(s.alive))} go")
        else:
            s.backend_some()
    if rng.random() < 0.45:
        s.finish_by_exit()               # BackendWorker::_exit() drains whatever was accepted
    else:
        s.finish(final=True)
    return s.text(), s.grace


def run(ck):
    quick = ck.tier == "quick"
    rng = random.Random(ck.seed)
    ck.rule = ("seeded random schedules: 1-6 threads x 10-45 operations (log calls with sizes up to the queue capacity, thread "
               "exits/starts, ticks, whole and fine-grained backend polls); queue types BoundedBlocking and UnboundedBlocking with "
               "small capacities; non-trivial = at least two statements written; distinct by script")
    ck.assumptions = ["token scheduler: one logical thread runs between yield points (QUILL_VERIF hooks, interposed clock/sleep)",
                      "statement identity is carried in the message text and recovered from what the sink receives"]
    import sysmodel, ringcheck, newctxmodel
    # registration of a new thread's context under release/acquire (spec/NewCtxRA.tla on the real backend thread, harness/h_stop)
    newctxmodel.run_for(ck)
    import os
    if os.environ.get("VERIF_PART") == "newctx":
        return
    ringcheck.run(ck, quick)
    sysmodel.run_for(ck, "C03")
    # growth of a thread's queue at queue level ("none lost across a switch to a larger buffer"): the C02 machinery on the
    # configurations without shrink requests - the consumer/producer interleavings inside prepare_read() (empty check, load of `next`,
    # re-check of the old buffer) are not reachable from the system-level yield points
    import C02
    grow = [dict(cap=2, max=6, sizes=[2, 5, 7], recs=2, nodes=3, shrink=[1], nshrink=0, xrecs=2),
            dict(cap=2, max=8, sizes=[1, 3, 9], recs=3, nodes=3, shrink=[1], nshrink=0, xrecs=3)][: (1 if quick else 2)]
    C02.queue_level(ck, grow, 3 if quick else 30, meta=False)
    # "UBS" = the shadow-Spinlock build: every lock acquisition/release of a frontend thread is a yield point (context registration
    # racing with backend polls)
    qks = ["BB:256:256", "BB:512:512", "UB:256:1024", "UB:128:4096", "UBS:256:1024"]
    n = 250 if quick else 3000
    scen = []
    for i in range(n):
        qk = qks[i % len(qks)]
        sc, grace = scenario(rng, qk)
        scen.append((f"c03-{i}", qk, sc, grace))
    if not quick:
        scen += [(key + "-asan", qk + ":asan", sc, grace) for (key, qk, sc, grace) in scen[:400]]
        ck.assumptions.append("thorough: 400 scenarios repeated on an AddressSanitizer build of the harness")
    qsys.run_and_validate(ck, "C03", "TraceQuill_C03.cfg", scen, qsys.exe_of, "c03")
    ck.sample({"scenario": scen[0][0], "queue": scen[0][1], "script_head": scen[0][2].splitlines()[:25]})


def replay(ck, path):
    import json
    if json.loads(open(path).read())["replay"].get("harness") == "h_stop":
        import stopmodel
        stopmodel.replay(path)
        return
    qsys.replay(path)
