"""C09 - a blocked log call resumes once the backend made room; no stall on an empty queue.
Queue level: spec/SpscRA.tla invariant QuiescentGrant with constants extracted from the code (batched publish,
PublishWhenDrained); counterexamples replayed on the real queue and judged by the contract (TraceSpsc, OkC09);
seeded random walks with quiescent probes. End to end (system level): see C09 section of props/sysprops."""
import json
import vlib, spsc, sysh
import C01


def queue_level(ck):
    quick = ck.tier == "quick"
    exe = spsc.build("uint8_t")
    cfgs = [dict(cap=4, pct=50, sizes=[1, 2, 4], recs=3), dict(cap=8, pct=25, sizes=[1, 3, 8], recs=3),
            dict(cap=8, pct=100, sizes=[1, 7, 8], recs=3)]
    if not quick:
        cfgs += [dict(cap=4, pct=100, sizes=[1, 2, 3, 4], recs=4), dict(cap=8, pct=50, sizes=[1, 2, 7, 8], recs=4),
                 dict(cap=16, pct=25, sizes=[1, 3, 15, 16], recs=3)]
    for c in cfgs:
        try:
            k, start, r = C01.model_check(ck, exe, c, ["QuiescentGrant"], label="MC09")
        except spsc.ExtractFailed as ex:
            ck.drifted(f"cap={c['cap']} pct={c['pct']}: {ex}")
            continue
        ck.extra.setdefault("extracted_constants", {})[f"cap{c['cap']}_pct{c['pct']}"] = k
        label = f"cap={c['cap']} pct={c['pct']} batch={k['Batch']}"
        if r.violated:
            beh = r.trace[-1]["hist"]
            sc = spsc.script_of(beh, c["cap"], c["pct"], start).replace("end\n", f"P pw n={c['cap']} probe=1\nend\n")
            rc, evs = spsc.run(exe, sc)
            rv = sysh.validate_trace("TraceSpsc", "TraceSpsc_C09.cfg", spsc.contract_lines(evs))
            if rv.error:
                raise vlib.Infra(rv.error)
            ck.add_tlc(rv, "TraceSpsc_C09 (counterexample replay)")
            if rv.violated:
                ck.violation("spsc:fitting-request-refused-on-drained-queue",
                             f"{label}: after {[(h['t'], h['a'], h['arg']) for h in beh]} the queue is empty and the consumer idle, "
                             f"yet a reservation of {c['cap']} bytes (= capacity) is refused",
                             {"script": sc, "harness": "h_spsc uint8_t", "constants": k})
            else:
                ck.drifted(f"{label}: model violates QuiescentGrant but the real queue grants the probe")
        else:
            ck.case(("mc09", label), True)
    ck.case(("mc09", "done"), True)
    C01.fuzz(ck, "TraceSpsc_C09.cfg", "spsc", 4 if quick else 40, quick)
    import C02
    C02.fuzz(ck, 6 if quick else 60, quick, cfg="TraceStream_C09.cfg", prefix="uspsc09")


def run(ck):
    ck.rule = ("queue level: exhaustive TLC check of QuiescentGrant for the listed configurations with extracted constants, "
               "counterexamples replayed on the real queue; seeded random walks with a capacity-sized probe whenever the "
               "queue is drained and the consumer has committed; non-trivial = at least three records consumed")
    ck.assumptions = ["'backend idle' at queue level = the consumer observed the queue empty and called commit_read afterwards "
                      "(what BackendWorker::_read_and_decode_frontend_queue does before an idle poll)",
                      "a producer reload eventually observes the latest published reader position"]
    queue_level(ck)
    # end to end: real frontend + backend, producer parked in the interposed retry sleep
    import sysfam
    rule = ck.rule
    sysfam.run_family(ck, "C09", 120 if ck.tier == "quick" else 1500)
    ck.rule = rule + "; end to end: " + sysfam.RULES["C09"]


def replay(ck, path):
    C01.replay(ck, path)
