"""Scenario families for the pipeline properties (one generator per property, all judged by QuillContract)."""
import random
import vlib, qsys

QB = ["BB:256:256", "BB:512:512", "UB:256:1024", "UB:128:4096"]
QD = ["BD:256:256", "BD:512:512", "UD:128:512", "UD:256:256", "UD:256:1024"]


def _base(rng, qk, **kw):
    qt, cap, mx = qk.split(":")
    return qsys.Scn(rng, qt, int(cap), int(mx), **kw), int(cap), int(mx), qt.startswith("B")


def _maxpad(cap, mx, bounded):
    return (cap if bounded else mx) - qsys.HDR


# --------------------------------------------------------------------------- C05
def c05(rng, qk):
    # grace in clock units (1 unit = 1 us; every clock read advances one unit): large enough that an ordinary call is
    # not "late" just because other threads read the clock, small enough that ticks cross it
    grace = rng.choice([4, 8, 16])
    hard = rng.choice([4, 8])
    s, cap, mx, bounded = _base(rng, qk, grace=grace, soft=rng.choice([x for x in (1, 2, 4, 8) if x <= hard]), hard=hard,
                                ring=rng.choice([1, 2, 4]))
    s.sink("S0")
    if rng.random() < 0.4:
        s.sink("S1")
    s.logger("L0", ["S0"], lvl=0)
    s.logger("L1", [s.sinks[-1]], lvl=0)
    for t in range(rng.randint(2, 4)):
        s.start(f"t{t}")
    stalled = None
    for _ in range(rng.randint(20, 60)):
        r = rng.random()
        if stalled and rng.random() < 0.6:
            s.op(f"T {stalled} go")       # a stalled call usually continues soon (within the grace period)
            stalled = None
        elif r < 0.42:
            t = rng.choice(sorted(s.alive))
            y = 1 if (stalled is None and rng.random() < 0.15) else 0
            big = rng.random() < 0.3
            pad = min(_maxpad(cap, mx, bounded), (cap // 2 + rng.randint(-8, 8)) if big else rng.randint(0, 24))
            s.log(t, rng.choice(s.loggers), pad=max(0, pad), yts=y)
            if y:
                stalled = t
        elif r < 0.50:
            s.op(f"T {rng.choice(sorted(s.alive))} go")
        elif r < 0.62:
            s.op(f"tick {rng.choice([1, 2, grace // 2, grace, grace + 1, 2 * grace])}")
        elif r < 0.86:
            s.op("B go")                  # one backend segment: between two queue reads, before/after processing one event
        else:
            s.backend_some(fine_prob=0.8)
    s.op(f"tick {2 * grace + 4}")
    if rng.random() < 0.4 and len(s.alive) >= 2:
        # the run ends with the backend's exit drain over a BACKLOG: one thread holds more statements than one read pass takes (the
        # hard limit), another thread holds newer ones - the drain must go back to the queues whenever a thread's transit buffer runs
        # empty while its queue is not, or the newer statements overtake the rest of the backlog
        for t in s.threads:
            s.op(f"T {t} go")
        a, b = rng.sample(sorted(s.alive), 2)
        for _ in range(rng.randint(hard + 1, 2 * hard + 2)):
            s.log(a, rng.choice(s.loggers), pad=rng.randint(0, 8))
        for _ in range(rng.randint(1, 3)):
            s.log(b, rng.choice(s.loggers), pad=rng.randint(0, 8))
        s.op(f"tick {2 * grace + 4}")
        s.finish_by_exit()
    else:
        s.finish(final=True)
    return s.text(), s.grace


# --------------------------------------------------------------------------- C06
def c06(rng, qk):
    grace = rng.choice([0, 0, 4, 8, 16])
    s, cap, mx, bounded = _base(rng, qk, grace=grace, soft=rng.choice([1, 2, 4]), hard=rng.choice([4, 8]),
                                ring=rng.choice([1, 2]), flushint=rng.choice([0, 0, 200]))
    ns = rng.randint(1, 3)
    for i in range(ns):
        s.sink(f"S{i}")
    # real file sinks, with and without a before_write callback: what flush_log() promises is that the file can be read
    nf = rng.randint(0, 2)
    for i in range(nf):
        s.op(f"filesink F{i} bw={rng.choice([0, 1])}")
    # every sharing pattern: each logger gets a random ordered non-empty subset of the sinks
    for n in ("L0", "L1", "L2")[:rng.randint(2, 3)]:
        sub = rng.sample(s.sinks, rng.randint(1, ns))
        if nf and rng.random() < 0.7:
            sub = sub + [f"F{rng.randrange(nf)}"]
            rng.shuffle(sub)
        s.logger(n, sub, lvl=0)
    for t in range(rng.randint(1, 3)):
        s.start(f"t{t}")
    for _ in range(rng.randint(12, 40)):
        r = rng.random()
        if r < 0.40 and s.alive:
            # one statement in eight is an immediate-flush call (QUILL_IMMEDIATE_FLUSH): the log call itself flushes
            s.log(rng.choice(sorted(s.alive)), rng.choice(s.loggers), pad=min(qsys.pads(rng, cap, bounded), _maxpad(cap, mx, bounded)),
                  kind="imm" if rng.random() < 0.125 else "direct")
        elif r < 0.54 and s.alive:
            s.op(f"T {rng.choice(sorted(s.alive))} flush {rng.choice(s.loggers)}")
        elif r < 0.60 and len(s.threads) < 5:
            # a thread logging/flushing for the first time: not yet in the backend's context cache
            t = f"t{len(s.threads)}"
            s.start(t)
            if rng.random() < 0.5:
                s.log(t, "L0", pad=4)
            s.op(f"T {t} flush L0")
        elif r < 0.70 and s.alive:
            s.op(f"T {rng.choice(sorted(s.alive))} go")
        elif r < 0.78 and grace:
            s.op(f"tick {rng.choice([1, 2, grace // 2, grace, grace + 1])}")
        elif r < 0.90:
            s.op("B go")
        else:
            s.backend_some(fine_prob=0.6)
    s.op(f"tick {2 * grace + 4}")
    if grace and rng.random() < 0.4:
        # one read pass must be ONE cut across the queues: the backend is parked between the reads of two queues; the thread whose
        # (empty) queue has been read logs, the other thread then calls flush_log(), time passes - the flush request must not be
        # taken in this pass (its cut-off is the one the pass started with), or it overtakes the other thread's earlier statement
        for v in s.threads:
            s.op(f"T {v} go")
        for _ in range(4):
            s.op("B drain")
            for v in s.threads:
                s.op(f"T {v} go")
        a, b = f"t{len(s.threads)}", f"t{len(s.threads) + 1}"
        s.start(a)
        s.start(b)
        s.log(a, "L0", pad=2)                       # registration order: a's context before b's
        s.log(b, "L0", pad=2)
        s.op(f"tick {2 * grace + 4}")
        s.op("B drain")
        s.op("B pollf")
        s.op(f"B until:POP_CTX:{b}")                # a's queue has been read (empty); b's is next
        s.log(a, "L0", pad=3)
        s.op(f"T {b} flush L0")
        s.op(f"tick {2 * grace + 4}")
        s.op("B until:-")
        for _ in range(3):
            s.op(f"T {b} go")
            s.op("B poll")
        s.op(f"tick {2 * grace + 4}")
    s.finish(final=True)
    return s.text(), s.grace


# --------------------------------------------------------------------------- C08
def c08(rng, qk):
    s, cap, mx, bounded = _base(rng, qk, grace=0, soft=rng.choice([1, 2, 4]), hard=rng.choice([4, 8]), ring=rng.choice([1, 2]))
    s.sink("S0")
    s.logger("L0", ["S0"], lvl=0)
    for t in range(rng.randint(1, 3)):
        s.start(f"t{t}")
    # backtrace control requests on a dropping queue: never discarded (thread t0 only; capacity above what it stores)
    bt = rng.random() < 0.5
    if bt:
        s.op("T t0 initbt L0 cap=64")
    targeted = rng.random() < 0.3
    for _ in range(rng.randint(15, 45)):
        r = rng.random()
        if r < 0.6 and s.alive:
            t = rng.choice(sorted(s.alive))
            q = rng.random()
            if q < 0.12:
                pad = (cap if bounded else mx) + rng.randint(0, 40)         # can never fit
            else:
                pad = min(qsys.pads(rng, cap, bounded), _maxpad(cap, mx, bounded))
            # C-string arguments go through the per-thread size cache; the others do not
            s.log(t, "L0", pad=max(0, pad - (12 if rng.random() < 0.5 else 0)), kind=rng.choice(["direct", "cstr", "cstr"]))
        elif r < 0.66 and s.alive:
            # control requests are never discarded (they retry) and never counted as drops
            t = rng.choice(sorted(s.alive))
            if bt and "t0" in s.alive and rng.random() < 0.7:
                if rng.random() < 0.6:
                    s.log("t0", "L0", lvl=9, pad=rng.randint(0, 8), kind="direct")     # stored, not written
                else:
                    s.op("T t0 flushbt L0")
            else:
                s.op(f"T {t} flush L0")
        elif r < 0.72 and len(s.alive) > 1:
            s.join(rng.choice(sorted(s.alive)))
        elif r < 0.76 and len(s.threads) < 5:
            s.start(f"t{len(s.threads)}")
        elif r < 0.82 and s.alive:
            s.op(f"T {rng.choice(sorted(s.alive))} go")
        elif r < 0.90:
            s.op("B go")
        else:
            s.backend_some(fine_prob=0.5)
    if bt and "t0" in s.alive and rng.random() < 0.7:
        # a control request issued while the thread's own queue is full: it must wait (retry), never be discarded or counted
        for u in sorted(s.alive):
            s.op(f"T {u} go")
        s.op("B drain")
        s.log("t0", "L0", lvl=9, pad=4, kind="direct")
        s.log("t0", "L0", lvl=9, pad=5, kind="direct")
        room = (cap if bounded else mx) - qsys.HDR
        for _ in range(5):
            s.log("t0", "L0", pad=max(0, room // 3 - 4))          # fills the queue (the last ones are dropped)
        for _ in range(3):
            s.log("t0", "L0", pad=rng.randint(0, 12))             # small ones squeeze into what is left
        s.op("T t0 flushbt L0")
        for _ in range(3):
            s.op("B drain")
            s.op("T t0 go")
    if targeted and not bounded and mx >= 2 * cap and s.alive:
        # a read pass that ends exactly at the end of a buffer (hard limit reached on the record that fills it) while a second
        # buffer holds more, the producer gone, and another thread's flush_log() next in line
        u = sorted(s.alive)[0]
        for v in sorted(s.alive):
            s.op(f"T {v} go")
        s.op("B drain")
        hard = int(s.L[0].split("hard=")[1].split()[0])
        if (cap // hard) >= qsys.HDR and cap % hard == 0:
            t = f"t{len(s.threads)}"
            s.start(t)
            for _ in range(hard):
                s.log(t, "L0", pad=cap // hard - qsys.HDR)          # together they fill the first buffer exactly
            for _ in range(rng.randint(1, 3)):
                s.log(t, "L0", pad=rng.randint(0, 8))               # these go to the second buffer
            s.join(t)
            s.op(f"T {u} flush L0")
            for _ in range(3):
                s.op("B poll")
                s.op(f"T {u} go")
    if targeted and bounded:
        # a drop followed by the thread's exit while the backend is inside an idle poll (after its failure-counter check)
        t = f"t{len(s.threads)}"
        s.start(t)
        s.log(t, "L0", pad=4)
        s.op("B drain")
        s.op("B pollf")
        for _ in range(rng.randint(1, 3)):
            s.op("B go")
        s.log(t, "L0", pad=cap + 8)
        s.join(t)
    if bounded and rng.random() < 0.3:
        # drops racing with the REPORTS of the backend: it parks inside the error notifier (user code) each time it reports dropped
        # messages; a thread drops between the idle branch's report and the context clean-up, and once more (then exits) while the
        # backend is inside whatever report comes next - a counter must be reported right before its context goes, not earlier
        for v in sorted(s.alive):
            s.op(f"T {v} go")
        s.op("B drain")
        u, t = f"t{len(s.threads)}", f"t{len(s.threads) + 1}"
        s.start(u)
        s.start(t)
        s.log(u, "L0", pad=3)
        s.log(t, "L0", pad=2)
        s.op("B drain")
        s.join(u)                                   # an invalidated context exists: the clean-up will run
        for _ in range(rng.randint(1, 2)):
            s.log(t, "L0", pad=cap + 8)             # dropped
        s.op("notifypark on")
        s.op("B pollf")
        s.op("B until:NOTIFY")                      # the idle branch reports what t dropped so far
        s.log(t, "L0", pad=cap + 9)                 # dropped
        s.op("B go")                                # leave the notifier ...
        s.op("B until:NOTIFY")                      # ... (parks again only if another report follows within this poll)
        s.log(t, "L0", pad=cap + 10)                # dropped
        s.join(t)
        s.op("B until:-")
        s.op("notifypark off")
    s.finish(final=True)
    return s.text(), s.grace


# --------------------------------------------------------------------------- C09 (end to end)
def c09(rng, qk):
    # small transit-event limits: a read pass often ends because the hard limit is reached - also exactly on the record that
    # empties the queue
    hard = rng.choice([1, 2, 4, 8])
    s, cap, mx, bounded = _base(rng, qk, grace=0, soft=rng.choice([x for x in (1, 4) if x <= hard]), hard=hard, ring=2)
    s.sink("S0")
    s.logger("L0", ["S0"], lvl=0)
    s.start("t0")
    limit = cap if bounded else mx
    for _ in range(rng.randint(1, 4)):
        # a history of earlier statements, partly or fully consumed
        nhist = rng.choice([rng.randint(1, 4), hard, hard, 2 * hard])
        for _ in range(min(nhist, 10)):
            s.log("t0", "L0", pad=rng.choice([0, 0, 4, 8, rng.randint(0, limit // 4)]) if nhist <= 4 else rng.choice([0, 4, 8]))
        s.op("B drain" if rng.random() < 0.7 else "B poll")
        # then a statement of any size up to the capacity
        s.log("t0", "L0", pad=limit - qsys.HDR - rng.choice([0, 0, 1, 8, rng.randint(0, 64)]))
        for _ in range(4):
            s.op("B drain")
            s.op("B poll")
            s.op("T t0 go")
        s.op("mark expectidle:t0:stuck")
    s.finish(final=True)
    return s.text(), s.grace


# --------------------------------------------------------------------------- C10
def c10(rng, qk):
    s, cap, mx, bounded = _base(rng, qk, grace=0, soft=rng.choice([1, 2, 4]), hard=rng.choice([4, 8]), ring=rng.choice([1, 2]))
    ns = rng.randint(1, 3)
    for i in range(ns):
        kw = {}
        if rng.random() < 0.5:
            kw["tw"] = ",".join(str(x) for x in sorted(rng.sample(range(1, 12), rng.randint(1, 3))))
        if rng.random() < 0.3:
            kw["tf"] = ",".join(str(x) for x in sorted(rng.sample(range(1, 8), rng.randint(1, 2))))
        s.sink(f"S{i}", **kw)
    s.logger("L0", [f"S{i}" for i in range(ns)], lvl=0)
    s.logger("L1", [f"S{ns - 1}"], lvl=0)
    for t in range(rng.randint(1, 3)):
        s.start(f"t{t}")
    kinds = ["direct"] * 5 + ["named", "named", "cstr", "badfmt", "bombstd", "bombint", "bombok", "btnoinit", "namedbomb"]
    for _ in range(rng.randint(12, 36)):
        r = rng.random()
        if r < 0.6:
            k = rng.choice(kinds)
            t = rng.choice(sorted(s.alive))
            if k == "btnoinit":
                s.log(t, rng.choice(s.loggers), lvl=9, pad=2, kind="macro")
            else:
                s.log(t, rng.choice(s.loggers), pad=rng.randint(0, 16), kind=k)
        elif r < 0.68:
            s.op(f"T {rng.choice(sorted(s.alive))} flush L0")
        elif r < 0.76:
            s.op(f"T {rng.choice(sorted(s.alive))} go")
        else:
            s.backend_some(fine_prob=0.3)
    # the backend must still be alive: a final ordinary statement and a flush
    t = sorted(s.alive)[0]
    for _ in range(3):
        s.op("B drain")
        s.op(f"T {t} go")
    s.log(t, "L1", pad=1)
    s.op(f"T {t} flush L1")
    s.finish(final=True)
    return s.text(), s.grace


# --------------------------------------------------------------------------- C16
def c16(rng, qk):
    s, cap, mx, bounded = _base(rng, qk, grace=0, soft=rng.choice([1, 2, 4]), hard=8, ring=rng.choice([1, 2]))
    for i in range(2):
        kw = {"lvl": rng.choice([0, 0, 3, 4, 7])}
        if rng.random() < 0.5:
            kw["ov"] = 1                       # this sink has its own override pattern
        s.sink(f"S{i}", **kw)
    s.logger("L0", rng.choice([["S0", "S1"], ["S1", "S0"]]), lvl=rng.choice([0, 3, 4, 7]))
    s.logger("L1", ["S1"], lvl=rng.choice([0, 4]))
    for t in range(rng.randint(1, 2)):
        s.start(f"t{t}")
    nf = 0
    for _ in range(rng.randint(15, 45)):
        r = rng.random()
        if r < 0.55:
            kind = rng.choice(["macro", "macro", "dynmacro", "direct", "dyn"])
            s.log(rng.choice(sorted(s.alive)), rng.choice(s.loggers), lvl=rng.randint(0, 8), pad=rng.randint(0, 8), kind=kind)
        elif r < 0.63:
            s.op(f"setlevel {rng.choice(s.loggers)} {rng.choice([0, 3, 4, 7, 8, 10])}")
        elif r < 0.70:
            s.op(f"sinklevel {rng.choice(s.sinks)} {rng.choice([0, 3, 4, 7, 10])}")
        elif r < 0.76 and nf < 4:
            ids = sorted(rng.sample(range(s.next_id, s.next_id + 25), rng.randint(1, 8)))
            s.op(f"addfilter {rng.choice(s.sinks)} F{nf} deny={','.join(map(str, ids))}")
            nf += 1
        elif r < 0.82:
            s.op(f"T {rng.choice(sorted(s.alive))} go")
        else:
            s.backend_some(fine_prob=0.3)
    s.finish(final=True)
    return s.text(), s.grace


# --------------------------------------------------------------------------- C17
def c17(rng, qk):
    s, cap, mx, bounded = _base(rng, qk, grace=0, soft=rng.choice([1, 2, 4]), hard=8, ring=rng.choice([1, 2]))
    # in a third of the scenarios one sink's flush fails persistently from some call on (full disk): the backend must not keep
    # using a sink it has flushed-with-error once the sink's last owner is gone
    bad = rng.randrange(4) if rng.random() < 0.34 else -1
    first = rng.randint(1, 6)
    for i in range(4):
        if i == bad:
            s.sink(f"S{i}", tf=",".join(str(x) for x in range(first, first + 90)))
        else:
            s.sink(f"S{i}")
    sinksets = [["S0"], ["S0", "S1"], ["S1"], ["S2"], ["S1", "S2"], ["S3"], ["S0", "S3"]]
    live = {}
    for n in ("L0", "L1", "L2"):
        live[n] = rng.choice(sinksets)
        s.logger(n, live[n], lvl=0)
    for t in range(rng.randint(1, 3)):
        s.start(f"t{t}")
    gen = 0

    def wpad():
        # in the targeted windows half of the statements on an unbounded queue do not fit into the producer's (drained) buffer:
        # they are committed into a NEW buffer linked behind the one the backend is reading - "empty" must look at that link
        return min(cap, mx - qsys.HDR - 8) if (not bounded and rng.random() < 0.5) else rng.randint(0, 12)
    for _ in range(rng.randint(15, 40)):
        r = rng.random()
        if r < 0.45 and live:
            s.log(rng.choice(sorted(s.alive)), rng.choice(sorted(live)), pad=rng.randint(0, 12))
        elif r < 0.55 and len(live) > 1:
            # blocking removal by some thread, then the name is free again
            n = rng.choice(sorted(live))
            t = rng.choice(sorted(s.alive))
            s.op(f"T {t} removeb {n}")
            del live[n]
            for _ in range(4):
                s.op("B drain")
                s.op("B poll")
                s.op(f"T {t} go")
            s.op(f"mark expectidle:{t}:stuck")
            avail = [ss for ss in sinksets if not (set(ss) & getattr(s, "dropped", set()))]
            if rng.random() < 0.7 and avail:
                live[n] = rng.choice(avail)
                s.logger(n, live[n], lvl=0)
        elif r < 0.62 and len(live) > 1:
            # asynchronous removal; the count shows when it has happened
            n = rng.choice(sorted(live))
            s.op(f"remove {n}")
            del live[n]
            for t in sorted(s.alive):
                s.op(f"T {t} go")
            s.op("B drain")
            s.op("B poll")
            s.op("B poll")
            s.op("q loggers")
        elif r < 0.68:
            # the user gives up its own reference to a sink
            cand = [x for x in s.sinks if x not in getattr(s, "dropped", set())]
            if cand:
                x = rng.choice(cand)
                s.dropped = getattr(s, "dropped", set()) | {x}
                s.op(f"dropsink {x}")
        elif r < 0.71:
            s.op(f"getsink {rng.choice(s.sinks)}")         # lookup by name must find the live object
        elif r < 0.74 and len(live) > 2:
            # two loggers invalidated in one clean-up pass, and a statement logged through the second one (then removed) while
            # the backend is between the per-logger emptiness checks of that pass
            names = sorted(live)
            a, b = names[0], names[1]
            for t in sorted(s.alive):
                s.op(f"T {t} go")
            s.op("B drain")
            s.op(f"remove {a}")
            del live[a]
            s.op("B pollg")
            s.op(f"B until:LOGGER_ITER:{b}")               # logger a has been checked (and freed); parked at the iteration for b
            s.log(rng.choice(sorted(s.alive)), b, pad=wpad())
            s.op(f"remove {b}")
            del live[b]
            s.op("B until:-")
            s.op("B drain")
            s.op("B poll")
            s.op("q loggers")
        elif r < 0.77 and len(live) > 1:
            # log + remove inside the window of an idle poll (between its emptiness check and its clean-up steps)
            n = rng.choice(sorted(live))
            for t in sorted(s.alive):
                s.op(f"T {t} go")
            s.op("B drain")
            s.op("B pollf")
            for _ in range(rng.randint(0, 4)):
                s.op("B go")
            s.log(rng.choice(sorted(s.alive)), n, pad=wpad())
            s.op(f"remove {n}")
            del live[n]
            s.op("B go")
            s.op("B go")
            s.op("B drain")
            s.op("B poll")
            s.op("q loggers")
        elif r < 0.80 and live:
            n = rng.choice(sorted(live))
            if set(live[n]) & getattr(s, "dropped", set()):
                s.op(f"getlogger {n}")
            else:
                s.op(f"logger {n} sinks={','.join(live[n])} lvl=0")       # create_or_get is idempotent
        elif r < 0.84:
            s.op(f"T {rng.choice(sorted(s.alive))} go")
        else:
            s.backend_some(fine_prob=0.4)
    s.finish(final=True, loggers=True)
    return s.text(), s.grace


def c17reg(rng, qk):
    """registry concurrency: create_or_get_logger / get_logger / logging / removal from several threads with a yield point at
    every lock acquisition and release (shadow Spinlock build), so other threads run between the critical sections of a call"""
    s, cap, mx, bounded = _base(rng, qk, grace=0, soft=rng.choice([1, 4]), hard=8, ring=2)
    for i in range(2):
        s.sink(f"S{i}")
    s.logger("L0", ["S0"], lvl=0)
    nth = rng.randint(2, 3)
    for t in range(nth):
        s.start(f"t{t}")
    names = ["N0", "N1"]
    created = set()
    for _ in range(rng.randint(20, 50)):
        r = rng.random()
        t = rng.choice(sorted(s.alive))
        if r < 0.30:
            n = rng.choice(names)
            s.op(f"T {t} create {n} sinks={rng.choice(['S0', 'S1', 'S0,S1'])}")
            created.add(n)
        elif r < 0.40:
            s.op(f"T {t} get {rng.choice(names + ['L0'])}")
        elif r < 0.55:
            s.log(t, "L0", pad=rng.randint(0, 8))
        elif r < 0.92:
            s.op(f"T {rng.choice(sorted(s.alive))} go")
        else:
            s.op("B poll")
    for _ in range(14):
        for t in sorted(s.alive):
            s.op(f"T {t} go")
    s.finish(final=True, loggers=True)
    return s.text(), s.grace


# --------------------------------------------------------------------------- C20
def c20(rng, qk, many=0):
    s, cap, mx, bounded = _base(rng, qk, grace=0, soft=rng.choice([1, 4]), hard=8, ring=rng.choice([1, 2]))
    s.sink("S0")
    s.logger("L0", ["S0"], lvl=0)
    s.start("t0")
    s.log("t0", "L0", pad=2)
    if many:
        # `many` short-lived threads between two backend idle periods
        s.op("B drain")
        s.op("B poll")
        for i in range(many):
            t = f"w{i}"
            s.start(t)
            s.log(t, "L0", pad=1)
            s.join(t)
    else:
        for _ in range(rng.randint(10, 40)):
            r = rng.random()
            if r < 0.30 and s.alive:
                s.log(rng.choice(sorted(s.alive)), "L0", pad=min(qsys.pads(rng, cap, bounded), _maxpad(cap, mx, bounded)))
            elif r < 0.45 and len(s.threads) < 12:
                t = f"t{len(s.threads)}"
                s.start(t)
                if rng.random() < 0.8:
                    s.log(t, "L0", pad=rng.randint(0, 20))
            elif r < 0.62 and len(s.alive) > 1:
                s.join(rng.choice(sorted(s.alive - {"t0"})))
            elif r < 0.70 and not bounded and s.alive:
                t = rng.choice(sorted(s.alive))
                # burst to grow the queue, then ask to shrink it
                for _ in range(rng.randint(2, 5)):
                    s.log(t, "L0", pad=min(cap, mx - qsys.HDR - 8))
                s.op(f"T {t} shrink {rng.choice([cap // 2, cap, cap * 2, mx // 2])}")
            elif r < 0.72 and len(s.alive) > 1:
                # an already registered thread logs and exits while the backend is between the emptiness check of an idle
                # poll and its context clean-up
                t = rng.choice(sorted(s.alive - {"t0"}))
                for u in sorted(s.alive):
                    s.op(f"T {u} go")
                s.op("B drain")
                s.op("B pollf")
                s.op("B until:IDLE3")
                s.log(t, "L0", pad=rng.randint(0, 16))
                s.join(t)
                s.op("B until:-")
            elif r < 0.76 and s.alive:
                s.op(f"T {rng.choice(sorted(s.alive))} flush L0")      # a flush is also a context clean-up point
            elif r < 0.80 and s.alive:
                s.op(f"T {rng.choice(sorted(s.alive))} go")
            elif r < 0.87:
                s.op("B go")
            else:
                s.backend_some(fine_prob=0.4)
    if not many and rng.random() < 0.35:
        s.finish_by_exit(ctx=False)      # the backend's own exit drain instead of polling to idle
    else:
        s.finish(final=True, ctx=True)
    return s.text(), s.grace


FAMILIES = {"C05": (c05, QB), "C06": (c06, QB + QD[:2]), "C08": (c08, QD), "C09": (c09, ["BB:1024:1024", "BB:2048:2048", "UB:256:1024", "BD:1024:1024"]),
            "C10": (c10, QB[:1] + QB[2:3]), "C16": (c16, ["UB:4096:16384", "BB:4096:4096"]), "C17": (c17, ["UB:4096:16384", "BB:4096:4096"]),
            "C20": (c20, ["UB:256:4096", "BB:512:512", "UB:128:1024"])}

RULES = {
    "C05": "seeded random schedules with a virtual clock: 2-4 threads, stalls between clock read and enqueue, ticks, fine-grained backend steps",
    "C06": "seeded random schedules: flush_log calls (incl. first-time threads) interleaved with log calls and backend steps down to single queue reads; 1-3 sinks; flush interval 0/200ms",
    "C08": "seeded random schedules on dropping queues: sizes incl. ones that can never fit, sparse polls, thread exits, control requests; plus targeted drop+exit inside an idle poll",
    "C09": "histories of earlier statements partly/fully consumed followed by a statement of up to the capacity; backend polled to idle; producer must have returned",
    "C10": "seeded random fault choices: run-time format mismatch, throwing user formatter (std and non-std), backtrace without init, sinks throwing on chosen write/flush calls",
    "C16": "seeded random level/filter configurations and changes interleaved with static/dynamic, macro/direct statements on two sinks",
    "C17": "seeded random create/get/remove/remove_blocking/re-create cycles with sinks shared in several patterns, interleaved with logging and backend steps",
    "C20": "seeded random thread start/log/exit/shrink schedules; plus N short-lived threads between two idle periods for N in a boundary set",
}


def run_family(ck, prop, n, extra=None):
    # design level first: implementation-shaped model (spec/Quill.tla), exhaustive + exported schedules replayed
    import sysmodel
    if prop in sysmodel.CONFIGS:
        sysmodel.run_for(ck, prop)
    rng = random.Random(ck.seed)
    fam, qks = FAMILIES[prop]
    scen = []
    for i in range(n):
        qk = qks[i % len(qks)]
        sc, grace = fam(rng, qk)
        scen.append((f"{prop.lower()}-{i}", qk, sc, grace))
    if extra:
        scen += extra(rng)
    if ck.tier == "thorough" and prop in ("C03", "C10", "C17", "C20"):
        # the same scenarios again on an AddressSanitizer build: a use of freed state that does not happen to crash is reported
        # by the sanitizer (non-zero exit => the monitor's "process crashed" clause)
        scen += [(key + "-asan", qk + ":asan", sc, grace) for (key, qk, sc, grace) in scen[:400] if not qk.startswith("UBS")]
        ck.assumptions.append("thorough: 400 scenarios repeated on an AddressSanitizer build of the harness")
    ck.rule = RULES[prop] + "; non-trivial = at least two statements written; distinct by script"
    ck.assumptions += ["token scheduler: one logical thread runs between yield points (QUILL_VERIF hooks, interposed clock/sleep)",
                       "statement identity is carried in the message text and recovered from what the sink receives"]
    qsys.run_and_validate(ck, prop, f"TraceQuill_{prop}.cfg", scen, qsys.exe_of, prop.lower())
    ck.sample({"scenario": scen[0][0], "queue": scen[0][1], "script_head": scen[0][2].splitlines()[:30]})
    return scen
