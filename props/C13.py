"""C13 - rendered time equals strftime of the instant plus exact fractional digits; no stale field; more than one
fractional specifier, or %X, rejected.
Spec: spec/StrTimeContract.tla (A: abstract calendar over a zone transition table, reference fields, fraction digits,
pattern validity), spec/StrTimeImpl.tla (I: StringFromTime::format_timestamp, TimestampFormatter ctor and
_write_fractional_seconds transcribed), spec/StrTime.tla (exhaustive model over scenarios generated from the tz
database + static sweep of ctor/fraction), spec/TraceStrTime.tla (trace validation).
Binding: constants (recalculation grids, ctor behaviour) are extracted from the real code by probing; every instant
sequence TLC exports, a generated pattern family (fractional specifier at every position) and seeded random sequences
2001..2100 are fed to the REAL quill::detail::TimestampFormatter in one process per TZ (harness/h_time.cpp), which
records per call the rendered text, the libc reference (gmtime_r/localtime_r + strftime, fraction substituted), libc's
calendar for the instant, the numeric fields as printed and whether the call went to strftime; TLC validates the
recorded executions against the contract (verdict) and against the model's own prediction (drift only)."""
import datetime as dt
import json, os, random, re, time, zoneinfo
from concurrent.futures import ThreadPoolExecutor
import vlib

UTC = dt.timezone.utc
DAY = 86400
NS_BOUNDARY = [0, 1, 999, 1000, 999999, 1000000, 1001000, 9999999, 10000000, 99999999, 100000000, 123456789,
               500000000, 999000000, 999999000, 999999999]

# signatures of deviations established on the unchanged tree and reported to the coordinator; they are treated like
# entries of known_findings.txt (which this check must not edit) until the coordinator lists them or repairs the code
PENDING_KNOWN = {}   # all established deviations are now listed in /verif/known_findings.txt (or repaired)


# ---------------------------------------------------------------------------------------------- zones
def _zkey(z, t):
    d = dt.datetime.fromtimestamp(t, UTC).astimezone(z)
    dst = d.dst()
    return (int(d.utcoffset().total_seconds()), d.tzname(), 1 if (dst is not None and dst.total_seconds() != 0) else 0)


class Zone:
    """transition list of a tz database zone between 2001 and 2100, obtained through zoneinfo's public interface"""
    _cache = {}

    def __init__(self, name):
        self.name = name
        self.z = zoneinfo.ZoneInfo(name)
        self._years = {}

    @classmethod
    def get(cls, name):
        if name not in cls._cache:
            cls._cache[name] = Zone(name)
        return cls._cache[name]

    def key(self, t):
        return _zkey(self.z, t)

    def transitions(self, lo, hi):
        """[(t, key_after)] for lo < t <= hi"""
        out = []
        y0 = dt.datetime.fromtimestamp(lo, UTC).year
        y1 = dt.datetime.fromtimestamp(hi, UTC).year
        for y in range(y0, y1 + 1):
            for t, k in self._year(y):
                if lo < t <= hi:
                    out.append((t, k))
        return out

    def _year(self, y):
        if y not in self._years:
            a = int(dt.datetime(y, 1, 1, tzinfo=UTC).timestamp())
            b = int(dt.datetime(y + 1, 1, 1, tzinfo=UTC).timestamp())
            res = []
            t, k = a, self.key(a)
            while t < b:
                n = min(t + DAY, b)
                kn = self.key(n)
                if kn != k:
                    lo_, hi_ = t, n
                    while hi_ - lo_ > 1:
                        mid = (lo_ + hi_) // 2
                        if self.key(mid) == k:
                            lo_ = mid
                        else:
                            hi_ = mid
                    k = self.key(hi_)
                    res.append((hi_, k))
                    t = hi_
                else:
                    t = n
            self._years[y] = res
        return self._years[y]


def epoch(y, m, d):
    return int(dt.datetime(y, m, d, tzinfo=UTC).timestamp())


class Scenario:
    """a zone, a base (UTC midnight) and the zone's transition table in a window around it, relative to the base"""

    def __init__(self, zname, base, before=2 * DAY, after=3 * DAY):
        assert base % DAY == 0
        self.zname, self.base = zname, base
        z = Zone.get(zname)
        k0 = z.key(base - before)
        self.keys = [k0]
        self.table = [[-(10 ** 9), k0[0], 0]]
        self.trans = []
        for t, k in z.transitions(base - before, base + after):
            if k not in self.keys:
                self.keys.append(k)
            self.table.append([t - base, k[0], self.keys.index(k)])
            self.trans.append(t - base)
        self.name = f"{zname}@{dt.datetime.fromtimestamp(base, UTC).date()}"

    def zid(self, off, dst, zn):
        k = (off, zn, 1 if dst else 0)
        return self.keys.index(k) if k in self.keys else -1

    def offsets(self):
        return sorted({e[1] for e in self.table})

    def bm(self, consts):
        return [(self.base - consts["anchor_local"]) % consts["recalc_local"],
                (self.base - consts["anchor_gmt"]) % consts["recalc_gmt"]]

    def off_grid(self, consts):
        """transitions that are not points of the LocalTime recalculation grid"""
        P, a = consts["recalc_local"], consts["anchor_local"]
        return [t for t in self.trans if (self.base + t - a) % P != 0]

    def boundary_points(self):
        X = {0, 43200, DAY}
        for off in self.offsets():
            X.add((-off) % DAY)                 # local midnight
            X.add((43200 - off) % DAY)          # local noon
        for t in self.trans:
            X.add(t)
        X.add(900 * 37)                         # a quarter hour that is nothing else
        X.add(3600 * 7)                         # an hour
        X.add(60 * 501)                         # a minute
        X.add(52345)                            # a second
        return sorted(X)

    def instants(self, small=False):
        pts = self.boundary_points()
        if small:
            keep = set(self.trans[:2]) | {43200}
            for off in self.offsets()[:2]:
                keep.add((-off) % DAY)
            if not self.trans:
                keep.add(900 * 37)
            I = set()
            for x in sorted(keep):
                I |= {x - 1, x, x + 1}
            I.add(52345)
            return sorted(I)
        I = set()
        for x in pts:
            I |= {x - 1, x, x + 1}
        for t in self.trans:
            I |= {t + 450, t + 899, t + 900, t - 900}
        I |= {-DAY - 7, 2 * DAY + 11, 43200 + 7 * 3600 + 59}
        return sorted(I)

    def scen_json(self, consts, inst):
        return {"name": self.name, "zone": self.table, "bm": self.bm(consts),
                "inst": [[t, NS_BOUNDARY[(i * 7 + 3) % len(NS_BOUNDARY)]] for i, t in enumerate(inst)]}


ZONES_QUICK = ["UTC", "America/New_York", "Europe/London", "Australia/Lord_Howe", "Asia/Kathmandu", "Pacific/Chatham",
               "America/Santiago"]
ZONES_MORE = ["Australia/Sydney", "Asia/Kolkata", "Australia/Eucla", "America/St_Johns", "Africa/Casablanca",
              "Pacific/Apia", "America/Sao_Paulo", "Europe/Dublin", "Asia/Tehran", "Pacific/Kiritimati",
              "America/Caracas", "Asia/Pyongyang"]
ZONES_OFFGRID = [("America/St_Johns", 2011), ("Antarctica/Casey", 2022), ("Asia/Gaza", 2011), ("America/Moncton", 2005)]


def scenarios_for(zname, years, fixed_dates=()):
    """one scenario per transition of the zone in the given years (base = UTC midnight of the transition's day),
    plus fixed dates"""
    out = []
    z = Zone.get(zname)
    for y in years:
        for t, k in z._year(y):
            out.append(Scenario(zname, (t // DAY) * DAY))
    for d in fixed_dates:
        out.append(Scenario(zname, epoch(*d)))
    seen, res = set(), []
    for s in out:
        if s.name not in seen:
            seen.add(s.name)
            res.append(s)
    return res


# ---------------------------------------------------------------------------------------------- patterns
COARSE = ["%a", "%A", "%b", "%B", "%C", "%d", "%D", "%e", "%F", "%g", "%G", "%h", "%j", "%m", "%n", "%p", "%P", "%t",
          "%u", "%U", "%V", "%w", "%W", "%x", "%y", "%Y", "%z", "%Z", "%%"]
TIMEC = ["%H", "%M", "%S", "%I", "%k", "%l", "%r", "%R", "%T", "%s"]
LITS = [":", "-", " ", ".", ",", "/", "T", "Z", "[", "]", "h", "m", "s", " UTC", "at ", "'", "\"", "\\", "{}", "#"]
AFTER_PCT = set("HMSIklsrRTQXcEO")
FRACS = ["%Qms", "%Qus", "%Qns"]
PATCHED = {"%H", "%M", "%S", "%I", "%k", "%l", "%s", "%r", "%R", "%T"}
CURATED = [
    ["%H", ":", "%M", ":", "%S"], ["%Y", "-", "%m", "-", "%d", "T", "%H", ":", "%M", ":", "%S", "Z"],
    ["%I", ":", "%M", ":", "%S", "%p"], ["%l", ":", "%M", ":", "%S", "%p"], ["%k", ":", "%M", ":", "%S", "%p"],
    ["%Y", "-", "%m", "-", "%d", " ", "%s"], ["%A", " ", "%B", " ", "%d", " ", "%T", " ", "%Y", " ", "%F"],
    ["%D", " ", "%r"], ["%F", " ", "%T", " ", "%z"], ["%H", ":", "%M", ":", "%S", " ", "%Z"],
    ["%a", ", ", "%d", " ", "%b", " ", "%Y", " ", "%H", ":", "%M", ":", "%S", " ", "%z"],
    ["%y", "%m", "%d", " ", "%H", "%M", "%S"], ["%G", "-W", "%V", "-", "%u", " ", "%R"],
    ["%j", " ", "%U", " ", "%W", " ", "%w", " ", "%C", " ", "%e", " ", "%g", " ", "%h", "%n", "%t", "%%"],
    ["%Y", "-", "%m", "-", "%d"], ["%S"], ["%s"], ["%p", " ", "%I"], ["%P", "%l"], ["%x", " ", "%R", " ", "%Z"],
    ["%H", "%H", "%M", "%S", "%S"], ["%%", "%H", "%%", "%%", "%M"], ["%T", "%T"], ["%r", " ", "%k", "|", "%l", "|", "%I"],
    ["[", "%F", " ", "%T", "]"], [], ["%M", ":", "%S"], ["%H", "h", "%M", "m", "%S", "s"], ["%e", "/", "%m", " ", "%k", "%M"],
]


def toks_ok(toks):
    """respects the property's exclusions: no literal '%%' directly before text that reads like a conversion"""
    for a, b in zip(toks, toks[1:]):
        if a == "%%" and not b.startswith("%") and b[0] in AFTER_PCT:
            return False
    return True


def random_base_pattern(rng):
    while True:
        n = rng.randint(1, 7)
        toks = []
        for _ in range(n):
            r = rng.random()
            toks.append(rng.choice(TIMEC) if r < 0.4 else rng.choice(COARSE) if r < 0.75 else rng.choice(LITS))
        if toks_ok(toks) and any(t.startswith("%") for t in toks):
            return toks


def frac_variants(toks, kinds_all, rot=0):
    """the pattern without and with a fractional specifier at every position"""
    out = [list(toks)]
    for pos in range(len(toks) + 1):
        ks = FRACS if kinds_all else [FRACS[(pos + rot) % 3]]
        for k in ks:
            v = toks[:pos] + [k] + toks[pos:]
            if toks_ok(v):
                out.append(v)
    return out


def uses_epoch(toks):
    return "%s" in toks


def part_shapes(toks):
    """(shape of part 1, fractional kind, shape of part 2) as the model classifies a pattern"""
    fi = next((i for i, t in enumerate(toks) if t in FRACS), None)
    p1 = toks if fi is None else toks[:fi]
    p2 = [] if fi is None else toks[fi + 1:]
    sh = lambda p: "full" if any(t in PATCHED for t in p) else "coarse"
    return sh(p1), ("none" if fi is None else toks[fi][2:]), ("none" if (fi is None or not p2) else sh(p2))


def canonical(shape, epoch_ok):
    full = "%Y-%m-%d %a %j %p %z %Z %H:%M:%S %I %k %l" + (" %s" if epoch_ok else "")
    part = {"full": full, "coarse": "%Y-%m-%d %a %j %p %z %Z", "opaque": "%c", "none": ""}
    s = part[shape["p1"]]
    if shape["fk"] != "none":
        s += ".%Q" + shape["fk"] + ("|" + part[shape["p2"]] if shape["p2"] != "none" else "")
    return s


# ---------------------------------------------------------------------------------------------- executions
class Exe:
    """one execution on the real code: a fresh TimestampFormatter(pattern, mode) in a process with TZ=zone, fed a
    sequence of instants (relative to the scenario's base)"""
    __slots__ = ("sc", "mode", "pat", "seq", "src", "lines", "raw", "outside", "notrun")

    def __init__(self, sc, mode, pat, seq, src):
        self.sc, self.mode, self.pat, self.seq, self.src = sc, mode, pat, seq, src
        self.lines = None   # trace lines (dicts) once run
        self.raw = None     # harness output lines
        self.notrun = False   # not executed (the harness had crashed too often before its turn)
        self.outside = False  # some call had a %s for which libc's own %s is not the instant: outside the quantifier

    def epoch_ok(self):
        return epoch_allowed(self.sc, self.mode)

    def key(self):
        return hash((self.sc.zname, self.sc.base, self.mode, self.pat, tuple(self.seq)))

    def describe(self):
        return {"zone": self.sc.zname, "base": self.sc.base, "mode": "gmt" if self.mode == "g" else "local",
                "pattern": self.pat, "instants": [[self.sc.base + t, ns] for t, ns in self.seq], "source": self.src}


def epoch_allowed(sc, mode):
    """%s only for ten-digit epochs and only where libc's own %s is meaningful (local-time mode or a UTC process zone)"""
    return (mode == "l" or sc.zname == "UTC") and sc.base - 3 * DAY >= 10 ** 9 and sc.base + 4 * DAY < 10 ** 10


def build_exe():
    return vlib.build("h_time", [vlib.HARNESS / "h_time.cpp"], libs=["-ldl"])


def _script(exes, verbose=False):
    L = ["V 1"] if verbose else []
    base = None
    for e in exes:
        if e.sc.base != base:
            base = e.sc.base
            L.append(f"B {base}")
        L.append(f"N {e.mode} {e.pat.encode().hex()}")
        for t, ns in e.seq:
            L.append(f"F {t} {ns}")
        L.append("E")
    return "\n".join(L) + "\n"


def run_harness(exe, zname, script, timeout=600, allow_crash=False):
    """returns the harness output lines; with allow_crash also the exit status (0, 70 = died in the code under test
    after flushing a crash line, negative = killed by a signal)"""
    d = vlib.scratch("tm")
    try:
        sp, op = d / "s.txt", d / "o.ndjson"
        sp.write_text(script)
        rc, so, se = vlib.run_cmd([exe, sp, op], timeout=timeout, env={"TZ": zname, "LC_ALL": "C", "LANG": "C"})
        if rc == -9 and se == "timeout":
            raise vlib.Infra(f"h_time timeout TZ={zname}")
        if rc != 0 and not (allow_crash and (rc == 70 or rc < 0)):
            raise vlib.Infra(f"h_time failed rc={rc} TZ={zname}: {se[-500:]}")
        out = []
        for x in (op.read_text().splitlines() if op.exists() else []):
            try:
                out.append(json.loads(x))
            except ValueError:
                break                   # truncated by the crash
        return (out, rc) if allow_crash else out
    finally:
        vlib.rm(d)


MAX_CRASHES_PER_JOB = 6


def run_group(exe, zname, exes, consts, verbose=False):
    """run the executions (same zone) in one harness process and attach their trace lines; when the code under test
    brings the process down, the execution in progress gets a crash line and the rest is run in a new process"""
    pending, crashes = list(exes), 0
    while pending:
        out, rc = run_harness(exe, zname, _script(pending, verbose), allow_crash=True)
        done = _attach(out, pending, consts, crashed=(rc != 0))
        if rc == 0:
            if done != len(pending):
                raise vlib.Infra("harness output incomplete")
            return
        if done == len(pending) and not pending[-1].lines[-1].get("op") == "crash":
            raise vlib.Infra(f"h_time failed rc={rc} TZ={zname} after all executions were complete")
        crashes += 1
        pending = pending[done:]
        if crashes >= MAX_CRASHES_PER_JOB:
            for e in pending:
                e.notrun = True
            return


def _attach(out, exes, consts, crashed):
    """distribute harness output over the executions; returns how many executions were consumed (a crashed run
    consumes up to and including the execution that was in progress)"""
    i = 0
    for n, e in enumerate(exes):
        sc = e.sc
        new = {"op": "new", "pat": list(e.pat), "mode": "gmt" if e.mode == "g" else "local", "acc": True, "zone": sc.table,
               "bm": sc.bm(consts), "bh": sc.base // 100000, "bl": sc.base % 100000}
        lines, raw = [new], [{"op": "new", "pat": e.pat, "acc": True}]
        e.outside = False
        dead = None
        if i >= len(out) or out[i].get("op") == "crash":
            dead = out[i] if i < len(out) else {"op": "crash", "signal": 0}
        else:
            h = out[i]
            i += 1
            if h.get("op") != "new" or h["pat"] != e.pat:
                raise vlib.Infra(f"harness output out of step at {e.pat!r}: {h}")
            new["acc"] = h["acc"]
            raw[0] = h
            for (t, ns) in e.seq:
                if i >= len(out) or out[i].get("op") == "crash":
                    dead = out[i] if i < len(out) else {"op": "crash", "signal": 0}
                    break
                h = out[i]
                i += 1
                raw.append(h)
                if h.get("skipped"):
                    continue
                if h["t"] != t:
                    raise vlib.Infra("harness output out of step (fmt)")
                if not h["ref2ok"]:
                    raise vlib.Infra(f"libc reference is not compositional for pattern {e.pat!r}: {h}")
                if h.get("sbad"):
                    e.outside = True
                lines.append({"op": "fmt", "t": t, "ns": ns, "out": h["out"], "ref": h["ref"], "slow": h["slow"] > 0,
                              "loc": h["loc"], "off": h["off"], "zid": sc.zid(h["off"], h["dst"], h["zn"]) if e.mode == "l" else 0,
                              "got": h["got"]})
            else:
                # all calls answered; the formatter is destroyed by the E command, which can still bring the process down
                if crashed and i < len(out) and out[i].get("op") == "crash" and n + 1 <= len(exes):
                    dead = out[i]
                elif crashed and i >= len(out):
                    dead = {"op": "crash", "signal": 0}
        if dead is not None:
            if not crashed:
                raise vlib.Infra("harness output ended early without a crash")
            lines.append({"op": "crash", "signal": dead.get("signal", 0)})
            raw.append(dead)
            e.lines, e.raw = lines, raw
            return n + 1
        e.lines, e.raw = lines, raw
    if i != len(out):
        raise vlib.Infra("harness produced extra output")
    return len(exes)


def run_all(exe, exes, consts, verbose=False, per_job=4000):
    """run every execution, one harness process per (zone, slice), in parallel"""
    by_zone = {}
    for e in exes:
        by_zone.setdefault(e.sc.zname, []).append(e)
    jobs = []
    for z, L in by_zone.items():
        L.sort(key=lambda e: e.sc.base)
        for i in range(0, len(L), per_job):
            jobs.append((z, L[i:i + per_job]))
    with ThreadPoolExecutor(max_workers=vlib.NCPU) as ex:
        list(ex.map(lambda j: run_group(exe, j[0], j[1], consts, verbose), jobs))


# ---------------------------------------------------------------------------------------------- trace validation
def _tlc_retry(*a, **kw):
    """vlib.tlc, repeated once when the JVM was terminated from outside (SIGTERM/SIGKILL that is not our timeout)"""
    r = vlib.tlc(*a, **kw)
    if r.error and r.rc in (143, 137, 130, -15) and "timeout" not in r.error:
        vlib.log(f"[C13] TLC was terminated from outside (rc={r.rc}); running it again")
        r = vlib.tlc(*a, **kw)
    return r


def trace_cfg(consts, batch):
    return vlib.write_cfg(vlib.BUILD / "cfg" / ("TraceStrTimeBatch.cfg" if batch else "TraceStrTimeOne.cfg"),
                          "SPECIFICATION Spec\n%sCHECK_DEADLOCK FALSE\nCONSTANTS RecalcLocal = %d\n RecalcGmt = %d\n RepeatRejected = %s\n"
                          % ("" if batch else "INVARIANT Conforms\n", consts["recalc_local"], consts["recalc_gmt"],
                             "TRUE" if consts["repeat_rejected"] else "FALSE"))


def _validate_lines(lines, cfg, timeout=900):
    d = vlib.scratch("tv")
    try:
        tp = d / "trace.ndjson"
        with open(tp, "w") as f:
            for ln in lines:
                f.write(json.dumps(ln, separators=(",", ":")) + "\n")
        r = _tlc_retry("TraceStrTime", cfg, workers=1, env={"TRACE": str(tp)}, timeout=timeout, heap="2g", dump_trace=False)
    finally:
        vlib.rm(d)
    if r.error:
        raise vlib.Infra(r.error + "\n" + r.out[-2000:])
    if r.violated is None and r.distinct != len(lines) + 1:
        raise vlib.Infra(f"trace not fully consumed: {r.distinct} states for {len(lines)} lines\n{r.out[-1500:]}")
    marks = {"REJECT": [], "DRIFT": [], "CAL": []}
    for s in r.prints:
        if isinstance(s, str):
            w = s.split()
            if len(w) == 2 and w[0] in marks and w[1].isdigit():
                marks[w[0]].append(int(w[1]))
    return r, marks


def validate(ck, exes, consts, chunk=30000, label="TraceStrTime", par=8, count=True):
    """TLC judges every recorded execution (batch mode: one pass, every rejected line is reported).
    Returns (rejected [(exe, call index or -1 for the ctor)], drift [(exe, idx)])."""
    cfg = trace_cfg(consts, batch=True)
    chunks, cur, n = [], [], 0
    for e in exes:
        if n + len(e.lines) > chunk and cur:
            chunks.append(cur)
            cur, n = [], 0
        cur.append(e)
        n += len(e.lines)
    if cur:
        chunks.append(cur)

    def one(ch):
        lines, idx = [], []
        for e in ch:
            for j, ln in enumerate(e.lines):
                lines.append(ln)
                idx.append((e, j - 1))
        r, marks = _validate_lines(lines, cfg)
        return r, marks, idx

    rejected, drift = [], []
    with ThreadPoolExecutor(max_workers=par) as ex:
        for r, marks, idx in ex.map(one, chunks):
            ck.add_tlc(r)
            if marks["CAL"]:
                e, j = idx[marks["CAL"][0] - 1]
                raise vlib.Infra(f"tz data seen by libc differs from the generated zone table: {e.describe()} call {j}: {e.lines[j + 1]}")
            seen = set()
            for l in marks["REJECT"]:
                e, j = idx[l - 1]
                if id(e) not in seen:          # first rejected line of an execution
                    seen.add(id(e))
                    rejected.append((e, j))
            for l in marks["DRIFT"]:
                drift.append(idx[l - 1])
            bad = {id(e) for e, _ in rejected}
            if count:
                ck.traces_validated += sum(1 for e in {id(x[0]): x[0] for x in idx}.values() if id(e) not in bad)
    tv = ck.extra.setdefault("trace_validation", {"config": label, "jvm_runs": 0, "lines": 0})
    tv["jvm_runs"] += len(chunks)
    tv["lines"] += sum(len(e.lines) for e in exes)
    return rejected, drift


# ---------------------------------------------------------------------------------------------- extraction
def extract(ck, exe):
    """constants of the implementation-shaped model, observed on the real code (no private state is read)"""
    t0 = epoch(2024, 5, 14) + 12345
    probes = []
    for m in ("l", "g"):
        probes.append(f"X {m} {t0} 400000")
    out = run_harness(exe, "UTC", "\n".join(probes) + "\n")
    consts = {}
    faithful = True
    second = []
    for m, h in zip(("l", "g"), out):
        if h["d"] <= 0:
            ck.drifted(f"no recalculation point found within 400000 s ({h['mode']})")
            faithful = False
            h["d"] = 900 if m == "l" else 43200
        second.append(f"X {m} {t0 + h['d']} 400000")
    out2 = run_harness(exe, "UTC", "\n".join(second) + "\n")
    for m, h1, h2 in zip(("l", "g"), out, out2):
        name = "local" if m == "l" else "gmt"
        P = h2["d"] if h2["d"] > 0 else (900 if m == "l" else 43200)
        consts["recalc_" + name] = P
        consts["anchor_" + name] = (t0 + h1["d"]) % P
    # the rule must be a fixed grid: check it from other starting points and in another zone
    rng = random.Random(ck.seed)
    checks = [epoch(2001, 9, 10) + 7, epoch(2024, 3, 10) + 3600 * 6 + 59, epoch(2099, 12, 31) + 86399] + \
             [rng.randrange(epoch(2001, 1, 2), epoch(2100, 12, 30)) for _ in range(6)]
    for zn in ("UTC", "Asia/Kathmandu", "America/New_York"):
        sc = "\n".join(f"X {m} {t} 400000" for t in checks for m in ("l", "g")) + "\n"
        for h in run_harness(exe, zn, sc):
            name = h["mode"]
            P, a = consts["recalc_" + name], consts["anchor_" + name]
            want = P - ((h["t0"] - a) % P)
            if h["d"] != want:
                ck.drifted(f"recalculation rule is not the grid P={P} anchor={a} ({name}, TZ={zn}): from {h['t0']} next point after {h['d']} s, grid says {want}")
                faithful = False
                break
    # constructor behaviour the model has switches for
    sc = Scenario("UTC", epoch(2024, 2, 29))
    pr = [Exe(sc, "g", p, [], "probe") for p in ("%S.%Qms %Qms", "%c")]
    run_group(exe, "UTC", pr, dict(consts, repeat_rejected=False))
    consts["repeat_rejected"] = not pr[0].lines[0]["acc"]
    consts["accepts_opaque"] = pr[1].lines[0]["acc"]
    consts["grid_rule_confirmed"] = faithful
    return consts


# ---------------------------------------------------------------------------------------------- signatures
_UNPATCHED = re.compile(r"^%(c|Ec|EX|O[HIMS]|[-_0^#+]+\d*[HMSIklsTRrc]|\d+[HMSIklsTRrc])$")


def _field_class(tok):
    c = tok[-1] if tok.startswith("%") else ""
    if tok.startswith("%Q"):
        return "fraction"
    if c in "HkIlMSTRrs":
        return "time"
    if c in "pP":
        return "ampm"
    if c in "zZ":
        return "zone"
    return "date" if c else "literal"


def signature(e, j, consts):
    """canonical signature (shape class) of the rejected call j (-1: the constructor) of execution e, run verbosely"""
    new = e.lines[0]
    fr = re.findall(r"%Q(?:ms|us|ns)", re.sub(r"%%", "", e.pat))
    if j < 0:
        if new["acc"]:
            if len(fr) > 1:
                return ("ctor:accepts-repeated-fractional-specifier" if len(set(fr)) == 1
                        else "ctor:accepts-mixed-fractional-specifiers")
            return "ctor:accepts-%X"
        return "ctor:rejects-supported-pattern"
    h = [x for x in e.raw[1:] if not x.get("skipped")][j]
    if h.get("op") == "crash":
        return "render:process-terminated"
    if h.get("thrown"):
        return "render:throws"
    t = h["t"]
    out, ref = h["out"], h["ref"]
    mode = "gmt" if e.mode == "g" else "local"
    if e.src == "famC-pct" and re.search(r"%%[TRr]", e.pat):
        return "scan:literal-percent-before-TRr"
    calls = [x for x in e.raw[1:] if not x.get("skipped") and x.get("op") != "crash"]
    if "pieces" in h and any(_UNPATCHED.match(p[0]) for p in h["pieces"]):
        # everything as the reference says, except that the unpatched time conversions show an earlier call's instant
        for i in range(j):
            cand = "".join((pi[1] if _UNPATCHED.match(pj[0]) else pj[1]) for pj, pi in zip(h["pieces"], calls[i]["pieces"]))
            if cand == out:
                return "stale:time-conversion-neither-patched-nor-rejected"
    diff = None
    if len(out) == len(ref) and "pieces" in h:
        diff = []
        for text, piece, pos in h["pieces"]:
            if out[pos:pos + len(piece)] != piece:
                diff.append(text)
    if mode == "local":
        P, a = consts["recalc_local"], consts["anchor_local"]
        for tau in e.sc.off_grid(consts):
            g = tau + (P - ((e.sc.base + tau - a) % P))
            if tau <= t < g:
                return "stale:local:dst-transition-off-recalc-grid"
    cls = "length" if diff is None else "+".join(sorted({_field_class(x) for x in diff}))
    prev = [x["t"] for x in e.raw[1:1 + j] if not x.get("skipped")]
    step = "first" if not prev else "back" if t < max(prev) else "same" if t == prev[-1] else "forward"
    return f"render:{mode}:{cls}:{step}"


def confirm_and_report(ck, exe, rejected, consts):
    """verdict rule: every rejected execution is run again (verbosely, fresh processes) and judged again by TLC; what
    is rejected again is grouped by signature, and for each signature one execution is run entirely on its own and
    must violate the trace spec's invariant before it is reported"""
    again = [Exe(e.sc, e.mode, e.pat, e.seq, e.src) for e, _ in rejected]
    run_all(exe, again, consts, verbose=True, per_job=500)
    again = [e for e in again if not e.notrun]
    rj2, _ = validate(ck, again, consts, count=False)
    where = {id(e): j for e, j in rj2}
    per_sig = {}
    for e2 in again:
        if id(e2) not in where:
            ck.drifted(f"rejection did not repeat when run again: {e2.describe()}")
            continue
        per_sig.setdefault(signature(e2, where[id(e2)], consts), []).append(e2)
    cfg1 = trace_cfg(consts, batch=False)
    for sig, L in sorted(per_sig.items()):
        e3 = Exe(L[0].sc, L[0].mode, L[0].pat, L[0].seq, L[0].src)
        run_group(exe, e3.sc.zname, [e3], consts, verbose=True)
        r, marks = _validate_lines(e3.lines, cfg1)
        ck.add_tlc(r)
        if r.violated != "Conforms" or not marks["REJECT"]:
            ck.drifted(f"rejection did not repeat in isolation: {e3.describe()}")
            continue
        j = marks["REJECT"][0] - 2
        ln = e3.lines[j + 1]
        text = (f"TZ={e3.sc.zname} {'GmtTime' if e3.mode == 'g' else 'LocalTime'} pattern {e3.pat!r}: " +
                (f"constructor {'accepted' if ln['acc'] else 'rejected'} it" if j < 0 else
                 f"instants {[e3.sc.base + t for t, _ in e3.seq[:j + 1]]}: process terminated by signal {ln['signal']}" if ln["op"] == "crash" else
                 f"instants {[e3.sc.base + t for t, _ in e3.seq[:j + 1]]} ns={e3.seq[j][1]}: rendered {ln['out']!r}, strftime {ln['ref']!r}"))
        ck.violation(sig, text, {"execution": e3.describe(), "rejected_call": j, "trace": e3.lines,
                                 "harness": "h_time", "others_same_signature": len(L) - 1})
        ck.extra.setdefault("rejections_by_signature", {})[sig] = len(L)


# ---------------------------------------------------------------------------------------------- model runs
FRACVALS = "{0, 1, 9, 10, 99, 100, 999, 1000, 999999, 1000000, 1001000, 9999999, 10000000, 99999999, 100000000, 123456789, 500000000, 999999000, 999999999}"


def model_cfg(name, consts, spec="Spec", invs="NoStaleField TypeOK", shapes="all", modes=("gmt", "local"), maxlen=1000,
              view=True, export=False, repeat=None, maxpat=4):
    rr = consts["repeat_rejected"] if repeat is None else repeat
    return vlib.write_cfg(vlib.BUILD / "cfg" / name, (
        f"SPECIFICATION {spec}\nCONSTANTS RecalcLocal = {consts['recalc_local']}\n RecalcGmt = {consts['recalc_gmt']}\n"
        f" RepeatRejected = {'TRUE' if rr else 'FALSE'}\n Modes = {{{', '.join(json.dumps(m) for m in modes)}}}\n"
        f" ShapeSel = \"{shapes}\"\n MaxLen = {maxlen}\n MaxPat = {maxpat}\n FracVals = {FRACVALS}\n Export = {'TRUE' if export else 'FALSE'}\n"
        + (f"INVARIANTS {invs}\n" if invs else "") + ("VIEW StateView\n" if view else "")
        + ("ACTION_CONSTRAINT ExportA\n" if export else "") + "CHECK_DEADLOCK FALSE\n"))


def run_model(cfg, scs, consts, small=False, coverage=False, timeout=1500):
    d = vlib.scratch("scen")
    try:
        p = d / "scen.ndjson"
        with open(p, "w") as f:
            for s in scs:
                f.write(json.dumps(s.scen_json(consts, s.instants(small))) + "\n")
        r = _tlc_retry("StrTime", cfg, env={"SCEN": str(p)}, coverage=coverage, timeout=timeout)
    finally:
        vlib.rm(d)
    if r.error:
        raise vlib.Infra(r.error + "\n" + r.out[-3000:])
    vlib.log(f"[C13] TLC {cfg.name}: {r.distinct} distinct / {r.generated} generated, violated={r.violated}, {r.wall:.1f}s")
    return r


def exes_from_behaviours(behs, scs, small, rng, pool, extra_patterns, src, extra_every=1):
    """every exported sequence becomes executions: the canonical all-fields pattern of its shape, plus
    `extra_patterns` generated patterns of the same shape class"""
    out = []
    inst = [s.scen_json({"recalc_local": 1, "anchor_local": 0, "recalc_gmt": 1, "anchor_gmt": 0}, s.instants(small))["inst"] for s in scs]
    for nb, b in enumerate(behs):
        sc = scs[b["sc"] - 1]
        mode = "g" if b["mode"] == "gmt" else "l"
        seq = [tuple(inst[b["sc"] - 1][i - 1]) for i in b["seq"]]
        eok = epoch_allowed(sc, mode)
        out.append(Exe(sc, mode, canonical(b["shape"], eok), seq, src))
        cls = (b["shape"]["p1"], b["shape"]["p2"])
        cands = pool.get(cls)
        for _ in range(extra_patterns if (cands and nb % extra_every == 0) else 0):
            for _try in range(20):
                toks = rng.choice(cands)
                if eok or not uses_epoch(toks):
                    out.append(Exe(sc, mode, "".join(toks), seq, src + "+pool"))
                    break
    return out


def exe_from_cex(r, scs, small):
    """the TLC counterexample of the dynamic model as an execution"""
    last = r.trace[-1]
    sc = scs[last["sc"] - 1]
    inst = sc.scen_json({"recalc_local": 1, "anchor_local": 0, "recalc_gmt": 1, "anchor_gmt": 0}, sc.instants(small))["inst"]
    mode = "g" if last["mode"] == "gmt" else "l"
    seq = [tuple(inst[i - 1]) for i in last["hist"]]
    return Exe(sc, mode, canonical(last["shape"], epoch_allowed(sc, mode)), seq, "tlc-counterexample")


ABSTRACT = {"H": "%H", "d": "%d", "-": "-", "X": "%X", "ms": "%Qms", "us": "%Qus", "ns": "%Qns"}


# ---------------------------------------------------------------------------------------------- families of executions
def walk(sc, rng, n=12):
    """a sequence over the scenario's boundary instants: mostly increasing, with repeats and backward steps"""
    inst = sc.instants()
    i = rng.randrange(len(inst))
    seq = []
    for _ in range(n):
        seq.append((inst[i], rng.choice(NS_BOUNDARY)))
        r = rng.random()
        if r < 0.6:
            i = min(len(inst) - 1, i + rng.choice([1, 1, 1, 2, 3]))
        elif r < 0.75:
            pass
        elif r < 0.9:
            i = max(0, i - rng.choice([1, 2, 5]))
        else:
            i = rng.randrange(len(inst))
    return seq


def random_sequence(sc, rng):
    """seeded random instants inside the scenario window: steps of seconds, minutes, hours, jumps to the boundaries,
    repeats and backward steps"""
    pts = sc.boundary_points()
    t = rng.choice(pts) + rng.choice([-2, -1, 0, 0, 1, rng.randrange(-4000, 4000)])
    seq = []
    for _ in range(rng.randint(2, 10)):
        t = max(-2 * DAY + 5, min(3 * DAY - 5, t))
        seq.append((t, rng.choice(NS_BOUNDARY) if rng.random() < 0.5 else rng.randrange(10 ** 9)))
        r = rng.random()
        if r < 0.25:
            t += 1
        elif r < 0.4:
            t += rng.randrange(2, 70)
        elif r < 0.5:
            t += rng.randrange(70, 4000)
        elif r < 0.6:
            t += rng.randrange(4000, 50000)
        elif r < 0.75:
            nb = [p for p in pts if p > t]
            t = (nb[0] if nb else t) + rng.choice([-1, 0, 1])
        elif r < 0.82:
            pass
        elif r < 0.92:
            t -= rng.randrange(1, 120)
        else:
            t -= rng.randrange(120, 90000)
    return seq


# verbose patterns: the rendered text is longer than any fixed scratch buffer (130-400 characters), each conversion stays short
LONG = [
    ["%A", ", ", "%d", " ", "%B", " ", "%Y", " ", "%H", ":", "%M", ":", "%S", " ", "%Z", " [", "%a", " ", "%b", " ", "%e", "] week ",
     "%U", "/", "%W", " day ", "%j", " of ", "%G", " at ", "%I", ":", "%M", ":", "%S", " ", "%p", " = ", "%F", "T", "%T", "%z", " = ",
     "%D", " ", "%R", " UTC", " # ", "%A", " ", "%B", " ", "%d", " ", "%Y", " # ", "%r", " ", "%s", " ", "%y", "%m", "%d"],
    ["%F", " ", "%T", " ", "%A", " ", "%B", " "] * 9 + ["%Z"],
]


def family_patterns(rng, n_random, kinds_all):
    """base patterns (curated + seeded random) and their variants with the fractional specifier at every position; the verbose
    patterns get the specifier at the start, in the middle and at the end only"""
    bases = [list(p) for p in CURATED] + [random_base_pattern(rng) for _ in range(n_random)]
    out = []
    for k, b in enumerate(bases):
        out += frac_variants(b, kinds_all, rot=k)
    for k, b in enumerate(LONG):
        out.append(list(b))
        for pos in (0, len(b) // 2, len(b)):
            out.append(b[:pos] + [FRACS[(k + pos) % 3]] + b[pos:])
    return out


REJECT_FAMILY = ["%H:%M:%S.%Qms %Qms", "%Qms%Qms", "%Qus %H %Qus", "%Qns|%Qns|%Qns", "%S%Qns%Qns", "%Qms%Qus", "%Qus%Qms",
                 "%Qms %H %Qns", "%Qns%d%Qms", "%Qus %Qns", "%Qns.%Qus", "%I:%M%p%Qms%S%Qus%Qns z", "%Qms%Qus%Qms",
                 "%X", "%H:%M %X", "%X.%Qms", "%Qus %X", "%d%X%d", "%T %X"]
OPAQUE_FAMILY = ["%c", "%Ec", "%EX", "%F %EX.%Qns", "%OH:%OM:%OS", "%OI %p", "%F %c.%Qms", "%Qus %c", "%-H:%M", "%_I.%S", "%-S", "%d %-k"]
PCT_FAMILY = ["%%T|%T", "%%R %H", "%%r", "%H %%T.%Qms"]


# ---------------------------------------------------------------------------------------------- the check
def _scenarios(quick, consts):
    zones = ZONES_QUICK + ([] if quick else ZONES_MORE)
    years = [2024] if quick else [2002, 2024, 2037, 2038, 2099]
    on, off = [], []
    for z in zones:
        fixed = []
        if z == "UTC":
            fixed = [(2024, 2, 29)] if quick else [(2024, 2, 29), (2001, 9, 9), (2038, 1, 19), (2100, 12, 28), (2001, 1, 3)]
        scs = scenarios_for(z, years, fixed)
        if not scs:
            scs = scenarios_for(z, [], [(2024, 2, 29)] + ([] if quick else [(2100, 12, 28)]))
        for s in scs:
            (off if s.off_grid(consts) else on).append(s)
    for z, y in ZONES_OFFGRID[:2 if quick else None]:
        for s in scenarios_for(z, [y]):
            (off if s.off_grid(consts) else on).append(s)
    return on, off


def run(ck):
    quick = ck.tier == "quick"
    rng = random.Random(ck.seed)
    for sig, text in PENDING_KNOWN.items():
        ck.known.findings.setdefault((ck.prop, sig), text)
    ck.rule = ("executions = (TZ, GmtTime/LocalTime, pattern, sequence of instants): every instant sequence TLC exports from "
               "StrTime (one shortest sequence per transition of the cache-state graph per scenario/mode/shape, and all sequences "
               "up to a length bound over a reduced boundary set) with the all-fields pattern of its shape and a generated "
               "pattern of the same shape; a generated pattern family (curated + seeded random conversions, fractional "
               "specifier at every position) on boundary walks in every zone; rejection patterns; seeded random sequences "
               "2001..2100. non-trivial = at least two calls and the pattern has a patched conversion or a fractional "
               "specifier; distinct by (zone, base, mode, pattern, instants)")
    ck.assumptions = [
        "reference = glibc gmtime_r/localtime_r + strftime in the C locale, evaluated per call in the same process (TZ set before start)",
        "patterns: ISO C/POSIX conversions + glibc %k %l %P %s, literal text, %%; '%%' is never directly followed by literal text starting with H M S I k l s (property) nor Q X c E O (would read as a specifier under the property's own textual rule); '%%' before literal T R r is explored separately",
        "%s only in scenarios whose instants have ten-digit epochs and only in LocalTime mode or a UTC process",
        "a plain pattern (documented conversions only, at most one fractional specifier, no %X) must be accepted; for patterns with E/O-modified, flagged or %c conversions either rejection or correct rendering is accepted",
        "instants 2001..2100 (non-negative ns); a fresh formatter's zero cache timestamp lies before every instant",
        "zone transition tables come from python's zoneinfo; every call's libc calendar (wall clock, offset, abbreviation) is compared with them by the trace spec (mismatch = infrastructure error)",
        "the cache path is observed through an interposed strftime (no private state is read); the recalculation rule is extracted by probing and must be a fixed grid, else the model is reported as drifted",
    ]
    for old in vlib.REPLAY.glob(f"{ck.prop}-*.json"):     # replay files of earlier runs of this check
        try:
            old.unlink()
        except OSError:
            pass
    exe = build_exe()
    consts = extract(ck, exe)
    ck.extra["extracted_constants"] = dict(consts)
    on, off = _scenarios(quick, consts)
    utc = Scenario("UTC", epoch(2024, 2, 29))
    cex = []

    # all TLC runs on the model are independent of each other: start them together, use the results in order below
    mp = 4 if quick else 5
    sel24 = [x for x in on if "@2024" in x.name]
    cov_scs = on if quick else sel24[:9]
    all_sets = [(3, [on[k] for k in (1, 5, 7)] if quick else sel24[::2])] + ([] if quick else [(4, on[1:8:6])])
    tp = ThreadPoolExecutor(max_workers=6)
    F = {"mc": tp.submit(run_model, model_cfg("MC_StrTime.cfg", consts), on, consts)}
    F["cover"] = tp.submit(run_model, model_cfg("Export_StrTime.cfg", consts, invs="", shapes="few" if quick else "all", export=True),
                           cov_scs, consts, quick)
    for maxlen, sub in all_sets:
        F[f"all{maxlen}"] = tp.submit(run_model, model_cfg(f"ExportAll{maxlen}_StrTime.cfg", consts, invs="NoStaleField", shapes="few",
                                                            export=True, view=False, maxlen=maxlen), sub, consts, True)
    F["cov"] = tp.submit(run_model, model_cfg("MC_StrTime_cov.cfg", consts), [x for x in on if x.trans][:1 if quick else 3], consts, False, True)
    F["static"] = tp.submit(run_model, model_cfg("MC_StrTime_static.cfg", consts, spec="SpecStatic", invs="CtorOK SplitOK FracOK",
                                                 view=False, maxpat=mp), [utc], consts)
    F["static2"] = tp.submit(run_model, model_cfg("MC_StrTime_static2.cfg", consts, spec="SpecStatic", invs="CtorOK SplitOK FracOK",
                                                  view=False, repeat=True, maxpat=mp), [utc], consts)
    if off:
        F["off"] = tp.submit(run_model, model_cfg("MC_StrTime_offgrid.cfg", consts, modes=("local",)), off, consts)
        F["xoff"] = tp.submit(run_model, model_cfg("Export_StrTime_off.cfg", consts, invs="", shapes="few", modes=("local",), export=True),
                              off, consts, True)
    if consts["accepts_opaque"]:
        F["opq"] = tp.submit(run_model, model_cfg("MC_StrTime_opaque.cfg", consts, shapes="opaque"), on[:2], consts)
        F["xopq"] = tp.submit(run_model, model_cfg("Export_StrTime_opq.cfg", consts, invs="", shapes="opaque", export=True), on[:2], consts, True)
    tp.shutdown(wait=False)

    # 1. static sweep: constructor over abstract patterns, fraction writer over boundary values
    rs = F["static"].result()
    ck.add_tlc(rs, "MC_StrTime_static")
    if rs.violated:
        last = rs.trace[-1] if rs.trace else {"pat": [], "fv": 0}
        pat = "".join(ABSTRACT[x] for x in last["pat"]) if rs.violated != "FracOK" else "%Qms|%Qus|%Qns"
        cex.append(Exe(utc, "g", pat, [(43200, last["fv"])] if rs.violated == "FracOK" else [], "tlc-counterexample-static"))
        rs2 = F["static2"].result()
        ck.add_tlc(rs2, "MC_StrTime_static(repeat rejected)")
        if rs2.violated:
            ck.drifted(f"static model violates {rs2.violated} beyond the extracted constructor switch")
    # 2. exhaustive: every sequence of boundary instants, on-grid scenarios, all shapes, both modes
    rm = F["mc"].result()
    ck.add_tlc(rm, "MC_StrTime")
    if rm.violated:
        cex.append(exe_from_cex(rm, on, False))
    else:
        # vacuity self-test: every path through StringFromTime::format_timestamp is taken in the model (-coverage run)
        rc = F["cov"].result()
        ck.add_tlc(rc, "MC_StrTime(-coverage)")
        ck.extra["coverage_actions"] = {k: list(v) for k, v in rc.coverage.items()}
        for act in ("AFallback", "ARebuild", "APatch", "ASame"):
            if rc.coverage.get(act, (0, 0))[1] == 0:
                raise vlib.Infra(f"vacuity: action {act} never enabled")
        ck.exhaustive = True
    # 3. the same on scenarios with an offset change off the recalculation grid, and on shapes with a composite time
    #    conversion: TLC counterexamples here are replayed on the code like any other
    if off:
        ro = F["off"].result()
        ck.add_tlc(ro, "MC_StrTime_offgrid")
        if ro.violated:
            cex.append(exe_from_cex(ro, off, False))
    if consts["accepts_opaque"]:
        rq = F["opq"].result()
        ck.add_tlc(rq, "MC_StrTime_opaque")
        if rq.violated:
            cex.append(exe_from_cex(rq, on[:2], False))
    ck.extra["scenarios"] = {"on_grid": [s.name for s in on], "off_grid": [s.name for s in off]}

    # 4. behaviour export
    kinds_all = not quick
    fam = family_patterns(rng, 12 if quick else 60, kinds_all)
    pool = {}
    for toks in fam:
        p1, fk, p2 = part_shapes(toks)
        pool.setdefault((p1, p2), []).append(toks)
    exes = list(cex)
    n_tlc = 0
    small = quick
    rx = F["cover"].result()
    ck.add_tlc(rx, "Export_StrTime(cover)")
    behs = vlib.behaviours(rx)
    rx.out = ""
    if len(behs) < 1000:
        raise vlib.Infra("behaviour export produced too few sequences")
    ex1 = exes_from_behaviours(behs, cov_scs, small, rng, pool, 1, "tlc-cover", extra_every=2 if quick else 4)
    n_tlc += len(behs)
    exes += ex1
    # all sequences up to a length bound over the reduced boundary set (no VIEW: one state per sequence)
    for maxlen, sub in all_sets:
        ra = F[f"all{maxlen}"].result()
        ck.add_tlc(ra, f"Export_StrTime(all sequences <= {maxlen})")
        behs2 = vlib.behaviours(ra)
        ra.out = ""
        ra.prints = []
        exes += exes_from_behaviours(behs2, sub, True, rng, pool, 0, "tlc-all")
        n_tlc += len(behs2)
        del behs2
    cap = 150 if quick else 600
    if off:
        rxo = F["xoff"].result()
        ck.add_tlc(rxo, "Export_StrTime(off-grid)")
        b = vlib.behaviours(rxo)
        rng.shuffle(b)
        exes += exes_from_behaviours(b[:cap], off, True, rng, pool, 0, "tlc-cover-offgrid")
        n_tlc += len(b[:cap])
    if consts["accepts_opaque"]:
        rxq = F["xopq"].result()
        ck.add_tlc(rxq, "Export_StrTime(opaque)")
        b = vlib.behaviours(rxq)
        rng.shuffle(b)
        exes += exes_from_behaviours(b[:cap], on[:2], True, rng, pool, 0, "tlc-cover-opaque")
        n_tlc += len(b[:cap])

    # 5. pattern family on boundary walks in every zone, rejection patterns, seeded random sequences 2001..2100
    per_zone = {}
    for s in on + off:
        per_zone.setdefault(s.zname, []).append(s)
    n_fam = 0
    for z, scs in sorted(per_zone.items()):
        for s in (scs[:1] if quick else scs[:2]):
            for mode in ("g", "l"):
                eok = epoch_allowed(s, mode)
                w = walk(s, rng, 10 if quick else 14)
                for toks in fam:
                    if uses_epoch(toks) and not eok:
                        continue
                    exes.append(Exe(s, mode, "".join(toks), w, "family"))
                    n_fam += 1
    for p in REJECT_FAMILY:
        for mode in ("g", "l"):
            exes.append(Exe(utc, mode, p, [], "reject-family"))
    for p in OPAQUE_FAMILY:
        for s in (utc, on[1]):
            for mode in ("g", "l"):
                exes.append(Exe(s, mode, p, walk(s, rng, 8), "famC-opaque"))
    for p in PCT_FAMILY:
        exes.append(Exe(utc, "g", p, walk(utc, rng, 4), "famC-pct"))
    n_rand = 0
    zones_rand = sorted(per_zone) if quick else sorted(set(per_zone) | set(ZONES_MORE))
    for z in zones_rand:
        zz = Zone.get(z)
        for _ in range(150 if quick else 1500):
            if rng.random() < 0.6:
                y = rng.randint(2001, 2100)
                tr = zz._year(y)
                base = (rng.choice(tr)[0] // DAY) * DAY if tr else epoch(y, rng.randint(1, 12), rng.randint(1, 28))
            else:
                base = rng.randrange(epoch(2001, 1, 4), epoch(2100, 12, 27)) // DAY * DAY
            base = min(max(base, epoch(2001, 1, 4)), epoch(2100, 12, 27))
            s = Scenario(z, base)
            mode = rng.choice("gl")
            if s.off_grid(consts) and mode == "l":
                continue                      # off-grid days are explored by their own scenarios above
            for _try in range(30):
                toks = rng.choice(fam)
                if epoch_allowed(s, mode) or not uses_epoch(toks):
                    break
            else:
                continue
            exes.append(Exe(s, mode, "".join(toks), random_sequence(s, rng), "random"))
            n_rand += 1

    # 6. the real code, then TLC as the judge
    vlib.log(f"[C13] {len(exes)} executions, {sum(len(e.seq) + 1 for e in exes)} calls; models done at {time.time() - ck.t0:.0f}s")
    rejected, drift, n_out, kept, n_notrun = [], [], 0, 0, 0
    samples = {}
    B = 150000
    for b0 in range(0, len(exes), B):
        batch = exes[b0:b0 + B]
        run_all(exe, batch, consts)
        n_out += sum(1 for e in batch if e.outside)
        n_notrun += sum(1 for e in batch if e.notrun)
        batch = [e for e in batch if not e.outside and not e.notrun]
        kept += len(batch)
        rj, dr = validate(ck, batch, consts, chunk=25000, par=max(4, vlib.NCPU - 4))
        rejected += rj
        drift += dr
        keep = {id(e) for e, _ in rj} | {id(e) for e, _ in dr[:5]}
        for e in batch:
            if e.src in ("tlc-cover", "family", "random") and e.src not in samples and len(e.seq) >= 2:
                samples[e.src] = {"execution": e.describe(), "rendered": [ln.get("out") for ln in e.lines[1:]]}
            if id(e) not in keep:
                e.lines = e.raw = None
        vlib.log(f"[C13] batch {b0 // B + 1}: {len(batch)} executions judged at {time.time() - ck.t0:.0f}s")
    ck.extra["executions_outside_quantifier_libc_epoch_ambiguous"] = n_out
    exes = [e for e in exes if not e.outside and not e.notrun]
    if n_notrun:
        ck.extra["executions_not_run_after_repeated_crashes"] = n_notrun
        ck.exhaustive = False
    _trace_selftest(ck, exe, consts, utc)
    vlib.log(f"[C13] validation done at {time.time() - ck.t0:.0f}s")
    for e in exes:
        nontriv = len(e.seq) >= 2 and (any(c in e.pat for c in PATCHED) or "%Q" in e.pat)
        ck.case(e.key(), nontriv)
    for e, j in drift[:5]:
        ck.drifted(f"model prediction differs from the code at call {j} of {e.describe()}: {e.lines[j + 1]}")
    if rejected:
        confirm_and_report(ck, exe, rejected, consts)
    for src in ("tlc-cover", "family", "random"):
        if src in samples:
            ck.sample(samples[src])
    ck.extra.update({"sequences_from_tlc": n_tlc, "family_executions": n_fam, "random_executions": n_rand,
                     "patterns_in_family": len(fam), "zones": sorted(per_zone) if quick else zones_rand,
                     "executions_rejected_by_contract": len(rejected),
                     "tlc_counterexamples_replayed": [e.describe() for e in cex]})
    if not consts["grid_rule_confirmed"] or any(r is not None and r.violated for r in (rm,)):
        ck.exhaustive = False


def _trace_selftest(ck, exe, consts, utc):
    """vacuity control of the trace spec: a recorded execution with one corrupted field must be rejected, with a
    wrong model constant it must be accepted by the contract but reported as drift"""
    e = Exe(utc, "g", "%H:%M:%S.%Qms %p", [(43198, 5000000), (43199, 1), (43200, 999999999), (43201, 0), (43100, 7)], "selftest")
    run_group(exe, "UTC", [e], consts)
    r, marks = _validate_lines(e.lines, trace_cfg(consts, batch=False))
    if r.violated or marks["REJECT"]:
        return                      # the code itself fails here; the main run reports it
    bad = [dict(x) for x in e.lines]
    bad[3]["out"] = bad[3]["out"][:-4] + "0" + bad[3]["out"][-3:]
    r2, m2 = _validate_lines(bad, trace_cfg(consts, batch=False))
    if r2.violated != "Conforms" or set(m2["REJECT"]) != {4}:
        raise vlib.Infra("trace spec self-test: a corrupted rendered text was not rejected")
    wrong = dict(consts, recalc_gmt=consts["recalc_gmt"] * 2)
    cfgw = vlib.write_cfg(vlib.BUILD / "cfg" / "TraceStrTimeSelf.cfg", trace_cfg(wrong, batch=True).read_text())
    trace_cfg(consts, batch=True)
    r3, m3 = _validate_lines(e.lines, cfgw)
    if m3["REJECT"] or not m3["DRIFT"]:
        raise vlib.Infra("trace spec self-test: a wrong model constant was not reported as drift only")
    ck.extra["trace_spec_selftest"] = "corrupted field rejected at its line; wrong model constant reported as drift, not as violation"


def replay(ck, path):
    j = json.loads(open(path).read())["replay"]
    x = j["execution"]
    for sig, text in PENDING_KNOWN.items():
        ck.known.findings.setdefault((ck.prop, sig), text)
    exe = build_exe()
    consts = extract(ck, exe)
    sc = Scenario(x["zone"], x["base"])
    e = Exe(sc, "g" if x["mode"] == "gmt" else "l", x["pattern"], [(t - sc.base, ns) for t, ns in x["instants"]], x["source"])
    run_group(exe, sc.zname, [e], consts, verbose=True)
    for h in e.raw:
        print(json.dumps(h))
    r, marks = _validate_lines(e.lines, trace_cfg(consts, batch=False))
    ck.add_tlc(r, "TraceStrTime")
    if r.violated == "Conforms":
        jj = marks["REJECT"][0] - 2 if marks["REJECT"] else j.get("rejected_call", 0)
        ck.violation(signature(e, jj, consts), f"replay: contract rejects call {jj}", j)
    else:
        ck.traces_validated += 1
