"""C12 - the line handed to a sink equals the format pattern with every %(attribute) substituted, plus a newline;
multi-line messages in both add_metadata_to_multi_line_logs modes; unknown attribute / unterminated %( rejected
when the formatter is created.

Spec: spec/PatternContract.tla (layer A, generic over the representation of text), spec/Pattern.tla (layer I:
transcription of PatternFormatter::_generate_fmt_format_string / _set_pattern / format, the part of fmt that is used,
BackendWorker line splitting and runtime-metadata split, MacroMetadata positions; contract instantiated on symbol
sequences), spec/TracePattern.tla (contract instantiated on real strings, judges recorded executions).
Binding: (a) the three attribute tables of the transcription are extracted from the compiled code (harness
`extract`), (b) every case TLC enumerates is exported (PrintT BEH), concretised (once exactly as the model's
abstract statement -> the model's predicted text is compared strictly = drift check; once more with seeded values
that are empty / long / contain braces / percent signs) and run through the real PatternFormatter, message cases
end to end through frontend + queue + ManualBackendWorker into recording sinks (one plain sink, and loggers with
2-3 sinks in every order of {plain, override pattern A, override pattern B}: one judged execution per sink, against
that sink's effective pattern), plus seeded random larger patterns, (c) every recorded execution is judged by TLC against the contract on strings (TracePattern).
The verdict comes only from (c)."""
import hashlib, itertools, json, os, random, re, time
from concurrent.futures import ThreadPoolExecutor
import vlib

NAMES = ["time", "file_name", "caller_function", "log_level", "log_level_short_code", "line_number", "logger",
         "full_path", "thread_id", "thread_name", "process_id", "source_location", "short_source_location",
         "message", "tags", "named_args"]
TSP = "%H:%M:%S.%Qns"
# strict concretisation: one character per abstract value token
TOKCHR = {"V_time": "0", "V_caller_function": "F", "V_log_level": "I", "V_log_level_short_code": "S",
          "V_logger": "G", "V_thread_id": "3", "V_thread_name": "N", "V_process_id": "9", "V_message": "M",
          "V_tags": "#"}
LEVEL_NAMES = {3: "DEBUG", 4: "INFO", 5: "NOTICE", 6: "WARNING", 7: "ERROR", 8: "CRITICAL"}


def hx(s):
    return s.encode("latin-1").hex()


def time_str(ts, tsp=TSP):
    sec = ts // 10**9
    if tsp == "%S":
        return "%02d" % (sec % 60)
    d = sec % 86400
    return "%02d:%02d:%02d.%09d" % (d // 3600, (d % 3600) // 60, d % 60, ts % 10**9)


# --------------------------------------------------------------------------------------------- value classes
PLAIN = "abcdefghijklmnopqrstuvwxyzABCDEFGHIJKLMNOPQRSTUVWXYZ0123456789_-. "
BRACEY = ["{}", "{0}", "a{b}c", "{{", "}}", "}", "{", "{:>5}", "x{}y{}", "{message}"]
PERCENTY = ["%", "%%", "100%", "%(message)", "%s %d", "%(", "%(time", "50% (approx)", "%)"]


def rnd_value(rng, allow_nl=False):
    r = rng.random()
    if r < 0.12:
        return ""
    if r < 0.45:
        return "".join(rng.choice(PLAIN) for _ in range(rng.randint(1, 12))).strip() or "v"
    if r < 0.60:
        n = rng.choice([300, 511, 512, 513, 700])
        return "".join(rng.choice(PLAIN[:62]) for _ in range(n))
    if r < 0.80:
        return rng.choice(BRACEY) + ("" if rng.random() < 0.5 else rng.choice(PLAIN[:52]))
    v = rng.choice(PERCENTY)
    if allow_nl and rng.random() < 0.3:
        v += "\n" + rng.choice(PLAIN[:52])
    return v


def rnd_src(rng):
    r = rng.random()
    if r < 0.1:
        path = rng.choice(["f.cpp", "", "x", "C:f.cpp"])
    else:
        parts = []
        for _ in range(rng.randint(1, 4)):
            parts.append(rng.choice(["src", "a", "{}", "%d", "my dir", "C:", "x" * rng.choice([5, 120]), "", "..", "%(message)"]))
        path = ("/" if rng.random() < 0.7 else "") + "/".join(parts) + "/" + rng.choice(["file.cpp", "a.h", "{}.cpp", "100%.cc", "", "Makefile"])
    line = rng.choice(["1", "42", "65535", "1234567", "0", "007"])
    return path + ":" + line


def rnd_statement(rng):
    """a statement as the caller supplies it (record b of the contract) + the raw inputs of the harness"""
    ts = rng.randrange(10**18, 19 * 10**17)
    named = None
    if rng.random() < 0.7:
        named = [[rnd_value(rng) or "k", rnd_value(rng)] for _ in range(rng.choice([0, 1, 1, 2, 3]))]
    tags = None if rng.random() < 0.4 else rng.choice(["#tag ", "#a #b ", "{}", "%", "", "#" + "t" * 300 + " "])
    b = {"time": time_str(ts), "caller_function": rnd_value(rng), "log_level": rnd_value(rng),
         "log_level_short_code": rnd_value(rng), "logger": rnd_value(rng), "thread_id": rnd_value(rng),
         "thread_name": rnd_value(rng), "process_id": rnd_value(rng), "source_location": rnd_src(rng),
         "message": rnd_value(rng, allow_nl=True), "tags": tags or "", "named": named or []}
    return b, {"ts": ts, "tags_null": tags is None, "named_null": named is None}


# --------------------------------------------------------------------------------------------- concretisation
LIT_CHUNKS = [" ", "-", "ab", "] [", ", ", "LOG_", "|", "=", "\t", " - ", "#", "@", "a b", "..", "\\", "\"", "'", "<>", "^", "*"]
UNKNOWN_NAMES = ["bogus", "Time", "msg", "", " time", "time ", "level", "timestamp", "thread", "MESSAGE", "file", "pid"]


def concretise_flat(flat, rng=None):
    """symbol sequence of Pattern.tla -> pattern text. rng None = strict (one character per symbol)."""
    out = []
    for s in flat:
        if rng is not None and s == "x":
            out.append(rng.choice(LIT_CHUNKS))
        elif rng is not None and s == "bogus":
            out.append(rng.choice(UNKNOWN_NAMES))
        else:
            out.append(s)
    return "".join(out)


class Abstract:
    """the abstract statement of Pattern.tla (HDR line of the export)"""

    def __init__(self, hdr):
        self.vlen = hdr["vlen"]
        self.src = "".join(hdr["src"])
        self.pairs = [["".join(k), "".join(v)] for k, v in hdr["pairs"]]
        self.ts = 1_700_000_047 * 10**9 + 123      # rendered with "%S": two characters, like the model's time value
        self.tsp = "%S"
        assert self.vlen["time"] == len(time_str(self.ts, self.tsp))

    def statement(self, msg=None, src=None):
        v = {k[2:]: c * self.vlen[k[2:]] for k, c in TOKCHR.items()}
        v["time"] = time_str(self.ts, self.tsp)
        b = {"time": v["time"], "caller_function": v["caller_function"], "log_level": v["log_level"],
             "log_level_short_code": v["log_level_short_code"], "logger": v["logger"], "thread_id": v["thread_id"],
             "thread_name": v["thread_name"], "process_id": v["process_id"],
             "source_location": self.src if src is None else src,
             "message": v["message"] if msg is None else msg, "tags": v["tags"], "named": self.pairs}
        return b, {"ts": self.ts, "tags_null": False, "named_null": False, "tsp": self.tsp}

    def text(self, toks):
        """predicted token sequence -> string: a run of vlen[a] tokens "V_a" is the value of a, anything else is itself"""
        vals, _ = self.statement()
        out, i = [], 0
        while i < len(toks):
            t = toks[i]
            if t.startswith("V_"):
                a = t[2:]
                n = self.vlen[a]
                if toks[i:i + n] != [t] * n:
                    raise vlib.Infra("model output splits a value: %r" % (toks,))
                out.append(vals[a])
                i += n
            else:
                out.append(t)
                i += 1
        return "".join(out)


# --------------------------------------------------------------------------------------------- cases
def d_line(c):
    b, raw = c["b"], c["raw"]
    f = ["D", "id=%d" % c["id"], "pat=" + hx(c["pattern"]), "ts=%d" % raw["ts"], "tid=" + hx(b["thread_id"]),
         "tname=" + hx(b["thread_name"]), "pid=" + hx(b["process_id"]), "logger=" + hx(b["logger"]),
         "lvl=" + hx(b["log_level"]), "lvls=" + hx(b["log_level_short_code"]), "src=" + hx(b["source_location"]),
         "fn=" + hx(b["caller_function"]), "tags=" + ("-" if raw["tags_null"] else hx(b["tags"])),
         "named=" + ("-" if raw["named_null"] else ",".join(hx(k) + ":" + hx(v) for k, v in b["named"])),
         "msg=" + hx(b["message"])]
    if "tsp" in raw:
        f.append("tsp=" + hx(raw["tsp"]))
    return " ".join(f)


def e_line(c):
    e = c["e"]
    f = ["E", "id=%d" % c["id"], "pat=" + hx(c["pattern"]), "multi=%d" % (1 if c["multi"] else 0),
         "logger=" + hx(e["logger"]), "level=%d" % e["level"], "ts=%d" % e["ts"], "src=" + hx(e["src"]),
         "fn=" + hx(e["fn"]), "tags=" + ("-" if e["tags"] is None else hx(e["tags"])), "kind=" + e["kind"],
         "msg=" + hx(e["msg"])]
    if e["kind"] == "named":
        f += ["tmpl=" + hx(e["tmpl"]), "nvn=%d" % len(e["nv"]), "nv=" + ",".join(hx(v) for v in e["nv"])]
    if e["kind"] == "rt":
        f += ["file=" + hx(e["file"]), "line=%d" % e["line"], "func=" + hx(e["func"])]
    if e.get("sinks"):
        f.append("sinks=" + ",".join("-" if s is None else hx(s) for s in e["sinks"]))
    return " ".join(f)


def shard_header(rng):
    h = {"tname": rng.choice(["worker", "t{}n", "100%", "a b", "th%(x)"])}
    for i in range(3, 9):
        h["ld%d" % i] = rng.choice([LEVEL_NAMES[i], LEVEL_NAMES[i], "L{}%d" % i, "", "LV" + "x" * 300 + str(i), "%(message)"])
        h["ls%d" % i] = rng.choice([LEVEL_NAMES[i][0], "{%d}" % i, "", "%"])
    return h


def header_line(h):
    return "H " + " ".join("%s=%s" % (k, hx(v)) for k, v in h.items())


def e2e_statement(c, hdr, ids):
    """record b of the contract for an end-to-end case, given what the shard's process is"""
    e = c["e"]
    if e["kind"] == "rt":
        src, fn, tags = "%s:%d" % (e["file"], e["line"]), e["func"], ""
    else:
        src, fn, tags = e["src"], e["fn"], e["tags"] or ""
    return {"time": time_str(e["ts"]), "caller_function": fn, "log_level": hdr["ld%d" % e["level"]],
            "log_level_short_code": hdr["ls%d" % e["level"]], "logger": e["logger"], "thread_id": ids["tid"],
            "thread_name": hdr["tname"], "process_id": ids["pid"], "source_location": src,
            "message": e["full"], "tags": tags, "named": e["pairs"]}


def run_cases(exe, cases, rng, timeout):
    """Run all cases through the harness (sharded). Fills c['got'] (harness record or None) and, for e2e, c['b']."""
    ns = min(vlib.NCPU, max(1, len(cases) // 200))
    shards = [cases[i::ns] for i in range(ns)]
    hdrs = [shard_header(rng) for _ in shards]

    def one(k):
        """one shard = one harness process; if the process dies in a case, that case has no result (judged as such)
        and a new process continues with the cases after it"""
        pending, res, ids_of, deaths, skipped = list(shards[k]), {}, {}, 0, []
        while pending:
            d = vlib.scratch("c12")
            try:
                inp, outp = d / "cases.txt", d / "out.ndjson"
                with open(inp, "w") as f:
                    f.write(header_line(hdrs[k]) + "\n")
                    for j, c in enumerate(pending):
                        if c["op"] != "fmt" and (c["id"] * 7 + k) % 9 == 0:
                            # history: an unjudged named-args statement that is held back (backtrace) or whose sink throws goes
                            # first; the judged statements after it re-use its transit-event slot
                            f.write("P how=%s\n" % ("bt" if (c["id"] // 9) % 2 else "thr"))
                        f.write((d_line(c) if c["op"] == "fmt" else e_line(c)) + "\n")
                rc, so, se = vlib.run_cmd([exe, "run", inp, outp], timeout=timeout)
                if rc == -9:
                    raise vlib.Infra("h_fmt_pattern timeout")
                ids = {"tid": "?", "pid": "?"}
                if outp.exists():
                    for line in outp.read_text(errors="replace").splitlines():
                        try:
                            j = json.loads(line)
                        except Exception:
                            continue
                        if "hdr" in j:
                            ids = j
                        elif "id" in j:
                            res[j["id"]] = j
                            ids_of[j["id"]] = ids
            finally:
                vlib.rm(d)
            first_missing = next((i for i, c in enumerate(pending) if c["id"] not in res), None)
            if first_missing is None:
                break
            deaths += 1
            ids_of[pending[first_missing]["id"]] = ids
            pending = pending[first_missing + 1:]
            if deaths >= 25:
                skipped = [c["id"] for c in pending]      # give up on this shard: the rest is not run, not judged
                break
        return res, ids_of, deaths, set(skipped)

    with ThreadPoolExecutor(max_workers=vlib.NCPU) as ex:
        outs = list(ex.map(one, range(ns)))
    deaths = 0
    for k, (res, ids_of, nd, skipped) in enumerate(outs):
        deaths += nd
        for c in shards[k]:
            c["got"] = res.get(c["id"])
            c["skipped"] = c["id"] in skipped
            c["hdr"], c["ids"] = hdrs[k], ids_of.get(c["id"], {"tid": "?", "pid": "?"})
            if c["op"] == "e2e":
                c["b"] = e2e_statement(c, hdrs[k], c["ids"])
    return deaths


def trace_lines(c):
    """the executions of one case as the contract sees them: one line per sink for an end-to-end case (the pattern of
    the line is the sink's EFFECTIVE pattern: the logger's, or the sink's override pattern)"""
    g = c["got"]
    if c["op"] == "fmt":
        if g is None:
            return [{"op": "fmt", "id": c["id"], "pattern": c["pattern"], "b": c["b"], "res": "missing", "out": ""}]
        return [{"op": "fmt", "id": c["id"], "pattern": c["pattern"], "b": c["b"], "res": g["res"], "out": g["out"]}]
    dead = ["<no output: the harness died in this case>"]
    base = {"op": "e2e", "id": c["id"], "b": c["b"], "multi": bool(c["multi"]), "named": c["e"]["kind"] == "named"}
    sinks = c["e"].get("sinks")
    if not sinks:
        return [dict(base, pattern=c["pattern"], outs=dead if g is None else g["outs"])]
    out = []
    for k, sp in enumerate(sinks):
        so = dead if g is None or len(g.get("souts", [])) <= k else g["souts"][k]
        out.append(dict(base, pattern=c["pattern"] if sp is None else sp, outs=so, sink=k))
    return out


def judge_cases(ck, cases, label="TracePattern"):
    """all executions of the cases through the contract; returns (rejected case indexes, out-of-domain case indexes)
    and records in c['bad_lines'] which of a case's lines were rejected"""
    lines, owner = [], []
    for i, c in enumerate(cases):
        for ln in trace_lines(c):
            lines.append(ln)
            owner.append(i)
    bad_l, nodom_l = validate(ck, lines, label=label)
    bad, dom = set(), set()
    for j, i in enumerate(owner):
        if j in bad_l:
            bad.add(i)
            cases[i].setdefault("bad_lines", []).append(lines[j].get("sink", 0))
        if j not in nodom_l:
            dom.add(i)
    return bad, set(range(len(cases))) - dom, len(lines)


_re_state3 = re.compile(r"State 3: [^\n]*\n((?:/\\ [^\n]*\n)+)")


def validate(ck, lines, label="TracePattern", timeout=900):
    """TLC judges the recorded executions. Returns (set of rejected 0-based indexes, set of out-of-domain indexes).
    Statements (record b) are written once each to a second file and referenced by index."""
    if not lines:
        return set(), set()
    d = vlib.scratch("tv")
    try:
        tp, sp = d / "trace.ndjson", d / "stmts.ndjson"
        idx = {}
        with open(tp, "w") as f, open(sp, "w") as g:
            for ln in lines:
                bj = json.dumps(ln["b"], separators=(",", ":"), sort_keys=True)
                k = idx.get(bj)
                if k is None:
                    k = idx[bj] = len(idx) + 1
                    g.write(bj + "\n")
                o = {kk: v for kk, v in ln.items() if kk != "b"}
                o["bi"] = k
                f.write(json.dumps(o, separators=(",", ":")) + "\n")
        r = vlib.tlc("TracePattern", "TracePattern.cfg", env={"TRACE": str(tp), "STMTS": str(sp)}, timeout=timeout, heap="8g",
                     workers=min(8, vlib.NCPU), extra=["-continue"], dump_trace=False)
    finally:
        vlib.rm(d)
    if r.error and r.violated is None:
        raise vlib.Infra(r.error + "\n" + r.out[-2000:])
    if "Model checking completed" not in r.out:
        raise vlib.Infra("TracePattern did not complete: " + r.out[-1500:])
    nblocks = (len(lines) + 255) // 256
    if r.distinct != len(lines) + nblocks + 1:
        raise vlib.Infra(f"trace not fully consumed: {r.distinct} states for {len(lines)} lines")
    bad = set()
    for blk in _re_state3.findall(r.out):
        m = re.search(r"/\\ l = (\d+)", blk)
        if m:
            bad.add(int(m.group(1)) - 1)
    if r.violated and not bad:
        raise vlib.Infra("TracePattern reported a violation that could not be located: " + r.out[-1500:])
    nodom = {int(m.group(1)) - 1 for m in re.finditer(r'<<"NODOM", (\d+)>>', r.out)}
    ck.add_tlc(r, label)
    return bad, nodom


# --------------------------------------------------------------------------------------------- signatures
def shape(pattern):
    """canonical shape class of a pattern: literal runs -> L, specs -> :S, names kept"""
    out, i = [], 0
    while i < len(pattern):
        if pattern.startswith("%(", i):
            j = pattern.find(")", i)
            if j < 0:
                out.append("%(OPEN")
                break
            body = pattern[i + 2:j]
            name = body.split(":", 1)[0]
            out.append("%(" + (name if name in NAMES else "UNKNOWN") + (":S" if ":" in body else "") + ")")
            i = j + 1
        else:
            if not out or out[-1] != "L":
                out.append("L")
            i += 1
    s = "".join(out)
    return s if len(s) <= 80 else s[:40] + "~" + hashlib.sha1(s.encode()).hexdigest()[:10]


def signature(c):
    g = c["got"]
    if c["op"] == "fmt":
        what = "no-result" if g is None else ("rejected" if g["res"] == "rejected" else "format-error" if g["res"] == "error" else "text")
        return "fmt:%s:%s" % (what, shape(c["pattern"]))
    m = c["e"]["full"]
    nl = re.sub(r"[^\n]+", "c", m).replace("\n", "n")
    n = -1 if g is None else len(g["outs"])
    sinks = c["e"].get("sinks")
    if sinks:
        arr = "".join("P" if s is None else "O" for s in sinks)
        return "e2e-sinks:%s:multi=%d:msg=%s:sinks=%s:rejected-sink=%s" % (
            c["e"]["kind"], 1 if c["multi"] else 0, nl[:24], arr, ",".join(str(k) for k in sorted(set(c.get("bad_lines", [])))))
    return "e2e:%s:multi=%d:msg=%s:lines=%d:%s" % (c["e"]["kind"], 1 if c["multi"] else 0, nl[:24], n, shape(c["pattern"]))


# --------------------------------------------------------------------------------------------- TLC configs
def cover_subsets(names, k=6):
    """rotating subsets: every pair of attributes lies in one subset (greedy covering design, deterministic)"""
    n = len(names)
    pairs = set(itertools.combinations(range(n), 2))
    subsets = []
    while pairs:
        S = []
        while len(S) < k:
            def gain(x):
                return (sum(1 for y in S if (min(x, y), max(x, y)) in pairs), sum(1 for q in pairs if x in q), -x)
            S.append(max((c for c in range(n) if c not in S), key=gain))
        for q in itertools.combinations(sorted(S), 2):
            pairs.discard(q)
        subsets.append([names[i] for i in sorted(S)])
    return subsets


def sset(xs):
    return "{" + ", ".join('"%s"' % x for x in xs) + "}"


def nset(xs):
    return "{" + ", ".join(str(x) for x in xs) + "}"


def pattern_cfg(name, phase, attrs, subsets=None, max_items=3, lits=("x",), specs=(1,), braces=False, unk=False,
                open_=False, max_msg=5, max_src=6, export=False, invs=("AllPatternOK",)):
    subsets = subsets or [list(attrs)]
    text = ("SPECIFICATION Spec\nCONSTANTS\n Phase = \"%s\"\n Attrs = %s\n Subsets = {%s}\n MaxItems = %d\n"
            " LitSyms = %s\n SpecIds = %s\n WithBraces = %s\n WithUnknown = %s\n WithOpen = %s\n MaxMsg = %d\n"
            " MaxSrc = %d\n Export = %s\nINVARIANTS %s\n%sCHECK_DEADLOCK FALSE\n"
            % (phase, sset(attrs), ", ".join(sset(s) for s in subsets), max_items, sset(lits),
               nset(specs), str(braces).upper(), str(unk).upper(), str(open_).upper(), max_msg,
               max_src, str(export).upper(), " ".join(invs), "ACTION_CONSTRAINT ExportA\n" if export else ""))
    return vlib.write_cfg(vlib.BUILD / "cfg" / (name + ".cfg"), text)


def extract_constants(ck, exe):
    rc, so, se = vlib.run_cmd([exe, "extract"], timeout=60)
    if rc != 0:
        raise vlib.Infra("h_fmt_pattern extract failed: " + se[-500:])
    j = json.loads(so.strip().splitlines()[-1])
    ok = all(sorted(j[k]) == sorted(NAMES) and j[k + "_idx"] == list(range(16)) for k in ("enum_order", "map_order", "arg_order"))
    ck.extra["extracted_tables"] = {k: j[k] for k in ("enum_order", "map_order", "arg_order")}
    ck.extra["extracted_tables_idx"] = {k: j[k + "_idx"] for k in ("enum_order", "map_order", "arg_order")}
    if not ok or j["nr"] != 16:
        # the code's tables are no permutation of the sixteen documented attributes: the transcription cannot be
        # instantiated faithfully; keep exploring the real code, judged by the contract only
        ck.drifted("attribute tables extracted from the code are not a permutation of the 16 attributes: %s" % json.dumps(j))
        j = {"enum_order": NAMES, "map_order": NAMES, "arg_order": NAMES}
    p = vlib.BUILD / "cfg" / "C12_consts.json"
    p.parent.mkdir(parents=True, exist_ok=True)
    p.write_text(json.dumps({k: j[k] for k in ("enum_order", "map_order", "arg_order")}) + "\n")
    return p


# --------------------------------------------------------------------------------------------- case generation
def cases_from_pattern_beh(behs, ab, rng, seeded_variants, origin, pool):
    """seeded_variants: probability that a case also gets a variant with seeded special values"""
    out = []
    for b in behs:
        flat = b["flat"]
        pat = concretise_flat(flat)
        st, raw = ab.statement()
        pred = {"rej": b["rej"], "err": b["err"], "out": None if (b["rej"] or b["err"]) else ab.text(b["out"])}
        out.append({"op": "fmt", "pattern": pat, "b": st, "raw": raw, "origin": origin, "pred": pred,
                    "cls": "must" if b["must"] else "valid" if b["valid"] else "other"})
        for _ in range(1 if rng.random() < seeded_variants else 0):
            st2, raw2 = rng.choice(pool)
            out.append({"op": "fmt", "pattern": concretise_flat(flat, rng), "b": st2, "raw": raw2, "origin": origin + "+seeded",
                        "cls": "must" if b["must"] else "valid" if b["valid"] else "other"})
    return out


MSG_CHARS_ANY = "abcXYZ019 _-{}%()[]:;,.!?<>=+*/\\'\"#@&|~^$"
MSG_CHARS_PLAIN = "abcdefgXYZ019 _-.,;:!?()[]"


def cases_from_message_beh(behs, rng, origin):
    out = []
    for b in behs:
        for multi in (True, False):
            for kind in ("plain", "named", "rt"):
                alphabet = MSG_CHARS_PLAIN if kind == "named" else MSG_CHARS_ANY
                msg = "".join("\n" if s == "\n" else rng.choice(alphabet) for s in b["msg"])
                pat = concretise_flat(b["flat"], rng)
                e = {"kind": kind, "logger": (rnd_value(rng)[:40] or "lg"), "level": rng.randint(3, 8),
                     "ts": rng.randrange(10**18, 19 * 10**17), "src": rnd_src(rng), "fn": rnd_value(rng)[:64],
                     "tags": None if rng.random() < 0.5 else rng.choice(["#t ", "{}", "%"]), "msg": msg,
                     "full": msg, "pairs": []}
                if kind == "named":
                    v1, v2 = rng.choice(["", "v", "7", "a b"]), rng.choice(["", "w", "{}"])
                    two = rng.random() < 0.4
                    e["tmpl"] = "{alpha}" + msg + ("{beta}" if two else "")
                    e["nv"] = [v1, v2] if two else [v1]
                    e["full"] = v1 + msg + (v2 if two else "")
                    e["pairs"] = [["alpha", v1]] + ([["beta", v2]] if two else [])
                if kind == "rt":
                    e["file"] = rnd_src(rng).rsplit(":", 1)[0]
                    e["line"] = rng.choice([1, 42, 65535, 1234567])
                    e["func"] = rnd_value(rng)[:64]
                # model prediction of the message pieces handed to the formatter (strict, layer I)
                pieces = None
                if kind != "named":
                    pieces = ["".join(p) for p in (b["split"] if multi else [b["single"]])]
                out.append({"op": "e2e", "pattern": pat, "multi": multi, "e": e, "origin": origin,
                            "pieces_shape": pieces, "cls": "valid"})
    return out


SINK_ARRANGEMENTS = [a for n in (2, 3) for a in itertools.permutations(("P", "A", "B"), n)] + \
    [("A", "P", "P"), ("P", "A", "P"), ("A", "A", "P"), ("A", "B", "A")]


def valid_pattern(rng, prefix):
    while True:
        pat, cls = rnd_pattern(rng)
        if cls == "valid" and len(pat) < 200:
            return prefix + pat


def cases_multi_sink(behs, rng, per_arrangement, origin="multi_sink"):
    """one logger with 2-3 recording sinks in every order of {plain, override(pattern A), override(pattern B)}; statements
    pass all sinks; multi-line messages (every newline arrangement TLC enumerated, sampled) in both modes"""
    msgs = [[]] + sorted({tuple(b["msg"]) for b in behs})
    out = []
    for arr in SINK_ARRANGEMENTS:
        for shape_ in ([msgs[0]] + rng.sample(msgs[1:], min(per_arrangement, len(msgs) - 1)) if per_arrangement < len(msgs) else msgs):
            for multi in (True, False):
                kinds = ["plain", rng.choice(["rt", "named"])] if per_arrangement < len(msgs) else ["plain", "rt", "named"]
                for kind in kinds:
                    alphabet = MSG_CHARS_PLAIN if kind == "named" else MSG_CHARS_ANY
                    msg = "".join("\n" if s == "\n" else rng.choice(alphabet) for s in shape_)
                    ov = {"A": valid_pattern(rng, "A|"), "B": valid_pattern(rng, "B>")}
                    e = {"kind": kind, "logger": (rnd_value(rng)[:40] or "lg"), "level": rng.randint(3, 8),
                         "ts": rng.randrange(10**18, 19 * 10**17), "src": rnd_src(rng), "fn": rnd_value(rng)[:64],
                         "tags": None if rng.random() < 0.5 else rng.choice(["#t ", "{}", "%"]), "msg": msg,
                         "full": msg, "pairs": [], "sinks": [None if k == "P" else ov[k] for k in arr]}
                    if kind == "named":
                        v1 = rng.choice(["", "v", "7", "a b"])
                        e["tmpl"], e["nv"], e["full"], e["pairs"] = "{alpha}" + msg, [v1], v1 + msg, [["alpha", v1]]
                    if kind == "rt":
                        e["file"] = rnd_src(rng).rsplit(":", 1)[0]
                        e["line"] = rng.choice([1, 42, 65535])
                        e["func"] = rnd_value(rng)[:64]
                    out.append({"op": "e2e", "pattern": valid_pattern(rng, "L="), "multi": multi, "e": e, "origin": origin,
                                "cls": "valid", "pieces_shape": None})
    return out


def cases_from_source_beh(behs, ab, rng, origin):
    out = []
    pat = "%(file_name)|%(line_number)|%(full_path)|%(source_location)|%(short_source_location)|%(message)"
    for b in behs:
        if not b["wf"]:
            continue
        for strict in (True, False):
            src = "".join(s if strict or s in "/:" else (rng.choice("abcxyz{}%. ") if s == "d" else rng.choice("0123456789")) for s in b["src"])
            st, raw = ab.statement(src=src)
            out.append({"op": "fmt", "pattern": pat, "b": st, "raw": raw, "origin": origin, "cls": "valid"})
    return out


def rnd_spec(rng):
    r = rng.random()
    if r < 0.35:
        return ""
    w = str(rng.choice([1, 2, 3, 5, 8, 12, 28, 40, 99, 120, 600]))
    r = rng.random()
    if r < 0.2:
        return ":" + w
    al = rng.choice("<>^")
    if r < 0.6:
        return ":" + al + w
    if r < 0.65:
        return ":" + al            # alignment without width
    if r < 0.7:
        return ":"
    return ":" + rng.choice("*-_.#0 %:=+xX<>^(/\\'\"") + al + w


def rnd_pattern(rng):
    """seeded random larger pattern; returns (text, intended class)"""
    k = rng.choice([1, 2, 3, 5, 8, 12, 16, 16])
    attrs = rng.sample(NAMES, k)
    parts, cls = [], "valid"
    lits = LIT_CHUNKS + ["%", "%%", "(", ")", ":", "% (", "%)", "100% ", ":)", "((", "%:", "\n", " [", "] "]
    for a in attrs:
        if rng.random() < 0.7:
            parts.append(rng.choice(lits))
        parts.append("%(" + a + rnd_spec(rng) + ")")
    if rng.random() < 0.6:
        parts.append(rng.choice(lits))
    r = rng.random()
    if r < 0.12:
        parts.insert(rng.randrange(len(parts) + 1), "%(" + rng.choice(UNKNOWN_NAMES) + rng.choice(["", ":<5"]) + ")")
        cls = "must"
    elif r < 0.2:
        # unterminated: cut the pattern inside its last item
        text = "".join(parts)
        j = text.rfind("%(")
        cut = text[:j + 2 + rng.randint(0, 6)]
        if ")" not in cut[j:]:
            return cut, "must"
    elif r < 0.25:
        parts.insert(rng.randrange(len(parts) + 1), rng.choice(["{{", "}}", "{{}}"]))
        cls = "other"
    return "".join(parts), cls


def random_cases(rng, n_direct, n_e2e):
    out = []
    for _ in range(n_direct):
        pat, cls = rnd_pattern(rng)
        st, raw = rnd_statement(rng)
        out.append({"op": "fmt", "pattern": pat, "b": st, "raw": raw, "origin": "random", "cls": cls})
    for _ in range(n_e2e):
        pat, cls = rnd_pattern(rng)
        while cls != "valid":
            pat, cls = rnd_pattern(rng)
        n = rng.choice([0, 1, 2, 3, 6, 12])
        msg = "".join(rng.choice(["\n", "\n"] + list(MSG_CHARS_ANY[:20])) for _ in range(n)) if rng.random() < 0.8 else \
            "\n".join("".join(rng.choice(MSG_CHARS_ANY) for _ in range(rng.choice([0, 3, 300]))) for _ in range(rng.randint(1, 5)))
        kind = rng.choice(["plain", "plain", "rt"])
        e = {"kind": kind, "logger": (rnd_value(rng)[:40] or "lg"), "level": rng.randint(3, 8),
             "ts": rng.randrange(10**18, 19 * 10**17), "src": rnd_src(rng), "fn": rnd_value(rng)[:64],
             "tags": None if rng.random() < 0.5 else rng.choice(["#t ", "{}", "%"]), "msg": msg, "full": msg, "pairs": []}
        if kind == "rt":
            e["file"] = rnd_src(rng).rsplit(":", 1)[0]
            e["line"] = rng.choice([1, 42, 65535, 1234567])
            e["func"] = rnd_value(rng)[:64]
        out.append({"op": "e2e", "pattern": pat, "multi": rng.random() < 0.5, "e": e, "origin": "random", "cls": "valid",
                    "pieces_shape": None})
    return out


# --------------------------------------------------------------------------------------------- the check
def build_harness():
    return vlib.build("h_fmt_pattern", [vlib.HARNESS / "h_fmt_pattern.cpp"], flags=["-fno-access-control"])


def tlc_pattern(cfg, consts, **kw):
    return vlib.tlc_must("Pattern", cfg, env={"C12_CONSTS": str(consts)}, **kw)


def run(ck):
    quick = ck.tier == "quick"
    rng = random.Random(ck.seed)
    ck.rule = ("case = (pattern text, statement values[, message, multi-line mode, metadata kind]); cases = every case "
               "TLC enumerates within the bounds (exported), each concretised strictly and with seeded special values, "
               "+ seeded random larger patterns; non-trivial = in the contract's domain (valid pattern or must-be-rejected "
               "pattern); distinct by pattern text + values")
    ck.assumptions = [
        "valid pattern: literal text contains no brace (outside %(..) the pattern is fmt syntax: '{{' is an escaped brace, a lone brace is a fmt error); patterns with braces in literal text are explored but judged by the transcription only (drift), never by the contract",
        "valid pattern: each attribute at most once (property: 'each used once'; the header documents that repeating one is not supported)",
        "format specs are the width/alignment subset of the fmt mini-language [[fill]align][width] (fill: any character except braces and ')'; width 1..999 without leading zero); other specs (precision, type) are outside the explored inputs",
        "the empty pattern is not a pattern (documented as 'no formatting': format() returns an empty view, used by JSON sinks)",
        "%(named_args) renders the pairs as 'key: value' joined by ', ' (the shipped rendering; the property does not define it), empty without named args; %(tags) is empty when the statement has no tags",
        "file_name / full_path / line_number / short_source_location derive from source_location = 'path:line': path = text before the last ':', file name = text after the last '/' of the path; source locations whose line part contains '/' or that have no ':' are outside the inputs",
        "lines of a message = pieces between newlines, a newline at the very end terminates the last line (no extra empty line), the empty message is one empty line",
        "'at most one trailing newline removed' (mode off): removing none or exactly one is accepted, never more",
        "statements with named arguments in mode on: the option is documented as ignored for them, so one whole statement or one line per message line are both accepted",
        "%(time): timestamp pattern %H:%M:%S.%Qns (or %S), GMT, instants in 2001..2030, expected text computed independently from the instant; the time format itself is C13's subject",
        "message text end to end is printable ASCII plus newline (anything else is rewritten by check_printable_char) and does not contain the runtime-metadata separator \\x01\\x02\\x03",
        "values are ASCII (fmt measures width in code points / display columns; not explored)",
        "loggers with several sinks: each sink is judged against its effective pattern (the sink's override_pattern_formatter_options pattern if it has one, else the logger's); an override sink's add_metadata_to_multi_line_logs is set equal to the logger's (the code takes the split decision from the logger's options; a sink option that differs is outside the inputs), same timestamp pattern/zone",
        "end to end the thread id, process id come from the harness process (gettid/getpid), the thread name is set by the harness before the first statement (<= 15 characters), level names/short codes are set through BackendOptions",
    ]
    exe = build_harness()
    consts = extract_constants(ck, exe)

    # ---- 1. design level: the transcription satisfies the contract for every case within the bounds
    subsets = cover_subsets(NAMES, 6)
    ck.extra["rotating_subsets"] = subsets
    ALL_LITS = ("x", "%", "(", ")", ":")
    parse_attrs = ["message", "time", "line_number"]
    runs = []   # (label, cfg, tlc kwargs, export?)
    COV = {"coverage": True}
    # vacuity self-test: -coverage slows TLC 2-4x, so it runs on a 2-item configuration of each kind (same module, same
    # actions); for the configurations that export, the per-action case counts are taken from the export itself
    runs.append(("Cov_parse2", pattern_cfg("C12_Cov_parse2", "pattern", parse_attrs, max_items=2, lits=ALL_LITS,
                                           specs=range(1, 8), braces=True, unk=True, open_=True), COV, False))
    runs.append(("Cov_slots2", pattern_cfg("C12_Cov_slots2", "pattern", NAMES, subsets, max_items=2, specs=(1,)), COV, False))
    if quick:
        runs.append(("MC_parse3", pattern_cfg("C12_MC_parse3", "pattern", parse_attrs, max_items=3, lits=ALL_LITS,
                                              specs=range(1, 8), braces=True, unk=True, open_=True, export=True), {}, True))
        runs.append(("MC_parse4", pattern_cfg("C12_MC_parse4", "pattern", ["message", "time"], max_items=4, lits=ALL_LITS,
                                              specs=(2, 6), braces=True, unk=True, open_=True), {}, False))
        runs.append(("MC_slots3", pattern_cfg("C12_MC_slots3", "pattern", NAMES, subsets, max_items=3, specs=(1,), export=True), {}, True))
        runs.append(("MC_slots4", pattern_cfg("C12_MC_slots4", "pattern", NAMES, subsets, max_items=4, specs=()), {}, False))
    else:
        runs.append(("MC_parse3", pattern_cfg("C12_MC_parse3", "pattern", parse_attrs, max_items=3, lits=ALL_LITS,
                                              specs=range(1, 8), braces=True, unk=True, open_=True, export=True), {}, True))
        runs.append(("MC_parse4", pattern_cfg("C12_MC_parse4", "pattern", ["message", "time"], max_items=4, lits=ALL_LITS,
                                              specs=range(1, 8), braces=True, unk=True, open_=True, export=True), {}, True))
        runs.append(("MC_slots4", pattern_cfg("C12_MC_slots4", "pattern", NAMES, subsets, max_items=4, specs=(2,), export=True), {}, True))
        runs.append(("MC_slots5", pattern_cfg("C12_MC_slots5", "pattern", NAMES, subsets, max_items=5, specs=()), {}, False))
        runs.append(("MC_slots6", pattern_cfg("C12_MC_slots6", "pattern", NAMES, subsets, max_items=6, lits=(), specs=()), {}, False))
        runs.append(("MC_all16_3", pattern_cfg("C12_MC_all16_3", "pattern", NAMES, max_items=3, specs=(1,), unk=True), {}, False))
    runs.append(("MC_message", pattern_cfg("C12_MC_message", "message", NAMES, max_msg=5 if quick else 7, export=True,
                                           invs=("LinesOK", "SplitExact", "SinksOK")), COV, True))
    runs.append(("MC_source", pattern_cfg("C12_MC_source", "source", NAMES, max_src=6 if quick else 8, export=True,
                                          invs=("MetaOK",)), COV, True))
    # random walks to deep patterns (up to 20 items, all sixteen attributes in one pattern: the last slot is in use)
    runs.append(("Sim_deep", pattern_cfg("C12_Sim_deep", "pattern", NAMES, max_items=20, lits=("x", "%"), specs=(1, 2, 3),
                                         unk=False, open_=False, export=True),
                 {"simulate": max(1, (160 if quick else 1600) // vlib.NCPU), "depth": 21, "seed": ck.seed}, True))

    need = {"Cov_parse2": ("ALit", "ABrace", "AAttr", "AAttrSpec", "AUnknown", "AOpen"),
            "Cov_slots2": ("ALit", "AAttr", "AAttrSpec"), "MC_message": ("AMsgSym",), "MC_source": ("ASrcSym",)}
    need_acts = {"MC_parse3": ("lit", "brace", "attr", "attr+spec", "unk", "open"),
                 "MC_parse4": ("lit", "brace", "attr", "attr+spec", "unk", "open"),
                 "MC_slots3": ("lit", "attr", "attr+spec"), "MC_slots4": ("lit", "attr"),
                 "Sim_deep": ("lit", "attr", "attr+spec")}
    behs, hdr = {}, None
    model_cex = []
    fast = os.environ.get("C12_FAST") == "1"      # binding self-test (mutations/C12_mutations.py): exporting runs only
    if fast:
        ck.extra["fast_mode"] = "C12_FAST=1: non-exporting model-checking configurations skipped"
    for label, cfg, kw, export in runs:
        if fast and not export:
            continue
        sim = "simulate" in kw
        r = tlc_pattern(cfg, consts, timeout=1500, **kw)
        if sim:
            m = re.search(r"The number of states generated: (\d+)", r.out)
            if m:
                r.generated = r.distinct = int(m.group(1))     # random walks: states checked, not distinct states
        if r.violated == "AllPatternOK":
            # name the clause: same configuration with the three properties as separate invariants
            r3 = tlc_pattern(vlib.write_cfg(vlib.BUILD / "cfg" / "C12_named.cfg",
                                            cfg.read_text().replace("INVARIANTS AllPatternOK", "INVARIANTS PatternOK GrammarOK EscapesOK")
                                            .replace("ACTION_CONSTRAINT ExportA\n", "").replace("Export = TRUE", "Export = FALSE")),
                             consts, timeout=1500, **{k: v for k, v in kw.items() if k != "coverage"})
            if r3.violated:
                r.violated, r.trace = r3.violated, r3.trace
        if r.violated:
            # the transcription (with the tables extracted from the code) breaks the contract: not a verdict by
            # itself; the counterexample is run on the real code below and judged there
            p = (r.trace or [{}])[-1].get("p")
            model_cex.append((label, r.violated, p))
            ck.extra.setdefault("model_counterexamples", []).append({"config": label, "invariant": r.violated, "p": p})
        elif kw.get("coverage"):
            for act in need.get(label, ()):
                if r.coverage.get(act, (0, 0))[1] == 0:
                    raise vlib.Infra(f"vacuity: action {act} never enabled in {label}")
        ck.add_tlc(r, label)
        vlib.log(f"[C12] {label}: {r.distinct} distinct / {r.generated} generated, {r.wall:.1f}s")
        if export:
            h = vlib.behaviours(r, "HDR")
            if h:
                hdr = h[0]
            bl = vlib.behaviours(r)
            if not r.violated and not sim and len(bl) != r.generated - (4 if label == "MC_message" else 1):
                raise vlib.Infra(f"{label}: exported {len(bl)} cases for {r.generated} generated states")
            uniq = {}
            for b in bl:          # the same state can be generated more than once (several subsets fit)
                uniq.setdefault(json.dumps(b, sort_keys=True), b)
            behs[label] = list(uniq.values())
            acts = _count(behs[label], "act") if behs[label] and "act" in behs[label][0] else {}
            ck.extra.setdefault("cases_per_action", {})[label] = acts
            for act in need_acts.get(label, ()):
                if not acts.get(act) and not r.violated:       # (TLC stops at a counterexample: export incomplete)
                    raise vlib.Infra(f"vacuity: no exported case of {label} was built by action {act}")
    ck.exhaustive = not model_cex and not fast
    if hdr is None:
        raise vlib.Infra("no HDR line in the TLC export")
    ab = Abstract(hdr)

    # ---- 2. cases for the real code
    pool = [rnd_statement(rng) for _ in range(400 if quick else 4000)]     # seeded statements shared by many patterns
    cases = []
    for label, bs in behs.items():
        if label == "MC_message":
            cases += cases_from_message_beh(bs, rng, label)
            cases += cases_multi_sink(bs, rng, 12 if quick else 10**6)
        elif label == "MC_source":
            cases += cases_from_source_beh(bs, ab, rng, label)
        else:
            cases += cases_from_pattern_beh(bs, ab, rng, 1.0 if quick else 0.25, label, pool)
    for label, inv, p in model_cex:
        if p:
            flat = _flat_of_items(p, hdr["specs"])
            st, raw = ab.statement()
            cases.append({"op": "fmt", "pattern": concretise_flat(flat), "b": st, "raw": raw, "origin": "model-cex:" + label, "cls": "valid"})
    n_tlc = len(cases)
    cases += random_cases(rng, 4000 if quick else 60000, 600 if quick else 3000)
    for i, c in enumerate(cases):
        c["id"] = i + 1
        if c["op"] == "e2e":
            c["e"]["logger"] += "#%d" % c["id"]      # logger names are unique per process
    ck.extra["cases_from_tlc"] = n_tlc
    ck.extra["cases_random"] = len(cases) - n_tlc

    # ---- 3. real code, 4. contract
    t0 = time.time()
    vlib.log(f"[C12] {len(cases)} cases ({n_tlc} from TLC)")
    deaths = run_cases(exe, cases, rng, timeout=600 if quick else 1500)
    ck.extra["harness_process_deaths"] = deaths          # a case in which the process died is judged as "no result"
    nskip = sum(1 for c in cases if c["skipped"])
    if nskip:
        ck.extra["cases_not_run"] = nskip
        cases = [c for c in cases if not c["skipped"]]
    vlib.log(f"[C12] harness {time.time() - t0:.1f}s")
    t0 = time.time()
    bad, nodom, nlines = judge_cases(ck, cases)
    ck.extra["executions_judged_lines"] = nlines        # one per (statement, sink)
    vlib.log(f"[C12] contract validation {time.time() - t0:.1f}s, rejected {len(bad)}, outside domain {len(nodom)}")
    judged = 0
    for i, c in enumerate(cases):
        dom = i not in nodom
        key = hashlib.sha1((c["pattern"] + "\0" + json.dumps(c["b"], sort_keys=True) + str(c.get("multi"))).encode()).hexdigest()[:16]
        ck.case(key, dom)
        if dom and i not in bad:
            judged += 1
    ck.traces_validated += judged
    ck.extra["executions_outside_contract_domain"] = len(nodom)
    ck.extra["by_origin"] = _count(cases, "origin")
    ck.extra["by_class_intended"] = _count(cases, "cls")
    _samples(ck, cases)

    # ---- 5. rejected executions: re-run in isolation, report those that repeat
    seen = set()
    for i in sorted(bad):
        c = cases[i]
        sig0 = signature(c)
        if sig0 in seen or len(seen) >= 12:
            continue
        seen.add(sig0)
        c2 = _rerun_with_header(exe, c, c["hdr"])    # same process-wide settings as in the first run
        b2, _, _ = judge_cases(ck, [c2], label=None)
        if b2:
            sig = signature(c2)
            ck.violation(sig, _describe(c2), {"case": _replayable(c2), "trace_lines": trace_lines(c2),
                                             "harness": "h_fmt_pattern", "signature": sig})
        else:
            ck.drifted(f"rejection of case {c['id']} ({sig0}) did not repeat in isolation")

    # ---- 6. drift: the real code against the transcription's own prediction (never a verdict)
    ndrift = 0
    for i, c in enumerate(cases):
        g = c.get("got")
        if i in bad or g is None:
            continue
        if c["op"] == "fmt" and "pred" in c:
            pr = c["pred"]
            same = (pr["rej"] and g["res"] == "rejected") or (not pr["rej"] and pr["err"] and g["res"] == "error") or \
                   (not pr["rej"] and not pr["err"] and g["res"] == "ok" and g["out"] == pr["out"])
            if not same:
                ndrift += 1
                ck.drifted(f"pattern {c['pattern']!r}: model predicts {pr}, code gives {g['res']} {g['out']!r}")
        elif c["op"] == "e2e" and c.get("pieces_shape") is not None:
            want = [len(x) for x in c["pieces_shape"]]
            if [len(m) for m in g["msgs"]] != want:
                ndrift += 1
                ck.drifted(f"message {c['e']['msg']!r} multi={c['multi']}: model predicts pieces of lengths {want}, sink saw {g['msgs']!r}")
    ck.extra["drift_mismatches"] = ndrift
    for label, inv, p in model_cex:
        ck.drifted(f"transcription with the extracted tables violates {inv} in {label} (counterexample replayed on the code, judged by the contract)")


def _flat_of_items(items, specs):
    out = []
    for it in items:
        t = it["t"]
        sp = specs[it["sp"] - 1] if it.get("sp") else []
        if t == "lit":
            out.append(it["s"])
        elif t == "brace":
            out += [it["s"], it["s"]]
        elif t == "attr":
            out += ["%", "(", it["a"]] + list(sp) + [")"]
        elif t == "unk":
            out += ["%", "(", "bogus"] + list(sp) + [")"]
        elif t == "open":
            out += ["%", "(", it["a"]]
    return out


def _count(cases, k):
    d = {}
    for c in cases:
        d[c[k]] = d.get(c[k], 0) + 1
    return d


def _samples(ck, cases):
    want = ["MC_parse", "MC_slots", "MC_message", "multi_sink", "Sim_deep", "random"]
    for w in want:
        best = None
        for c in cases:
            if c["origin"].startswith(w) and c["cls"] == "valid" and c.get("got"):
                score = c["pattern"].count("%(") * 10 + ("\n" in c["e"]["msg"] if c["op"] == "e2e" else 0) * 25 - len(c["pattern"]) / 40
                if best is None or score > best[0]:
                    best = (score, c)
        if best:
            c = best[1]
            g = c["got"]
            s = {"origin": c["origin"], "pattern": c["pattern"][:240]}
            if c["op"] == "fmt":
                s["values"] = {k: (v if isinstance(v, list) else v[:40]) for k, v in c["b"].items()}
                s["out"] = g["out"][:300]
            else:
                s.update({"message": c["e"]["msg"], "multi": c["multi"], "kind": c["e"]["kind"], "outs": [o[:160] for o in g["outs"][:6]]})
                if c["e"].get("sinks"):
                    s.update({"sinks": c["e"]["sinks"], "per_sink": [[o[:120] for o in so[:4]] for so in g.get("souts", [])]})
            ck.sample(s)


def _describe(c):
    g = c.get("got")
    if c["op"] == "fmt":
        return "pattern %r with values %s: code gives %s" % (c["pattern"], json.dumps(c["b"])[:600], json.dumps(g)[:600])
    if c["e"].get("sinks"):
        return "logger pattern %r, sinks (None = plain, else override pattern) %r, message %r, multi=%s, kind=%s: sinks %s rejected; received %s" % (
            c["pattern"], c["e"]["sinks"], c["e"]["full"], c["multi"], c["e"]["kind"], sorted(set(c.get("bad_lines", []))), json.dumps(g)[:900])
    return "pattern %r, message %r, multi=%s, kind=%s: sink received %s" % (
        c["pattern"], c["e"]["full"], c["multi"], c["e"]["kind"], json.dumps(g)[:800])


def _replayable(c):
    return {k: c[k] for k in ("op", "pattern", "b", "raw", "multi", "e", "hdr", "id") if k in c}


def _rerun_with_header(exe, c, hdr):
    c2 = {k: v for k, v in c.items() if k not in ("got", "bad_lines")}
    d = vlib.scratch("c12r")
    try:
        inp, outp = d / "cases.txt", d / "out.ndjson"
        # an end-to-end case is re-run behind the same kind of history it may have had in its shard (both unjudged history
        # statements: every transit-event slot has then been used by one of them)
        inp.write_text(header_line(hdr) + "\n" + (d_line(c2) if c2["op"] == "fmt" else "P how=bt\nP how=thr\n" + e_line(c2)) + "\n")
        vlib.run_cmd([exe, "run", inp, outp], timeout=120)
        got, ids = None, {"tid": "?", "pid": "?"}
        if outp.exists():
            for line in outp.read_text().splitlines():
                j = json.loads(line)
                if "hdr" in j:
                    ids = j
                else:
                    got = j
        c2["got"], c2["hdr"], c2["ids"] = got, hdr, ids
        if c2["op"] == "e2e":
            c2["b"] = e2e_statement(c2, hdr, ids)
        return c2
    finally:
        vlib.rm(d)


def replay(ck, path):
    j = json.loads(open(path).read())["replay"]
    exe = build_harness()
    c = j["case"]
    c2 = _rerun_with_header(exe, c, c.get("hdr") or shard_header(random.Random(1)))
    for ln in trace_lines(c2):
        print(json.dumps(ln))
    bad, nodom, _ = judge_cases(ck, [c2], label="TracePattern(replay)")
    if bad:
        sig = signature(c2)
        ck.violation(sig, _describe(c2), {"case": _replayable(c2), "trace_lines": trace_lines(c2), "harness": "h_fmt_pattern", "signature": sig})
    else:
        ck.traces_validated += 1
