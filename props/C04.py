"""C04 - the asynchronously formatted message equals formatting the arguments at the call site; arguments are
deep-copied; reserved = written = consumed bytes.
Spec: spec/Codec.tla (the three codec passes per type tree, the per-thread size cache and its clear rule, header,
dynamic level, mutation after the call; invariants ReservedWrittenConsumed, CacheIndexInBounds,
CacheReadsMatchPushes, Snapshot), spec/TraceCodec.tla (contract over recorded executions).
Binding: behaviours exported by TLC (exhaustive pools + simulation) -> tools/gen_codec.py -> C++ units that log
through the real macros / queue / manual backend into a recording sink; the recorded executions are validated by
TLC against the contract. The verdict comes only from the contract rejecting a real execution."""
import json
import vlib, sysh, codec

ASSUMPTIONS = [
    "a null char const* has no defined call-site formatting (fmt throws): expected text is the empty string, as the repository's StringLoggingTest expects ('csn []')",
    "an unterminated char[N] has no defined call-site formatting (reads past the array): expected text is its first N bytes, as StringLoggingTest expects",
    "unordered containers are judged STRICTLY: the message must equal the call-site formatting in the source container's own iteration order (read from the argument itself at the top level, from an identically constructed container when nested; libstdc++ copies preserve the order); a message that equals the call-site formatting for another element order is rejected under the canonical signature text:unordered-container-element-order, any other difference keeps its normal signature; two-element unordered_multimaps get distinct keys so that the source order is identifiable",
    "a direct-format type is by definition logged as the string fmtquill::format(\"{}\", obj) produced at the call site; nested in a container it is therefore rendered as a (quoted) string element, which is what UserDefinedTypeLoggingDirectFormatTest expects: the oracle replaces each direct-format leaf by that string",
    "StringRef is the documented opt-out of the deep copy: its target is neither mutated nor destroyed before the backend ran",
    "sanitisation: the message must always equal the call-site text passed through the configured check_printable_char sanitiser; the documented exception (no sanitising when no argument is string-related) is unobservable here because every generated format literal is printable and only char/string/user-type arguments can render non-printable bytes",
    "cases whose call-site formatting itself throws (fmt format_error) are not judged for text",
    "byte counts Codec.tla predicts (with widths measured on the code at check time) are layer I: a mismatch with the code is drift (exit 0), only reserved = written = consumed and the text are the contract",
    "values: seeded draws from boundary pools per abstract shape; strings of the 0/1/2-length shapes are stretched to runs of up to 130 bytes (one 200000-byte string per run that does not fit the queue buffer)",
]


def trace_lines(results, consts):
    """records of the harness -> TraceCodec lines; index[i] = (tu, case id, si, rep)"""
    lines, index = [], []
    for k, exe, cs, crashes, recs in results:
        meta = {c["id"]: c for c in cs}
        for r in recs:
            if r.get("e") == "Consts":      # a new process
                lines.append({"op": "reset"}); index.append((k, None, None, None))
            elif r.get("e") == "Stmt":
                if r["case"] < 0:
                    continue
                c = meta[r["case"]]
                s = c["stmts"][r["si"]]
                got = r.get("got")
                lines.append({"op": "stmt", "t": r["t"], "reserved": r["reserved"], "hdr": r["hdr"],
                              "dynb": consts["level"] if s["dyn"] else 0, "tp": r["tp"][:3],
                              "got": got if got is not None else "", "gotnull": got is None,
                              "exp": r["exp"], "raw": r["raw"], "alt": r.get("alt", []), "hasstr": bool(r["hasstr"]), "orafail": bool(r["orafail"]),
                              "pred": s["pred"], "cb": r["cb"], "ca": r["ca"], "clears": s["clears"], "npush": s["npush"],
                              "case": r["case"], "si": r["si"], "rep": r["rep"]})
                index.append((k, r["case"], r["si"], r["rep"]))
            elif r.get("e") == "Poll":
                if r["case"] < 0:
                    continue
                lines.append({"op": "poll", "t": r["t"], "consumed": r["consumed"], "nodechg": bool(r["nodechg"]),
                              "case": r["case"], "rep": r["rep"]})
                index.append((k, r["case"], None, r["rep"]))
    return lines, index


def sig_of(case, si, line, consts):
    s = case["stmts"][si if si is not None else -1]
    what = "size"
    if line["op"] == "stmt":
        textok = line["orafail"] or (not line["gotnull"] and (line["got"] in line["exp"] or (not line["hasstr"] and line["got"] in line["raw"])))
        if not textok:
            if not line["gotnull"] and line["got"] in line.get("alt", []):
                # the same elements, rendered in another order than the source container iterates them
                return "text:unordered-container-element-order"
            what = "text-after-mutation" if (s["mut"] and line["rep"] == 1) else "text"
    return f"{what}:{'+'.join(s['types'])}"


def _cut_case(lines, index, at):
    """indexes [a, b) of the lines of the case containing line `at`"""
    k, cid = index[at][0], index[at][1]
    a = at
    while a > 0 and index[a - 1][0] == k and index[a - 1][1] == cid:
        a -= 1
    b = at
    while b < len(lines) and index[b][0] == k and index[b][1] == cid:
        b += 1
    return a, b


def _rejected(ck, lines, label):
    """one TLC pass over the whole trace; returns the 0-based indexes of the lines the contract rejects"""
    if not lines:
        return []
    rt = sysh.validate_trace("TraceCodec", "TraceCodecAll.cfg", lines, timeout=1200)
    if rt.error:
        raise vlib.Infra(rt.error)
    ck.add_tlc(rt, label)
    if rt.distinct != len(lines) + 1:
        raise vlib.Infra(f"trace not fully consumed: {rt.distinct} states for {len(lines)} lines")
    rej = vlib.behaviours(rt, tag="REJ")
    if len(rej) != 1:
        raise vlib.Infra("trace spec did not report its rejections")
    return [x - 1 for x in rej[0]]


def validate(ck, results, consts, lines, index):
    rej = _rejected(ck, lines, "TraceCodec")
    bad_cases = {}
    for at in rej:
        k, cid = index[at][0], index[at][1]
        bad_cases.setdefault((k, cid), []).append(at)
    badset = {(index[i][0], index[i][1]) for i in rej}
    ck.traces_validated += sum(1 for x, ix in zip(lines, index) if x["op"] == "stmt" and (ix[0], ix[1]) not in badset)
    if not bad_cases:
        return
    # every rejection must repeat when the same sequence of cases (the unit up to and including the case: the thread's
    # size cache carries state from one statement to the next) is executed again in a new process
    by_k = {r[0]: r for r in results}
    jobs = sorted(bad_cases)

    def rerun(key):
        k, cid = key
        _, exe, cs, _, _ = by_k[k]
        only = codec.prefix_of(cs, cid)
        rc2, recs2 = codec.run_bin(exe, only=only)
        l2, i2 = trace_lines([(k, exe, cs, [], recs2)], consts)
        keep = [j for j, ix in enumerate(i2) if ix[1] in (None, cid)]
        return only, [l2[j] for j in keep], [i2[j] for j in keep]
    from concurrent.futures import ThreadPoolExecutor
    with ThreadPoolExecutor(max_workers=vlib.NCPU) as ex:
        reruns = list(ex.map(rerun, jobs))
    all2, idx2 = [], []
    for (only, l2, i2) in reruns:
        all2 += l2
        idx2 += i2
    rej2 = _rejected(ck, all2, "TraceCodec(confirm)")
    confirmed = {}
    for at in rej2:
        confirmed.setdefault((idx2[at][0], idx2[at][1]), at)
    for key, (only, l2, i2) in zip(jobs, reruns):
        k, cid = key
        _, exe, cs, _, _ = by_k[k]
        case = next(c for c in cs if c["id"] == cid)
        if key not in confirmed:
            ck.drifted(f"rejection of case {cid} did not repeat when its prefix of cases was executed again")
            continue
        bad = all2[confirmed[key]]
        si = idx2[confirmed[key]][2]
        sg = sig_of(case, si, bad, consts)
        st = case["stmts"][si if si is not None else -1]
        text = (f"case {cid} ({case['origin']}) statement types {st['ctypes']} fmt {st['fmt']!r}: observed "
                f"{json.dumps({x: bad[x] for x in bad if x in ('reserved', 'hdr', 'dynb', 'tp', 'consumed', 'got', 'exp')})[:900]}")
        ck.violation(sg, text, {"unit": f"{vlib.BUILD}/gen_codec/{_tu_name(ck, k)}", "case": cid, "only": only, "cpp": case["cpp"],
                                "trace": l2, "exe": str(exe)})
        ck.extra.setdefault("rejections_by_signature", {})
        ck.extra["rejections_by_signature"][sg] = ck.extra["rejections_by_signature"].get(sg, 0) + 1


def _tu_name(ck, k):
    return f"tu_{'q' if ck.tier == 'quick' else 't'}{k}.cpp"


def check_faithful(ck, lines):
    ri = sysh.validate_trace("TraceCodec", "TraceCodecI.cfg", lines, timeout=900)
    if ri.error:
        raise vlib.Infra(ri.error)
    ck.add_tlc(ri, "TraceCodec(I)")
    if ri.violated:
        bad = lines[ri.trace[-1]["l"] - 2]
        ck.drifted(f"byte count / cache length predicted by Codec.tla differs from the code at case {bad.get('case')} "
                   f"stmt {bad.get('si')}: reserved={bad.get('reserved')} predicted={bad.get('pred')} cache {bad.get('cb')}->{bad.get('ca')} "
                   f"(clears={bad.get('clears')} pushes={bad.get('npush')})")


def run(ck):
    ck.rule = ("cases = behaviours exported by TLC from Codec.tla: every kind at node depth <= 2 (quick) / <= 3 (thorough) as single "
               "statements, statement pairs on one thread over cache-using types, 1..cap+1 C strings, seeded simulation of "
               "<=3-argument statements; concrete values drawn per shape from boundary pools; each case executed twice (second time "
               "with mutation+destruction where the behaviour says so). non-trivial = has a variable-length or composite argument; "
               "distinct by (argument type skeletons, mutation, dynamic level)")
    ck.assumptions = list(ASSUMPTIONS)
    prep = codec.prepare(ck)
    consts = prep["consts"]
    results = codec.build_and_run(ck, prep)
    lines, index = trace_lines(results, consts)
    for c in prep["cases"]:
        for s in c["stmts"]:
            nontriv = any(k not in ("arith", "enum", "ptr") for k in s["kinds"])
            ck.case((tuple(s["types"]), s["mut"], s["dyn"]), nontriv)
    validate(ck, results, consts, lines, index)
    check_faithful(ck, lines)
    handle_crashes(ck, results, consts)
    kinds = sorted(set().union(*[set(s["kinds"]) for c in prep["cases"] for s in c["stmts"]]))
    ck.extra["kinds_covered"] = kinds
    ck.extra["cases"] = len(prep["cases"])
    ck.extra["by_origin"] = {o: sum(1 for c in prep["cases"] if c["origin"] == o) for o in sorted({c["origin"] for c in prep["cases"]})}
    ck.extra["oracle_undefined"] = sum(1 for l in lines if l["op"] == "stmt" and l["orafail"])
    for c in prep["cases"][:3]:
        ck.sample({"case": c["id"], "origin": c["origin"], "statements": [{"types": s["types"], "cpp_types": s["ctypes"], "fmt": s["fmt"],
                   "macro": s["macro"], "mutated_after_call": s["mut"], "predicted_bytes": s["pred"]} for s in c["stmts"]]})
    st = [l for l in lines if l["op"] == "stmt"]
    if st:
        l = st[len(st) // 2]
        ck.sample({"recorded": {x: l[x] for x in ("case", "si", "rep", "reserved", "hdr", "tp", "pred", "got", "exp")}})
    ck.exhaustive = False


def handle_crashes(ck, results, consts):
    """the process died while a case was logged / decoded: no message reached the sink, the text clause is violated
    (if the death repeats when the same prefix of cases is executed again)"""
    for k, exe, cs, crashes, recs in results:
        for cid, prefix, rc, repeated in crashes:
            case = next(c for c in cs if c["id"] == cid)
            if not repeated:
                ck.drifted(f"unit {k}: process died (rc={rc}) in case {cid} but not when the same cases were run again")
                continue
            sg = "crash:" + "|".join("+".join(s["types"]) for s in case["stmts"])
            ck.violation(sg, f"case {cid} ({case['origin']}): process died (rc={rc}) while logging / decoding "
                             f"{[s['ctypes'] for s in case['stmts']]} after cases {prefix[:-1][-3:]}",
                         {"unit": _tu_name(ck, k), "case": cid, "only": prefix, "cpp": case["cpp"], "exe": str(exe)})


def replay(ck, path):
    j = json.loads(open(path).read())["replay"]
    rc, recs = codec.run_bin(j["exe"], only=j.get("only") or [j["case"]])
    print(json.dumps({"exit_code_of_harness": rc}))
    for r in recs:
        print(json.dumps(r))
