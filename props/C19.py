"""C19 - named args: matching text, ordered key/value pairs, one JSON object per line.
Spec: spec/NamedArgs.tla (Detect/Scan/Cache/JoinSplit transcribed, next to the reference grammar),
spec/NamedArgsContract.tla (reference parser + the per-statement contract), spec/TraceNamedArgs.tla (trace validation).
Binding: every template TLC exports goes through the REAL static scanner (model prediction compared: drift) and end to
end through the real frontend/queue/backend into a recording sink and the real JsonFileSink (harness/h_named.cpp);
the recorded executions are judged by TLC against the contract. Verdicts come only from those rejections."""
import json, random
from concurrent.futures import ThreadPoolExecutor
import vlib

ALPHA8 = ["{", "}", ":", "a", "b", "1", ">", " "]
ALPHA7 = ["{", "}", ":", "a", "b", "1", ">"]
LVLS = [4, 6, 7]           # Info, Warning, Error
SIG_SCANNER = "named-args-scanner:placeholder-followed-by-escaped-close-brace"
SIG_SPLIT = "named-args-split:value-contains-separator"
SIG_NL = "json-line:value-contains-newline"
TOKNAME = {"L": "literal", "O": "escaped-open-brace", "C": "escaped-close-brace", "P": "placeholder",
           "S": "placeholder-with-spec", "^": "start", "$": "end"}


# --------------------------------------------------------------------------- encodings
def hx(b):
    return b.hex() if b else "-"


def unhx(h):
    return b"" if h == "-" else bytes.fromhex(h)


def enc(b):
    """injective printable encoding of a byte string (what the trace carries; equality is preserved)"""
    return "".join(chr(c) if (0x20 <= c <= 0x7e and c != 0x5c) else "\\x%02x" % c for c in b)


def chars(b):
    return [enc(bytes([c])) for c in b]


def dec(s):
    """inverse of enc"""
    out, i = bytearray(), 0
    while i < len(s):
        if s[i] == "\\" and s[i + 1:i + 2] == "x":
            out.append(int(s[i + 2:i + 4], 16)); i += 4
        else:
            out.append(ord(s[i])); i += 1
    return bytes(out)


def needs_escaping(b):
    return any(c in (0x22, 0x5c) or c < 0x20 or c > 0x7e for c in b)


# --------------------------------------------------------------------------- harness
def build_harness():
    return vlib.build("h_named", [vlib.HARNESS / "h_named.cpp"], flags=["-fno-access-control"])


def scan_real(exe, templates):
    """templates: list of bytes. Returns list of (det, pos, keys) from the real code."""
    d = vlib.scratch("c19scan")
    try:
        (d / "in.txt").write_text("\n".join(hx(t) for t in templates) + "\n")
        rc, so, se = vlib.run_cmd([exe, "scan", d / "in.txt", d / "out.ndjson"], timeout=600)
        if rc != 0:
            raise vlib.Infra(f"h_named scan failed rc={rc} {se[-300:]}")
        out = []
        for line in (d / "out.ndjson").read_text().splitlines():
            j = json.loads(line)
            out.append((j["det"], unhx(j["pos"]), [(unhx(a), unhx(b)) for a, b in j["keys"]]))
        if len(out) != len([t for t in templates if t]):
            # empty template lines are skipped by the harness; callers never pass them
            raise vlib.Infra("h_named scan: output count mismatch")
        return out
    finally:
        vlib.rm(d)


def logj_cases(exe):
    d = vlib.scratch("c19j")
    try:
        rc, so, se = vlib.run_cmd([exe, "logj", d / "j.ndjson"], timeout=60)
        if rc != 0:
            raise vlib.Infra("h_named logj failed")
        js = list(map(json.loads, (d / "j.ndjson").read_text().splitlines()))
        sep = next(unhx(j["sep"]) for j in js if "sep" in j)
        return sep, [dict(k=j["k"], tpl=unhx(j["tpl"]), types=j["types"], lvl=j["lvl"],
                          names=[n for n in j["names"].split(",") if n]) for j in js if "k" in j]
    finally:
        vlib.rm(d)


def _script(stmts, mode):
    L = ["opt " + mode]
    for st in stmts:
        head = (f"J {st['id']} {st['jcase']}" if st.get("jcase") is not None
                else f"S {st['id']} {st['lvl']} {hx(st['tpl'])}")
        L.append(" ".join([head, hx(st["refpos"]), str(len(st["specs"]))] + [hx(s) for s in st["specs"]] +
                          [str(len(st["args"]))] + [a[0] + hx(a[1]) for a in st["args"]]))
    return "\n".join(L) + "\n"


def _trace_line(st, rec, jfile):
    """one TraceNamedArgs line from the harness record of one statement"""
    o0, o1 = rec["joff"]
    jb = jfile[o0:o1] if (o0 >= 0 and o1 >= o0) else b""
    nlines = jb.count(b"\n")
    obj = jb.startswith(b"{") and jb.endswith(b"}\n")
    parsed, members = False, []
    try:
        v = json.loads(jb.decode("utf-8"), object_pairs_hook=lambda ps: ps)
        if isinstance(v, list) and all(isinstance(p, tuple) for p in v):
            parsed = True
            for k, val in v:
                members.append([enc(k.encode()), enc((val if isinstance(val, str) else json.dumps(val)).encode())])
    except Exception:
        pass
    vals = [unhx(x) for x in rec["exp"]["vals"]]
    meta = {k: (rec["meta"][k] if k == "ts" else enc(unhx(rec["meta"][k]))) for k in rec["meta"]}
    nesc = needs_escaping(st["tpl"].replace(b"\n", b"")) or any(needs_escaping(v) for v in vals) or \
        any(needs_escaping(unhx(rec["meta"][k])) for k in rec["meta"] if k != "ts")
    otext = unhx(rec["exp"]["text"])
    return {"op": "stmt", "i": st["id"], "tpl": chars(st["tpl"]), "nargs": len(st["args"]),
            "varnames": list(st.get("varnames") or []),
            "oracle": {"ok": rec["exp"]["ok"], "pos": enc(st["refpos"]), "specs": [enc(s) for s in st["specs"]],
                       "text": enc(otext), "textnt": enc(otext[:-1] if otext.endswith(b"\n") else otext),
                       "vals": [enc(v) for v in vals]},
            "text": enc(unhx(rec["text"])), "nwrites": rec["nwrites"],
            "pairs": [[enc(unhx(a)), enc(unhx(b))] for a, b in rec["pairs"]],
            "meta": meta,
            "json": {"nlines": nlines, "object": bool(obj), "parsed": parsed, "needesc": bool(nesc), "members": members}}


RESET = '{"op":"reset"}'


def run_batch(exe, stmts, mode, timeout=600, compact=False):
    """Execute the statements in one process (one history). Returns (trace lines, raw records by id).
    compact: lines are returned serialised and only the records of statements marked keep are returned."""
    d = vlib.scratch("c19e")
    try:
        (d / "s.txt").write_text(_script(stmts, mode))
        rc, so, se = vlib.run_cmd([exe, "e2e", d / "s.txt", d / "o.ndjson", d / "j.json"], timeout=timeout)
        if rc == -9:
            raise vlib.Infra("h_named e2e timeout (hang)")
        recs = {}
        if (d / "o.ndjson").exists():
            for line in (d / "o.ndjson").read_text().splitlines():
                try:
                    j = json.loads(line)
                except Exception:
                    continue
                recs[j["id"]] = j
        jfile = (d / "j.json").read_bytes() if (d / "j.json").exists() else b""
        if rc != 0 or len(recs) != len(stmts):
            missing = [st["id"] for st in stmts if st["id"] not in recs]
            raise vlib.Infra(f"h_named e2e died rc={rc} after {len(recs)}/{len(stmts)} statements; first missing id "
                             f"{missing[:1]} tpl={[st['tpl'] for st in stmts if st['id'] in missing[:1]]} {se[-300:]}")
        lines = [{"op": "reset"}] + [_trace_line(st, recs[st["id"]], jfile) for st in stmts]
        if compact:
            lines = [json.dumps(ln, separators=(",", ":")) for ln in lines]
            recs = {st["id"]: recs[st["id"]] for st in stmts if st.get("keep")}
        return lines, recs
    finally:
        vlib.rm(d)


# --------------------------------------------------------------------------- TLC helpers
def trace_tlc(lines, timeout=900, heap="4g"):
    """Run TraceNamedArgs over `lines`. Returns TLCResult with .prints decoded."""
    d = vlib.scratch("c19tv")
    try:
        tp = d / "trace.ndjson"
        with open(tp, "w") as f:
            for ln in lines:
                f.write((ln if isinstance(ln, str) else json.dumps(ln, separators=(",", ":"))) + "\n")
        r = vlib.tlc("TraceNamedArgs", "TraceNamedArgs.cfg", workers=1, env={"TRACE": str(tp), "JAVA_TOOL_OPTIONS": "-Xss64m"},
                     timeout=timeout,
                     heap=heap, dump_trace=False, extra=("-difftrace",))
        return r
    finally:
        vlib.rm(d)


def validate(ck, lines, label="TraceNamedArgs", par=1):
    """Judge recorded executions with the contract. Returns (rejected {id: why}, out_of_domain set)."""
    if not lines:
        return {}, set()
    # split at reset boundaries into `par` chunks, one JVM each
    chunks, cur = [], []
    target = max(1, len(lines) // par)
    for ln in lines:
        if (ln == RESET or (not isinstance(ln, str) and ln["op"] == "reset")) and len(cur) >= target and len(chunks) < par - 1:
            chunks.append(cur); cur = []
        cur.append(ln)
    chunks.append(cur)
    with ThreadPoolExecutor(max_workers=len(chunks)) as ex:
        rs = list(ex.map(trace_tlc, chunks))
    rej, ood = {}, set()
    for ch, r in zip(chunks, rs):
        if r.error and r.violated is None:
            raise vlib.Infra("trace validation: " + r.error)
        if r.violated == "OracleOK" or vlib.behaviours(r, "BADORACLE"):
            raise vlib.Infra("trace carries an oracle that was not computed for the reference parse: "
                             + str(vlib.behaviours(r, "BADORACLE")[:3]))
        if r.violated not in (None, "Conforms"):
            raise vlib.Infra(f"trace validation stopped on {r.violated}: {r.out[-600:]}")
        if r.distinct != len(ch) + 1:
            raise vlib.Infra(f"trace not fully consumed: {r.distinct} states for {len(ch)} lines\n{r.out[-800:]}")
        got = {j["i"]: sorted(j["why"]) for j in vlib.behaviours(r, "REJ")}
        if (r.violated == "Conforms") != bool(got):
            raise vlib.Infra("trace validation: verdict and rejection list disagree")
        rej.update(got)
        ood.update(j["i"] for j in vlib.behaviours(r, "OOD"))
        ck.add_tlc(r, None)
        ck.extra["trace_validation_lines"] = ck.extra.get("trace_validation_lines", 0) + len(ch)
    return rej, ood


def ref_pass(ck, templates):
    """Reference parse (computed by TLC from NamedArgsContract) of arbitrary templates. Returns list of dicts."""
    if not templates:
        return []
    lines = [{"op": "ref", "i": i, "tpl": chars(t)} for i, t in enumerate(templates)]
    r = trace_tlc(lines)
    if not r.ok:
        raise vlib.Infra("reference pass failed: " + str(r.error or r.violated) + r.out[-500:])
    got = {j["i"]: j for j in vlib.behaviours(r, "REF")}
    if len(got) != len(templates):
        raise vlib.Infra(f"reference pass returned {len(got)} of {len(templates)}")
    ck.add_tlc(r, "Ref_pass")
    out = []
    for i in range(len(templates)):
        j = got[i]
        out.append(dict(acc=j["acc"], pos=dec(j["pos"]), names=[dec(x) for x in j["names"]],
                        specs=[dec(x) for x in j["specs"]], toks=j["toks"]))
    return out


def _cfg(name, spec, alphabet, maxlen, prune, skip, inv, exp_all=0, exp_acc=0, constraint=(), cache=(4, 3),
         split=(3, 2), exp_split=False):
    cons = list(constraint) + (["PruneC"] if prune else [])
    text = ("SPECIFICATION %s\nCONSTANTS\n Alphabet = {%s}\n MaxLen = %d\n Prune = %s\n SkipEscapedClose = %s\n"
            " ExportAll = %d\n ExportAcc = %d\n CacheLen = %d\n CacheOps = %d\n MaxArgs = %d\n VLen = %d\n ExportSplit = %s\n"
            % (spec, ", ".join('"%s"' % c for c in alphabet), maxlen, str(prune).upper(), str(skip).upper(),
               exp_all, exp_acc, cache[0], cache[1], split[0], split[1], str(exp_split).upper()))
    for c in cons:
        text += "CONSTRAINT %s\n" % c
    text += "INVARIANTS %s\nCHECK_DEADLOCK FALSE\n" % " ".join(inv)
    return vlib.write_cfg(vlib.BUILD / "cfg" / name, text)


# --------------------------------------------------------------------------- value classes (seeded concretisation)
PLAIN = [b"v", b"val", b"Zx9", b"hello world", b"a b", b"x=1;y", b"0", b"[ok]"]
INTS = [b"0", b"7", b"42", b"-5", b"123456"]
QUOTE = [b'say "hi"', b'"', b'a"b', b'","x":"']
SEP = b"\x01\x02\x03"     # replaced at run time by the separator extracted from the code (QUILL_MAGIC_SEPARATOR)


def psep_values():
    return [SEP[:-1], b"a" + SEP[::-1], SEP[1:], SEP[:1], b"x" + SEP[:-1] + b"y" + SEP[-1:]]
NLV = [b"line1\nline2", b"a\nb\nc"]


def gen_value(rng, cls):
    if cls == "plain":
        return ("s", rng.choice(PLAIN), cls)
    if cls == "int":
        return ("i", rng.choice(INTS), cls)
    if cls == "empty":
        return ("s", b"", cls)
    if cls == "quote":
        return ("s", rng.choice(QUOTE), cls)
    if cls == "psep":
        return ("s", rng.choice(psep_values()), cls)
    if cls == "sep":
        return ("s", rng.choice([b"p", b"", b"xy"]) + SEP + rng.choice([b"q", b"", b"zz"]), cls)
    if cls == "nl":
        return ("s", rng.choice(NLV), cls)
    raise ValueError(cls)


def gen_args(rng, nargs, specs, mode, prefer_int=False, allow_break=True):
    """at most one argument of a class that is known to break something (sep, nl), so causes stay separable"""
    args, broke = [], False
    for i in range(nargs):
        has_spec = i < len(specs) and specs[i] != b""
        x = rng.random()
        if has_spec and (prefer_int or x < 0.35):
            cls = "int"
        elif x < 0.50:
            cls = "plain"
        elif x < 0.58:
            cls = "int"
        elif x < 0.68:
            cls = "empty"
        elif x < 0.78:
            cls = "quote"
        elif x < 0.84:
            cls = "psep" if mode == "raw" else "plain"
        elif x < 0.93:
            cls = "sep" if (mode == "raw" and allow_break and not broke) else "plain"
        else:
            cls = "nl" if (allow_break and not broke) else "plain"
        broke = broke or cls in ("sep", "nl")
        args.append(gen_value(rng, cls))
    return args


# --------------------------------------------------------------------------- signatures
def field_context(toks, k):
    """(prev, kind, next) token kinds around the k-th (0-based) placeholder of a token string"""
    idx = [i for i, c in enumerate(toks) if c in "PS"]
    if k is None or k >= len(idx):
        return ("?", "?", "?")
    i = idx[k]
    return (toks[i - 1] if i > 0 else "^", toks[i], toks[i + 1] if i + 1 < len(toks) else "$")


def scanner_sig(st, real):
    """shape class of a scanner-level disagreement (real scanner output vs reference parse), or None if they agree"""
    det, pos, keys = real
    refkeys = list(zip(st["names"], st["specs"]))
    nf = len(refkeys)
    if nf == 0:
        if not det or (pos == st["tpl"] and not keys):
            return None
        return "named-args-detect:false-positive-changes-template"
    if not det:
        p, k, n = field_context(st["toks"], 0)
        return f"named-args-detect:undetected:first-field-prev={TOKNAME.get(p, p)}:next={TOKNAME.get(n, n)}"
    if pos == st["refpos"] and keys == refkeys:
        return None
    k = next((i for i in range(max(len(keys), nf)) if i >= len(keys) or i >= nf or keys[i] != refkeys[i]), None)
    if k is None:
        return "named-args-scanner:positional-template-differs-keys-equal:tokens=" + "".join(sorted(set(st["toks"])))
    if k >= nf:
        return "named-args-scanner:extra-key:tokens=" + "".join(sorted(set(st["toks"])))
    p, kind, n = field_context(st["toks"], k)
    if n == "C":
        return SIG_SCANNER
    what = "name" if (k < len(keys) and keys[k][0] != refkeys[k][0]) else ("spec" if k < len(keys) else "missing")
    return (f"named-args-scanner:{what}-of-{TOKNAME.get(kind, kind)}-preceded-by-{TOKNAME.get(p, p)}"
            f"-followed-by-{TOKNAME.get(n, n)}:field={'first' if k == 0 else 'later'}")


# --------------------------------------------------------------------------- the check
def _phase(ck, label):
    import time
    now = time.time()
    ck.extra.setdefault("phase_wall_s", {})[label] = round(now - getattr(ck, "_ph", ck.t0), 1)
    ck._ph = now
    vlib.log(f"[C19] {label}: {ck.extra['phase_wall_s'][label]}s")


def run(ck):
    quick = ck.tier == "quick"
    rng = random.Random(ck.seed)
    ck.rule = ("templates = every string over {{ }} : a b 1 > space up to the bound, enumerated by TLC (one state each); "
               "executed on the real code: every accepted template TLC exports (not literal-only) in >= 2 seeded "
               "histories/argument assignments + TLC counterexamples + exported join/split value lists + seeded "
               "composites + fixed LOGJ_/LOG_ macro statements; a case = (template, argument classes, argument "
               "count); non-trivial = in the contract's domain with at least one named placeholder; distinct by that key")
    ck.assumptions = [
        "domain of the contract: templates made of literal text, {{ }}, {name} and {name:spec} with name = letter "
        "(letter|digit|_)*, spec without braces; nested replacement fields, positional {} / {0} mixed with names, and "
        "names not starting with a letter are outside (nothing is demanded of them)",
        "'fmt accepts' is decided by fmt itself: a statement is in the domain only if fmtquill::format of the REFERENCE "
        "positional template with the actual arguments does not throw (the oracle is computed by the harness and "
        "carried in the trace; the trace spec checks it was computed for its own reference parse)",
        "extra arguments (more arguments than placeholders) must still give one pair per argument; the key of an "
        "extra pair is not constrained",
        "text is compared exactly; statements whose values contain non-printable bytes are run with "
        "check_printable_char disabled (raw mode) so that the backend's sanitising does not interfere; when the "
        "formatted text ends with a newline, the text with or without that one newline is accepted (the backend strips "
        "it); values never end with a newline",
        "JSON: exactly one physical line shaped {...}\\n per statement is demanded always; parsing is demanded only "
        "when template (newlines aside), values and metadata contain no byte needing a JSON escape; members are "
        "matched by value, not by key name (timestamp, file name or path, line, thread id, logger, level, template "
        "with newlines replaced by a space or removed); the pairs must appear contiguously and in order",
        "argument types are std::string and long long; at most 3 arguments; a value with a newline inside is a value "
        "class of its own ('every value' in the property) next to plain/empty/separator bytes/quote",
        "literal-only templates are executed with zero arguments only; multi-line literal-only templates other than "
        "the template \"\\n\" are not used (the backend's multi-line split is C12's subject)",
        "LOGJ_ statements (compiled through the real macros for every arity 1..26 with distinct variable names and "
        "distinct values per position): the i-th key must be the i-th variable name as written at the call site",
    ]
    exe = build_harness()
    _phase(ck, "build")

    # 0. extract the scanner variant from behaviour (2.3a): does the code skip '}}' after the first '}' of a field?
    global SEP
    probe = scan_real(exe, [b"{a}}}"])[0]
    skip = probe[2][:1] == [(b"a}}", b"")]
    SEP, jc = logj_cases(exe)
    ck.extra["extracted_constants"] = {"SkipEscapedClose": skip, "probe": repr(probe), "separator": enc(SEP)}
    if len(SEP) != 3 or len(set(SEP)) != 3 or any(c in b'x"' for c in SEP):
        raise vlib.Infra(f"separator {SEP!r} is not three distinct bytes: the join/split model (Sep = <<1,2,3>>) needs "
                         "to be adapted")

    L = 7 if quick else 8
    exp_acc = 6 if quick else 7
    W = vlib.NCPU
    # the TLC runs are independent of each other: the small ones run next to the big enumeration
    tasks = {
        # 1. the property on the model: positional template and keys equal the reference for every accepted template
        "pure": lambda: vlib.tlc_must("NamedArgs", _cfg("MC_NamedArgs_pure.cfg", "SpecEnum", ALPHA8, L, False, skip,
                                                        ["ScanMatchesRef"]), timeout=1200, workers=max(2, W // 4),
                                      heap="4g"),
        # 2. classification theorem + export of the templates with the model's predictions (per-action coverage)
        "main": lambda: vlib.tlc_must("NamedArgs", _cfg("MC_NamedArgs.cfg", "SpecEnum", ALPHA8, L, False, skip,
                                                        ["DisagreeOnlyInShape", "RefIncremental"], exp_all=4,
                                                        exp_acc=exp_acc, constraint=["ExportC"]),
                                      timeout=1500, coverage=True, workers=max(2, W - 6)),
        # 3. cache: result independent of the order in which templates are first seen
        "cache": lambda: vlib.tlc_must("NamedArgs", _cfg("MC_NamedArgs_cache.cfg", "SpecCache", ALPHA8, 1, False, skip,
                                                         ["CacheOrderIndependent", "CacheKeysDistinct"],
                                                         cache=(4, 3 if quick else 4)),
                                       timeout=1500, coverage=True, workers=2 if quick else 6, heap="3g"),
        # 4. join/split: round trip on the model, classification, export of value lists
        "split_pure": lambda: vlib.tlc_must("NamedArgs", _cfg("MC_NamedArgs_split_pure.cfg", "SpecSplit", ALPHA8, 1, False,
                                                              skip, ["SplitRoundTrip"], split=(2, 3)), timeout=600, workers=1,
                                            heap="2g"),
        "split": lambda: vlib.tlc_must("NamedArgs", _cfg("MC_NamedArgs_split.cfg", "SpecSplit", ALPHA8, 1, False, skip,
                                                         ["SplitFailsOnlyOnSep"], split=(3, 2) if quick else (3, 3)),
                                       timeout=1500, coverage=True, workers=2 if quick else 6, heap="3g"),
        # value lists for replay: <= 3 values of total length <= 3 (quick) / 4 (thorough), with the model's split result
        "split_export": lambda: vlib.tlc_must("NamedArgs", _cfg("Export_NamedArgs_split.cfg", "SpecSplit", ALPHA8, 1, False,
                                                                skip, ["SplitFailsOnlyOnSep"], split=(3, 3 if quick else 4),
                                                                exp_split=True, constraint=["SplitBudgetC", "ExportSplitC"]),
                                              timeout=600, workers=1, heap="2g"),
    }
    with ThreadPoolExecutor(max_workers=len(tasks)) as ex:
        futs = {k: ex.submit(f) for k, f in tasks.items()}
        res = {k: f.result() for k, f in futs.items()}
    r = res["pure"]
    ck.add_tlc(r, "MC_NamedArgs_pure(ScanMatchesRef)")
    cex_tpl = None
    if r.violated == "ScanMatchesRef":
        if not r.trace:
            raise vlib.Infra("TLC counterexample not dumped")
        cex_tpl = "".join(r.trace[-1]["t"]).encode()
        ck.extra["tlc_counterexample_template"] = cex_tpl.decode()
    elif r.violated:
        raise vlib.Infra(f"NamedArgs model: unexpected {r.violated}")
    r = res["main"]
    if r.violated:
        raise vlib.Infra(f"NamedArgs model: classification theorem {r.violated} fails (specification edited?)")
    if r.coverage.get("Extend", (0, 0))[1] == 0:
        raise vlib.Infra("vacuity: action Extend never enabled")
    ck.add_tlc(r, f"MC_NamedArgs(len<={L},8 symbols)")
    ck.exhaustive = True
    exported = sorted(vlib.behaviours(r), key=lambda e: (len(e["t"]), e["t"]))
    r.out = ""
    r.prints = []
    if len(exported) < 1000:
        raise vlib.Infra("template export produced too few templates")
    if not quick:
        r9 = vlib.tlc_must("NamedArgs", _cfg("MC_NamedArgs9.cfg", "SpecEnum", ALPHA7, 9, True, skip,
                                             ["DisagreeOnlyInShape"]), timeout=1500)
        if r9.violated:
            raise vlib.Infra(f"NamedArgs model (len 9): {r9.violated}")
        ck.add_tlc(r9, "MC_NamedArgs(len<=9,7 symbols,viable prefixes)")
    r = res["cache"]
    if r.violated:
        raise vlib.Infra(f"NamedArgs cache model: {r.violated}")
    for act in ("LookupHit", "LookupMiss"):
        if r.coverage.get(act, (0, 0))[1] == 0:
            raise vlib.Infra(f"vacuity: action {act} never enabled")
    ck.add_tlc(r, "MC_NamedArgs_cache")
    r = res["split_pure"]
    ck.add_tlc(r, "MC_NamedArgs_split_pure(SplitRoundTrip)")
    cex_vs = None
    if r.violated == "SplitRoundTrip":
        cex_vs = r.trace[-1]["vs"] if r.trace else None
        ck.extra["tlc_counterexample_values"] = cex_vs
    elif r.violated:
        raise vlib.Infra(f"NamedArgs split model: unexpected {r.violated}")
    r = res["split"]
    if r.violated:
        raise vlib.Infra(f"NamedArgs split model: classification theorem {r.violated} fails")
    for act in ("NewArg", "AddByte"):
        if r.coverage.get(act, (0, 0))[1] == 0:
            raise vlib.Infra(f"vacuity: action {act} never enabled")
    ck.add_tlc(r, "MC_NamedArgs_split")
    rs = res["split_export"]
    ck.add_tlc(rs, "Export_NamedArgs_split")
    splits = sorted(vlib.behaviours(rs, "SPL"), key=lambda x: json.dumps(x["vs"]))
    if len(splits) < 500:
        raise vlib.Infra("join/split export produced too few value lists")
    ck.extra["coverage_self_test"] = {k: list(res[n].coverage.get(k, (0, 0))) for n, ks in
                                      (("main", ["Extend"]), ("cache", ["LookupHit", "LookupMiss"]),
                                       ("split", ["NewArg", "AddByte"])) for k in ks}

    _phase(ck, "tlc_model")
    # 5. the real scanner on every exported template; comparison with the model's prediction (faithfulness)
    tpls = [e["t"].encode() for e in exported if e["t"]]
    exp_by_t = {e["t"].encode(): e for e in exported}
    real = dict(zip(tpls, scan_real(exe, tpls)))
    ndrift = 0
    for t in tpls:
        e, (det, pos, keys) = exp_by_t[t], real[t]
        model = (e["det"], e["spos"].encode(), [(a.encode(), b.encode()) for a, b in e["skeys"]])
        if model != (det, pos, keys):
            ndrift += 1
            if ndrift <= 3:
                ck.drifted(f"scanner on {t!r}: model {model} real {(det, pos, keys)}")
    ck.extra["scanner_replayed_templates"] = len(tpls)
    ck.extra["scanner_model_mismatches"] = ndrift
    model_disagree = [e["t"] for e in exported if e["acc"] and not e["agree"]]
    ck.extra["model_disagreements_in_export"] = len(model_disagree)
    ck.extra["accepted_templates_with_placeholders_in_export"] = sum(1 for e in exported if e["acc"] and e["rkeys"])
    # vacuity: the antecedents of the model invariants are reachable
    if not any(e["acc"] and e["rkeys"] for e in exported) or not any(e["acc"] and "C" in e["toks"] and e["rkeys"] for e in exported):
        raise vlib.Infra("vacuity: no accepted template with placeholders / with escaped braces was enumerated")
    if skip != bool(model_disagree) or (cex_tpl is not None) != bool(model_disagree):
        raise vlib.Infra("vacuity: counterexample of ScanMatchesRef and exported disagreements do not match the "
                         "extracted scanner variant")

    _phase(ck, "scanner_replay")
    # 6. statements for the end-to-end runs
    stmts, by_id = [], {}

    def add(tpl, ref, args, src, lvl=None, jcase=None, mode=None, varnames=None):
        st = dict(id=len(stmts) + 1, tpl=tpl, refpos=ref["pos"], specs=ref["specs"], names=ref["names"], toks=ref["toks"],
                  args=args, src=src, lvl=lvl if lvl is not None else LVLS[len(stmts) % 3], jcase=jcase, mode=mode,
                  varnames=varnames)
        stmts.append(st); by_id[st["id"]] = st
        return st

    def ref_of_export(e):
        return dict(acc=e["acc"], pos=e["rpos"].encode(), names=[a.encode() for a, _ in e["rkeys"]],
                    specs=[b.encode() for _, b in e["rkeys"]], toks=e["toks"])

    acc = [e for e in exported if e["acc"] and e["t"]]
    for e in acc:
        ref = ref_of_export(e)
        nf = len(ref["names"])
        t = e["t"].encode()
        variants = 2 if nf > 0 else 1
        for v in range(variants):
            mode = "raw" if (len(stmts) + v) % 2 == 0 else "default"
            extra = 1 if (nf in (1, 2) and rng.random() < 0.12) else 0
            add(t, ref, gen_args(rng, nf + extra, ref["specs"], mode, prefer_int=(v == 1)), "tlc", mode=mode)
        if nf > 0 and rng.random() < 0.25:
            add(t, ref, gen_args(rng, nf, ref["specs"], "default", allow_break=False), "tlc-repeat", mode=None)
    n_tlc_stmts = len(stmts)
    # composites, fixed templates, macro statements: reference parse by TLC (ref pass)
    withf = [e["t"].encode() for e in acc if e["rkeys"]]
    lits = [b"", b" ", b", ", b"=", b"[", b"] ", b"msg: ", b"x\ny ", b'"', b"k=", b"{{", b"}}", b" {{x}} "]
    comps = []
    for _ in range(1500 if quick else 15000):
        parts = [rng.choice(lits)]
        for _ in range(rng.randint(2, 3)):
            parts += [rng.choice(withf), rng.choice(lits)]
        c = b"".join(parts)
        if c.endswith(b"\n"):
            c += b"."
        comps.append(c)
    fixed = [b"{{{a}}}", b"{a}}}", b'{{"k": {v}}}', b"x {a:>3} y {b}", b"A {name} with {type} extras",
             b"Hello from thread {thread_index} this is message {message_num:04} [{custom}]",
             b"multi\nline {a}\nend {b:>4}", b"{a}{b}{c}", b"{first_1:>8}|{second_2:<8}|{third_3:^8}|",
             b"{{}} {x} {{}}", b"}}{x}{{", b"{x:}", b"{x::>4}", b"{Name} and {X1:>3} upper case",
             b"{z9_} {Z}", b"only {{escaped}} braces",
             # newlines in the template at index 0, at the last index, consecutive, and the template "\n" itself
             b"\n{a}", b"\nlead {a} and {b}", b"{a}\n", b"tail {a:>3}\n", b"\n{a}\n", b"\n\n{a}", b"{a}\n\n{b}",
             b"x\n\n\ny {a}", b"{a}\n\n", b"\n\n\n{a}\n\n", b"\n"]
    if cex_tpl:
        fixed.append(cex_tpl)
    extra_tpls = comps + fixed + [j["tpl"] for j in jc]
    refs = ref_pass(ck, extra_tpls)
    ncomp = 0
    for t, ref in zip(comps, refs[:len(comps)]):
        if not ref["acc"] or not (1 <= len(ref["names"]) <= 3):
            continue
        mode = "raw" if ncomp % 2 == 0 else "default"
        add(t, ref, gen_args(rng, len(ref["names"]), ref["specs"], mode), "composite", mode=mode); ncomp += 1
    classes = ["plain", "int", "empty", "quote", "psep", "sep", "nl"]
    for t, ref in zip(fixed, refs[len(comps):len(comps) + len(fixed)]):
        if not ref["acc"]:
            raise vlib.Infra(f"fixed template {t!r} not accepted by the reference grammar")
        nf = len(ref["names"])
        add(t, ref, [gen_value(rng, "plain") for _ in range(nf)], "fixed", mode="default")
        add(t, ref, [gen_value(rng, "int") for _ in range(nf)], "fixed", mode="default")
        for cls in classes:           # one argument of each class in each position
            for pos in range(nf):
                a = [gen_value(rng, "plain") for _ in range(nf)]
                a[pos] = gen_value(rng, cls)
                add(t, ref, a, "fixed", mode="raw" if cls in ("sep", "psep") else ("raw" if rng.random() < 0.5 else "default"))
        if nf in (1, 2):
            add(t, ref, [gen_value(rng, "plain") for _ in range(nf + 1)], "fixed-extra", mode="default")
    for j, ref in zip(jc, refs[len(comps) + len(fixed):]):
        if not ref["acc"]:
            raise vlib.Infra(f"macro template {j['tpl']!r} not accepted by the reference grammar")
        types = j["types"]
        if len(j["names"]) != len(types) or len(ref["names"]) != len(types):
            raise vlib.Infra(f"macro case {j['k']}: {len(types)} arguments, {len(j['names'])} variable names, "
                             f"{len(ref['names'])} placeholders")
        vn = [enc(n.encode()) for n in j["names"]]
        # distinct values per position, so exchanged keys or values cannot go unnoticed
        base = [("s", b"w%02d" % (i + 1), "plain") if c == "s" else ("i", b"%d" % (1000 + i + 1), "int") for i, c in enumerate(types)]
        add(j["tpl"], ref, base, "macro", lvl=j["lvl"], jcase=j["k"], mode="default", varnames=vn)
        add(j["tpl"], ref, base, "macro", lvl=j["lvl"], jcase=j["k"], mode="raw", varnames=vn)
        spos = [i for i, c in enumerate(types) if c == "s"]
        for cls in ("empty", "quote", "psep", "sep", "nl"):
            for pos in (spos if len(types) <= 3 else rng.sample(spos, 1)):
                a = list(base); a[pos] = gen_value(rng, cls)
                add(j["tpl"], ref, a, "macro", lvl=j["lvl"], jcase=j["k"], mode="raw" if cls in ("sep", "psep") else "default",
                    varnames=vn)
    # join/split value lists exported by TLC (raw mode), and the TLC counterexample first
    conc = {"1": SEP[0:1], "2": SEP[1:2], "3": SEP[2:3], "x": b"x", "q": b'"'}
    names3 = [b"a", b"b", b"c"]
    split_pred = {}
    sp_lists = ([cex_vs] if cex_vs else []) + [s["vs"] for s in splits if s["vs"]]
    sp_tpls = {n: b" ".join(b"{" + names3[i] + b"}" for i in range(n)) for n in (1, 2, 3)}
    sp_refs = dict(zip(sp_tpls, ref_pass(ck, list(sp_tpls.values()))))
    pred_by_vs = {json.dumps(s["vs"]): s["out"] for s in splits}
    for vsl in sp_lists:
        n = len(vsl)
        vals = [b"".join(conc[b] for b in v) for v in vsl]
        st = add(sp_tpls[n], sp_refs[n], [("s", v, "model") for v in vals], "split", mode="raw")
        p = pred_by_vs.get(json.dumps(vsl))
        if p is not None:
            split_pred[st["id"]] = [b"".join(conc[b] for b in v) for v in p]

    _phase(ck, "statement_generation")
    sample_sts = (next(st for st in stmts if st["names"]), stmts[n_tlc_stmts // 2], stmts[n_tlc_stmts + 5], stmts[-1])
    for st in stmts:
        st["keep"] = st["src"] == "split" or any(st is x for x in sample_sts)
    # 7. batches = histories: statements shuffled (seeded) so every template is first seen after different others
    nb = vlib.NCPU * 2
    raw_b = [[] for _ in range(nb // 2)]
    def_b = [[] for _ in range(nb // 2)]
    order = list(stmts)
    rng.shuffle(order)
    for st in order:
        m = st["mode"]
        if m is None:
            continue
        (raw_b if m == "raw" else def_b)[st["id"] % (nb // 2)].append(st)
    home = {}
    for grp in (raw_b, def_b):
        for bi, b in enumerate(grp):
            for st in b:
                home.setdefault(st["tpl"], []).append((grp is raw_b, bi))
    for st in order:      # repeats go into a batch that already has the template: a cached lookup
        if st["mode"] is None:
            hs = [h for h in home.get(st["tpl"], []) if not h[0]] or [(False, st["id"] % (nb // 2))]
            b = def_b[hs[0][1]]
            b.insert(rng.randint(0, len(b)), st)
            st["mode"] = "default"
    batches = [(b, "raw") for b in raw_b if b] + [(b, "default") for b in def_b if b]
    with ThreadPoolExecutor(max_workers=vlib.NCPU) as ex:
        results = list(ex.map(lambda bm: run_batch(exe, bm[0], bm[1], timeout=900, compact=True), batches))
    lines, recs, batch_of = [], {}, {}
    for bi, ((b, m), (ls, rc)) in enumerate(zip(batches, results)):
        lines += ls
        recs.update(rc)
        for k, st in enumerate(b):
            batch_of[st["id"]] = (bi, k)
    _phase(ck, "e2e_execution")
    # 8. the verdict: TLC validates every recorded execution against the contract
    rej, ood = validate(ck, lines, par=4 if quick else 6)
    _phase(ck, "trace_validation")
    ck.traces_validated += len(stmts) - len(rej) - len(ood)
    for st in stmts:
        key = (st["tpl"], tuple(a[2] for a in st["args"]), len(st["args"]))
        ck.case(key, nontrivial=(st["id"] not in ood and len(st["names"]) > 0))
    ck.extra.update(statements=len(stmts), statements_from_tlc_templates=n_tlc_stmts, composites=ncomp,
                    out_of_domain=len(ood), rejected=len(rej), batches=len(batches),
                    split_value_lists=len(sp_lists), macro_cases=len(jc))
    # join/split faithfulness: observed values vs the model's prediction
    nsd = 0
    for sid, pred in split_pred.items():
        obs = [unhx(b) for _, b in recs[sid]["pairs"]]
        if obs != pred:
            nsd += 1
            if nsd <= 2:
                ck.drifted(f"join/split on {[a[1] for a in by_id[sid]['args']]}: model {pred} real {obs}")
    ck.extra["split_model_mismatches"] = nsd
    for st in sample_sts:
        rec = recs[st["id"]]
        ck.sample({"template": enc(st["tpl"]), "args": [[a[0], enc(a[1]), a[2]] for a in st["args"]], "mode": st["mode"],
                   "source": st["src"], "text": enc(unhx(rec["text"])),
                   "pairs": [[enc(unhx(a)), enc(unhx(b))] for a, b in rec["pairs"]],
                   "verdict": "rejected " + ",".join(rej[st["id"]]) if st["id"] in rej else
                              ("out-of-domain" if st["id"] in ood else "accepted")})
    if rej:
        triage(ck, exe, rej, by_id, real, recs, batches, batch_of)
        _phase(ck, "triage")


# --------------------------------------------------------------------------- triage of rejections
def _variant(st, new_id, repl=None):
    v = dict(st); v["id"] = new_id; v["jcase"] = st.get("jcase")
    if repl:
        v["args"] = [(("s", b"v%d" % i, "plain") if a[2] in repl else a) for i, a in enumerate(st["args"])]
        if "tplnl" in repl:      # the same template with its newlines replaced by spaces (literal text only)
            v["tpl"] = st["tpl"].replace(b"\n", b" ")
            v["refpos"] = st["refpos"].replace(b"\n", b" ")
    return v


def triage(ck, exe, rej, by_id, real, recs, batches, batch_of):
    """Group the rejected executions by shape, confirm one representative per group in isolation (same history,
    fresh process), attribute it, and report one violation per signature."""
    scan_cache = dict(real)
    need = sorted({by_id[i]["tpl"] for i in rej if by_id[i]["tpl"] not in scan_cache})
    if need:
        scan_cache.update(zip(need, scan_real(exe, need)))
    groups = {}
    for i, why in rej.items():
        st = by_id[i]
        ssig = scanner_sig(st, scan_cache[st["tpl"]])
        special = tuple(sorted({a[2] for a in st["args"]} - {"plain", "model"}))
        if st["src"] == "split":
            special = ("sep",) if any(SEP in a[1] for a in st["args"]) else ("model",)
        key = ((ssig, tuple(why), special, len(st["args"]) > len(st["names"]), st["mode"], b"\n" in st["tpl"],
                st["jcase"] if "logjkeys" in why else None)
               if ssig is None else (ssig,))
        groups.setdefault(key, []).append(i)
    ck.extra["rejection_groups"] = len(groups)
    # at most 80 groups are re-executed; one group of every coarse class (signature candidate) comes first
    prim = lambda why: next((c for c in ("text", "keys", "npairs", "vals", "json1", "jparse", "jmemb", "jpairs", "logjkeys")
                             if c in why), "?")
    rank, seen = {}, {}
    for key in sorted(groups, key=lambda k: min(groups[k])):
        coarse = key if len(key) == 1 else (prim(key[1]), key[2], key[5], key[6])
        rank[key] = seen.get(coarse, 0)
        seen[coarse] = rank[key] + 1
    todo = sorted(groups.items(), key=lambda kv: (rank[kv[0]], min(kv[1])))[:80]
    # one representative per group: (a) the same history prefix in a fresh process (the rejection must repeat),
    # (b) the statement alone, (c) the statement alone with each special value class replaced by a plain value
    jobs, plan = [], []
    for key, ids in todo:
        rep = min(ids, key=lambda i: (sum(a[2] not in ("plain", "int") for a in by_id[i]["args"]) if len(key) == 1 else 0,
                                      len(by_id[i]["tpl"]), len(by_id[i]["args"]), i))
        st = by_id[rep]
        bi, k = batch_of[rep]
        hist = batches[bi][0][:k + 1]
        special = sorted({a[2] for a in st["args"]} & {"sep", "nl", "quote", "empty", "psep", "int"})
        if st["src"] == "split" and any(SEP in a[1] for a in st["args"]):
            special = ["model"]
        special.sort(key=lambda c: c not in ("sep", "model", "nl"))
        j0 = len(jobs)
        jobs.append((hist, st["mode"]))
        jobs.append(([_variant(st, rep)], st["mode"]))
        for cls in special:
            jobs.append(([_variant(st, rep, {cls})], st["mode"]))
        # every special value class replaced at once (what remains is not caused by the values), and the same with the
        # newlines of the template replaced by spaces
        j_all = j_tpl = None
        if special:
            j_all = len(jobs); jobs.append(([_variant(st, rep, set(special))], st["mode"]))
        if b"\n" in st["tpl"] and st.get("jcase") is None:
            j_tpl = len(jobs); jobs.append(([_variant(st, rep, set(special) | {"tplnl"})], st["mode"]))
        plan.append((key, ids, rep, hist, special, j0, j_all, j_tpl))
    with ThreadPoolExecutor(max_workers=vlib.NCPU) as ex:
        outs = list(ex.map(lambda j: run_batch(exe, j[0], j[1]), jobs))
    # renumber so that every re-executed statement has its own id in the combined trace
    all_lines, newid = [], {}
    for ji, (ls, _) in enumerate(outs):
        for ln in ls:
            if ln["op"] == "stmt":
                nid = 1000000 + len(newid)
                newid[(ji, ln["i"])] = nid
                ln = dict(ln); ln["i"] = nid
            all_lines.append(ln)
    rj, od = validate(ck, all_lines, par=4)
    sig_count, reported = {}, {}
    passes_without_logjkeys = lambda why: set(why) <= {"logjkeys", "jpairs"}
    for key, ids, rep, hist, special, j0, j_all, j_tpl in plan:
        st = by_id[rep]
        nid = newid[(j0, rep)]
        if nid not in rj:
            ck.drifted(f"rejection of statement {rep} ({enc(st['tpl'])}) did not repeat in isolation")
            continue
        why = rj[nid]
        passes = lambda ji: newid[(ji, rep)] not in rj and newid[(ji, rep)] not in od
        if len(key) == 1:
            sig = key[0]
        elif passes(j0 + 1):
            # the same statement in a fresh process is accepted: the failure depends on what was logged before
            sig = "named-args-cache:history-dependent:" + prim(why)
        else:
            cause = next((cls for vi, cls in enumerate(special) if passes(j0 + 2 + vi)), None)
            # what still fails once the special values are gone
            residual = rj.get(newid[(j_all, rep)], why) if j_all is not None else why
            if cause in ("sep", "model"):
                sig = SIG_SPLIT
            elif cause == "nl":
                sig = SIG_NL
            elif cause:
                sig = f"named-args-value:{cause}:{prim(why)}"
            elif "logjkeys" in residual and passes_without_logjkeys(residual):
                sig = f"named-args-logj:key-is-not-the-variable-name:arity={len(st['args'])}"
            elif j_tpl is not None and passes(j_tpl):
                sig = "json-line:template-contains-newline"
            else:
                sig = "named-args-e2e:" + prim(residual) + (":extra-args" if len(st["args"]) > len(st["names"]) else "")
        sig_count[sig] = sig_count.get(sig, 0) + len(ids)
        if sig in reported or len(ck.violations) >= 10:
            continue
        rec = outs[j0][1][rep]
        sc = scan_cache[st["tpl"]]
        text = (f"template {enc(st['tpl'])!r} args {[enc(a[1]) for a in st['args']]} ({st['mode']} options): fails "
                f"{'+'.join(why)}; text {enc(unhx(rec['text']))!r} expected {enc(unhx(rec['exp']['text']))!r}; "
                f"pairs {[[enc(unhx(a)), enc(unhx(b))] for a, b in rec['pairs']]}; real scanner "
                f"{[enc(sc[1]), [(enc(a), enc(b)) for a, b in sc[2]]]}")
        reported[sig] = rep
        ck.violation(sig, text, {"mode": st["mode"], "statement_id": rep, "template": enc(st["tpl"]),
                                 "args": [[a[0], enc(a[1]), a[2]] for a in st["args"]], "why": why,
                                 "trace_line": outs[j0][0][-1], "harness": "h_named e2e",
                                 "script": _script(hist, st["mode"]), "stmts": [_ser(x) for x in hist]})
    ck.extra["rejections_by_signature"] = sig_count


def _ser(st):
    return {"id": st["id"], "tpl": hx(st["tpl"]), "refpos": hx(st["refpos"]), "specs": [hx(s) for s in st["specs"]],
            "names": [hx(s) for s in st["names"]], "toks": st["toks"], "lvl": st["lvl"], "jcase": st["jcase"],
            "mode": st["mode"], "src": st["src"], "args": [[a[0], hx(a[1]), a[2]] for a in st["args"]],
            "varnames": st.get("varnames")}


def _deser(j):
    return dict(id=j["id"], tpl=unhx(j["tpl"]), refpos=unhx(j["refpos"]), specs=[unhx(s) for s in j["specs"]],
                names=[unhx(s) for s in j["names"]], toks=j["toks"], lvl=j["lvl"], jcase=j["jcase"], mode=j["mode"],
                src=j["src"], args=[(a[0], unhx(a[1]), a[2]) for a in j["args"]], varnames=j.get("varnames"))


def replay(ck, path):
    top = json.loads(open(path).read())
    j = top["replay"]
    exe = build_harness()
    global SEP
    SEP, _ = logj_cases(exe)
    hist = [_deser(s) for s in j["stmts"]]
    lines, recs = run_batch(exe, hist, j["mode"])
    rej, ood = validate(ck, lines)
    print(json.dumps(lines[-1]))
    sid = j["statement_id"]
    print(f"statement {sid}: " + ("REJECTED by the contract: " + "+".join(rej[sid]) if sid in rej else "accepted"))
    ck.traces_validated += len(hist) - len(rej) - len(ood)
    ck.rule = "replay of one saved history"
    ck.sample({"replayed": str(path), "rejected": {str(k): v for k, v in rej.items()}})
    if sid in rej:
        ck.violation(top["sig"], top["text"], j)
