"""C06 - pipeline property judged by spec/QuillContract.tla (flag ok06) through TLC trace validation (spec/TraceQuill.tla) of
executions of the real frontend/backend recorded by harness/h_sys; scenario family in props/sysfam.py; implementation-shaped
exploration in spec/Quill.tla."""
import sysfam, qsys


def run(ck):
    sysfam.run_family(ck, "C06", 250 if ck.tier == "quick" else 3000)


def replay(ck, path):
    qsys.replay(path)
