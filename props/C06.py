"""C06 - pipeline property judged by spec/QuillContract.tla (flag ok06) through TLC trace validation (spec/TraceQuill.tla) of
executions of the real frontend/backend recorded by harness/h_sys; scenario family in props/sysfam.py; implementation-shaped
exploration in spec/Quill.tla. The flush handshake under release/acquire (the backend's store to the caller's flag, the caller's
load, the sink writes ordered before the return): spec/StopRA.tla with the memory orders extracted from the code, replayed on
the REAL backend thread / flush_log() on a shim atomic (tools/stopmodel.py, harness/h_stop)."""
import json, os
import sysfam, qsys, stopmodel, newctxmodel


def run(ck):
    stopmodel.run_for(ck)
    # a thread whose context the backend never picks up: its flush_log() never returns (spec/NewCtxRA.tla, runs ending with flush_log)
    newctxmodel.run_for(ck)
    if os.environ.get("VERIF_PART") == "model":
        return
    sysfam.run_family(ck, "C06", 250 if ck.tier == "quick" else 3000)


def replay(ck, path):
    if json.loads(open(path).read())["replay"].get("harness") == "h_stop":
        stopmodel.replay(path)
    else:
        qsys.replay(path)
