"""C06 - pipeline property judged by spec/QuillContract.tla (flag ok06) through TLC trace validation (spec/TraceQuill.tla) of
executions of the real frontend/backend recorded by harness/h_sys; scenario family in props/sysfam.py; implementation-shaped
exploration in spec/Quill.tla. The flush handshake under release/acquire (the backend's store to the caller's flag, the caller's
load, the sink writes ordered before the return): spec/StopRA.tla with the memory orders extracted from the code, replayed on
the REAL backend thread / flush_log() on a shim atomic (tools/stopmodel.py, harness/h_stop). The destination: spec/FileSink.tla
(write / flush / fsync interval / deleted file / restart in "a" or "w"), every behaviour replayed on the real quill::FileSink
(tools/filesinkmodel.py, harness/h_filesink)."""
import json, os
import sysfam, qsys, stopmodel, newctxmodel, filesinkmodel


def run(ck):
    stopmodel.run_for(ck)
    # a thread whose context the backend never picks up: its flush_log() never returns (spec/NewCtxRA.tla, runs ending with flush_log)
    newctxmodel.run_for(ck)
    # "... those sinks have been flushed, so it can be read from the destination": the file sink itself (spec/FileSink.tla, harness/h_filesink)
    filesinkmodel.run_for(ck)
    if os.environ.get("VERIF_PART") == "model":
        return
    sysfam.run_family(ck, "C06", 250 if ck.tier == "quick" else 3000)


def replay(ck, path):
    hn = json.loads(open(path).read())["replay"].get("harness")
    if hn == "h_stop":
        stopmodel.replay(path)
    elif hn == "h_filesink":
        filesinkmodel.replay(path)
    else:
        qsys.replay(path)
