"""C02 - unbounded queue keeps the record stream intact across growth/shrink, within the cap.
Spec: spec/UnboundedRA.tla (implementation-shaped: node chain, grow, shrink, retire; release/acquire model with
view-carrying messages; constants EXTRACTED from the code), spec/StreamContract.tla + spec/TraceStream.tla.
Binding: harness/h_spsc.cpp runs the real UnboundedSPSCQueue on the shim atomic (deleted nodes quarantined, their
storage mprotect'ed, so any access to a retired buffer is an event); TLC behaviours replayed with state comparison,
TLC counterexamples replayed and counted only if the real code shows the failure, seeded random walks validated by TLC."""
import json, random
from concurrent.futures import ThreadPoolExecutor
import vlib, spsc, sysh

INV = ["NoRace", "Fifo", "NoUseAfterRetire", "AllocBound", "Rejects"]
ACTIONS = [("AUPW", "UPW"), ("UWrite",), ("UFinishCommit",), ("AShrink", "Shrink"), ("AUPR", "UPR"), ("URead",),
           ("UFinishRead",), ("UCommitRead",)]


def configs(quick):
    if quick:
        return [dict(cap=2, max=8, sizes=[1, 3, 9], recs=3, nodes=3, shrink=[1], nshrink=1, xrecs=3),
                dict(cap=4, max=8, sizes=[3, 5, 8], recs=3, nodes=2, shrink=[2], nshrink=1, xrecs=3),
                dict(cap=2, max=6, sizes=[2, 5, 7], recs=2, nodes=3, shrink=[1], nshrink=0, xrecs=2)]
    # thorough: each around 10^5 states (about a minute of TLC each on an idle machine)
    return [dict(cap=2, max=8, sizes=[1, 2, 3, 9], recs=3, nodes=4, shrink=[1], nshrink=1, xrecs=3),
            dict(cap=4, max=8, sizes=[3, 4, 5, 8], recs=3, nodes=3, shrink=[2, 4], nshrink=2, xrecs=3),
            dict(cap=2, max=16, sizes=[1, 5, 16, 17], recs=3, nodes=4, shrink=[1, 2], nshrink=1, xrecs=3),
            dict(cap=2, max=8, sizes=[1, 3], recs=4, nodes=3, shrink=[1], nshrink=1, xrecs=4),
            dict(cap=4, max=4, sizes=[1, 4, 5], recs=4, nodes=2, shrink=[1, 2], nshrink=2, xrecs=4),
            dict(cap=2, max=6, sizes=[1, 2, 5, 6, 7], recs=3, nodes=3, shrink=[1], nshrink=1, xrecs=3),
            dict(cap=4, max=12, sizes=[3, 9, 12, 13], recs=3, nodes=3, shrink=[2], nshrink=1, xrecs=3)]


def replay_behaviours(ck, exe, behs, c, label):
    nb = max(1, min(vlib.NCPU * 2, len(behs) // 50 + 1))
    chunks = [behs[i::nb] for i in range(nb)]
    scripts = ["".join(spsc.uscript_of(b, c).replace("end\n", "") for b in ch) + "end\n" for ch in chunks]
    res = spsc.run_many(exe, scripts, timeout=900)
    n = 0
    for ch, (rc, evs) in zip(chunks, res):
        runs = spsc._split_runs(evs, "UInit")
        for b, r in zip(ch, runs):
            n += 1
            a_level, i_level = spsc.ucompare(b, r)
            key = tuple((h["t"], h["a"], tuple(h["arg"])) for h in b)
            ck.case((label, key), nontrivial=any(h["res"] in ("grown", "shrunk") or h["res"].startswith("switched") for h in b))
            if a_level:
                ck.violation("uspsc:" + "+".join(sorted(a_level)),
                             f"{label}: real queue shows {a_level} on {[(h['t'], h['a'], h['arg']) for h in b]}",
                             {"script": spsc.uscript_of(b, c), "harness": "h_spsc uint8_t"})
            elif i_level:
                ck.drifted(f"{label}: {i_level}")
        if len(runs) < len(ch):
            # a fault (access to retired memory) ends the process: find which behaviour by re-running singly
            for b in ch[len(runs) - 1:len(runs) + 1]:
                rc1, ev1 = spsc.run(exe, spsc.uscript_of(b, c))
                a_level, _ = spsc.ucompare(b, ev1)
                if a_level:
                    ck.violation("uspsc:" + "+".join(sorted(a_level)),
                                 f"{label}: real queue shows {a_level} on {[(h['t'], h['a'], h['arg']) for h in b]}",
                                 {"script": spsc.uscript_of(b, c), "harness": "h_spsc uint8_t"})
            ck.drifted(f"{label}: harness produced {len(runs)} runs for {len(ch)} behaviours")
    return n


STEPS = [200]


def fuzz(ck, seeds, quick, cfg="TraceStream.cfg", prefix="uspsc"):
    STEPS[0] = 200 if quick else 800
    rng = random.Random(ck.seed)
    exe = spsc.build("uint8_t")
    scripts, meta = [], []
    # maximum capacities that are and are not powers of two
    for cap, mx in ((2, 8), (4, 4), (4, 32), (8, 64), (16, 1024), (64, 256), (2, 6), (4, 12), (8, 100), (16, 3000)):
        L = []
        for s in range(seeds):
            seed = rng.randrange(1, 2 ** 30)
            L.append(f"uinit cap={cap} max={mx}")
            L.append(f"ufuzz steps={STEPS[0]} seed={seed}")
            meta.append((cap, mx, seed))
        scripts.append("\n".join(L) + "\nend\n")
    res = spsc.run_many(exe, scripts, timeout=900)
    lines, owners = [], []
    mi = 0
    sampled = 0
    for sc, (rc, evs) in zip(scripts, res):
        runs = spsc._split_runs(evs, "UInit")
        if rc == 4:
            runs[-1].append({"e": "Fault"})
        for r in runs:
            cl = spsc.ucontract_lines(r)
            owners += [mi] * len(cl)
            lines += cl
            switches = sum(1 for e in r if e.get("e") == "Step" and e.get("op") == "upr" and e.get("alloc"))
            ck.case(("ufuzz", meta[mi]), nontrivial=switches >= 1)
            if sampled < 2 and switches >= 2:
                ck.sample({"ufuzz": dict(zip(("cap", "max", "seed"), meta[mi])), "switches": switches, "first_steps": cl[:10]})
                sampled += 1
            mi += 1
    _validate(ck, exe, lines, owners, meta, cfg=cfg, prefix=prefix)


def _validate(ck, exe, lines, owners, meta, depth=0, cfg="TraceStream.cfg", prefix="uspsc"):
    if not lines:
        return
    r = sysh.validate_trace("TraceStream", cfg, lines, timeout=1200)
    if r.error:
        raise vlib.Infra(r.error)
    ck.add_tlc(r, "TraceStream")
    if r.violated is None:
        if r.distinct != len(lines) + 1:
            raise vlib.Infra(f"trace not fully consumed: {r.distinct} states for {len(lines)} lines")
        ck.traces_validated += len(set(owners))
        return
    l = r.trace[-1]["l"] - 1
    bad, own = lines[l - 1], owners[l - 1]
    cap, mx, seed = meta[own]
    clause = {"upw": "reservation-rule" if cfg == "TraceStream.cfg" else "max-capacity-record-refused-on-drained-queue", "write": "race-or-retired-access", "read": "read-not-next-committed-record-or-torn",
              "shrink": "shrink-rule", "drained": "committed-record-never-delivered", "upr": "race-or-retired-access",
              "fc": "race-or-retired-access"}.get(bad["k"], bad["k"])
    if bad["k"] == "upw" and cfg != "TraceStream.cfg":
        # a record that fits the configured maximum but not the largest power-of-two node allowed by a maximum that is
        # not a power of two is a different (recorded) case than a refused record that an allocatable node could hold
        p2 = 1
        while p2 * 2 <= mx:
            p2 *= 2
        if p2 != mx and bad["n"] > p2:
            clause = "record-between-largest-power-of-two-node-and-non-power-of-two-max-refused"
    sc = f"uinit cap={cap} max={mx}\nufuzz steps={STEPS[0]} seed={seed}\nend\n"
    rc, evs = spsc.run(exe, sc)
    cl = spsc.ucontract_lines(evs + ([{"e": "Fault"}] if rc == 4 else []))
    r2 = sysh.validate_trace("TraceStream", cfg, cl)
    if r2.violated:
        ck.violation(f"{prefix}:{clause}", f"cap={cap} max={mx} seed={seed}: {clause} at {json.dumps(bad)}",
                     {"script": sc, "harness": "h_spsc uint8_t", "rejected": bad})
    else:
        ck.drifted("ufuzz rejection did not repeat")
    if depth < 6:
        end = l
        while end < len(lines) and owners[end] == own:
            end += 1
        _validate(ck, exe, lines[end:], owners[end:], meta, depth + 1, cfg=cfg, prefix=prefix)


def queue_level(ck, cfgs, fuzz_seeds, meta=True):
    quick = ck.tier == "quick"
    saved = (ck.rule, list(ck.assumptions))
    ck.rule = ("(a) every transition of UnboundedRA's state graph for the listed configurations replayed on the real queue; "
               "(b) seeded random walks (writes incl. oversize, shrinks, reads with random legal load results) ending in a drain; "
               "non-trivial = contains a grow/shrink/switch; distinct by step sequence")
    ck.assumptions = ["release/acquire memory model with view-carrying messages; seq_cst treated as acq/rel",
                      "deleted nodes are quarantined (operator delete/munmap interposed) so that an access to a retired buffer is observable",
                      "huge pages and real allocation failure are not modelled"]
    exe = spsc.build("uint8_t")
    try:
        k = spsc.uextract(exe)
    except spsc.ExtractFailed as ex:
        ck.drifted(str(ex))
        k = None
    ck.extra["extracted_constants"] = k
    if not meta:
        ck.rule, ck.assumptions = saved[0], saved[1] + ["queue level (shrink): as C02 - RA memory model, retired nodes quarantined"]
    for c in (cfgs if k else []):
        label = f"cap={c['cap']} max={c['max']}"
        cfg = vlib.write_cfg(vlib.BUILD / "cfg" / f"MC_UnboundedRA_{c['cap']}_{c['max']}.cfg", spsc.ucfg_text(k, c, True, INV))
        r = vlib.tlc("UnboundedRA", cfg, coverage=True, timeout=1700, heap="12g")
        if r.error:
            raise vlib.Infra(r.error)
        ck.add_tlc(r, "MC " + label)
        if r.violated:
            beh = r.trace[-1]["hist"]
            rc, evs = spsc.run(exe, spsc.uscript_of(beh, c))
            a_level, i_level = spsc.ucompare(beh, evs)
            lost = []
            if not a_level and r.violated == "Fifo":
                # lost/phantom records show at the contract level when the consumer drains: replay + drain, judge by contract
                sc = spsc.uscript_of(beh, c).replace("end\n", "ufuzz steps=0 seed=1\nend\n")
                rc, evs = spsc.run(exe, sc)
                rv = sysh.validate_trace("TraceStream", "TraceStream.cfg", spsc.ucontract_lines(evs))
                if rv.violated:
                    lost = ["record-lost-or-out-of-order"]
            if a_level or lost:
                ck.violation("uspsc:" + "+".join(sorted(a_level + lost)) + ":" + r.violated,
                             f"{label}: model violates {r.violated} with extracted constants {k}; the real queue reproduces {a_level + lost}",
                             {"script": spsc.uscript_of(beh, c), "harness": "h_spsc uint8_t", "constants": k})
            else:
                ck.drifted(f"{label}: model violates {r.violated} but the real code does not reproduce it ({i_level})")
            continue
        for act in ACTIONS:
            if act[0] == "AShrink" and c["nshrink"] == 0:
                continue
            if not vlib.enabled(r, *act):
                raise vlib.Infra(f"vacuity: {act[0]} never enabled for {label}")
        behs = vlib.behaviours(r)
        lim = 8000 if quick else 35000
        if len(behs) > lim:
            behs = random.Random(ck.seed).sample(behs, lim)
        ck.traces_validated += replay_behaviours(ck, exe, behs, c, label)
        if behs:
            b = max(behs, key=lambda x: sum(1 for h in x if h["res"].startswith("switched")))
            ck.sample({"config": label, "behaviour": [[h["t"], h["a"], h["arg"], h["res"]] for h in b]}, cap=4)
    ck.exhaustive = k is not None
    fuzz(ck, fuzz_seeds, quick)


def run(ck):
    quick = ck.tier == "quick"
    queue_level(ck, configs(quick), 10 if quick else 70)


def replay(ck, path):
    j = json.loads(open(path).read())["replay"]
    rc, evs = spsc.run(spsc.build("uint8_t"), j["script"])
    for e in evs:
        print(json.dumps(e))
