"""C18 - backtrace statements are held back, then replayed: most recent N, in order, once.
Spec: spec/Backtrace.tla (ring transcription vs contract), spec/BacktraceContract.tla, spec/TraceBacktrace.tla.
Binding: every history TLC exports (one shortest history per transition of the state graph) plus seeded random
long histories over two loggers / two threads are executed through the real LOG_BACKTRACE / flush_backtrace /
init_backtrace API, real queue and real backend into recording sinks; the recorded executions are validated by
TLC against the contract (TraceBacktrace)."""
import random
import vlib, sysh

LVL = {4: 4, 7: 7}
NONE_LEVEL = 10   # quill::LogLevel::None


def _script_for(k, ops, two_threads):
    """ops: list of (g, op, arg, id). Returns script lines for one behaviour."""
    L = []
    gs = sorted({o[0] for o in ops})
    for g in gs:
        L.append(f"sink S{k}_{g}")
        L.append(f"logger G{k}_{g} sinks=S{k}_{g} lvl=0")
    L.append(f"mark b={k}")
    for j, (g, op, arg, sid) in enumerate(ops):
        t = "t1" if (two_threads and j % 3 == 1) else "t0"
        lg = f"G{k}_{g}"
        L.append(f"mark o={j}")
        if op == "init":
            fl = NONE_LEVEL if arg[1] == 99 else arg[1]
            L.append(f"T {t} initbt {lg} cap={arg[0]} fl={fl}")
        elif op == "store":
            L.append(f"T {t} log {lg} lvl=9 id={sid} pad=2 kind=macro")
        elif op == "flush":
            L.append(f"T {t} flushbt {lg}")
        elif op == "stmt":
            # statically or dynamically levelled: the flush decision must use the level the statement was given
            kind = "dynmacro" if (k + j) % 3 == 0 else "macro"
            L.append(f"T {t} log {lg} lvl={arg[0]} id={sid} pad=2 kind={kind}")
        L.append("B drain")
    L.append("mark done")
    for g in gs:
        L.append(f"remove G{k}_{g}")
        L.append(f"dropsink S{k}_{g}")
    L.append("B drain")
    return L


def _batch_script(items):
    L = ["cfg soft=4 hard=8 ring=2 grace=0", "start t0", "start t1"]
    for k, ops, tt in items:
        L += _script_for(k, ops, tt)
    L.append("end")
    return "\n".join(L) + "\n"


def _trace_lines(items, evs):
    """Normalise harness events into TraceBacktrace lines. Returns (lines, index) where index[i] = (k, j)."""
    per = {}       # (k, j) -> {g: [ids]}
    cur = None
    for e in evs:
        if e["e"] == "Mark":
            w = e["what"]
            if w.startswith("b="):
                k = int(w[2:]); cur = None
            elif w.startswith("o="):
                cur = (k, int(w[2:])); per[cur] = {}
            elif w == "done":
                cur = None
        elif e["e"] == "Write" and cur is not None:
            s = e["s"]           # S<k>_<g>
            g = int(s.rsplit("_", 1)[1])
            per[cur].setdefault(g, []).append(e["id"])
    lines, index = [], []
    for k, ops, tt in items:
        lines.append({"op": "reset"}); index.append((k, -1))
        for j, (g, op, arg, sid) in enumerate(ops):
            got = per.get((k, j))
            if got is None:
                # the harness died before this operation: an observation the contract must judge as missing output
                got = {"missing": True}
            out = got.get(g, []) if "missing" not in got else [-1]
            other = sum(len(v) for gg, v in got.items() if gg != g and gg != "missing")
            lines.append({"op": op, "lg": g, "arg": list(arg), "id": sid, "out": out, "other": other})
            index.append((k, j))
    return lines, index


def _random_history(rng, n, caps):
    ops = []
    for i in range(n):
        g = rng.choice([0, 0, 1])
        r = rng.random()
        if i < 2 or r < 0.06:
            ops.append((g, "init", (rng.choice(caps), rng.choice([7, 99])), i + 1))
        elif r < 0.62:
            ops.append((g, "store", (), i + 1))
        elif r < 0.76:
            ops.append((g, "flush", (), i + 1))
        elif r < 0.90:
            ops.append((g, "stmt", (4,), i + 1))
        else:
            ops.append((g, "stmt", (7,), i + 1))
    return ops


def _sig(ops, j):
    """canonical signature of a failing case: capacity in force, whether the ring had wrapped since the last
    flush, and whether an earlier flush happened since (re)initialisation."""
    g = ops[j][0]
    cap, stored, flushed = 0, 0, False
    for (gg, op, arg, sid) in ops[:j]:
        if gg != g:
            continue
        if op == "init":
            if arg[0] != cap:
                stored, flushed = 0, False
            cap = arg[0]
        elif op == "store" and cap:
            stored += 1
        elif op == "flush" or (op == "stmt" and False):
            stored, flushed = 0, True
    return f"bt:{ops[j][1]}:cap={cap}:wrapped={'y' if stored > cap else 'n'}:afterflush={'y' if flushed else 'n'}"


def run(ck):
    quick = ck.tier == "quick"
    rng = random.Random(ck.seed)
    ck.rule = ("histories = one shortest history per transition of the VIEW-reduced Backtrace state graph (TLC export) "
               "+ seeded random histories over 2 loggers/2 threads; non-trivial = contains a flush after at least one store; "
               "distinct by operation sequence")
    ck.assumptions = ["backend drained (manual poll) after every operation, so 'immediately after the trigger' is observed per operation",
                      "capacity 0 (init_backtrace(0)) is outside the explored inputs",
                      "re-initialisation may keep or forget stored statements (property does not say): both accepted"]
    # 1. design level: ring == window for every history (exhaustive for the bound), with per-action coverage
    mc = vlib.write_cfg(vlib.BUILD / "cfg" / "MC_Backtrace.cfg",
                        "SPECIFICATION Spec\nCONSTANTS Caps = {1,2,3%s}\n MaxOps = %d\n ResetIndex = TRUE\n Export = FALSE\n"
                        "INVARIANTS RingMatchesWindow TypeOK\nVIEW StateView\nCHECK_DEADLOCK FALSE\n"
                        % ("" if quick else ",4", 9 if quick else 12))
    r = vlib.tlc_must("Backtrace", mc, coverage=True, timeout=900)
    if r.violated:
        # the model of the (repaired) ring disagrees with the contract: this is a model problem, not a verdict
        raise vlib.Infra(f"Backtrace model violates {r.violated}")
    for act in ("AReinit", "AStore", "AFlush", "AStmtLow", "AStmtHigh"):
        if r.coverage.get(act, (0, 0))[1] == 0:
            raise vlib.Infra(f"vacuity: action {act} never enabled")
    ck.add_tlc(r, "MC_Backtrace")
    ck.exhaustive = True
    # 2. export histories
    ex = vlib.write_cfg(vlib.BUILD / "cfg" / "Export_Backtrace.cfg",
                        "SPECIFICATION Spec\nCONSTANTS Caps = {1,2,3}\n MaxOps = %d\n ResetIndex = TRUE\n Export = TRUE\n"
                        "INVARIANTS RingMatchesWindow\nVIEW StateView\nACTION_CONSTRAINT ExportA\nCHECK_DEADLOCK FALSE\n"
                        % (8 if quick else 10))
    r2 = vlib.tlc_must("Backtrace", ex, timeout=900, keep_out=True)
    behs = vlib.behaviours(r2)
    if len(behs) < 1000:
        raise vlib.Infra("behaviour export produced too few histories")
    ck.add_tlc(r2, "Export_Backtrace")
    items = []
    k = 0
    for b in behs:
        ops = [(0, o["op"], tuple(o["arg"]), o["id"]) for o in b]
        items.append((k, ops, False)); k += 1
    nrand = 300 if quick else 4000
    for _ in range(nrand):
        ops = _random_history(rng, rng.randint(8, 60), [1, 2, 3, 4, 5, 8])
        items.append((k, ops, True)); k += 1
    # 3. run on the real code
    exe = sysh.build("UB", 65536)
    nb = vlib.NCPU * 2
    batches = [items[i::nb] for i in range(nb)]
    res = sysh.run_many(exe, [_batch_script(b) for b in batches], timeout=300 if quick else 1200)
    # 4. validate the recorded executions against the contract with TLC
    all_lines, all_index, by_k = [], [], {}
    for b, (rc, evs) in zip(batches, res):
        if rc == -9:
            raise vlib.Infra("harness timeout (hang)")
        lines, index = _trace_lines(b, evs)
        all_lines += lines; all_index += index
        for it in b:
            by_k[it[0]] = it
    batch_of = {it[0]: b for b in batches for it in b}
    for k_, ops, tt in items:
        key = tuple((g, op, arg) for g, op, arg, _ in ops)
        nontriv = any(op == "store" for _, op, _, _ in ops) and any(op in ("flush",) or (op == "stmt" and a == (7,)) for _, op, a, _ in ops)
        ck.case(key, nontriv)
    _validate(ck, exe, all_lines, all_index, by_k, 0, batch_of)
    ck.sample({"history": [dict(op=o[1], arg=list(o[2]), id=o[3]) for o in items[len(behs) // 2][1]]})
    ck.sample({"random_history_two_loggers": [dict(lg=o[0], op=o[1], arg=list(o[2]), id=o[3]) for o in items[len(behs)][1][:20]]})
    ck.extra["histories_from_tlc"] = len(behs)
    ck.extra["histories_random"] = nrand


def _validate(ck, exe, lines, index, by_k, depth=0, batch_of=None):
    rt = sysh.validate_trace("TraceBacktrace", "TraceBacktrace.cfg", lines, timeout=900)
    if rt.error:
        raise vlib.Infra(rt.error)
    ck.add_tlc(rt, "TraceBacktrace")
    if rt.violated is None:
        if rt.distinct != len(lines) + 1:
            raise vlib.Infra(f"trace not fully consumed: {rt.distinct} states for {len(lines)} lines")
        ck.traces_validated += sum(1 for ln in lines if ln["op"] == "reset")
        return
    # first rejected operation
    l = rt.trace[-1]["l"] - 1            # 1-based line of the offending operation
    k, j = index[l - 1]
    it = by_k[k]
    ck.traces_validated += sum(1 for ln in lines[:l - 1] if ln["op"] == "reset")
    # verdict rule: the rejection must repeat. First the behaviour alone, then (a failure may depend on what ran
    # before it in the same process, e.g. an out-of-bounds read) the whole batch it was part of.
    confirmed = False
    for items in ([it], batch_of[k] if batch_of else None):
        if not items:
            continue
        rc, evs = sysh.run(exe, _batch_script(items), timeout=600)
        l2, i2 = _trace_lines(items, evs)
        r2 = sysh.validate_trace("TraceBacktrace", "TraceBacktrace.cfg", l2)
        if r2.error:
            raise vlib.Infra(r2.error)
        if r2.violated:
            kk, jj = i2[r2.trace[-1]["l"] - 2]
            ops = by_k[kk][1]
            got = l2[r2.trace[-1]['l'] - 2]['out']
            crashed = got == [-1]
            ck.violation("bt:process-died" if crashed else _sig(ops, jj),
                         (f"the process died (crash in the real code) at or before history {[(o[0], o[1], o[2]) for o in ops[:jj + 1]]}"
                          if crashed else f"history {[(o[0], o[1], o[2]) for o in ops[:jj + 1]]}: sink received {got}")
                         + ("" if len(items) == 1 else " (inside a batch of histories in one process)"),
                         {"script": _batch_script(items), "harness": "h_sys UB 65536", "rejected_line": r2.trace[-1]["l"] - 1})
            confirmed = True
            break
    if not confirmed:
        ck.drifted(f"rejection of behaviour {k} repeated neither alone nor in its batch")
        ck.extra["unconfirmed_rejections"] = ck.extra.get("unconfirmed_rejections", 0) + 1
    if len(ck.violations) >= 8 or depth >= 30:
        if not ck.violations:
            raise vlib.Infra("many contract rejections that do not repeat: nondeterministic harness or code")
        return
    # continue with the rest of the trace (skip the offending behaviour) so the remainder is still checked
    end = l
    while end < len(lines) and lines[end]["op"] != "reset":
        end += 1
    _validate(ck, exe, lines[end:], index[end:], by_k, depth + 1, batch_of)


def replay(ck, path):
    import json
    j = json.loads(open(path).read())["replay"]
    exe = sysh.build("UB", 65536)
    rc, evs = sysh.run(exe, j["script"])
    for e in evs:
        print(json.dumps(e))
