"""C16 - pipeline property judged by spec/QuillContract.tla (flag ok16) through TLC trace validation (spec/TraceQuill.tla) of
executions of the real frontend/backend recorded by harness/h_sys; scenario family in props/sysfam.py; implementation-shaped
exploration in spec/Dispatch.tla (tools/dispmodel.py): exhaustive small-scope model of the level check and the per-sink dispatch
loop, every transition exported as a behaviour, judged by the contract and replayed on the real code. Attaching a filter while the
backend dispatches, at the granularity of the accesses of Sink::_new_filter: spec/FilterRA.tla with the protocol extracted from the
code, replayed on the REAL backend thread (tools/filtermodel.py, harness/h_stop in fine-grained mode)."""
import json, os
import sysfam, qsys, dispmodel, filtermodel


def run(ck):
    filtermodel.run_for(ck)
    if os.environ.get("VERIF_PART") == "filter":
        return
    dispmodel.run_for(ck, "C16")
    if os.environ.get("VERIF_PART") == "model":      # analysis aid: the design-level part alone
        return
    sysfam.run_family(ck, "C16", 400 if ck.tier == "quick" else 3000)


def replay(ck, path):
    if json.loads(open(path).read())["replay"].get("harness") == "h_stop":
        filtermodel.replay(path)
    else:
        qsys.replay(path)
