"""C16 - pipeline property judged by spec/QuillContract.tla (flag ok16) through TLC trace validation (spec/TraceQuill.tla) of
executions of the real frontend/backend recorded by harness/h_sys; scenario family in props/sysfam.py; implementation-shaped
exploration in spec/Dispatch.tla (tools/dispmodel.py): exhaustive small-scope model of the level check and the per-sink dispatch
loop, every transition exported as a behaviour, judged by the contract and replayed on the real code."""
import os
import sysfam, qsys, dispmodel


def run(ck):
    dispmodel.run_for(ck, "C16")
    if os.environ.get("VERIF_PART") == "model":      # analysis aid: the design-level part alone
        return
    sysfam.run_family(ck, "C16", 400 if ck.tier == "quick" else 3000)


def replay(ck, path):
    qsys.replay(path)
