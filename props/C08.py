"""C08 - pipeline property judged by spec/QuillContract.tla (flag ok08) through TLC trace validation (spec/TraceQuill.tla) of
executions of the real frontend/backend recorded by harness/h_sys; scenario family in props/sysfam.py; implementation-shaped
exploration in spec/Quill.tla. The dropped-message counter at the granularity of its atomic accesses (increment racing with the
backend's test-and-reset): spec/CounterRA.tla with the protocol extracted from the code, replayed on the REAL backend thread and REAL
log calls on a bounded dropping queue (tools/countermodel.py, harness/h_stop -DHSTOP_DROP)."""
import json, os
import sysfam, qsys, countermodel


def run(ck):
    countermodel.run_for(ck)
    if os.environ.get("VERIF_PART") == "counter":
        return
    sysfam.run_family(ck, "C08", 250 if ck.tier == "quick" else 3000)


def replay(ck, path):
    if json.loads(open(path).read())["replay"].get("harness") == "h_stop_drop":
        countermodel.replay(path)
    else:
        qsys.replay(path)
