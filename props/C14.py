"""C14 - size rotation keeps every statement whole and in order within the size / backup-count bounds.
Spec: spec/Rotate.tla (RotatingSink transcribed: created-files deque, rename chain, delete / stop rule, clean and
recover for the three naming schemes, open modes, restart), spec/RotateContract.tla (the property over the observable
directory), spec/TraceRotate.tla (trace validation).
Binding: every complete history TLC exports (all histories to a depth, with the model's predicted directory) plus
seeded random long histories are replayed into the real quill::RotatingFileSink (harness/h_rot.cpp) in scratch
directories; the directory listing + file contents recorded after every operation are judged by TLC against the
contract; the model's predicted directory is compared as well (mismatch = drift, not a verdict)."""
import random
from datetime import datetime
import vlib, rot

TOL = '{"count_after_restart", "deleted_after_restart"}'
PROPS = {"whole", "lost", "alien", "dup", "order", "name", "count", "size", "deleted", "unrelated", "error",
         "lost_after_restart", "order_after_restart", "count_after_restart", "deleted_after_restart"}
ZONES = [("America/New_York", datetime(2024, 3, 9, 0, 0)), ("Europe/Berlin", datetime(2023, 10, 28, 0, 0)),
         ("Australia/Lord_Howe", datetime(2024, 4, 6, 0, 0))]


def random_history(rng, k):
    scheme = rng.choice("IDT")
    limit = rng.choice([512, 513, 600, 1000, 4096])
    maxb = rng.choice([0, 1, 2, 3, 5, -1])
    zone = rng.choice("GL")
    tzname, base = rng.choice(ZONES)
    cfg = {"limit": limit, "maxb": maxb, "over": 1 if maxb < 0 else rng.choice([0, 1]), "scheme": scheme, "freq": "N",
           "interval": 1, "daily": "00:00", "zone": zone, "tz": tzname, "clean": rng.choice([0, 1])}
    t = int(base.timestamp()) + rng.choice([0, 3600 * 5, 86399, 86400 + 7200])
    ops = [("C", rng.choice("aaw"), t)]
    cur, sid = 0, 1
    for _ in range(rng.randint(8, 48)):
        if rng.random() < 0.10:
            t += rng.choice([0, 0, 1, 3600, 86400, 3 * 86400])
            m = rng.choice("aaaw")
            rm = 1 if (m == "a" and rng.random() < 0.35) else 0     # the active file disappears while no sink is open
            ops.append(("R", m, t, rm))
            if m == "w" or rm:
                cur = 0
            continue
        t += rng.choice([0, 0, 0, 0, 1, 59, 3600, 43200, 86400])
        room = limit - cur
        sz = rng.choice([room, room + 1, room - 1, 16, 40, limit, limit + 1, limit - 1, 2 * limit + 7,
                         rng.randint(16, limit), rng.randint(16, max(17, limit // 3))])
        if sz < 16:
            sz = rng.randint(16, 64)
        if cur and cur + sz > limit:
            cur = 0
        cur += sz
        ops.append(("W", sid, sz, t))
        sid += 1
    return {"k": k, "cfg": cfg, "pre": rng.sample(rot.UNREL, rng.randint(0, 3)), "ops": ops}


def run(ck):
    quick = ck.tier == "quick"
    rng = random.Random(ck.seed)
    ck.rule = ("histories = every complete history of the Rotate model to the export depth (TLC, all configurations: 3 naming "
               "schemes x backup counts {0,1,2,unlimited} x overwrite x clean-up x open modes, <= 2 restarts (each append restart also with the active file removed while no sink is open), sizes "
               "{limit/4, 3/4 limit, 5/4 limit}, colliding and non-colliding dates; sampled in the quick tier) + seeded random "
               "long histories (byte-exact fills, limit+-1, oversize statements, restarts, unrelated files, GMT and DST zones); "
               "non-trivial = the real sink rotated at least once; distinct by configuration + operation sequence")
    ck.assumptions = [
        "unit = one write_log call; statement sizes >= 16 bytes so that each carries its id; before_write transformations and JSON sinks are outside",
        "timestamps are non-decreasing and a restart's start_time is not before the last statement (the backend delivers in timestamp order)",
        "a file may exceed the limit only if it holds one statement or grew while rotation was stopped by the no-overwrite rule",
        "a size rotation when the statement would exactly fill the file is tolerated either way (contract: rotation justified iff cur+size >= limit)",
        "a w-mode (re)start begins a new sequence: statements written before it are outside the contract afterwards (may be removed, "
        "overwritten by renames or left behind; files left behind may be counted by the sink for its stop/delete rule); "
        "the backup-count bound is demanded within a run and across append-mode restarts",
        "naming order: current file newest; Index: larger index older; Date/DateAndTime: earlier suffix older, same suffix: larger index older",
        "a rotated file re-opened by an append restart may be named after the original or the re-open instant",
        "a restart may find the active file gone (crash between rename and re-open, external tool): its statements count as deliberately deleted, "
        "every other retained file must keep statements, order, naming and count bound",
        "unrelated = different extension or name not starting with 'logfile.' (the repository's own notion)",
        "fsync is a no-op in the harness (durability is not part of the property)",
    ]
    rot.load_proposed(ck)
    exe = rot.build()
    # ---- 1. design level: the contract holds on the transcription for every history up to the bound
    d_i, d_d, d_t = (7, 6, 5) if quick else (9, 7, 7)
    sizes = "{1, 3, 5}" if quick else "{1, 2, 3, 5}"
    RM = "{0, 1}"     # restarts with and without "the active file disappeared while no sink was open"
    REACH = ("NoRotation", "NoDeletion", "NoStop", "NoRecovery", "NoRecoveryWithoutActive")
    d_e = 5
    jobs = [("MC_C14_index", rot.mc_cfg("MC_C14_index", export=True, Schemes="{0}", MaxOps=d_i, Sizes=sizes, ExportDepth=d_e, RMs=RM), dict(timeout=1700), 3 if quick else 4),
            ("MC_C14_date", rot.mc_cfg("MC_C14_date", export=True, Schemes="{1}", MaxOps=d_d, Tolerated=TOL, ExportDepth=d_e, RMs=RM), dict(timeout=1700), 5 if quick else 6),
            ("MC_C14_datetime", rot.mc_cfg("MC_C14_datetime", export=True, Schemes="{2}", MaxOps=d_t, Tolerated=TOL, ExportDepth=d_e, RMs=RM), dict(timeout=1700), 6),
            ("MC_C14_coverage", rot.mc_cfg("MC_C14_coverage", Schemes="{0, 1}", MaxOps=4, RMs=RM), dict(coverage=True, timeout=600), 1),
            ]
    # the deviations tolerated above, as TLC counterexamples (one per scheme and clause): replayed on the real sink below
    WIT = [(f"MC_C14_witness_{'DT'[sc - 1]}_{n}", sc, tol) for sc in (1, 2) for n, tol in ((0, "{}"), (1, '{"count_after_restart"}'))]
    jobs += [(lbl, rot.mc_cfg(lbl, Schemes="{%d}" % sc, MaxOps=6, Tolerated=tol), dict(timeout=600), 1) for lbl, sc, tol in WIT]
    # deeper, focused: an append restart that finds the active file gone, then enough writes to rotate again
    jobs += [("MC_C14_active_file_removed", rot.mc_cfg("MC_C14_active_file_removed", export=True, Schemes="{0, 1, 2}", Modes="{0}", RMs="{1}",
                                                       MaxRestarts=1, MaxOps=6, ExportDepth=6, Sizes="{1, 5}", MaxBs="{1, 2, 99}", Cleans="{0}",
                                                       Tolerated=TOL), dict(timeout=1700), 2)]
    jobs += rot.reach_jobs(ck, dict(Schemes="{0, 1}", MaxOps=6, RMs=RM), REACH)
    res = dict(rot.tlc_parallel(jobs))
    rot.coverage_selftest(res["MC_C14_coverage"])
    ck.add_tlc(res["MC_C14_coverage"], "MC_C14_coverage")
    for lbl in ("MC_C14_index", "MC_C14_date", "MC_C14_datetime", "MC_C14_active_file_removed"):
        rot.must_hold(ck, lbl, res[lbl], count=False)
    witnesses = []
    for lbl, sc, tol in WIT:
        w = res[lbl]
        ck.add_tlc(w, lbl)
        if w.violated and w.trace:
            witnesses.append({"cf": w.trace[-1]["cf"], "ops": w.trace[-1]["hist"], "clauses": w.trace[-1]["c"]["why"]})
    ck.extra["model_counterexamples_without_tolerance"] = [
        {"cf": x["cf"], "clauses": x["clauses"], "history": [[h["op"], h["mode"], h["t"], h["id"], h["sz"]] for h in x["ops"]]} for x in witnesses]
    rot.reach_check(ck, res, REACH)
    ck.extra["model_bounds"] = {"index_depth": d_i, "date_depth": d_d, "datetime_depth": d_t, "sizes": sizes, "limit": 4, "restarts": 2,
                                "tolerated_in_model": "count/deleted after an append restart for Date and DateAndTime (known deviation, judged on the real code)"}
    # ---- 2. behaviours: all complete histories to the export depth
    behs = [rot.take_behaviours(ck, res, lbl) for lbl in ("MC_C14_index", "MC_C14_date", "MC_C14_datetime")]
    # of the focused export keep the histories where the restart is followed by at least two writes
    far = [b for b in rot.take_behaviours(ck, res, "MC_C14_active_file_removed")
           if any(o["op"] == "R" and sum(1 for q in b["ops"][i + 1:] if q["op"] == "W") >= 2 for i, o in enumerate(b["ops"]))]
    behs.append(far)
    ck.extra["histories_exported_by_tlc"] = sum(len(b) for b in behs)
    cap = 6000 if quick else None
    chosen = []
    sampled = False
    for b in behs:
        if cap and len(b) > cap:
            b = rng.sample(b, cap)
            sampled = True
        chosen += b
    # exhaustive = the model was checked exhaustively for the bound AND every exported history was replayed on the real sink
    ck.exhaustive = not sampled
    ck.extra["model_exhaustive_for_bounds"] = True
    gmt = rot.Mapping(datetime(2023, 6, 12, 0, 0), 43200, "G", "GMT", daylen=2, dayoff=0)
    nyc = rot.Mapping(datetime(2024, 3, 9, 0, 0), 43200, "L", "America/New_York", daylen=2, dayoff=0)
    items, k = [], 0
    for x in witnesses:
        items.append(rot.from_behaviour(k, x, gmt)); k += 1
    for i, b in enumerate(chosen):
        items.append(rot.from_behaviour(k, b, gmt, pre=rot.UNREL[:2] if i % 3 == 0 else ())); k += 1
        if i % (6 if quick else 3) == 0:
            items.append(rot.from_behaviour(k, b, nyc, limit_bytes=1024, pre=rot.UNREL[2:] if i % 4 == 0 else ())); k += 1
    n_tlc = len(items)
    nrand = 1500 if quick else 30000
    for _ in range(nrand):
        items.append(random_history(rng, k)); k += 1
    # ---- 3. run on the real sink, 4. validate with TLC against the contract
    # random histories first in the sample list: put one long random history next to the TLC ones
    rot.process(ck, exe, items[:n_tlc], PROPS)
    rot.process(ck, exe, items[n_tlc:], PROPS, nsamples=1)
    ck.extra["histories_from_tlc_replayed"] = n_tlc
    ck.extra["histories_random"] = nrand


def replay(ck, path):
    rot.replay(ck, path)
