"""C20 - exited threads' queues are drained, then reclaimed; shrinking loses nothing.
Contract: spec/QuillContract.tla (ok20 + delivery ok03 clauses), TLC trace validation of real executions (harness/h_sys);
shrink at queue level: spec/UnboundedRA.tla / StreamContract (C02 machinery); the exit/reclaim protocol under release/acquire:
spec/ExitRA.tla with the memory orders extracted from the code, replayed on the real ThreadContext and queue (tools/exitmodel.py)."""
import json
import os
import sysfam, qsys, exitmodel, stopmodel


def run(ck):
    quick = ck.tier == "quick"
    exitmodel.run_for(ck)
    # the same protocol on the REAL backend thread: a second thread logs and exits while the backend polls (spec/StopRA.tla,
    # invariant NoReclaimLoss; harness/h_stop: the backend's own _cleanup_invalidated_thread_contexts decides)
    stopmodel.run_for(ck)
    if os.environ.get("VERIF_PART") == "ra":
        return
    # shrink at queue level ("shrinking loses nothing"): the C02 machinery on the configurations that contain shrink requests -
    # consumer/producer interleavings inside prepare_read()/shrink() are not reachable from the system-level yield points
    import C02
    shr = [c for c in C02.configs(quick) if c["nshrink"] > 0][: (1 if quick else 3)]
    C02.queue_level(ck, shr, 4 if quick else 40, meta=False)

    def extra(rng):
        out = []
        # the invalid-context counter: N short-lived threads between two idle periods, N around every power-of-two width
        ns = [1, 2, 3, 255, 256, 257] if quick else [1, 2, 3, 127, 128, 255, 256, 257, 511, 512, 513, 1000]
        for n in ns:
            sc, g = sysfam.c20(rng, "UB:256:4096", many=n)
            out.append((f"c20-many-{n}", "UB:256:4096", sc, g))
        return out
    sysfam.run_family(ck, "C20", 200 if quick else 2500, extra)


def replay(ck, path):
    hn = json.loads(open(path).read())["replay"].get("harness")
    if hn == "h_exit":
        exitmodel.replay(path)
    elif hn == "h_stop":
        stopmodel.replay(path)
    else:
        qsys.replay(path)
