"""C01 - bounded SPSC queue delivers each committed record exactly once, in order, intact.
Spec: spec/SpscRA.tla (implementation-shaped, release/acquire memory model, constants EXTRACTED from the code),
spec/SpscContract.tla + spec/TraceSpsc.tla (contract monitor, trace validation).
Binding: harness/h_spsc.cpp runs the real BoundedSPSCQueueImpl<uint8_t|uint16_t> on a shim std::atomic with the same
memory model; TLC behaviours are replayed step by step (state compared), TLC counterexamples are replayed and only
count if the real code shows the race, seeded random walks are validated by TLC against the contract."""
import json, random
import vlib, spsc, sysh

INV = ["NoRace", "Fifo", "GrantFits", "Contiguous", "ConsumedIsPrefix"]
ACTIONS = [("APWFast", "PWFast"), ("APWSlow", "PWSlow"), ("Write",), ("FinishCommit",), ("PRFast",), ("APRSlow", "PRSlow"),
           ("Read",), ("FinishRead",), ("CommitRead",)]


def configs(quick):
    c = [dict(cap=4, pct=25, sizes=[1, 2, 4], recs=4, xrecs=3),
         dict(cap=4, pct=50, sizes=[1, 3, 4], recs=4, xrecs=3),
         dict(cap=2, pct=0, sizes=[1, 2], recs=5, xrecs=4),
         dict(cap=8, pct=100, sizes=[1, 4, 7, 8], recs=3, xrecs=3)]
    if not quick:
        c = [dict(cap=4, pct=25, sizes=[1, 2, 3, 4], recs=5, xrecs=4),
             dict(cap=4, pct=50, sizes=[1, 2, 3, 4], recs=5, xrecs=4),
             dict(cap=4, pct=100, sizes=[1, 2, 4], recs=5, xrecs=4),
             dict(cap=2, pct=0, sizes=[1, 2], recs=6, xrecs=5),
             dict(cap=8, pct=5, sizes=[1, 4, 7, 8], recs=4, xrecs=3),
             dict(cap=8, pct=50, sizes=[1, 4, 7, 8], recs=4, xrecs=3),
             dict(cap=8, pct=100, sizes=[1, 3, 8], recs=4, xrecs=3)]
    return c


def replay_behaviours(ck, exe, behs, cap, pct, start, label):
    """Replay TLC behaviours on the real queue; strict state comparison. Returns number replayed."""
    nb = max(1, min(vlib.NCPU * 2, len(behs) // 50 + 1))
    chunks = [behs[i::nb] for i in range(nb)]
    scripts = []
    for ch in chunks:
        L = []
        for b in ch:
            L.append(spsc.script_of(b, cap, pct, start).replace("end\n", ""))
        scripts.append("".join(L) + "end\n")
    res = spsc.run_many(exe, scripts, timeout=600)
    n = 0
    for ch, (rc, evs) in zip(chunks, res):
        # split events per Init
        runs, cur = [], None
        for e in evs:
            if e.get("e") == "Init":
                cur = []
                runs.append(cur)
            if cur is not None:
                cur.append(e)
        for b, r in zip(ch, runs):
            n += 1
            a_level, i_level = spsc.compare(b, r)
            key = tuple((h["t"], h["a"], tuple(h["arg"])) for h in b)
            ck.case((label, key), nontrivial=any(h["a"] in ("read",) for h in b))
            if a_level:
                sig = "spsc:" + "+".join(sorted(a_level))
                ck.violation(sig, f"{label}: real queue shows {a_level} on behaviour {[(h['t'], h['a'], h['arg']) for h in b]}",
                             {"script": spsc.script_of(b, cap, pct, start), "harness": "h_spsc uint8_t"})
            elif i_level:
                ck.drifted(f"{label}: {i_level}")
        if len(runs) < len(ch):
            ck.drifted(f"{label}: harness produced {len(runs)} runs for {len(ch)} behaviours")
    return n


STEPS = [150]


def fuzz(ck, cfgname, prop_sig_prefix, seeds, quick):
    """Seeded random walks on the real queue (uint8_t and uint16_t counters, many wraps), validated by the contract."""
    STEPS[0] = 150 if quick else 600
    rng = random.Random(ck.seed)
    lines, owners = [], []
    jobs = []
    # requested capacities: powers of two and values the constructor has to round up (the queue works with the rounded one)
    for vt, caps in (("uint8_t", [2, 4, 8, 16, 32, 64, 128, 3, 6, 12, 24, 100]), ("uint16_t", [4, 64, 256, 1024, 5, 100, 1000, 3000])):
        exe = spsc.build(vt)
        for cap in caps:
            for pct in (0, 5, 25, 50, 100):
                jobs.append((vt, exe, cap, pct))
    scripts, meta = [], []
    for (vt, exe, cap, pct) in jobs:
        L = []
        for s in range(seeds):
            seed = rng.randrange(1, 2 ** 30)
            bits = spsc.BITS[vt]
            start = rng.choice([0, 2 ** bits - 3, 2 ** bits - cap, rng.randrange(0, 2 ** bits)])
            maxn = min(cap, 255)
            L.append(f"init cap={cap} pct={pct} start={start}")
            L.append(f"fuzz steps={STEPS[0]} seed={seed} maxn={maxn}")
            meta.append((vt, cap, pct, start, seed))
        scripts.append((exe, "\n".join(L) + "\nend\n"))
    from concurrent.futures import ThreadPoolExecutor
    with ThreadPoolExecutor(max_workers=vlib.NCPU) as ex:
        res = list(ex.map(lambda p: spsc.run(p[0], p[1], 600), scripts))
    mi = 0
    samples = 0
    for (exe, sc), (rc, evs) in zip(scripts, res):
        runs, cur = [], None
        for e in evs:
            if e.get("e") == "Init":
                cur = []
                runs.append(cur)
            if cur is not None:
                cur.append(e)
        for r in runs:
            cl = spsc.contract_lines(r)
            for x in cl:
                owners.append(mi)
            lines += cl
            nreads = sum(1 for x in cl if x["k"] == "read")
            ck.case(("fuzz", meta[mi]), nontrivial=nreads >= 3)
            if samples < 2 and nreads >= 3:
                ck.sample({"fuzz": dict(zip(("type", "cap", "pct", "start", "seed"), meta[mi])), "first_steps": cl[:12]})
                samples += 1
            mi += 1
    _validate(ck, cfgname, prop_sig_prefix, lines, owners, meta)


def _validate(ck, cfgname, prefix, lines, owners, meta, depth=0):
    if not lines:
        return
    r = sysh.validate_trace("TraceSpsc", cfgname, lines, timeout=1200)
    if r.error:
        raise vlib.Infra(r.error)
    ck.add_tlc(r, "TraceSpsc:" + cfgname)
    if r.violated is None:
        if r.distinct != len(lines) + 1:
            raise vlib.Infra(f"trace not fully consumed: {r.distinct} states for {len(lines)} lines")
        ck.traces_validated += len({o for o in owners})
        return
    l = r.trace[-1]["l"] - 1
    bad = lines[l - 1]
    own = owners[l - 1]
    ck.traces_validated += len({o for o in owners[:l - 1]}) - 1 if l > 1 else 0
    vt, cap, pct, start, seed = meta[own]
    clause = {"pw": "grant-exceeds-released-space-or-storage" if bad.get("granted") else "fitting-request-refused-on-drained-queue",
              "write": "overwrite-of-unreleased-bytes", "read": "read-not-next-committed-record-or-torn"}.get(bad["k"], bad["k"])
    # the rejection must repeat
    exe = spsc.build(vt)
    sc = f"init cap={cap} pct={pct} start={start}\nfuzz steps={STEPS[0]} seed={seed} maxn={min(cap, 255)}\nend\n"
    rc, evs = spsc.run(exe, sc)
    cl = spsc.contract_lines(evs)
    r2 = sysh.validate_trace("TraceSpsc", cfgname, cl)
    if r2.violated:
        ck.violation(f"{prefix}:{clause}", f"{vt} cap={cap} pct={pct} start={start} seed={seed}: {clause} at {json.dumps(bad)}",
                     {"script": sc, "harness": f"h_spsc {vt}", "rejected": bad})
    else:
        ck.drifted("fuzz rejection did not repeat")
    if depth < 6:
        # continue after the offending execution
        end = l
        while end < len(lines) and owners[end] == own:
            end += 1
        _validate(ck, cfgname, prefix, lines[end:], owners[end:], meta, depth + 1)


def model_check(ck, exe, c, invariants, start=None, label="MC"):
    k = spsc.extract(exe, c["cap"], c["pct"])
    start = (2 ** k["Bits"] - 3) if start is None else start
    cfg = vlib.write_cfg(vlib.BUILD / "cfg" / f"{label}_SpscRA_{c['cap']}_{c['pct']}.cfg",
                         spsc.cfg_text(k, c["sizes"], c["recs"], start, False, invariants))
    r = vlib.tlc("SpscRA", cfg, coverage=True, timeout=1500)
    if r.error:
        raise vlib.Infra(r.error)
    ck.add_tlc(r, f"{label} cap={c['cap']} pct={c['pct']} batch={k['Batch']}")
    return k, start, r


def run(ck):
    quick = ck.tier == "quick"
    ck.rule = ("(a) every transition of SpscRA's state graph for the listed configurations, replayed on the real queue; "
               "(b) seeded random walks of the two logical threads with random legal load results on uint8_t/uint16_t queues; "
               "non-trivial = the consumer read at least one record (a) / three records (b); distinct by step sequence")
    ck.assumptions = ["memory model = release/acquire fragment with per-location coherence (no fences/RMW in the queue); seq_cst treated as acq/rel",
                      "interleaving at the granularity of the queue's public functions with the result of each atomic load chosen; "
                      "private arithmetic between atomic accesses commutes with the other thread",
                      "the shim replaces std::atomic inside the queue headers only (textual #define), payload accessed via the harness race detector"]
    exe = spsc.build("uint8_t")
    consts = {}
    for c in configs(quick):
        try:
            k, start, r = model_check(ck, exe, c, INV)
        except spsc.ExtractFailed as ex:
            # the code no longer has the shape the implementation-level model assumes: drift, judged by the contract only
            ck.drifted(f"cap={c['cap']} pct={c['pct']}: {ex}")
            ck.exhaustive = False
            continue
        consts[f"cap{c['cap']}_pct{c['pct']}"] = k
        label = f"cap={c['cap']} pct={c['pct']}"
        if r.violated:
            # counterexample of the implementation-shaped model with the code's own constants: replay it; it only
            # counts if the real code reproduces a contract-level rejection
            beh = r.trace[-1]["hist"]
            rc, evs = spsc.run(exe, spsc.script_of(beh, c["cap"], c["pct"], start))
            a_level, i_level = spsc.compare(beh, evs)
            if a_level:
                ck.violation("spsc:" + "+".join(sorted(a_level)) + ":" + r.violated,
                             f"{label}: model violates {r.violated} with extracted constants {k}; the real queue reproduces {a_level}",
                             {"script": spsc.script_of(beh, c["cap"], c["pct"], start), "harness": "h_spsc uint8_t", "constants": k})
            else:
                ck.drifted(f"{label}: model violates {r.violated} but the real code does not reproduce it ({i_level})")
            continue
        for act in ACTIONS:
            if not vlib.enabled(r, *act):
                raise vlib.Infra(f"vacuity: {act[0]} never enabled for {label}")
        # behaviour export (one per transition) and replay with state comparison
        cfgx = vlib.write_cfg(vlib.BUILD / "cfg" / f"X_SpscRA_{c['cap']}_{c['pct']}.cfg",
                              spsc.cfg_text(k, c["sizes"], c["xrecs"], start, True, []))
        rx = vlib.tlc_must("SpscRA", cfgx, timeout=1500)
        behs = vlib.behaviours(rx)
        ck.add_tlc(rx, f"export {label}")
        if quick and len(behs) > 12000:
            rng = random.Random(ck.seed)
            behs = rng.sample(behs, 12000)
        n = replay_behaviours(ck, exe, behs, c["cap"], c["pct"], start, label)
        ck.traces_validated += n
        if behs:
            b = behs[len(behs) // 2]
            ck.sample({"config": label, "behaviour": [[h["t"], h["a"], h["arg"]] for h in b]}, cap=4)
    ck.extra["extracted_constants"] = consts
    if ck.exhaustive is None:
        ck.exhaustive = True
    fuzz(ck, "TraceSpsc_C01.cfg", "spsc", 6 if quick else 60, quick)


def replay(ck, path):
    j = json.loads(open(path).read())["replay"]
    vt = j["harness"].split()[-1]
    rc, evs = spsc.run(spsc.build(vt), j["script"])
    for e in evs:
        print(json.dumps(e))
