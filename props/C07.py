"""C07 - stopping, exiting or dying by a handled signal loses no completed statement.
Spec: spec/Life.tla (implementation-shaped: Backend::start/stop, once-flag, atexit, _poll/_exit drain, stdio buffer vs
disk, on_signal/on_alarm, exit()/death by signal), spec/LifeContract.tla (what an outside observer may see),
spec/TraceLife.tla (trace validation).
1. TLC checks the C07 invariants on Life exhaustively for small bounds (with -coverage self-test) and must find a
   counterexample for each of seven seeded defects of the model (Variant), so the invariants are not vacuous.
2. TLC (simulation mode, seeded, invariants checked at the full bounds) exports programs: the frontend calls of a
   behaviour in their order (start / log / stop / worker returns / exit / return from main / signal at thread t).
3. Every program, crossed with run attributes (clock source, gate sink, turn-by-turn or free-running threads, soft
   limit, backend sleep, signal flavour), runs in a forked child with the REAL backend thread and a real FileSink
   (harness/h_life.cpp); the child logs its observable events in shared memory, the parent adds wait status and file.
4. TLC validates every recorded execution against the contract (TraceLife). Only a contract rejection that repeats in
   three re-runs of the same scenario is a violation; a rejection that does not repeat is reported as drift.
5. The stop handshake under the C++ release/acquire model: spec/StopRA.tla with the memory orders extracted from the code,
   replayed on the REAL backend thread / Backend::stop() / log calls running on a shim atomic (tools/stopmodel.py)."""
import json, os, random, re, signal, subprocess
from concurrent.futures import ThreadPoolExecutor
import vlib, stopmodel, newctxmodel

SIGNUM = {"SEGV": signal.SIGSEGV.value, "ABRT": signal.SIGABRT.value, "FPE": signal.SIGFPE.value,
          "ILL": signal.SIGILL.value, "INT": signal.SIGINT.value, "TERM": signal.SIGTERM.value}
SIGNAME = {v: k for k, v in SIGNUM.items()}
GRACEFUL = ("INT", "TERM")
TID = {"m": 0, "w1": 1, "w2": 2}
TNAME = {v: k for k, v in TID.items()}
# seeded defects of the model: (Variant, WaitEmpty under which it is a defect)
DEFECTS = [("exit_until_nothing_cached", True), ("exit_ignores_rings", True), ("no_final_flush", True), ("no_once_regen", True), ("reraise_before_flush", True),
           ("exit0_for_fatal", True), ("spawn_unmasked", True), ("cleanup_nonempty", True),
           ("reraise_before_flush", False), ("graceful_exit_no_flush", False)]
INVS = "StopOK RestartOK ExitOK SigOK DiskShape TypeOK"
ALL_SIGS = '{"SEGV","ABRT","FPE","ILL","INT","TERM"}'


def _cfg(name, workers, stmts, starts, sigs, soft=100, raises=1, variant="code", lifecyclers='{"m"}', sym=True, wait=True, grace=False):
    ws = "{" + ",".join(workers) + "}"
    text = ("SPECIFICATION Spec\nCONSTANTS\n Main = \"m\"\n Workers = %s\n Lifecyclers = %s\n MaxStmts = %d\n"
            " MaxStarts = %d\n Sigs = %s\n SoftLimit = %d\n MaxRaise = %d\n Variant = \"%s\"\n Export = FALSE\n"
            " WaitEmpty = %s\n Grace = %s\nINVARIANTS %s\n%sCHECK_DEADLOCK TRUE\n"
            % (ws, lifecyclers, stmts, starts, sigs, soft, raises, variant, "TRUE" if wait else "FALSE", "TRUE" if grace else "FALSE", INVS,
               "SYMMETRY WorkerSymmetry\n" if sym and len(workers) > 1 else ""))
    return vlib.write_cfg(vlib.BUILD / "cfg" / (name + ".cfg"), text)


# ------------------------------------------------------------------------------------------- 1. design level
REQUIRED_ACTIONS = ["Log", "Finish", "StartCall", "StMask", "StSpawn", "StWait", "StCtx", "StUnmask", "StAtexit",
                    "BInit", "BTop", "BOne", "BBatch", "BIdleFlush", "BIdleCheck", "BExitCheck", "BExitFlush",
                    "StopCall", "SpXchg", "SpJoin", "SpTid", "SpOnce", "ExitCall", "ExAtexit", "ExManual", "ExStatic",
                    "Raise", "HLock", "HAlarm", "HTid", "HLog", "HCrit", "HFlush", "HWait", "HDfl", "HRaise",
                    "AlarmFires"]


def model_check(ck, quick):
    runs = []
    if quick:
        runs.append(("MC_Life_q1", _cfg("MC_Life_q1", ["w1"], 2, 2, ALL_SIGS), False))
        runs.append(("MC_Life_q2", _cfg("MC_Life_q2", ["w1"], 2, 1, '{"SEGV","INT"}', soft=1, raises=2), False))
        runs.append(("MC_Life_qcov", _cfg("MC_Life_qcov", ["w1"], 1, 2, '{"SEGV","INT"}'), True))
        runs.append(("MC_Life_qnowait", _cfg("MC_Life_qnowait", ["w1"], 2, 2, '{"SEGV","INT"}', wait=False), False))
        # a non-zero timestamp-ordering grace period: statements become readable only after time has passed (Age)
        runs.append(("MC_Life_qgrace", _cfg("MC_Life_qgrace", ["w1"], 2, 1, '{"INT"}', grace=True), False))
    else:
        runs.append(("MC_Life_t1", _cfg("MC_Life_t1", ["w1"], 3, 2, ALL_SIGS), False))
        runs.append(("MC_Life_tcov", _cfg("MC_Life_tcov", ["w1"], 2, 2, '{"SEGV","INT"}'), True))
        runs.append(("MC_Life_t2", _cfg("MC_Life_t2", ["w1", "w2"], 2, 2, '{"SEGV","INT"}'), False))
        runs.append(("MC_Life_t3", _cfg("MC_Life_t3", ["w1"], 2, 2, '{"SEGV","INT"}', soft=1, raises=2), False))
        runs.append(("MC_Life_t4", _cfg("MC_Life_t4", ["w1"], 2, 2, '{"SEGV","INT"}', lifecyclers='{"m","w1"}'), False))
        runs.append(("MC_Life_t5", _cfg("MC_Life_t5", ["w1", "w2"], 3, 1, "{}"), False))
        runs.append(("MC_Life_t6", _cfg("MC_Life_t6", ["w1"], 3, 2, ALL_SIGS, wait=False), False))
        runs.append(("MC_Life_tgrace", _cfg("MC_Life_tgrace", ["w1"], 2, 2, '{"SEGV","INT"}', grace=True), False))
    cov = {}
    for name, cfg, coverage in runs:
        r = vlib.tlc_must("Life", cfg, coverage=coverage, timeout=150 if quick else 1500, keep_out=False)
        if r.violated:
            # the model of the unchanged code breaks its own invariant: a modelling matter, not a verdict on the code
            raise vlib.Infra(f"Life model ({name}) violates {r.violated}")
        ck.add_tlc(r, name)
        if coverage:
            cov = r.coverage
    for act in REQUIRED_ACTIONS:
        if cov.get(act, (0, 0))[1] == 0:
            raise vlib.Infra(f"vacuity: action {act} of Life never enabled")
    ck.extra["action_coverage"] = {a: list(cov[a]) for a in sorted(cov)}
    # every seeded defect of the model must be caught by an invariant (self-test against vacuity)
    def one(vw):
        v, w = vw
        v = v if w else v + "@nowait"
        cfg = _cfg("MC_Life_var_" + v, ["w1"], 2, 2, '{"SEGV","INT"}', variant=vw[0], wait=w, grace=(vw[0] == "exit_until_nothing_cached"))
        return v, vlib.tlc("Life", cfg, workers=4, timeout=300, heap="2g", keep_out=False)
    caught = {}
    with ThreadPoolExecutor(max_workers=4) as ex:
        for v, r in ex.map(one, DEFECTS):
            if r.error:
                raise vlib.Infra(f"variant {v}: {r.error}")
            if not r.violated or r.violated == "deadlock":
                raise vlib.Infra(f"vacuity: seeded model defect {v} is not caught by any invariant ({r.violated})")
            caught[v] = r.violated
            ck.add_tlc(r, "MC_Life_var_" + v)
    ck.extra["model_defects_caught"] = caught


# ------------------------------------------------------------------------------------------- 2. programs from TLC
def export_programs(ck, quick):
    text = ("SPECIFICATION SimSpec\nCONSTANTS\n Main = \"m\"\n Workers = {\"w1\",\"w2\"}\n Lifecyclers = {\"m\",\"w1\"}\n"
            " MaxStmts = 3\n MaxStarts = %d\n Sigs = %s\n SoftLimit = 100\n MaxRaise = 1\n Variant = \"code\"\n"
            " Export = TRUE\n WaitEmpty = TRUE\n Grace = FALSE\nINVARIANTS %s\nACTION_CONSTRAINT ExportA SimThin\nCHECK_DEADLOCK FALSE\n"
            % (2 if quick else 3, ALL_SIGS, INVS))
    cfg = vlib.write_cfg(vlib.BUILD / "cfg" / "Sim_Life.cfg", text)
    r = vlib.tlc_must("Life", cfg, simulate=600 if quick else 4000, depth=500, seed=ck.seed, deadlock=False,
                      timeout=600, keep_out=True)
    if r.violated:
        raise vlib.Infra(f"Life model violates {r.violated} in simulation at the full bounds")
    behs = vlib.behaviours(r)
    r.out = ""
    r.prints = []
    if len(behs) < 2000:
        raise vlib.Infra(f"behaviour export produced too few programs ({len(behs)})")
    ck.extra["tlc_simulated_behaviours"] = len(behs)
    return behs


def _steps_of(prog):
    """TLC program -> (steps, info) or None when the program is outside what the harness runs.
    steps: list of (op, t, x). The program is cut after the request that ends the process."""
    steps, up, started, fin = [], False, False, set()
    nlog = {0: 0, 1: 0, 2: 0}
    for p in prog:
        op, t, x = p["op"], TID[p["t"]], p["x"]
        if op == "log":
            steps.append(("L", t, None)); nlog[t] += 1
        elif op == "start":
            steps.append(("S", t, None)); up = True; started = True
        elif op == "stop":
            steps.append(("P", t, None)); up = False
        elif op == "fin":
            steps.append(("F", t, None)); fin.add(t)
        elif op == "exit":
            steps.append(("X", t, int(x))); break
        elif op == "ret":
            steps.append(("R", 0, 0)); break
        elif op == "sig":
            if not up:
                return None          # a signal while no backend runs is outside C07 (and hangs the real process)
            steps.append(("G", t, x)); break
    else:
        return None
    return steps, {"started": started, "fin": fin, "nlog": nlog}


def make_scenarios(ck, behs, quick, rng):
    want = 240 if quick else 3000
    classes = {}
    seen = set()
    for b in behs:
        so = _steps_of(b["prog"])
        if so is None:
            continue
        steps, info = so
        key = tuple(steps)
        if key in seen or len(steps) > 40:
            continue
        seen.add(key)
        end = steps[-1]
        cls = (end[0], end[2] if end[0] == "G" else 0, end[1] != 0,
               sum(1 for s in steps if s[0] == "S"), sum(1 for s in steps if s[0] == "P"),
               len(info["fin"]), sum(1 for v in info["nlog"].values() if v))
        classes.setdefault(cls, []).append((steps, info, b["outcome"]))
    ck.extra["distinct_programs"] = len(seen)
    ck.extra["program_classes"] = len(classes)
    keys = sorted(classes)
    for k in keys:
        rng.shuffle(classes[k])
    # round-robin over the classes, the three groups "0 / 1 / 2 workers already finished" taking turns
    def interleaved(ks):
        # classes ordered so that the eight endings (exit, return, six signals) take turns
        bk = {}
        for k in ks:
            bk.setdefault((k[0], k[1]), []).append(k)
        for v in bk.values():
            rng.shuffle(v)
        sigs = sorted(e for e in bk if e[0] == "G")
        cycle = []
        for i in range(0, max(len(sigs), 1), 2):      # exit and return get a turn after every two signals
            cycle += [e for e in bk if e[0] in "XR"] + sigs[i:i + 2]
        out = []
        while any(bk.values()):
            for e in cycle:
                if bk[e]:
                    out.append(bk[e].pop())
        return out
    groups = [interleaved([k for k in keys if k[5] == g]) for g in (0, 1, 2)]
    pos = [0, 0, 0]
    picked, nostart, g = [], 0, 0
    while len(picked) < want and any(classes[k] for k in keys):
        g = (g + 1) % 3
        live = [k for k in groups[g] if classes[k]]
        if not live:
            continue
        k = live[pos[g] % len(live)]
        pos[g] += 1
        steps, info, outcome = classes[k].pop()
        if not info["started"]:
            nostart += 1
            if nostart > 4:
                continue
        picked.append((steps, info, outcome))
    scns, rr, nw, nn = [], {}, {}, {}
    for i, (steps, info, outcome) in enumerate(picked):
        end = steps[-1]
        has_sig = end[0] == "G"
        a = {"clock": "tsc" if rng.random() < 0.08 else "sys",
             "gate": rng.choice([0, 0, 1, 1, 2]),
             "sync": "free" if rng.random() < 0.25 else "turn",
             "soft": 1 if rng.random() < 0.15 else 0,
             "sleep": rng.choice([-1, -1, -1, 0, 2000, 2000]),
             "sh": 1 if has_sig or rng.random() < 0.5 else 0,
             "named": 1 if rng.random() < 0.3 else 0, "wait": 1, "q": 0}
        if has_sig:
            # SignalHandlerOptions::logger: none / the logger that exists / a name no logger has (the handler must
            # fall back to the first valid logger) - in turn
            nn["sig"] = nn.get("sig", 0) + 1
            a["named"] = nn["sig"] % 3
        # wait_for_queues_to_empty_before_exit = false: the stop/exit clause promises nothing then, the signal clause
        # still holds. Every second SIGINT/SIGTERM scenario, every third fatal one and every fifth stop/exit one
        # run that way; the signal ones with a backend that is kept behind (hold gate, else slow gate / soft limit 1
        # / long sleep), and turn by turn, so that what the handler must flush is still unconsumed when it runs
        kind = "graceful" if has_sig and end[2] in GRACEFUL else "fatal" if has_sig else "plain"
        nw[kind] = nw.get(kind, 0) + 1
        if nw[kind] % {"graceful": 2, "fatal": 3, "plain": 5}[kind] == 0:
            a["wait"] = 0
            if has_sig:
                a["sync"] = "turn"
                j = nw[kind] // {"graceful": 2, "fatal": 3}[kind]
                a["gate"] = [1, 1, 2, 1][j % 4]
                a["soft"] = 1 if j % 4 == 3 else a["soft"]
                a["sleep"] = 2000 if j % 4 == 2 else a["sleep"]
        if not has_sig and a["wait"] == 1 and _burst(steps):
            # queue growth / shrink before the stop: every eligible scenario (some thread logs >= 2 statements that a
            # later stop/exit of a running backend must drain) takes one of the three exercises in turn, turn by
            # turn and with the backend held (hold gate) or asleep (20 ms), so that the drain is left to _exit()
            # (a fourth exercise in the rotation: no growth/shrink, but the bounded-queue build of the harness)
            nn["q"] = nn.get("q", 0) + 1
            a["q"] = 1 + nn["q"] % 4
            if a["q"] == 4:
                a["q"], a["bq"] = 0, 1
            a["sync"] = "turn"
            a["soft"] = 0
            if a.get("bq"):
                # the backend must have decoded several statements and written only some when the stop request arrives: a
                # slow sink (150 us per write) and free-running threads, so that a burst is read in one pass
                a["gate"], a["sleep"], a["sync"] = 2, -1, "free"
            elif nn["q"] % 5 == 3 and a["q"] != 3:
                a["gate"], a["sleep"] = 0, 20000
            else:
                a["gate"], a["sleep"] = 1, -1
        if not has_sig and a["wait"] == 1 and a["q"] == 0 and not a.get("bq"):
            # every third remaining stop/exit scenario runs with a LONG timestamp-ordering grace period (100 ms): what was logged
            # right before the stop/exit is still too young to be read when the exit drain starts - the drain must wait for it
            nn["g"] = nn.get("g", 0) + 1
            if nn["g"] % 3 == 0:
                a["q"] = 5
        toks = []
        for op, t, x in steps:
            if op in "LSPF":
                toks.append(f"{op}{t}")
            elif op == "X":
                toks.append(f"X{t}:{x}")
            elif op == "R":
                toks.append("R")
            else:
                alive = [u for u in (0, 1, 2) if u != t and u not in info["fin"]]
                fl = ["r", "k"] if alive else ["r"]
                if x not in GRACEFUL:
                    fl.append("f")
                if t == 0:
                    fl.append("p")
                used = rr.setdefault(x, {})          # per signal the applicable flavour used least so far
                f = min(fl, key=lambda y: (used.get(y, 0), fl.index(y)))
                used[f] = used.get(f, 0) + 1
                if f == "k":
                    f = "k%d" % (0 if t != 0 else alive[0])
                toks.append(f"G{t}:{SIGNUM[x]}:{f}")
        scns.append({"id": f"s{i}", "attrs": a, "steps": toks, "model_outcome": outcome})
    return scns


def _burst(steps):
    """some thread logs >= 2 statements between a stop (or the beginning) and the next stop/exit of a running backend"""
    up, cnt = False, {}
    for op, t, x in steps:
        if op == "L":
            cnt[t] = cnt.get(t, 0) + 1
        elif op == "S":
            up = True
        elif op in "PXR":
            if up and any(v >= 2 for v in cnt.values()):
                return True
            if op == "P":
                up, cnt = False, {}
    return False


def scn_line(s, sid=None):
    a = s["attrs"]
    return "%s %s %d %s %d %d %d %d %d %d %s" % (sid or s["id"], a["clock"], a["gate"], a["sync"], a["soft"], a["sleep"],
                                                 a["sh"], a["named"], a["wait"], a["q"], " ".join(s["steps"]))


# ------------------------------------------------------------------------------------------- 3. real executions
def build_harness(bounded=False):
    if bounded:
        return vlib.build("h_life_bb", [vlib.HARNESS / "h_life.cpp"], flags=["-DVL_BOUNDED"])
    return vlib.build("h_life", [vlib.HARNESS / "h_life.cpp"])


def run_mixed(exes, scns, lines, timeout):
    """scenarios marked bq run on the bounded-queue build of the harness, the others on the default build"""
    obs = {}
    for b in (0, 1):
        grp = [ln for s, ln in zip(scns, lines) if s["attrs"].get("bq", 0) == b]
        if grp:
            obs.update(run_scenarios(exes[b], grp, timeout=timeout))
    return obs


def run_scenarios(exe, lines, timeout=900):
    """Run scenario lines through the harness. Returns {id: observation}."""
    d = vlib.scratch("life")
    try:
        sf = d / "scn.txt"
        sf.write_text("\n".join(lines) + "\n")
        rc, so, se = vlib.run_cmd([exe, sf, d, str(vlib.NCPU)], timeout=timeout, env={"H_LIFE_TIMEOUT_MS": "10000"})
        if rc != 0:
            raise vlib.Infra(f"h_life failed rc={rc}: {se[-500:]}")
        obs = {}
        for ln in so.splitlines():
            o = json.loads(ln)
            obs[o["id"]] = o
        if len(obs) != len(lines):
            raise vlib.Infra(f"h_life reported {len(obs)} of {len(lines)} scenarios")
        return obs
    finally:
        vlib.rm(d)


_re_stmt = re.compile(r"^s (\d) (\d+)(?: p+)?$")
_re_notice = re.compile(r"^Received signal: .* \(signum: (\d+)\)$")
_re_crit = re.compile(r"^Program terminated unexpectedly due to signal: .* \(signum: (\d+)\)$")


def norm_lines(raw):
    out = []
    for s in raw:
        m = _re_stmt.match(s)
        if m and int(m.group(1)) in TNAME:
            out.append({"k": "s", "t": TNAME[int(m.group(1))], "n": int(m.group(2)), "sig": "-"}); continue
        m = _re_notice.match(s)
        if m:
            out.append({"k": "n", "t": "-", "n": 0, "sig": SIGNAME.get(int(m.group(1)), "SIG" + m.group(1))}); continue
        m = _re_crit.match(s)
        if m:
            out.append({"k": "c", "t": "-", "n": 0, "sig": SIGNAME.get(int(m.group(1)), "SIG" + m.group(1))}); continue
        # a differently worded notice still counts (the property does not fix its text): any other line naming the signal
        hit = [n for n, v in SIGNUM.items() if re.search(r"\bSIG%s\b" % n, s) or re.search(r"\b[Ss]ig(?:nal|num)\D{0,12}%d\b" % v, s)
               or (signal.strsignal(v) or "\0") in s]
        out.append({"k": "n" if len(hit) == 1 else "x", "t": "-", "n": 0, "sig": hit[0] if len(hit) == 1 else "-"})
    return out


def norm_status(st):
    if st["kind"] == "exited":
        return {"kind": "exited", "code": st["code"], "sig": "-"}
    if st["kind"] == "killed":
        return {"kind": "killed", "code": 0, "sig": SIGNAME.get(st["sig"], "SIG%d" % st["sig"])}
    return {"kind": st["kind"], "code": 0, "sig": "-"}


def trace_of(o, wait=True):
    """One observation -> TraceLife lines (the child's events in counter order, then what the parent saw)."""
    L = [{"op": "reset", "wait": bool(wait)}]
    for e in o["events"]:
        k = e["e"]
        if k == "StartRet":
            L.append({"op": "start", "running": bool(e["a"])})
        elif k == "LogRet":
            L.append({"op": "logret", "t": TNAME[e["t"]], "n": e["a"]})
        elif k == "StopCall":
            L.append({"op": "stopcall"})
        elif k == "StopRet":
            L.append({"op": "stopret", "lines": norm_lines(e["lines"])})
        elif k == "EndCall":
            kind = {1: "exit", 2: "ret", 3: "sig"}[e["a"]]
            L.append({"op": "endcall", "kind": kind, "t": TNAME[e["t"]],
                      "sig": SIGNAME.get(e["b"], "-") if kind == "sig" else "-", "code": e["b"] if kind == "exit" else 0})
    L.append({"op": "end", "status": norm_status(o["status"]), "lines": norm_lines(o["lines"])})
    return L


def validate(ck, observations):
    """observations: list of (scenario, obs). Returns {index: [why,...]} of contract rejections (TLC's verdict)."""
    lines, owner = [], []
    for i, (s, o) in enumerate(observations):
        t = trace_of(o, s["attrs"].get("wait", 1))
        lines += t
        owner += [i] * len(t)
    d = vlib.scratch("tv")
    try:
        tp = d / "trace.ndjson"
        with open(tp, "w") as f:
            for ln in lines:
                f.write(json.dumps(ln, separators=(",", ":")) + "\n")
        r = vlib.tlc("TraceLife", "TraceLife.cfg", workers=1, env={"TRACE": str(tp)}, timeout=900, heap="6g")
    finally:
        vlib.rm(d)
    if r.error:
        raise vlib.Infra(r.error)
    if r.violated:
        raise vlib.Infra(f"recorded trace is malformed ({r.violated}) near line {r.trace[-1]['l'] - 1 if r.trace else '?'}")
    if r.distinct != len(lines) + 1:
        raise vlib.Infra(f"trace not fully consumed: {r.distinct} states for {len(lines)} lines")
    ck.add_tlc(r, "TraceLife")
    rej = {}
    for p in r.prints:
        if isinstance(p, str) and p.startswith("REJ "):
            j = json.loads(p[4:])
            rej.setdefault(owner[j["l"] - 1], []).append((j["why"], lines[j["l"] - 1]["op"]))
    return rej


def corrupted(pairs):
    """Self-test of the trace spec (DESIGN 2.3d): accepted observations with ONE recorded fact changed so that C07
    would be broken. Every one of them must be rejected by the contract."""
    import copy
    out = []
    isn = lambda l: norm_lines([l])[0]["k"] == "n"
    pairs = [(s, o) for s, o in pairs if s["attrs"].get("q") != 1]     # padded lines: not used for the self-test
    def first(pred):
        for s, o in pairs:
            if pred(s, o):
                return s, copy.deepcopy(o)
        return None
    # a statement that returned before stop() was requested (of a running backend) is missing from the file when that
    # stop() returns
    def stop_site(o):
        """(index of the StopRet event, line to remove) for the first stop of a started backend that has one, else None"""
        ev, up, done, call_done = o["events"], False, [], None
        for i, e in enumerate(ev):
            if e["e"] == "StartRet":
                up = True
            elif e["e"] == "LogRet":
                done.append(f"s {e['t']} {e['a']}")
            elif e["e"] == "StopCall":
                call_done = list(done) if up else None
                up = False
            elif e["e"] == "StopRet" and call_done:
                hit = [x for x in e["lines"] if x in call_done]
                if hit:
                    return i, hit[-1]
                call_done = None
        return None
    waits = lambda s: s["attrs"]["wait"] == 1
    c = first(lambda s, o: waits(s) and stop_site(o) is not None)
    if c:
        s, o = c
        i, line = stop_site(o)
        o["events"][i]["lines"].remove(line)
        out.append(("stop snapshot lacks a completed statement", s, o))
    # ... but with wait_for_queues_to_empty_before_exit = false the same loss is NOT against C07 (must be accepted)
    c = first(lambda s, o: not waits(s) and s["steps"][-1][0] in "XR" and any(e["e"] == "StartRet" for e in o["events"])
              and any(e["e"] == "LogRet" for e in o["events"]))
    if c:
        s, o = c
        for e in o["events"]:
            if e["e"] == "StopRet":
                e["lines"] = []
        o["lines"] = []
        out.append(("ACCEPT wait=false: nothing in the file after stop and exit", s, o))
    # ... while the signal clause holds regardless of that option
    c = first(lambda s, o: not waits(s) and s["steps"][-1][0] == "G" and any(isn(l) for l in o["lines"]))
    if c:
        s, o = c
        o["lines"] = [l for l in o["lines"] if not isn(l)]
        out.append(("wait=false: notice removed", s, o))
        c2 = first(lambda s2, o2: s2 is s)
        s, o = c2
        tgt = int(s["steps"][-1][1])
        own = [l for l in o["lines"] if l.startswith(f"s {tgt} ")]
        if own:
            o["lines"].remove(own[-1])
            out.append(("wait=false: signalled thread's statement removed", s, o))
    # the notice is missing / the status is wrong after a handled signal
    c = first(lambda s, o: waits(s) and s["steps"][-1][0] == "G" and any(isn(l) for l in o["lines"]))
    if c:
        s, o = c
        o2 = copy.deepcopy(o)
        o["lines"] = [l for l in o["lines"] if not isn(l)]
        out.append(("notice removed", s, o))
        o2["status"] = {"kind": "exited", "code": 0, "sig": 0} if o2["status"]["kind"] == "killed" else \
            {"kind": "killed", "code": 0, "sig": 2}
        out.append(("signal status swapped", s, o2))
        o3 = copy.deepcopy(o2); o3["status"] = copy.deepcopy(c[1]["status"])
        k = max(i for i, l in enumerate(o3["lines"]) if isn(l))
        tgt = int(s["steps"][-1][1])
        own = [i for i, l in enumerate(o3["lines"][:k]) if l.startswith(f"s {tgt} ")]
        if own:
            o3["lines"].append(o3["lines"].pop(own[-1]))      # the thread's last statement now FOLLOWS the notice
            out.append(("statement after the notice", s, o3))
    # exit: wrong code / a completed statement missing
    c = first(lambda s, o: waits(s) and s["steps"][-1][0] in "XR" and any(e["e"] == "StartRet" for e in o["events"]) and o["lines"]
              and not any(e["e"] == "StopCall" for e in o["events"]))
    if c:
        s, o = c
        o2 = copy.deepcopy(o)
        o["status"]["code"] += 1
        out.append(("exit code changed", s, o))
        j = max(k for k, e in enumerate(o2["events"]) if e["e"] == "EndCall")
        done = [f"s {e['t']} {e['a']}" for e in o2["events"][:j] if e["e"] == "LogRet"]
        hit = [x for x in o2["lines"] if x in done]
        if hit:
            o2["lines"].remove(hit[0])
            out.append(("exit: completed statement removed from the file", s, o2))
    # Backend::start left no running backend
    c = first(lambda s, o: any(e["e"] == "StartRet" for e in o["events"]))
    if c:
        s, o = c
        [e for e in o["events"] if e["e"] == "StartRet"][-1]["a"] = 0
        out.append(("start: not running", s, o))
    return out


def signature(s, o, whys):
    """canonical shape class of a rejected execution (for known_findings matching)"""
    why, op = whys[0]
    end = s["steps"][-1]
    if not s["attrs"].get("wait", 1):
        a2 = dict(s["attrs"], wait=1)
        return signature(dict(s, attrs=a2), o, whys) + ":wait=false"
    if s["attrs"].get("named") == 2 and s["steps"][-1][0] == "G":
        a2 = dict(s["attrs"], named=0)
        return signature(dict(s, attrs=a2), o, whys) + ":named-logger-absent"
    if s["attrs"].get("bq"):
        a2 = dict(s["attrs"], bq=0)
        return signature(dict(s, attrs=a2), o, whys) + ":bounded-queue"
    if s["attrs"].get("q") and op in ("stopret", "end"):
        a2 = dict(s["attrs"], q=0)
        return signature(dict(s, attrs=a2), o, whys) + (":long-grace-period" if s["attrs"]["q"] == 5 else
                                                         ":queue-" + ("grown" if s["attrs"]["q"] == 1 else "shrunk"))
    if op == "start":
        n = sum(1 for e in o["events"] if e["e"] == "StartRet")
        return "start:not-running:%s" % ("first" if n <= 1 else "restart")
    if op == "stopret":
        return "stop:lost-statement"
    st = norm_status(o["status"])
    if end[0] == "G":
        signame = SIGNAME[int(end.split(":")[1])]
        cls = "graceful" if signame in GRACEFUL else "fatal"
        want = {"kind": "exited", "code": 0, "sig": "-"} if cls == "graceful" else {"kind": "killed", "code": 0, "sig": signame}
        if st != want:
            return f"signal:{cls}:status={st['kind']}"
        nl = norm_lines(o["lines"])
        if not any(x["k"] == "n" for x in nl):
            return f"signal:{cls}:notice-missing"
        return f"signal:{cls}:lost-statement"
    if st["kind"] != "exited":
        return f"exit:status={st['kind']}"
    want = int(end.split(":")[1]) if end[0] == "X" else 0
    if st["code"] != want:
        return "exit:wrong-code"
    return "exit:lost-statement"


def strict_checks(s, o):
    """Implementation-level expectations that are NOT part of C07 (drift when they fail, never a verdict):
    only known lines, no torn line, per thread a duplicate-free prefix 1..k in order, model-predicted status."""
    probs = []
    for raw in [o["lines"]] + [e["lines"] for e in o["events"] if e["e"] == "StopRet"]:
        nl = norm_lines(raw)
        if any(x["k"] == "x" for x in nl):
            probs.append("unknown or torn line in the file")
        for t in TID:
            ns = [x["n"] for x in nl if x["k"] == "s" and x["t"] == t]
            if ns != list(range(1, len(ns) + 1)):
                probs.append(f"thread {t}: file holds {ns}, not a prefix in order")
    mo = s.get("model_outcome")
    if mo and mo["kind"] != "hung":
        st = norm_status(o["status"])
        if (st["kind"], st["code"], st["sig"]) != (mo["kind"], mo["code"], mo["sig"]):
            probs.append(f"status {st} differs from the model's {mo}")
    return probs


def run(ck):
    quick = ck.tier == "quick"
    rng = random.Random(ck.seed)
    stopmodel.run_for(ck)
    # a new thread whose context the backend never picks up loses its statements at stop() (spec/NewCtxRA.tla, runs ending with stop())
    newctxmodel.run_for(ck)
    if os.environ.get("VERIF_PART") == "model":
        return
    ck.rule = ("programs = frontend projections of seeded TLC simulation behaviours of Life (main + 2 workers, <= 3 statements "
               "each, <= 2/3 starts, stop/exit/return/six signals at any statement boundary, workers alive or finished), "
               "deduplicated, sampled round-robin over shape classes, crossed with seeded run attributes (clock sys/tsc, gate "
               "none/hold/slow, turn/free threads, soft limit, backend sleep, wait_for_queues_to_empty_before_exit true/false "
               "(false for every 2nd SIGINT/SIGTERM, 3rd fatal, 5th stop/exit scenario, the signal ones with a held/slow "
               "backend), SignalHandlerOptions::logger none / existing / a name no logger has (signal scenarios, in turn), "
               "queue exercise for stop/exit scenarios in which a thread logs >= 2 statements the stop must drain (padded "
               "statements that make the producer move to a larger node / the thread shrinks its queue before each later "
               "statement; hard limit 1 or default limits; backend held or asleep 20 ms), "
               "signal flavour raise/fault/pthread_kill/kill); "
               "non-trivial = a backend was started and at least one log call returned before the stop/exit/signal request "
               "(and, with wait=false, the ending is a signal); "
               "distinct by (program, attributes)")
    ck.assumptions = [
        "signals delivered inside a log call and async-signal-safety of the handler are outside C07 and not exercised",
        "'completed before the stop was requested' = the LogReturn event precedes the StopCall/EndCall event in the child's "
        "seq_cst event counter (a happens-before fact of the run); statements of calls still running are not asserted",
        "signal case: only the signalled thread's earlier statements + the notice are asserted; other threads' statements may "
        "or may not be in the file; also for SIGINT/SIGTERM (exit(0) from the handler) nothing more is demanded",
        "a signal raised while no backend runs (before start, after stop) or racing a start/stop/exit call, and a second "
        "signal while one is being handled, are outside C07: modelled (Life reaches on_alarm that way) but not asserted, "
        "and not run on the real code (the real process hangs there: flush_log waits for ever, on_alarm's re-raise stays "
        "pending because the signal is blocked inside its own handler)",
        "statements logged while no backend runs are only asserted once a later start/stop pair covers them",
        "wait_for_queues_to_empty_before_exit is a run attribute: with false the stop()/exit clause promises nothing (only "
        "status and restart are judged there), the signal clause (signalled thread's statements, notice, status) is "
        "asserted regardless; Life.tla has the same switch (WaitEmpty)",
        "duplicates, cross-thread order and is_running() after stop are not C07 (reported as drift if unexpected)",
        "exit()/return happen only when no other thread is logging (workers joined or parked): logging during static "
        "destruction is a user-program race; concurrent logging is exercised against stop() and fatal signals",
        "the model abstracts timestamps (backend may pick any non-empty transit buffer) and reads all queues in one step",
        "x86-64 Linux, glibc signal() semantics; TSC clock only in ~8% of the children (50 ms calibration each)",
        "every child uses FrontendOptions with initial_queue_capacity 4096 (unbounded blocking queue) so that node growth and "
        "shrink are within reach of <= 3 statements; a configured signal-handler logger name that no logger has is "
        "covered as 'never created' (not as removed and re-created)",
        "a handled signal after which the process is still alive ends the child with status 42 (judged by the contract)",
    ]
    # 1. design level (independent of /repo; C07_ONLY_REAL=1 skips it while trying seeded changes of the code)
    if os.environ.get("C07_ONLY_REAL") != "1":
        model_check(ck, quick)
    ck.exhaustive = False     # exhaustive in the model for the stated bounds; real code sampled
    # 2. programs
    behs = export_programs(ck, quick)
    scns = make_scenarios(ck, behs, quick, rng)
    del behs
    mix = {}
    for s in scns:
        e = s["steps"][-1]
        k = "return" if e == "R" else "exit" if e[0] == "X" else "sig" + SIGNAME[int(e.split(":")[1])] + ":" + e.split(":")[2][0]
        mix[k] = mix.get(k, 0) + 1
        for a in ("clock", "gate", "sync"):
            mix[f"{a}={s['attrs'][a]}"] = mix.get(f"{a}={s['attrs'][a]}", 0) + 1
        if e[0] == "G":
            mix[f"named={s['attrs']['named']}"] = mix.get(f"named={s['attrs']['named']}", 0) + 1
        if s["attrs"]["q"]:
            mix[f"queue={s['attrs']['q']}"] = mix.get(f"queue={s['attrs']['q']}", 0) + 1
        if not s["attrs"]["wait"]:
            kd = "plain" if e[0] != "G" else "graceful" if SIGNAME[int(e.split(":")[1])] in GRACEFUL else "fatal"
            mix[f"nowait:{kd}"] = mix.get(f"nowait:{kd}", 0) + 1
            st = s["steps"]
            # the hold gate stops the backend at the first statement it meets after the (last effective) start:
            # anything logged since the stop before it
            up, since = False, 0
            for i, x in enumerate(st):
                if x[0] == "S" and not up:
                    up = True
                elif x[0] == "P":
                    up, since = False, i
            if e[0] == "G" and s["attrs"]["gate"] == 1 and any(x[0] == "L" for x in st[since:]):
                mix[f"nowait:{kd}:backend-held"] = mix.get(f"nowait:{kd}:backend-held", 0) + 1
        if sum(1 for x in s["steps"] if x[0] == "S") >= 2:
            mix["restart"] = mix.get("restart", 0) + 1
        if any(x[0] == "P" for x in s["steps"]):
            mix["stop"] = mix.get("stop", 0) + 1
        if any(x[0] == "F" for x in s["steps"]):
            mix["finished-worker"] = mix.get("finished-worker", 0) + 1
    ck.extra["scenario_mix"] = dict(sorted(mix.items()))
    need = ["return", "exit", "stop", "restart", "finished-worker", "clock=tsc", "gate=1", "gate=2", "sync=free"] + \
        [f"sig{n}:r" for n in SIGNUM] + ["sigSEGV:f", "sigFPE:f", "sigILL:f", "sigABRT:f", "sigINT:p", "sigTERM:k"]
    for k in need:
        if not mix.get(k):
            raise vlib.Infra(f"vacuity: no scenario of kind {k} in this run")
    for k, n in (("nowait:graceful", 8), ("nowait:graceful:backend-held", 4), ("nowait:fatal", 6),
                 ("nowait:fatal:backend-held", 3), ("nowait:plain", 4), ("named=0", 10), ("named=1", 10), ("named=2", 10),
                 ("queue=1", 4), ("queue=2", 4), ("queue=3", 4)):
        if mix.get(k, 0) < n:
            raise vlib.Infra(f"vacuity: only {mix.get(k, 0)} scenarios of kind {k} (want >= {n})")
    if len(scns) < (150 if quick else 1500):
        raise vlib.Infra(f"too few scenarios ({len(scns)})")
    # 3. real executions
    exes = (build_harness(), build_harness(bounded=True))
    for i, s in enumerate(scns):
        # every fourth scenario without a queue growth/shrink exercise runs with a bounded blocking queue
        s["attrs"]["bq"] = 1 if s["attrs"].get("bq") or (s["attrs"]["q"] == 0 and i % 4 == 0) else 0
    ck.extra["bounded_queue_scenarios"] = sum(s["attrs"]["bq"] for s in scns)
    obs = run_mixed(exes, scns, [scn_line(s) for s in scns], 600 if quick else 1500)
    pairs = [(s, obs[s["id"]]) for s in scns]
    for s, o in pairs:
        if o.get("setup_failed"):
            raise vlib.Infra(f"child setup failed for {scn_line(s)}")
        if any(e["e"] == "StopRet" and e["lines"] is None for e in o["events"]):
            raise vlib.Infra(f"file snapshot did not fit the child's event memory: {scn_line(s)}")
        ev = o["events"]
        req = [i for i, e in enumerate(ev) if e["e"] in ("StopCall", "EndCall")]
        nontriv = any(e["e"] == "StartRet" for e in ev) and bool(req) and \
            any(e["e"] == "LogRet" for e in ev[:req[-1]]) and (s["attrs"]["wait"] == 1 or s["steps"][-1][0] == "G")
        ck.case(scn_line(s, "-"), nontriv)
    ck.extra["children_run"] = len(pairs)
    ck.extra["child_ms_median"] = sorted(o["ms"] for _, o in pairs)[len(pairs) // 2]
    # 4. the contract's verdict
    rej = validate(ck, pairs)
    ck.traces_validated += len(pairs) - len(rej)
    # self-test of the trace spec: corrupted copies of accepted executions must all be rejected
    bad = corrupted([p for i, p in enumerate(pairs) if i not in rej])
    if not rej and len(bad) < 6:
        raise vlib.Infra(f"trace self-test could build only {len(bad)} corrupted observations")
    if bad:
        rb = validate(ck, [(s, o) for _, s, o in bad])
        for i, (what, s, o) in enumerate(bad):
            if what.startswith("ACCEPT"):
                if i in rb:
                    raise vlib.Infra(f"the contract rejects what C07 does not forbid ({what}): {scn_line(s)}: {rb[i]}")
            elif i not in rb:
                raise vlib.Infra(f"vacuity: the contract accepts a corrupted observation ({what}): {scn_line(s)}")
        ck.extra["corrupted_observations_rejected"] = len(bad)
    ck.extra["rejected_first_pass"] = len(rej)
    drift = 0
    for i, (s, o) in enumerate(pairs):
        if i not in rej:
            for p in strict_checks(s, o):
                drift += 1
                ck.drifted(f"{scn_line(s)}: {p}")
    # confirm rejections: the same scenario three more times, in isolation; only a rejection that repeats every
    # time is a violation (one per signature), anything else is drift
    by_sig = {}
    for i in sorted(rej):
        s, o = pairs[i]
        by_sig.setdefault(signature(s, o, rej[i]), []).append(i)
    confirmed = {}
    budget = 24 if quick else 60
    for sig in sorted(by_sig):
        for i in by_sig[sig][:4]:
            if budget <= 0 or sig in confirmed:
                break
            budget -= 1
            s, o = pairs[i]
            again = run_scenarios(exes[s["attrs"].get("bq", 0)], [scn_line(s, f"r{k}") for k in range(3)], timeout=120)
            re_pairs = [(s, again[f"r{k}"]) for k in range(3)]
            rr = validate(ck, re_pairs)
            if len(rr) == 3 and all(signature(s, re_pairs[k][1], rr[k]) == sig for k in range(3)):
                confirmed[sig] = (s, o, rej[i], [p[1] for p in re_pairs])
            else:
                ck.drifted(f"rejection did not repeat ({len(rr)}/3) [{sig}] {scn_line(s)}: {rej[i][0][0]}")
        if sig not in confirmed and by_sig[sig]:
            s, o = pairs[by_sig[sig][0]]
            ck.drifted(f"unconfirmed rejection class {sig} ({len(by_sig[sig])} scenarios), e.g. {scn_line(s)}")
    for sig, (s, o, whys, reruns) in sorted(confirmed.items()):
        short = lambda ls: [re.sub(r" p+$", " <pad>", l) for l in ls]
        snap = [e["lines"] for e in o["events"] if e["e"] == "StopRet"]
        seen = f"file when stop() returned {short(snap[-1])}" if whys[0][1] == "stopret" and snap else \
            f"status {o['status']}, file at process end {short(o['lines'])}"
        ck.violation(sig, f"{scn_line(s)} -> {seen}: {whys[0][0]}",
                     {"scenario": scn_line(s), "harness": "h_life_bb" if s["attrs"].get("bq") else "h_life", "observation": o, "trace": trace_of(o, s["attrs"]["wait"]),
                      "contract_says": [w[0] for w in whys], "reruns": [{"status": r["status"], "lines": r["lines"]} for r in reruns],
                      "same_class_scenarios": [scn_line(pairs[i][0]) for i in by_sig[sig][:10]]})
    ck.extra["rejection_classes"] = {k: len(v) for k, v in by_sig.items()}
    for s, o in pairs[:3] + pairs[len(pairs) // 2:len(pairs) // 2 + 2]:
        ck.sample({"scenario": scn_line(s), "status": o["status"], "file": o["lines"],
                   "events": [f"{e['e']}({TNAME.get(e['t'], e['t'])},{e['a']},{e['b']})" for e in o["events"]]})


def replay(ck, path):
    j = json.loads(open(path).read())["replay"]
    if j.get("harness") == "h_stop":
        stopmodel.replay(path)
        return
    exe = build_harness(bounded=j.get("harness") == "h_life_bb")
    f = j["scenario"].split()
    s = {"id": "replay", "steps": f[10:], "attrs": {"wait": int(f[8]), "named": int(f[7]), "q": int(f[9])}}
    line = "replay " + " ".join(j["scenario"].split()[1:])
    obs = run_scenarios(exe, [line], timeout=120)
    o = obs["replay"]
    print(json.dumps({"scenario": line, "status": o["status"], "lines": o["lines"], "events": o["events"]}))
    rr = validate(ck, [(s, o)])
    print("contract:", "REJECTED " + "; ".join(w[0] for w in rr[0]) if rr else "accepted")
