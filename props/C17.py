"""C17 - pipeline property judged by spec/QuillContract.tla (flag ok17) through TLC trace validation (spec/TraceQuill.tla) of
executions of the real frontend/backend recorded by harness/h_sys; scenario family in props/sysfam.py; implementation-shaped
exploration in spec/Quill.tla (pipeline with logger removal) and spec/Registry.tla (logger and sink registries, object
lifetimes, create/get/remove by name; tools/regmodel.py); the remove_logger_blocking() handshake (request through the queue,
remove_logger, the backend's idle-branch clean-up, sink destruction, the caller's flag) in spec/StopRA.tla (tools/stopmodel.py)."""
import os
import sysfam, qsys, regmodel, lockmodel, removemodel, stopmodel


def run(ck):
    # the remove_logger_blocking() handshake under release/acquire on the REAL backend thread (spec/StopRA.tla, harness/h_stop)
    stopmodel.run_for(ck)
    if os.environ.get("VERIF_PART") == "stopra":
        return
    lockmodel.run_for(ck)          # the registry lock under release/acquire (spec/SpinlockRA.tla, harness/h_lock)
    removemodel.run_for(ck)        # the removal flags under release/acquire (spec/RemoveRA.tla, harness/h_remove)
    regmodel.run_for(ck)
    if os.environ.get("VERIF_PART") == "model":      # analysis aid: the design-level part alone
        return
    def extra(rng):
        # registry concurrency family on the shadow-Spinlock build
        out = []
        for i in range(200 if ck.tier == "quick" else 2000):
            sc, g = sysfam.c17reg(rng, "UBS:4096:16384")
            out.append((f"c17reg-{i}", "UBS:4096:16384", sc, g))
        return out
    sysfam.run_family(ck, "C17", 300 if ck.tier == "quick" else 3000, extra)


def replay(ck, path):
    import json
    hn = json.loads(open(path).read())["replay"].get("harness")
    if hn == "h_lock":
        lockmodel.replay(path)
    elif hn == "h_remove":
        removemodel.replay(path)
    elif hn == "h_stop":
        stopmodel.replay(path)
    else:
        qsys.replay(path)
