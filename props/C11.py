"""C11 - a steady-state log call neither allocates nor formats on the calling thread.
Spec: spec/HotPath.tla - a thin automaton (trace validation only; allocation behaviour is observed, not modelled):
per thread NoContext -> Steady; between LogBegin and LogEnd of a steady, fitting statement of a covered argument
class no Alloc/Mmap event of that thread is allowed; Format(t, deferred) requires t = backend thread,
Format(t, direct) requires t = the caller inside its log call.
Binding: the C04 case generator (cases exported by TLC from spec/Codec.tla, same translation units) run on the real
code with an interposed allocator (malloc/calloc/realloc/memalign/free -> operator new/delete, and mmap) counting per
thread, user formatters of deferred/direct types recording their thread; every statement is executed twice."""
import json
import vlib, sysh, codec

ASSUMPTIONS = [
    "covered argument classes are exactly those the property lists: arithmetic, enum, void const*, std::string, string_view, C strings / char arrays, standard containers / optional / pair / tuple of those, trivially copyable deferred-format user types; everything else (chrono, StringRef, C arrays, non-trivially-copyable deferred types, containers of user types) is observed but not judged",
    "excluded by the property's own wording and therefore allowed to allocate: direct-format types, filesystem paths, deferred types whose copy constructor allocates; a thread's first log call (unless preallocate() was called); a record that does not fit the current queue buffer; more variable-length entries than the size cache's inline capacity (read from the code)",
    "fits = capacity - (writer position - published reader position) >= record size, read from the producer's queue node before the call",
    "allocation = any call of malloc/calloc/realloc/memalign/aligned_alloc/posix_memalign (global operator new resolves to malloc) or mmap on the calling thread between entering and leaving the log macro; frees are not counted",
    "formatting on the caller is observed through the user formatters of the harness's deferred-format types (trivial, non-trivial, allocating) and direct-format type; fmt's built-in formatters cannot be observed directly (a caller-side use of them would show up as allocation or as a C04 size change only)",
    "every process also runs one fixed scenario with a user-defined FrontendOptions type (BoundedBlocking, 64 KiB): a fresh thread calls that frontend's preallocate() and then logs three statements through its logger; judged like any other steady call",
    "harness compiled with -O1 -DNDEBUG like the suite; glibc malloc",
]


def hot_lines(results):
    lines, index = [], []
    for k, exe, cs, crashes, recs in results:
        meta = {c["id"]: c for c in cs}
        for r in recs:
            e = r.get("e")
            if e == "Consts":               # a new process
                lines.append({"e": "Reset"}); index.append((k, None))
            elif e in ("Backend", "ThreadStart", "Preallocate"):
                lines.append({"e": e, "t": r["t"]}); index.append((k, None))
            elif e == "LogBegin":
                if r["case"] < 0:
                    cls, types = "covered", []
                else:
                    s = meta[r["case"]]["stmts"][r["si"]]
                    cls, types = s["cls"], s["types"]
                lines.append({"e": e, "t": r["t"], "cls": cls, "fits": bool(r["fits"]), "case": r["case"], "si": r["si"], "rep": r["rep"]})
                index.append((k, r["case"] if r["case"] >= 0 else None))
            elif e == "LogEnd":
                lines.append({"e": e, "t": r["t"]}); index.append((k, r["case"] if r["case"] >= 0 else None))
            elif e in ("Alloc", "Mmap"):
                lines.append({"e": e, "t": r["t"], "n": r["n"]}); index.append((k, r.get("case") if r.get("case", -1) >= 0 else None))
            elif e == "Format":
                lines.append({"e": e, "t": r["t"], "kind": r["kind"]}); index.append((k, r.get("case")))
    return lines, index


def validate(ck, results, lines, index, depth=0):
    rt = sysh.validate_trace("HotPath", "HotPath.cfg", lines, timeout=900)
    if rt.error:
        raise vlib.Infra(rt.error)
    ck.add_tlc(rt, "HotPath")
    nwin = lambda ls: sum(1 for x in ls if x["e"] == "LogBegin")
    if rt.violated is None:
        if rt.distinct != len(lines) + 1:
            raise vlib.Infra(f"trace not fully consumed: {rt.distinct} states for {len(lines)} lines")
        ck.traces_validated += nwin(lines)
        return
    at = rt.trace[-1]["l"] - 2
    k, cid = index[at]
    ck.traces_validated += nwin(lines[:at])
    by_k = {r[0]: r for r in results}
    _, exe, cs, _, _ = by_k[k]
    case = next((c for c in cs if c["id"] == cid), None)
    if case is None:
        # the argument-less statement the runtime logs twice when the caller thread starts (case -1): a log call like any other
        # or (case -3) the statements a fresh thread logs through a CUSTOM FrontendOptions logger after that frontend's preallocate()
        neg = next((x.get("case") for x in reversed(lines[:at + 1]) if x["e"] == "LogBegin"), -1)
        cid = -1
        if neg == -3:
            case = {"id": -3, "origin": "runtime", "cpp": "CustomFrontend::preallocate(); LOG_INFO(custom_logger, ...);  // rt_codec.cpp custom_frontend_scenario",
                    "stmts": [{"types": ["custom-frontend-after-preallocate"], "ctypes": ["(none) / int, std::string / char const*, double"],
                               "macro": "LOG_INFO/LOG_WARNING via LoggerImpl<CustomFOpts>", "cls": "covered"}]}
        else:
            case = {"id": -1, "origin": "runtime", "cpp": 'LOG_INFO(h.logger, "calibrate");', "stmts": [
                {"types": ["no-arguments"], "ctypes": [], "macro": "LOG_INFO", "cls": "covered"}]}
        cid = case["id"]
        cid = -1
    # the rejection must repeat when the case runs alone (on the steady caller thread of a new process)
    rc2, recs2 = codec.run_bin(exe, only=[cid if cid >= 0 else -2])
    l2, i2 = hot_lines([(k, exe, cs, [], recs2)])
    r2 = sysh.validate_trace("HotPath", "HotPath.cfg", l2)
    if r2.error:
        raise vlib.Infra(r2.error)
    if r2.violated:
        at2 = r2.trace[-1]["l"] - 2
        bad = l2[at2]
        beg = next(x for x in reversed(l2[:at2 + 1]) if x["e"] == "LogBegin") if any(x["e"] == "LogBegin" for x in l2[:at2 + 1]) else {}
        s = case["stmts"][beg.get("si", 0)] if (beg.get("case", -1) >= 0 and cid >= 0) else case["stmts"][0]
        if bad["e"] == "Format":
            sg = f"format-{bad['kind']}-on-wrong-thread:{'+'.join(s['types'])}"
            text = f"case {cid}: user formatter of a {bad['kind']}-format type ran on thread {bad['t']} (argument types {s['ctypes']})"
        else:
            # canonical signature: the one known shape (a map-family element whose key/value allocates when copied) is a
            # class of its own; anything else is identified by the argument type skeletons
            sg = (f"{bad['e'].lower()}-in-steady-call:map-element-pair-copy" if s.get("map_pair_copy")
                  else f"{bad['e'].lower()}-in-steady-call:{'+'.join(s['types'])}")
            text = (f"case {cid} ({case['origin']}): {bad['e']} of {bad.get('n')} bytes on the calling thread inside {s['macro']} "
                    f"with argument types {s['ctypes']} (class {s['cls']}, fits={beg.get('fits')}, execution {beg.get('rep')})")
        ck.violation(sg, text, {"case": cid, "cpp": case["cpp"], "trace": l2[max(0, at2 - 12):at2 + 1], "exe": str(exe)})
    else:
        ck.drifted(f"rejection of case {cid} did not repeat in isolation")
    if depth < 40:
        b = at
        while b < len(lines) and index[b] == index[at]:
            b += 1
        # keep the thread states: restart the trace spec with the prefix events that establish them
        pre = [x for x, ix in zip(lines[:at], index[:at]) if ix[0] == k and x["e"] in ("Reset", "Backend", "ThreadStart", "Preallocate")]
        steady = [{"e": "Preallocate", "t": t} for t in sorted({x["t"] for x, ix in zip(lines[:at], index[:at]) if ix[0] == k and x["e"] == "LogEnd"})]
        rest = pre + steady + lines[b:]
        ridx = [(k, None)] * (len(pre) + len(steady)) + index[b:]
        if len(lines[b:]) > 0:
            validate(ck, results, rest, ridx, depth + 1)


def run(ck):
    ck.rule = ("cases = the C04 case set (behaviours exported by TLC from Codec.tla: all kinds at node depth <= 2/3, statement pairs, "
               "1..cap+1 C-string arguments, seeded simulation; LOG_<level>, LOGV_ and LOG_DYNAMIC macros); every statement executed twice "
               "on a steady thread, some cases on a fresh thread (first call) or after preallocate(); non-trivial = a judged (covered, fitting, "
               "steady) log call with a variable-length or composite argument; distinct by (argument type skeletons, macro family)")
    ck.assumptions = list(ASSUMPTIONS)
    prep = codec.prepare(ck, use_cache=True)
    cap = prep["consts"]["cachecap"]
    results = codec.build_and_run(ck, prep)
    for k, exe, cs, crashes, recs in results:
        for cid, prefix, rc, repeated in crashes:
            # a crash is C04's business (no message reaches the sink); here the remaining cases were run in a new process
            ck.drifted(f"unit {k}: process died (rc={rc}) in case {cid}; its events are not judged")
    lines, index = hot_lines(results)
    metas = {}
    for k, exe, cs, crashes, recs in results:
        for c in cs:
            metas[(k, c["id"])] = c
    judged = excluded = 0
    per_class = {}
    for ln, ix in zip(lines, index):
        if ln["e"] == "LogBegin" and ln["case"] >= 0:
            s = metas[(ix[0], ln["case"])]["stmts"][ln["si"]]
            per_class[s["cls"]] = per_class.get(s["cls"], 0) + 1
            is_j = s["cls"] == "covered" and ln["fits"]
            judged += is_j
            excluded += (not is_j)
            nontriv = is_j and any(kk not in ("arith", "enum", "ptr") for kk in s["kinds"])
            ck.case((tuple(s["types"]), s["macro"].split("_")[0] + ("V" if s["macro"].startswith("LOGV") else "") + ("D" if s["dyn"] else "")), nontriv)
    # information only: allocations seen inside calls, per class and situation (judged calls must show none)
    seen_allocs, win, steady = {}, {}, set()
    for ln in lines:
        if ln["e"] == "Reset":
            win, steady = {}, set()
        elif ln["e"] == "Preallocate":
            steady.add(ln["t"])
        elif ln["e"] == "LogBegin":
            win[ln["t"]] = dict(ln, first=ln["t"] not in steady)
        elif ln["e"] == "LogEnd":
            win.pop(ln["t"], None)
            steady.add(ln["t"])
        elif ln["e"] in ("Alloc", "Mmap") and ln["t"] in win:
            w = win[ln["t"]]
            key = w["cls"] if w["fits"] else w["cls"] + " (record does not fit)"
            if w["first"]:
                key = "first log call of a thread (any class)"
            seen_allocs[key] = seen_allocs.get(key, 0) + 1
    ck.extra["alloc_events_inside_calls_by_class"] = seen_allocs
    inside = sum(1 for ln in lines if ln["e"] in ("Alloc", "Mmap"))
    if inside == 0:
        raise vlib.Infra("counter sanity: no allocation was observed inside any log call, not even in first calls / excluded classes")
    fmt_def = sum(1 for ln in lines if ln["e"] == "Format" and ln["kind"] == "deferred")
    fmt_dir = sum(1 for ln in lines if ln["e"] == "Format" and ln["kind"] == "direct")
    if fmt_def == 0 or fmt_dir == 0:
        raise vlib.Infra("formatter sanity: no deferred/direct user formatter call was observed")
    wide = [len(s["types"]) for c in prep["cases"] for s in c["stmts"] if c["origin"] == "wide"]
    if cap not in wide:
        raise vlib.Infra(f"no case with exactly {cap} C-string arguments (inline size-cache capacity) was generated")
    validate(ck, results, lines, index)
    ck.extra.update({"log_calls_observed": judged + excluded, "log_calls_judged": judged, "log_calls_not_judged": excluded,
                     "log_calls_by_class": per_class, "alloc_or_mmap_events_inside_calls": inside,
                     "deferred_formatter_calls": fmt_def, "direct_formatter_calls": fmt_dir,
                     "size_cache_inline_capacity_from_code": cap, "max_cstring_args": max(wide) if wide else 0,
                     "fresh_thread_cases": sum(1 for c in prep["cases"] if c["fresh"] == 1),
                     "preallocate_cases": sum(1 for c in prep["cases"] if c["fresh"] == 2),
                     "not_fitting_calls": sum(1 for ln in lines if ln["e"] == "LogBegin" and not ln["fits"]),
                     "cases": len(prep["cases"])})
    for c in prep["cases"][:3]:
        ck.sample({"case": c["id"], "origin": c["origin"], "fresh_thread": c["fresh"],
                   "statements": [{"types": s["types"], "cpp_types": s["ctypes"], "macro": s["macro"], "class": s["cls"]} for s in c["stmts"]]})
    w = [i for i, ln in enumerate(lines) if ln["e"] in ("Alloc", "Mmap")]
    if w:
        i = w[len(w) // 2]
        ck.sample({"events": lines[max(0, i - 3):i + 3]})
    ck.exhaustive = False


def replay(ck, path):
    j = json.loads(open(path).read())["replay"]
    rc, recs = codec.run_bin(j["exe"], only=[j["case"]])
    for r in recs:
        print(json.dumps(r))
