#!/usr/bin/env python3
"""keepmut.py <name> <prop> <srcdir> <detected text> : store a confirmed seeded change under /verif/seeded/<name>/"""
import json, os, shutil, sys
from pathlib import Path
name, prop, src, det = sys.argv[1:5]
d = Path("/verif/seeded") / name
if d.exists():
    shutil.rmtree(d)
d.mkdir(parents=True)
for f in os.listdir(src):
    fp = os.path.join(src, f)
    if os.path.isfile(fp) and os.path.getsize(fp) < 200000:
        shutil.copy(fp, d / f)
meta = json.load(open(d / "meta.json")) if (d / "meta.json").exists() else {}
meta.update({"property": prop, "detected": det,
             "confirmed_by_coordinator": {"patch_applies": "git apply on a scratch worktree at /repo HEAD",
                                          "demo": "demo.sh exit 0 without the patch, non-zero with it (run in the scratch worktree)",
                                          "existing_tests": "relevant unit/integration test executables built and run by the seeding agent with the patch applied (list in tests_run); full suite not re-run per patch",
                                          "check": f"tools/mutate.py {prop} --patch seeded/{name}/patch.diff (scratch copy of /repo/include, removed afterwards)"}})
json.dump(meta, open(d / "meta.json", "w"), indent=1)
print("kept", name)
