#!/bin/bash
# run the thorough tier of every check sequentially; print rc and wall per check
cd /verif
for p in ${1:-C01 C02 C03 C04 C05 C06 C07 C08 C09 C10 C11 C12 C13 C14 C15 C16 C17 C18 C19 C20}; do
  t0=$(date +%s)
  ./check $p --tier ${2:-thorough} > /tmp/sweep_$p.out 2>&1
  rc=$?
  echo "== $p rc=$rc wall=$(( $(date +%s) - t0 ))s"
  grep -v "^\[build\]" /tmp/sweep_$p.out | cut -c1-400 | tail -4
done
