"""Backend stop under release/acquire (part of C07): spec/StopRA.tla model-checked with the memory orders EXTRACTED from the real
code (harness/h_stop: the REAL backend thread, Backend::stop() and log calls on a shim atomic; the script chooses what the loads
of the running flag and of the writer position read), every transition exported and replayed on the real code, every execution
judged by spec/TraceStop.tla. A model counterexample is replayed too: the contract over that real execution decides."""
import json
from concurrent.futures import ThreadPoolExecutor
import vlib, sysh


def build():
    return vlib.build("h_stop", [vlib.HARNESS / "h_stop.cpp"], flags=["-fno-access-control", "-pthread"])


def run(exe, script, timeout=60):
    d = vlib.scratch("stop")
    try:
        sp, tp = d / "s.txt", d / "t.ndjson"
        sp.write_text(script)
        rc, so, se = vlib.run_cmd([exe, sp, tp], timeout=timeout)
        evs = []
        if tp.exists():
            for x in tp.read_text().splitlines():
                try:
                    evs.append(json.loads(x))
                except ValueError:
                    pass
        # everything before the baseline (start-up, warm-up statement) is set-up
        for i, e in enumerate(evs):
            if e.get("e") == "init":
                evs = evs[i:]
                break
        else:
            evs = [{"e": "init"}]
            rc = rc or 1
        if rc != 0 or not evs or evs[-1].get("e") != "end":
            evs.append({"e": "crash", "rc": rc})
        return evs
    finally:
        vlib.rm(d)


def extract(exe):
    evs = run(exe, "init\nX log\nY log\nB 0 0 0\nB 0 0 0\nY exit\nB 0 0 0\nX flushcall\nB 0 0 0\nB 0 0 0\nX flushret\n"
                   "X removecall\nB 0 0 0\nB 0 0 0\nB 0 0 0\nX removeret\nX stop\nB 0 0 0\nend\n")
    k = {}
    for e in evs:
        if e["e"] != "acc":
            continue
        if e["obj"] == "W" and e["op"] in ("store", "rmw"):
            k.setdefault("MoCommit", e["mo"])
        elif e["obj"] == "R" and e["op"] in ("store", "rmw") and e["t"] == 0:
            k.setdefault("MoStop", e["mo"])
        elif e["obj"] == "R" and e["op"] == "load" and e["t"] == 1:
            k.setdefault("MoLoop", e["mo"])
        elif e["obj"] == "RB" and e["op"] in ("store", "rmw") and e["t"] == 1:
            k.setdefault("MoRemStore", e["mo"])
        elif e["obj"] == "RB" and e["op"] == "load" and e["t"] == 0:
            k.setdefault("MoRemLoad", e["mo"])
        elif e["obj"] == "H" and e["op"] in ("store", "rmw") and e["t"] == 0:
            k.setdefault("MoHStore", e["mo"])
        elif e["obj"] == "H" and e["op"] == "load" and e["t"] == 1:
            k.setdefault("MoHLoad", e["mo"])
        elif e["obj"] == "FL" and e["op"] in ("store", "rmw") and e["t"] == 1:
            k.setdefault("MoFlushStore", e["mo"])
        elif e["obj"] == "FL" and e["op"] == "load" and e["t"] == 0:
            k.setdefault("MoFlushLoad", e["mo"])
        elif e["obj"] == "V" and e["op"] in ("store", "rmw") and e["t"] == 2:
            k.setdefault("MoInv", e["mo"])
        elif e["obj"] == "V" and e["op"] == "load" and e["t"] == 1:
            k.setdefault("MoIsValid", e["mo"])
        elif e["obj"] in ("W", "WY") and e["op"] == "load" and e["t"] == 1:
            # the weakest order among the backend's loads of the writer position (prepare_read, empty)
            k["MoRead"] = "rlx" if (e["mo"] == "rlx" or k.get("MoRead") == "rlx") else e["mo"]
    if len(k) != 12 or not any(e["e"] == "stopped" for e in evs):
        raise vlib.Infra(f"could not observe the atomic accesses of the stop protocol: {k}")
    return k


def mine(prop, why):
    """which property a contract rejection belongs to: the flush clauses are C06's, the removal clauses C17's, everything else C07's"""
    owner = ("C06" if why.startswith("flush_log()") else "C17" if why.startswith("remove_logger_blocking()")
             else "C20" if why.startswith("thread-context") else "C07")
    return prop == owner


def cfg_text(k, recs, export, maxy=0, maxf=0, inv="NoLoss FlushOK", maxr=0):
    return ("SPECIFICATION Spec\nCONSTANTS MaxRemove = %d\n MoHStore = \"%s\"\n MoHLoad = \"%s\"\n MoRemStore = \"%s\"\n MoRemLoad = \"%s\"\n"
            % (maxr, k["MoHStore"], k["MoHLoad"], k["MoRemStore"], k["MoRemLoad"])) + (
            " MaxRecs = %d\n MaxY = %d\n MaxFlush = %d\n MoFlushStore = \"%s\"\n MoFlushLoad = \"%s\"\n MoInv = \"%s\"\n MoIsValid = \"%s\"\n MoCommit = \"%s\"\n MoStop = \"%s\"\n MoLoop = \"%s\"\n MoRead = \"%s\"\n"
            " Export = %s\nINVARIANTS %s TypeOK\nVIEW StateView\n%sCHECK_DEADLOCK FALSE\n"
            % (recs, maxy, maxf, k["MoFlushStore"], k["MoFlushLoad"], k["MoInv"], k["MoIsValid"], k["MoCommit"], k["MoStop"], k["MoLoop"], k["MoRead"], "TRUE" if export else "FALSE", inv,
               "ACTION_CONSTRAINT ExportA\n" if export else ""))


def script_of(beh):
    L = ["init"]
    for h in beh:
        if h["a"] == "log":
            L.append(h["t"] + " log")
        elif h["a"] == "stop":
            L.append("X stop")
        elif h["a"] == "iter":
            L.append(f"B {h['arg'][0]} {h['arg'][1]} {h['arg'][2]}")
        elif h["a"] in ("flushcall", "flushret", "removecall", "removeret"):
            L.append("X " + h["a"])
        elif h["a"] == "exit":
            L.append("Y exit")
        elif h["a"] == "join":
            L.append("X join")
    return "\n".join(L) + "\nend\n"


def compare(beh, evs):
    """step by step: which message every load of the two objects read, whether the backend terminated, what was delivered"""
    if any(e["e"] == "crash" for e in evs):
        return "harness crashed or hung"
    if evs and evs[-1].get("badchoice"):
        return "a load value chosen by the model is not allowed by the harness' memory model"
    steps = [e for e in evs if e["e"] in ("committed", "ycommitted", "yexited", "joined", "stopreq", "bstep", "flushcall", "flushed", "removecall", "removed")]
    if len(steps) != len(beh):
        return f"harness ran {len(steps)} of {len(beh)} steps"
    # the loads of each B iteration
    i, nw, consumed = 0, 0, 0
    segs, cur = [], []
    for e in evs:
        if e["e"] == "acc" and e["t"] == 1:
            cur.append(e)
        elif e["e"] == "bstep":
            segs.append((cur, e))
            cur = []
    bi = 0
    for h in beh:
        if h["a"] != "iter":
            continue
        acc, st = segs[bi]
        bi += 1
        ir, iw, iy, iy2, gone, iw2 = h["arg"]
        rl = [a for a in acc if a["obj"] == "R"]
        wl = [a for a in acc if a["obj"] == "W"]
        yl = [a["idx"] for a in acc if a["obj"] == "WY"]
        if gone:
            if yl:
                return f"iteration {bi}: the reclaimed context's queue was read ({yl})"
        elif not yl or (yl != [iy] * len(yl) if not iy2 else (len(yl) < 2 or yl != [iy] * (len(yl) - 1) + [iy2])):
            return f"iteration {bi}: Y's writer position loads read {yl}, model {iy} (then {iy2} in the clean-up)"
        if len(rl) != 1 or rl[0]["idx"] != ir:
            return f"iteration {bi}: the loop head read message {[a['idx'] for a in rl]} of the running flag, model {ir}"
        wi = [a["idx"] for a in wl]
        nold = len([x for x in wi if x == iw]) if (iw2 and iw2 != iw) else len(wi)
        if not wi or wi != [iw] * nold + [iw2] * (len(wi) - nold) or (iw2 and iw2 != iw and nold == len(wi)):
            return f"iteration {bi}: writer position loads read {wi}, model {iw} (then {iw2} in the logger clean-up; at least one load)"
        fin_model = rl[0]["val"] == 0
        if bool(st.get("finished")) != fin_model:
            return f"iteration {bi}: backend terminated = {st.get('finished')}, model {fin_model}"
    return None


def validate(ck, execs, label):
    lines, owners = [], []
    for i, (key, sc, evs) in enumerate(execs):
        lines += evs
        owners += [i] * len(evs)
    rej = []
    while lines:
        r = sysh.validate_trace("TraceStop", "TraceStop.cfg", lines)
        if r.error:
            raise vlib.Infra(r.error)
        ck.add_tlc(r, f"TraceStop {label}")
        if r.violated is None:
            if r.distinct != len(lines) + 1:
                raise vlib.Infra("stop trace not fully consumed")
            break
        l = r.trace[-1]["l"] - 1
        own = owners[l - 1]
        rej.append((execs[own][0], execs[own][1], r.trace[-1]["m"]["why"], lines[l - 1]))
        end = l
        while end < len(lines) and owners[end] == own:
            end += 1
        lines, owners = lines[end:], owners[end:]
        if len(rej) > 20:
            break
    return rej


def run_for(ck):
    quick = ck.tier == "quick"
    exe = build()
    try:
        k = extract(exe)
    except vlib.Infra as ex:
        ck.drifted(f"stop protocol: constant extraction failed: {ex}")
        return
    ck.extra["stop_protocol_memory_orders_from_code"] = k
    configs = ([(2, 0, 0, 0), (1, 1, 0, 0), (2, 0, 1, 0)] if quick else
               [(2, 0, 0, 0), (4, 0, 0, 0), (1, 1, 0, 0), (2, 1, 0, 0), (1, 2, 0, 0), (2, 2, 0, 0), (2, 0, 1, 0), (2, 0, 2, 0), (3, 0, 1, 0),
                (1, 1, 1, 0)])
    if ck.prop == "C06":
        configs = [c for c in configs if c[2] > 0]
    if ck.prop == "C20":
        # a second thread that logs and exits while the backend polls; its context must outlive its unread statements
        configs = [(1, 1, 0, 0), (1, 2, 0, 0)] if quick else [(1, 1, 0, 0), (1, 2, 0, 0), (2, 2, 0, 0)]
    if ck.prop == "C17":
        # remove_logger_blocking(): statements, optionally a flush, then the removal, then (maybe) the stop
        configs = [(1, 0, 0, 1), (2, 0, 0, 1)] if quick else [(1, 0, 0, 1), (2, 0, 0, 1), (3, 0, 0, 1), (2, 0, 1, 1)]
    for recs, maxy, maxf, maxr in configs:
        label = f"stop-{recs}-{maxy}-{maxf}" + (f"-r{maxr}" if maxr else "")
        cfg = vlib.write_cfg(vlib.BUILD / "cfg" / f"StopRA_{ck.prop}_{label}.cfg",
                             cfg_text(k, recs, True, maxy, maxf, {"C06": "FlushOK", "C17": "RemoveOK", "C20": "NoReclaimLoss"}.get(ck.prop, "NoLoss"), maxr))
        r = vlib.tlc("StopRA", cfg, timeout=900, coverage=quick)
        if r.error:
            raise vlib.Infra(r.error)
        ck.add_tlc(r, f"StopRA {label}")
        if r.violated:
            beh = r.trace[-1]["hist"]
            sc = script_of(beh)
            evs = run(exe, sc)
            rej = [x for x in validate(ck, [("cex", sc, evs)], label) if mine(ck.prop, x[2])]
            ck.extra.setdefault("model_counterexamples", []).append({"config": label, "invariant": r.violated})
            if rej:
                # confirm: the rejection repeats
                rej2 = [x for x in validate(ck, [("cex", sc, run(exe, sc))], label) if mine(ck.prop, x[2])]
                if rej2:
                    key, sc, why, ev = rej[0]
                    ck.violation("stopra:" + "-".join(why.split())[:70],
                                 f"backend handshake (stop / flush) with memory orders {k}: {why}; schedule {[(h['t'], h['a'], h['arg']) for h in beh]}; rejected event {json.dumps(ev)}",
                                 {"script": sc, "harness": "h_stop", "orders": k, "why": why})
                    continue
            ck.drifted(f"StopRA violates {r.violated} with the code's memory orders {k} but the real code passes on that schedule")
            continue
        # liveness under fairness (the backend keeps iterating and eventually reads the newest messages): no export, no view
        lprop = {"C06": "FlushReturns", "C17": "RemoveReturns"}.get(ck.prop, "StopEnds")
        lcfg = vlib.write_cfg(vlib.BUILD / "cfg" / f"StopRA_{ck.prop}_{label}_live.cfg",
                              cfg_text(k, recs, False, maxy, maxf, "TypeOK", maxr).replace("SPECIFICATION Spec", "SPECIFICATION FairSpec")
                              .replace("VIEW StateView\n", "") + f"PROPERTY {lprop}\n")
        rl = vlib.tlc("StopRA", lcfg, timeout=600)
        if rl.error:
            raise vlib.Infra(rl.error)
        ck.add_tlc(rl, f"StopRA {label} liveness")
        if rl.violated:
            ck.drifted(f"StopRA {label}: liveness property {lprop} fails in the model ({rl.violated}) although the safety invariants hold")
        ck.extra.setdefault("liveness_checked", []).append(f"StopRA {label}: {lprop} under FairSpec: {'violated' if rl.violated else 'holds'}")
        if quick:
            for a in ("XLog", "XStop") + (("XFlushCall",) if maxf else ()) + (("XRemoveCall",) if maxr else ()):
                if not vlib.enabled(r, a):
                    raise vlib.Infra(f"vacuity: {a} never enabled in StopRA {label}")
        behs = vlib.behaviours(r)
        if not behs or not any(h["a"] == "iter" and h["arg"][0] > 1 for b in behs for h in b):
            raise vlib.Infra("vacuity: StopRA exported no behaviour in which the backend reads the stop request")
        if len(behs) > (150 if quick else 1500):
            import random
            rnd = random.Random(ck.seed)
            fin = [b for b in behs if any(h["a"] in ("stop", "flushret", "removeret") for h in b)]
            behs = rnd.sample(fin, min(len(fin), 150 if quick else 1500))
        with ThreadPoolExecutor(max_workers=max(2, vlib.NCPU // 2)) as ex:
            res = list(ex.map(lambda b: run(exe, script_of(b)), behs))
        execs, ndrift = [], 0
        for i, (b, evs) in enumerate(zip(behs, res)):
            d = compare(b, evs)
            if d:
                ndrift += 1
                if ndrift <= 3:
                    ck.drifted(f"StopRA {label}: {d}")
            execs.append((f"{label}-{i}", script_of(b), evs))
            ck.case(("stopra", label, i), nontrivial=any(e["e"] in ("stopped", "flushed", "removed") for e in evs))
        rej = validate(ck, execs, label)
        ck.traces_validated += len(execs) - len(rej)
        for key, sc, why, ev in [x for x in rej if mine(ck.prop, x[2])][:3]:
            if validate(ck, [(key, sc, run(exe, sc))], label):
                ck.violation("stopra:" + "-".join(why.split())[:70], f"{key}: {why}; rejected event {json.dumps(ev)}",
                             {"script": sc, "harness": "h_stop", "orders": k, "why": why})
        ck.extra["stop_behaviours_replayed"] = ck.extra.get("stop_behaviours_replayed", 0) + len(behs)
        ck.extra["stop_behaviours_drifting"] = ck.extra.get("stop_behaviours_drifting", 0) + ndrift


def replay(path):
    j = json.loads(open(path).read())["replay"]
    for e in run(build(), j["script"]):
        print(json.dumps(e))
