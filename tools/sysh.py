"""Build and run the system harness (harness/h_sys.cpp) and parse its event traces."""
import json, os
from concurrent.futures import ThreadPoolExecutor
from pathlib import Path
import vlib

QTYPES = {"UB": "UnboundedBlocking", "UD": "UnboundedDropping", "BB": "BoundedBlocking", "BD": "BoundedDropping"}


def build(qt="UB", cap=65536, qmax=None, hooks=True, asan=False, extra=()):
    qmax = qmax or cap * 4
    shadow = qt.endswith("S")          # "UBS": registry-concurrency variant with the shadow Spinlock (lock yield points)
    if shadow:
        qt = qt[:-1]
        extra = ["-I", str(vlib.HARNESS / "shadow"), "-DVS_SHADOW_SPINLOCK"] + list(extra)
    flags = ["-fno-access-control", f"-DVQ_TYPE={QTYPES[qt]}", f"-DVQ_CAP={cap}", f"-DVQ_MAX={qmax}"]
    if hooks:
        flags.append("-DQUILL_VERIF")
    base = None
    if asan:
        base = ["-std=c++17", "-O1", "-DNDEBUG", "-g", "-pthread", "-w", "-fsanitize=address", "-fno-omit-frame-pointer"]
    flags += list(extra)
    name = f"h_sys_{qt}_{cap}_{qmax}" + ("_h" if hooks else "") + ("_asan" if asan else "") + ("_shadow" if shadow else "")
    deps = [vlib.HARNESS / "shadow" / "quill" / "core" / "Spinlock.h"] if shadow else []
    return vlib.build(name, [vlib.HARNESS / "h_sys.cpp"], flags=flags, base=base, libs=["-ldl"], deps=deps)


def run(exe, script, timeout=60, keep=None):
    """Run one script (text). Returns (rc, events). rc -9 = timeout (hang)."""
    d = vlib.scratch("sys")
    try:
        sp, tp = d / "script.txt", d / "trace.ndjson"
        sp.write_text(script)
        rc, so, se = vlib.run_cmd([exe, sp, tp], timeout=timeout, env={"ASAN_OPTIONS": "detect_leaks=0"})
        evs = []
        if tp.exists():
            for line in tp.read_text().splitlines():
                try:
                    evs.append(json.loads(line))
                except Exception:
                    evs.append({"e": "Garbled", "line": line[:200]})
        if rc not in (0,) and not any(e.get("e") == "Abort" for e in evs):
            evs.append({"e": "Crash", "rc": rc, "stderr": se[-800:]})
        return rc, evs
    finally:
        vlib.rm(d)


def run_many(exe, scripts, timeout=60, par=None):
    with ThreadPoolExecutor(max_workers=par or vlib.NCPU) as ex:
        return list(ex.map(lambda s: run(exe, s, timeout), scripts))


def validate_trace(module, cfg, lines, env_extra=None, timeout=600, workers=1):
    """Write `lines` (list of dicts) as ndjson and run the trace spec on it.
    Returns (TLCResult, path). Acceptance rule: no invariant violated and distinct == len(lines)+1."""
    d = vlib.scratch("tv")
    tp = d / "trace.ndjson"
    with open(tp, "w") as f:
        for ln in lines:
            f.write(json.dumps(ln, separators=(",", ":")) + "\n")
    env = {"TRACE": str(tp)}
    env.update(env_extra or {})
    r = vlib.tlc(module, cfg, workers=workers, env=env, timeout=timeout, heap="6g")
    vlib.rm(d)
    return r
