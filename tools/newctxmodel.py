"""Registration of new thread contexts under release/acquire (part of C03): spec/NewCtxRA.tla model-checked with the memory orders
and the clear-before-copy order EXTRACTED from the real code (harness/h_stop in fine-grained mode: the REAL backend thread and REAL
first log calls of new threads parked at every access of ThreadContextManager::_new_thread_context_flag), every transition exported
and replayed on the real code, every execution judged by spec/TraceNewCtx.tla."""
import json
from concurrent.futures import ThreadPoolExecutor
import vlib, sysh, stopmodel

HEAD = "init\npolicy 1:F:load 1:F:store 3:F:store 4:F:store 5:F:store 3:L:rmw 4:L:rmw 5:L:rmw\nZ1 start\nZ2 start\nZ3 start\nS 1 0\n"
LOGICAL = {"Z1": 3, "Z2": 4, "Z3": 5}


def extract(exe):
    evs = stopmodel.run(exe, HEAD + "Z1 log\nS 3 0\nS 3 0\nS 1 0\nS 1 0\nS 1 0\ndrain 8\nend\n")
    k = {}
    steps = [e for e in evs if e["e"] in ("sstep", "zcall")]
    for e in evs:
        if e["e"] == "acc" and e["obj"] == "F":
            if e["op"] == "store" and e["t"] == 3:
                k.setdefault("MoSet", e["mo"])
            elif e["op"] == "load" and e["t"] == 1:
                k.setdefault("MoLoad", e["mo"])
            elif e["op"] == "store" and e["t"] == 1:
                k.setdefault("MoClear", e["mo"])
    # parked at the clearing store: has the registry been copied already?
    at_store = [e for e in steps if e.get("t") == 1 and e.get("at") == "F:store"]
    base = next((e["cache"] for e in steps if e.get("t") == 1), None)
    if len(k) != 3 or not at_store or base is None or not any(e["e"] == "quiet" for e in evs):
        raise vlib.Infra(f"could not observe the accesses of the new-context flag: {k}")
    k["ClearBeforeCopy"] = at_store[0]["cache"] == base
    k["BaseCache"] = base
    # where the registering thread parks first: at the lock (it pushes its context before it raises the flag) or at the flag
    zc = [e for e in evs if e["e"] == "zcall"]
    if not zc or zc[0].get("at") not in ("L:rmw", "F:store"):
        raise vlib.Infra(f"could not observe the order of a registration: {zc[:1]}")
    k["RegBeforeFlag"] = zc[0]["at"] == "L:rmw"
    return k


def cfg_text(k, zs, export):
    return ("SPECIFICATION Spec\nCONSTANTS Zs = {%s}\n MoSet = \"%s\"\n MoLoad = \"%s\"\n MoClear = \"%s\"\n ClearBeforeCopy = %s\n RegBeforeFlag = %s\n Export = %s\n"
            "INVARIANTS NoLostCtx TypeOK\nCONSTRAINT Bound\nVIEW StateView\n%sCHECK_DEADLOCK FALSE\n"
            % (",".join('"%s"' % z for z in zs), k["MoSet"], k["MoLoad"], k["MoClear"], "TRUE" if k["ClearBeforeCopy"] else "FALSE", "TRUE" if k["RegBeforeFlag"] else "FALSE",
               "TRUE" if export else "FALSE", "ACTION_CONSTRAINT ExportA\n" if export else ""))


def mine(prop, why):
    owner = "C06" if why.startswith("flush_log()") else "C07" if why.startswith("stop()") else "C03"
    return prop == owner


def script_of(beh, flush=False):
    L = [HEAD.rstrip("\n")]
    called = set()
    for h in beh:
        if h["a"] in ("reg", "flag"):
            if h["t"] not in called:          # the first of the two steps of a registration: the log call starts (and parks)
                called.add(h["t"])
                L.append(f"{h['t']} log")
            L.append(f"S {LOGICAL[h['t']]} 0")
        elif h["a"] == "load":
            L.append(f"S 1 {h['arg'][0]}")
        elif h["a"] == "clear":
            L.append("S 1 0")
    return "\n".join(L) + f"\ndrain 8{' ' + flush if flush else ''}\nend\n"


def compare(k, beh, evs):
    if any(e["e"] == "crash" for e in evs):
        return "harness crashed or hung"
    if evs and evs[-1].get("badchoice"):
        return "a load value chosen by the model is not allowed by the harness' memory model"
    steps = [e for e in evs if e["e"] == "sstep"][1:]      # (the first step moves the backend to its first flag load)
    if len(steps) != len(beh):
        return f"harness ran {len(steps)} of {len(beh)} steps"
    facc = [e for e in evs if e["e"] == "acc" and e["obj"] == "F" and e["t"] == 1 and e["op"] == "load"]
    li = 0
    for n, (h, st) in enumerate(zip(beh, steps)):
        if st.get("skipped"):
            return f"step {n + 1} ({h['a']}): the thread was not parked"
        if h["t"] != "B":
            first = h["a"] == ("reg" if k["RegBeforeFlag"] else "flag")
            want = ("F:store" if k["RegBeforeFlag"] else "L:rmw") if first else ""
            if st.get("at", "") != want:
                return f"step {n + 1} ({h['a']}): the registering thread is at '{st.get('at')}', model '{want}'"
        if h["t"] == "B":
            want = "F:store" if h["pcb"] == "clear" else "F:load"
            if st.get("at") != want:
                return f"step {n + 1} ({h['a']}): backend at '{st.get('at')}', model {want}"
            if st["cache"] != k["BaseCache"] + h["cache"]:
                return f"step {n + 1} ({h['a']}): backend caches {st['cache'] - k['BaseCache']} new contexts, model {h['cache']}"
        if h["a"] == "load":
            if li >= len(facc) or facc[li]["idx"] != h["arg"][0]:
                return f"step {n + 1}: the flag load read message {facc[li]['idx'] if li < len(facc) else None}, model {h['arg'][0]}"
            li += 1
    return None


def validate(ck, execs, label):
    lines, owners = [], []
    for i, (key, sc, evs) in enumerate(execs):
        lines += [e for e in evs if e["e"] != "acc"]
        owners += [i] * len([e for e in evs if e["e"] != "acc"])
    rej = []
    while lines:
        r = sysh.validate_trace("TraceNewCtx", "TraceNewCtx.cfg", lines)
        if r.error:
            raise vlib.Infra(r.error)
        ck.add_tlc(r, f"TraceNewCtx {label}")
        if r.violated is None:
            if r.distinct != len(lines) + 1:
                raise vlib.Infra("new-context trace not fully consumed")
            break
        l = r.trace[-1]["l"] - 1
        own = owners[l - 1]
        rej.append((execs[own][0], execs[own][1], r.trace[-1]["m"]["why"], lines[l - 1]))
        end = l
        while end < len(lines) and owners[end] == own:
            end += 1
        lines, owners = lines[end:], owners[end:]
        if len(rej) > 20:
            break
    return rej


def run_for(ck):
    quick = ck.tier == "quick"
    # the C06 check ends every run with flush_log() calls of the new threads, the C07 check with Backend::stop()
    fl = {"C06": "flush", "C07": "stop"}.get(ck.prop, "")
    exe = stopmodel.build()
    try:
        k = extract(exe)
    except vlib.Infra as ex:
        ck.drifted(f"new-context protocol: constant extraction failed: {ex}")
        return
    ck.extra["newctx_protocol_from_code"] = k
    for zs in ((["Z1"], ["Z1", "Z2"]) if quick else (["Z1"], ["Z1", "Z2"], ["Z1", "Z2", "Z3"])):
        label = f"newctx-{len(zs)}"
        cfg = vlib.write_cfg(vlib.BUILD / "cfg" / f"NewCtxRA_{label}.cfg", cfg_text(k, zs, True))
        r = vlib.tlc("NewCtxRA", cfg, timeout=600, coverage=quick)
        if r.error:
            raise vlib.Infra(r.error)
        ck.add_tlc(r, f"NewCtxRA {label}")
        if r.violated:
            beh = r.trace[-1]["hist"]
            sc = script_of(beh, fl)
            ck.extra.setdefault("model_counterexamples", []).append({"config": label, "invariant": r.violated})
            rej = [x for x in validate(ck, [("cex", sc, stopmodel.run(exe, sc))], label) if mine(ck.prop, x[2])]
            if rej and validate(ck, [("cex", sc, stopmodel.run(exe, sc))], label):
                key, sc, why, ev = rej[0]
                ck.violation("newctx:" + "-".join(why.split())[:70],
                             f"registration of a new thread context ({k}): {why}; schedule {[(h['t'], h['a'], h['arg']) for h in beh]}; rejected event {json.dumps(ev)}",
                             {"script": sc, "harness": "h_stop", "protocol": k, "why": why})
            else:
                ck.drifted(f"NewCtxRA violates {r.violated} with the code's protocol {k} but the real code passes on that schedule")
            continue
        # liveness under fairness (the backend keeps running and eventually reads the newest message): no state constraint, no export
        lcfg = vlib.write_cfg(vlib.BUILD / "cfg" / f"NewCtxRA_{label}_live.cfg",
                              cfg_text(k, zs, False).replace("SPECIFICATION Spec", "SPECIFICATION FairSpec").replace("CONSTRAINT Bound\n", "")
                              .replace("VIEW StateView\n", "") + "PROPERTY PickedUp\n")
        rl = vlib.tlc("NewCtxRA", lcfg, timeout=600)
        if rl.error:
            raise vlib.Infra(rl.error)
        ck.add_tlc(rl, f"NewCtxRA {label} liveness")
        if rl.violated:
            ck.drifted(f"NewCtxRA {label}: liveness property PickedUp fails in the model ({rl.violated}) although the safety invariants hold")
        ck.extra.setdefault("liveness_checked", []).append(f"NewCtxRA {label}: PickedUp under FairSpec: {'violated' if rl.violated else 'holds'}")
        if quick:
            for a in ("ZReg", "ZFlag", "BClear"):
                if not vlib.enabled(r, a):
                    raise vlib.Infra(f"vacuity: {a} never enabled in NewCtxRA {label}")
        behs = vlib.behaviours(r)
        if not behs:
            raise vlib.Infra("NewCtxRA exported no behaviours")
        cap = 120 if quick else 2000
        if len(behs) > cap:
            import random
            behs = random.Random(ck.seed).sample(behs, cap)
        with ThreadPoolExecutor(max_workers=max(2, vlib.NCPU // 2)) as ex:
            res = list(ex.map(lambda b: stopmodel.run(exe, script_of(b, fl)), behs))
        execs, ndrift = [], 0
        for i, (b, evs) in enumerate(zip(behs, res)):
            d = compare(k, b, evs)
            if d:
                ndrift += 1
                if ndrift <= 3:
                    ck.drifted(f"NewCtxRA {label}: {d}")
            execs.append((f"{label}-{i}", script_of(b, fl), evs))
            ck.case(("newctx", label, i), nontrivial=any(h["a"] == "clear" for h in b))
        rej = validate(ck, execs, label)
        ck.traces_validated += len(execs) - len(rej)
        for key, sc, why, ev in [x for x in rej if mine(ck.prop, x[2])][:3]:
            if validate(ck, [(key, sc, stopmodel.run(exe, sc))], label):
                ck.violation("newctx:" + "-".join(why.split())[:70], f"{key}: {why}; rejected event {json.dumps(ev)}",
                             {"script": sc, "harness": "h_stop", "protocol": k, "why": why})
        ck.extra["newctx_behaviours_replayed"] = ck.extra.get("newctx_behaviours_replayed", 0) + len(behs)
        ck.extra["newctx_behaviours_drifting"] = ck.extra.get("newctx_behaviours_drifting", 0) + ndrift


def replay(path):
    stopmodel.replay(path)
