"""Logger removal under release/acquire (part of C17): spec/RemoveRA.tla model-checked with the memory orders EXTRACTED from the
real LoggerManager / LoggerBase / BoundedSPSCQueue (harness/h_remove: shim atomic, script-chosen load values), every transition
exported and replayed on the real objects, every execution judged by spec/TraceRemove.tla. A model counterexample is replayed too: the contract over that
real execution decides."""
import json
from concurrent.futures import ThreadPoolExecutor
import vlib, sysh


def build():
    return vlib.build("h_remove", [vlib.HARNESS / "h_remove.cpp"], flags=["-fno-access-control"])


def run(exe, script, timeout=30):
    d = vlib.scratch("rmv")
    try:
        sp, tp = d / "s.txt", d / "t.ndjson"
        sp.write_text(script)
        rc, so, se = vlib.run_cmd([exe, sp, tp], timeout=timeout)
        evs = [json.loads(x) for x in tp.read_text().splitlines()] if tp.exists() else []
        if rc != 0:
            evs.append({"e": "crash", "rc": rc})
        return evs
    finally:
        vlib.rm(d)


def extract(exe):
    evs = run(exe, "init\nP write\nB read 0\nP remove1\nP remove2\nB clean 0 0 0\nend\n")
    k = {}
    for e in evs:
        if e["e"] != "acc":
            continue
        o, op, t = e["obj"], e["op"], e["t"]
        if o == "W" and op == "store":
            k.setdefault("MoCommit", e["mo"])
        elif o == "G" and op == "store":
            k.setdefault("MoInvL", e["mo"])
        elif o == "H" and op == "store" and t == 0:
            k.setdefault("MoHasSet", e["mo"])
        elif o == "H" and op == "load":
            k.setdefault("MoHasLoad", e["mo"])
        elif o == "G" and op == "load":
            k.setdefault("MoValidL", e["mo"])
        elif o == "W" and op == "load" and "MoValidL" in k:
            k.setdefault("MoEmpty", e["mo"])
    if len(k) != 6:
        raise vlib.Infra(f"could not observe the six atomic accesses of the removal protocol: {k}")
    return k


def cfg_text(k, recs, export):
    return ("SPECIFICATION Spec\nCONSTANTS MaxRecs = %d\n MoCommit = \"%s\"\n MoInvL = \"%s\"\n MoHasSet = \"%s\"\n MoHasLoad = \"%s\"\n"
            " MoValidL = \"%s\"\n MoEmpty = \"%s\"\n Export = %s\nINVARIANTS NoUAF NoLostRemoval TypeOK\nCONSTRAINT HistBound\nVIEW StateView\n%sCHECK_DEADLOCK FALSE\n"
            % (recs, k["MoCommit"], k["MoInvL"], k["MoHasSet"], k["MoHasLoad"], k["MoValidL"], k["MoEmpty"], "TRUE" if export else "FALSE",
               "ACTION_CONSTRAINT ExportA\n" if export else ""))


def script_of(beh):
    L = ["init"]
    for h in beh:
        a = h["a"]
        if a in ("write", "remove1", "remove2"):
            L.append("P " + a)
        elif a == "read":
            L.append(f"B read {h['arg'][0]}")
        elif a == "clean":
            L.append("B clean %d %d %d" % tuple(h["arg"]))
    return "\n".join(L) + "\nend\n"


def compare(beh, evs):
    """which message every chosen load read, and the outcome of every check, model vs code"""
    outs = [e for e in evs if e["e"] in ("committed", "invalidated", "requested", "read", "clean")]
    if len(outs) < len(beh):
        return f"harness ran {len(outs)} of {len(beh)} steps"
    if evs and evs[-1].get("badchoice"):
        return "a load value chosen by the model is not allowed by the harness' memory model"
    return None


def validate(ck, execs, label):
    lines, owners = [], []
    for i, (key, sc, evs) in enumerate(execs):
        lines += evs
        owners += [i] * len(evs)
    rej = []
    while lines:
        r = sysh.validate_trace("TraceRemove", "TraceRemove.cfg", lines)
        if r.error:
            raise vlib.Infra(r.error)
        ck.add_tlc(r, f"TraceRemove {label}")
        if r.violated is None:
            if r.distinct != len(lines) + 1:
                raise vlib.Infra("removal trace not fully consumed")
            break
        l = r.trace[-1]["l"] - 1
        own = owners[l - 1]
        rej.append((execs[own][0], execs[own][1], r.trace[-1]["m"]["why"], lines[l - 1]))
        end = l
        while end < len(lines) and owners[end] == own:
            end += 1
        lines, owners = lines[end:], owners[end:]
        if len(rej) > 20:
            break
    return rej


def run_for(ck):
    quick = ck.tier == "quick"
    exe = build()
    try:
        k = extract(exe)
    except vlib.Infra as ex:
        # the code no longer performs the accesses this model is cut along (restructured, not necessarily wrong): the model cannot
        # be instantiated, which is reported as drift - the system-level scenarios still decide the property
        ck.drifted(f"logger removal protocol: constant extraction failed: {ex}")
        return
    ck.extra["removal_protocol_memory_orders_from_code"] = k
    for recs in ([2] if quick else [2, 3]):
        label = f"remove-{recs}"
        cfg = vlib.write_cfg(vlib.BUILD / "cfg" / f"RemoveRA_{label}.cfg", cfg_text(k, recs, True))
        r = vlib.tlc("RemoveRA", cfg, timeout=900, coverage=quick)
        if r.error:
            raise vlib.Infra(r.error)
        ck.add_tlc(r, f"RemoveRA {label}")
        if r.violated:
            beh = r.trace[-1]["hist"]
            sc = script_of(beh)
            evs = run(exe, sc)
            rej = validate(ck, [("cex", sc, evs)], label)
            ck.extra.setdefault("model_counterexamples", []).append({"config": label, "invariant": r.violated})
            if rej:
                key, sc, why, ev = rej[0]
                ck.violation("removera:" + "-".join(why.split())[:70],
                             f"logger removal with memory orders {k}: {why}; schedule {[(h['t'], h['a'], h['arg']) for h in beh]}; rejected event {json.dumps(ev)}",
                             {"script": sc, "harness": "h_remove", "orders": k, "why": why})
            else:
                ck.drifted(f"RemoveRA violates {r.violated} with the code's memory orders {k} but the real objects pass on that schedule")
            continue
        if quick:
            for a in ("PWrite", "PRemove1", "PRemove2"):
                if not vlib.enabled(r, a):
                    raise vlib.Infra(f"vacuity: {a} never enabled in RemoveRA {label}")
        behs = vlib.behaviours(r)
        if not behs:
            raise vlib.Infra("RemoveRA exported no behaviours")
        with ThreadPoolExecutor(max_workers=vlib.NCPU) as ex:
            res = list(ex.map(lambda b: run(exe, script_of(b)), behs))
        execs, ndrift = [], 0
        for i, (b, evs) in enumerate(zip(behs, res)):
            d = compare(b, evs)
            if d:
                ndrift += 1
                if ndrift <= 3:
                    ck.drifted(f"RemoveRA {label}: {d}")
            execs.append((f"{label}-{i}", script_of(b), evs))
            ck.case(("removera", label, i), nontrivial=any(e["e"] == "erase" for e in evs))
        rej = validate(ck, execs, label)
        ck.traces_validated += len(execs) - len(rej)
        for key, sc, why, ev in rej[:3]:
            ck.violation("removera:" + "-".join(why.split())[:70], f"{key}: {why}; rejected event {json.dumps(ev)}",
                         {"script": sc, "harness": "h_remove", "orders": k, "why": why})
        ck.extra["removal_behaviours_replayed"] = ck.extra.get("removal_behaviours_replayed", 0) + len(behs)
        ck.extra["removal_behaviours_drifting"] = ck.extra.get("removal_behaviours_drifting", 0) + ndrift


def replay(path):
    j = json.loads(open(path).read())["replay"]
    for e in run(build(), j["script"]):
        print(json.dumps(e))
