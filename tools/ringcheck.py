"""TransitEventBuffer sub-check (part of C03/C20): spec/TransitRing.tla exhaustive + every exported history replayed into the real
ring (harness/h_ring.cpp); popped values/sizes are the FIFO contract (violation), capacities are implementation detail (drift)."""
import json
import vlib


def run(ck, quick):
    exe = vlib.build("h_ring", [vlib.HARNESS / "h_ring.cpp"])
    total = 0
    for initcap, maxops, maxcap in ((1, 9, 8), (2, 10, 8), (4, 11 if quick else 13, 16)) if quick else ((1, 12, 16), (2, 13, 16), (4, 14, 16)):
        cfg = vlib.write_cfg(vlib.BUILD / "cfg" / f"MC_TransitRing_{initcap}.cfg",
                             f"SPECIFICATION Spec\nCONSTANTS InitCap = {initcap}\n MaxOps = {maxops}\n MaxCap = {maxcap}\n Export = TRUE\n"
                             "INVARIANTS FifoOK Contents Shape\nVIEW StateView\nACTION_CONSTRAINT ExportA\nCHECK_DEADLOCK FALSE\n")
        r = vlib.tlc("TransitRing", cfg, timeout=900, coverage=False)
        if r.error:
            raise vlib.Infra(r.error)
        if r.violated:
            raise vlib.Infra(f"TransitRing model violates {r.violated}")
        ck.add_tlc(r, f"TransitRing init={initcap}")
        behs = vlib.behaviours(r)
        if not behs:
            raise vlib.Infra("TransitRing: nothing exported")
        d = vlib.scratch("ring")
        try:
            L = []
            for b in behs:
                L.append(f"new {initcap}")
                for h in b:
                    L.append(f"push {h['v']}" if h["op"] == "push" else h["op"])
            (d / "s.txt").write_text("\n".join(L) + "\n")
            rc, so, se = vlib.run_cmd([exe, d / "s.txt"], timeout=600)
        finally:
            vlib.rm(d)
        out = [json.loads(x) for x in so.splitlines() if x.startswith("{")]
        runs, cur = [], None
        for o in out:
            if o["op"] == "new":
                cur = []
                runs.append(cur)
            else:
                cur.append(o)
        if rc != 0 or len(runs) < len(behs):
            # the real ring crashed inside a history: find it
            k = max(0, len(runs) - 1)
            ck.violation("ring:crash", f"TransitEventBuffer crashed (rc={rc}) on history {[(h['op'], h['v']) for h in behs[min(k, len(behs) - 1)]]}",
                         {"history": behs[min(k, len(behs) - 1)], "initcap": initcap})
        for b, rr in zip(behs, runs):
            total += 1
            ck.case(("ring", initcap, tuple(h["op"] for h in b)), nontrivial=any(h["op"] == "pop" for h in b))
            for j, h in enumerate(b):
                if j >= len(rr):
                    break
                o = rr[j]
                if h["op"] == "pop" and o["res"] != h["res"]:
                    ck.violation("ring:fifo-order-or-content", f"init cap {initcap}: history {[x['op'] for x in b[:j + 1]]}: popped {o['res']}, FIFO expects {h['res']}",
                                 {"history": b, "initcap": initcap})
                    break
                if o["size"] != h["size"]:
                    ck.violation("ring:size", f"init cap {initcap}: history {[x['op'] for x in b[:j + 1]]}: size {o['size']}, expected {h['size']}",
                                 {"history": b, "initcap": initcap})
                    break
                if o["cap"] != h["cap"]:
                    ck.drifted(f"TransitRing init={initcap}: capacity code={o['cap']} model={h['cap']} after {[x['op'] for x in b[:j + 1]]}")
                    break
    ck.traces_validated += total
    ck.extra["ring_histories_replayed"] = total
