"""The plain file sink (sink clause of C06: "... written to all of its sinks and those sinks have been flushed, so it can be read
from the destination"): spec/FileSink.tla (one action per public operation of quill::FileSink / StreamSink: write_log, flush_sink,
the user deleting the file, time, destroy + new sink in "a"/"w") model-checked with constants EXTRACTED from the real code by probe
runs of harness/h_filesink (flush skipped when nothing was written, fsync only when enabled / interval elapsed / a skipped fsync does
not restart the interval, re-open of a deleted file and its mode, fclose flushes, what "a"/"w" keep, how many statements fit into the
stdio buffer).  Every transition is exported and replayed on the REAL sink in a scratch directory, compared step by step (drift), and
every recorded execution is judged by spec/TraceFileSink.tla (contract text: spec/FileSinkContract.tla, shared with the model)."""
import json, random, time
from concurrent.futures import ThreadPoolExecutor
import vlib, sysh

UNIT_MS = 50          # one tick of the model
INTERVAL_TICKS = 2    # minimum_fsync_interval of the interval configurations = 100 ms
SMALL_BUF = 4096      # smallest write buffer FileSinkConfig accepts
PAR = 6               # other work shares the machine
BATCH = 40            # executions per harness process

ASSUMPTIONS = [
    "file sink: statements written after the user deleted the file, up to and including the first flush_sink() that follows such a "
    "write, are legitimately lost (the sink can notice the deletion only when it flushes); everything written after that flush is demanded",
    "file sink: statements still in the stdio buffer when the sink object is destroyed are demanded from the path after the next flush "
    "of a new sink opened in \"a\" mode on the same path (destruction closes the file); a \"w\" restart or a deletion discharges them",
    "file sink: with minimum_fsync_interval > 0 the first flush of a sink object is expected to fsync (the steady clock's epoch is "
    "long ago: the harness runs the virtual monotonic clock from an uptime of 100000 s and advances it 1 us per reading)",
    "file sink: truncation by \"w\" and the O_APPEND flag of the re-opened file are compared with the model only (drift), the contract "
    "does not demand them; between flushes the file may end inside a statement (stdio wrote a full buffer)",
]


def build():
    return vlib.build("h_filesink", [vlib.HARNESS / "h_filesink.cpp"], flags=["-fno-access-control"])


# --------------------------------------------------------------------------- running the real sink
def split(text):
    """ndjson -> list of executions (each a list of events starting with the init event)"""
    execs = []
    for x in text.splitlines():
        try:
            e = json.loads(x)
        except ValueError:
            continue
        if e.get("e") == "init":
            execs.append([e])
        elif execs:
            execs[-1].append(e)
    return execs


def run_batch(exe, scripts, timeout=120):
    d = vlib.scratch("fsink")
    try:
        (d / "s.txt").write_text("".join(scripts))
        rc, so, se = vlib.run_cmd([exe, d / "s.txt", d / "t.ndjson", d / "dir"], timeout=timeout)
        tp = d / "t.ndjson"
        return rc, split(tp.read_text() if tp.exists() else "")
    finally:
        vlib.rm(d)


def complete(evs):
    return bool(evs) and evs[-1].get("e") == "end"


def run(exe, script, timeout=60):
    """one execution, alone; a process that died or hung ends with a crash event"""
    rc, execs = run_batch(exe, [script], timeout)
    evs = execs[0] if execs else [{"e": "init"}]
    if rc != 0 or not complete(evs):
        evs.append({"e": "crash", "rc": rc})
    return evs


def run_many(exe, scripts):
    """all scripts, BATCH per process, PAR processes at a time; executions of a batch that did not complete are run again alone"""
    batches = [scripts[i:i + BATCH] for i in range(0, len(scripts), BATCH)]
    out = []
    with ThreadPoolExecutor(max_workers=PAR) as ex:
        res = list(ex.map(lambda b: run_batch(exe, b), batches))
        for b, (rc, execs) in zip(batches, res):
            for i, sc in enumerate(b):
                out.append(execs[i] if rc == 0 and i < len(execs) and complete(execs[i]) else None)
        redo = [i for i, e in enumerate(out) if e is None]
        for i, evs in zip(redo, ex.map(lambda i: run(exe, scripts[i]), redo)):
            out[i] = evs
    return out


# --------------------------------------------------------------------------- constants of the code (probe runs)
# the constants as they were when the model was written: a different value is reported (drift), the model follows the code
REFERENCE = {"SkipClean": True, "FsyncElapsed0": True, "ReopenMissing": True, "ReopenAppend": False, "FsyncWhenOff": False,
             "FirstFlushFsyncs": True, "FsyncElapsed": True, "FsyncEarly": False, "SkipKeepsLast": True, "KeepA": True,
             "CloseFlushes": True, "KeepW": False}

PROBES = {
    "skip": "init\nopen w 1 0\nW 1\nF\nF\nD\nF\nW 2\nF\nW 3\nF\nend\n",
    "off": "init\nopen w 0\nW 1\nF\nend\n",
    "interval": "init\nopen w 1 100\nW 1\nF\nT 100\nW 2\nF\nT 50\nW 3\nF\nT 60\nW 4\nF\nend\n",
    "modes": "init\nopen w\nW 1\nF\nR a\nW 2\nR a\nR w\nend\n",
    "buffer": "init\nopen w 0 0 %d\npad %d\nW 1\nW 2\nW 3\nW 4\nW 5\nW 6\nW 7\nF\nend\n" % (SMALL_BUF, SMALL_BUF // 2),
}


def extract(exe):
    """-> (constants, probe executions). Raises Infra when a probe did not run to its end."""
    names = list(PROBES)
    res = run_many(exe, [PROBES[n] for n in names])
    pe = dict(zip(names, res))
    for n, evs in pe.items():
        if not complete(evs) or any(e.get("err") for e in evs):
            raise vlib.Infra(f"file sink probe '{n}' failed: {[e for e in evs if e.get('err') or e['e'] == 'crash'][:2]}")
    fl = {n: [e for e in pe[n] if e["e"] == "flush"] for n in names}
    k = {}
    a, b, c, d, e5 = fl["skip"]
    k["SkipClean"] = (b["fsyncs"] == a["fsyncs"]) if a["fsyncs"] else (c["exists"] == 0)
    k["FsyncElapsed0"] = a["fsyncs"] > 0
    k["ReopenMissing"] = d["exists"] == 1
    k["ReopenAppend"] = d["oapp"] == 1
    k["FsyncWhenOff"] = fl["off"][0]["fsyncs"] > 0
    a, b, c, d = fl["interval"]
    k["FirstFlushFsyncs"] = a["fsyncs"] > 0
    k["FsyncElapsed"] = b["fsyncs"] > a["fsyncs"]
    k["FsyncEarly"] = c["fsyncs"] > b["fsyncs"]
    k["SkipKeepsLast"] = True if k["FsyncEarly"] else d["fsyncs"] > c["fsyncs"]
    r = [e for e in pe["modes"] if e["e"] == "restart"]
    k["KeepA"] = 1 in r[0]["disk"]
    k["CloseFlushes"] = 2 in r[1]["disk"]
    k["KeepW"] = len(r[2]["disk"]) > 0
    w = [e for e in pe["buffer"] if e["e"] == "write"]
    k["BufCap"] = None
    for i, e in enumerate(w):
        if e["disk"] or e["partial"]:
            # statement granularity is exact only if whole statements 1..i reached the file
            if not e["partial"] and e["disk"] == list(range(1, i + 1)) and i >= 1:
                k["BufCap"] = i
            break
    k["SmallBuf"] = w[0]["buf"]
    return k, pe


# --------------------------------------------------------------------------- configurations, scripts
def configs(k, quick):
    cs = [dict(name="plain", fsync=0, interval=0, small=False, bw=0, pre=1, modes='{"a", "w"}',
               maxw=3 if quick else 5, maxops=8 if quick else 11, maxt=0),
          dict(name="interval-bw", fsync=1, interval=INTERVAL_TICKS, small=False, bw=1, pre=0, modes='{"a", "w"}',
               maxw=3 if quick else 5, maxops=8 if quick else 11, maxt=3 if quick else 5)]
    if k["BufCap"]:
        cs.append(dict(name="fsync0-smallbuf", fsync=1, interval=0, small=True, bw=0, pre=0, modes='{"a", "w"}',
                       maxw=2 * k["BufCap"] + (1 if quick else 2), maxops=8 if quick else 11, maxt=0))
    else:
        cs.append(dict(name="fsync0", fsync=1, interval=0, small=False, bw=0, pre=0, modes='{"a", "w"}',
                       maxw=3 if quick else 5, maxops=8 if quick else 11, maxt=0))
    return cs


def tf(x):
    return "TRUE" if x else "FALSE"


def cfg_text(k, cf, export):
    elapsed = k["FsyncElapsed"] and k["FirstFlushFsyncs"] if cf["interval"] else k["FsyncElapsed0"]
    return ("SPECIFICATION Spec\nCONSTANTS MaxWrites = %d\n MaxOps = %d\n MaxTime = %d\n Modes = %s\n Pre = %d\n FsyncEnabled = %s\n Interval = %d\n"
            " BufCap = %d\n SkipClean = %s\n FsyncWhenOff = %s\n FsyncEarly = %s\n FsyncElapsed = %s\n SkipKeepsLast = %s\n ReopenMissing = %s\n"
            " ReopenAppend = %s\n CloseFlushes = %s\n KeepA = %s\n KeepW = %s\n Export = %s\n"
            "INVARIANTS ContractHolds NoDupNoReorder FsyncEveryFlush FsyncOnlyIfEnabled BufferBounded TypeOK\nVIEW StateView\n%sCHECK_DEADLOCK FALSE\n"
            % (cf["maxw"], cf["maxops"], cf["maxt"], cf["modes"], cf["pre"], tf(cf["fsync"]), cf["interval"],
               k["BufCap"] if cf["small"] else 99, tf(k["SkipClean"]), tf(k["FsyncWhenOff"]), tf(k["FsyncEarly"]), tf(elapsed),
               tf(k["SkipKeepsLast"]), tf(k["ReopenMissing"]), tf(k["ReopenAppend"]), tf(k["CloseFlushes"]), tf(k["KeepA"]), tf(k["KeepW"]),
               tf(export), "ACTION_CONSTRAINT ExportA\n" if export else ""))


def script_of(k, cf, beh):
    L = ["init"]
    if cf["pre"]:
        L.append("pre 0")
    for h in beh:
        a = h["a"]
        if a == "open":
            L.append(f"open {h['m']} {cf['fsync']} {cf['interval'] * UNIT_MS} {SMALL_BUF if cf['small'] else '-'} {cf['bw']}")
            if cf["small"]:
                L.append(f"pad {k['SmallBuf'] // k['BufCap']}")
        elif a == "write":
            L.append(f"W {h['id']}")
        elif a == "flush":
            L.append("F")
        elif a == "delete":
            L.append("D")
        elif a == "tick":
            L.append(f"T {UNIT_MS}")
        elif a == "restart":
            L.append(f"R {h['m']}")
    return "\n".join(L) + "\nend\n"


def compare(cf, beh, evs):
    """model step vs real step (drift, never a verdict)"""
    if any(e["e"] == "crash" for e in evs):
        return "harness crashed or hung"
    steps = [e for e in evs if e["e"] not in ("init", "pre", "end")]
    if len(steps) != len(beh):
        return f"harness ran {len(steps)} of {len(beh)} steps"
    nw = 0
    for n, (h, e) in enumerate(zip(beh, steps)):
        where = f"step {n + 1} ({h['a']})"
        if e["e"] != h["a"]:
            return f"{where}: harness recorded '{e['e']}'"
        if e["err"]:
            return f"{where}: the operation threw: {e['err'][:80]}"
        if e["partial"] or e["bad"]:
            return f"{where}: the file does not end at a statement boundary (the model predicts whole statements)"
        nw += h["a"] == "write"
        for f, got, want in (("the path holds", e["disk"], h["disk"]), ("path exists", e["exists"], h["exists"]),
                             ("_write_occurred", e["wo"], h["wo"]), ("FILE* is the path's inode", e["att"], h["att"]),
                             ("O_APPEND", e["oapp"], h["app"]), ("fsync calls", e["fsyncs"], h["nfs"]),
                             ("time", e["t"], h["now"] * UNIT_MS), ("before_write calls", e["cb"], nw if cf["bw"] else 0)):
            if got != want:
                return f"{where}: {f} {got}, model {want}"
    return None


def validate(ck, execs, label, cap=8):
    """TLC (TraceFileSink) judges the recorded executions: one JVM for all; a rejected execution is cut out and the rest judged again"""
    lines, owners = [], []
    for i, (key, sc, evs) in enumerate(execs):
        lines += evs
        owners += [i] * len(evs)
    rej = []
    while lines:
        r = sysh.validate_trace("TraceFileSink", "TraceFileSink.cfg", lines)
        if r.error:
            raise vlib.Infra(r.error)
        ck.add_tlc(r, f"TraceFileSink {label}")
        if r.violated is None:
            if r.distinct != len(lines) + 1:
                raise vlib.Infra("file sink trace not fully consumed")
            break
        l = r.trace[-1]["l"] - 1
        own = owners[l - 1]
        rej.append((execs[own][0], execs[own][1], r.trace[-1]["m"]["why"], lines[l - 1]))
        end = l
        while end < len(lines) and owners[end] == own:
            end += 1
        lines, owners = lines[end:], owners[end:]
        if len(rej) >= cap:
            break
    return rej


def sig_of(why):
    return "filesink:" + "-".join(why.split())[:70]


def report(ck, exe, k, rej, label, conf=None, conf_of=None):
    """a rejection is a violation only if it repeats when the script is run again, alone"""
    seen = set()
    for key, sc, why, ev in rej:
        if why in seen:
            continue
        seen.add(why)
        again = validate(ck, [(key, sc, run(exe, sc))], label + " confirm")
        if again:
            ck.violation(sig_of(again[0][2]), f"file sink {key}: {again[0][2]}; script {' / '.join(sc.split(chr(10))[1:-2])}; rejected event {json.dumps(again[0][3])}",
                         {"script": sc, "harness": "h_filesink", "config": (conf_of or {}).get(key) or conf or label, "constants": k, "why": again[0][2]})
        else:
            ck.drifted(f"file sink {key}: rejection '{why}' did not repeat when run alone")


def run_for(ck):
    quick = ck.tier == "quick"
    t0 = time.time()
    exe = build()
    for a in ASSUMPTIONS:
        if a not in ck.assumptions:
            ck.assumptions.append(a)
    # ---- probes: constants of the code; the probe runs are real executions, the contract judges them too
    try:
        k, pe = extract(exe)
    except (vlib.Infra, ValueError, IndexError, KeyError) as ex:
        k, pe = None, {n: run(exe, s) for n, s in PROBES.items()}
        ck.drifted(f"file sink: constant extraction failed: {ex}")
    execs = [(f"probe-{n}", PROBES[n], evs) for n, evs in pe.items()]
    rej = validate(ck, execs, "probes")
    ck.traces_validated += len(execs) - len(rej)
    report(ck, exe, k, rej, "probes")
    if k is None:
        return
    ck.extra["filesink_constants_from_code"] = k
    diff = {n: k[n] for n, v in REFERENCE.items() if k[n] != v}
    if diff:
        ck.drifted(f"file sink: constants extracted from the code differ from the reference transcription: {diff} (the model follows the code; the contract decides)")
    if not k["BufCap"]:
        ck.extra["filesink_small_buffer"] = "stdio did not write whole statements when the small buffer filled: buffer kept large in the model"
    # ---- model checking (all configurations side by side), export
    cfs = configs(k, quick)
    workers = max(1, PAR // len(cfs))

    def mc(cf):
        cfg = vlib.write_cfg(vlib.BUILD / "cfg" / f"FileSink_{cf['name']}.cfg", cfg_text(k, cf, True))
        r = vlib.tlc("FileSink", cfg, timeout=900, coverage=quick, workers=workers, heap="3g")
        if r.error and "timeout" not in r.error:
            r = vlib.tlc("FileSink", cfg, timeout=900, coverage=quick, workers=workers, heap="3g")
        return r
    with ThreadPoolExecutor(max_workers=len(cfs)) as ex:
        results = list(ex.map(mc, cfs))
    cap = 10000 if quick else 80000
    rnd = random.Random(ck.seed)
    allexecs, conf_of = [], {}
    for cf, r in zip(cfs, results):
        label = cf["name"]
        if r.error:
            raise vlib.Infra(f"FileSink {label}: {r.error}")
        ck.add_tlc(r, f"FileSink {label}")
        behs = vlib.behaviours(r)
        r.out, r.prints = "", []
        if r.violated:
            # the model with the code's constants breaks the contract: the real sink decides, on that very schedule
            beh = r.trace[-1]["hist"]
            sc = script_of(k, cf, beh)
            ck.extra.setdefault("filesink_model_counterexamples", []).append({"config": label, "invariant": r.violated, "script": sc})
            rj = validate(ck, [(f"{label}-cex", sc, run(exe, sc))], label + " cex")
            if rj:
                report(ck, exe, k, rj, label, cf)
            else:
                ck.drifted(f"FileSink {label} violates {r.violated} with the code's constants but the real sink passes the contract on that schedule")
        elif quick:
            for a in ("Open", "Restart", "Write", "Flush", "Delete") + (("Tick",) if cf["interval"] else ()):
                if not vlib.enabled(r, a):
                    raise vlib.Infra(f"vacuity: {a} never enabled in FileSink {label}")
        if not behs and not r.violated:
            raise vlib.Infra(f"FileSink {label} exported no behaviours")
        ck.extra["filesink_behaviours_exported"] = ck.extra.get("filesink_behaviours_exported", 0) + len(behs)
        if len(behs) > cap:
            good = [b for b in behs if b[-1]["a"] in ("flush", "restart")]
            behs = rnd.sample(good, min(len(good), cap))
        scripts = [script_of(k, cf, b) for b in behs]
        res = run_many(exe, scripts)
        ndrift = 0
        for i, (b, sc, evs) in enumerate(zip(behs, scripts, res)):
            d = compare(cf, b, evs)
            if d:
                ndrift += 1
                if ndrift <= 2:
                    ck.drifted(f"FileSink {label}: {d}; script {' / '.join(sc.split(chr(10))[1:-2])}")
            allexecs.append((f"{label}-{i}", sc, evs))
            conf_of[f"{label}-{i}"] = cf
            wrote = False
            nontrivial = False
            for h in b:
                wrote = wrote or h["a"] == "write"
                nontrivial = nontrivial or (wrote and h["a"] == "flush")
            ck.case(("filesink", label, i), nontrivial=nontrivial)
        if behs:
            ck.sample({"filesink_config": label, "script": scripts[len(scripts) // 2].split("\n")[:-1],
                       "path_after_last_step": [e for e in res[len(scripts) // 2] if "disk" in e][-1]["disk"]})
        ck.extra["filesink_behaviours_replayed"] = ck.extra.get("filesink_behaviours_replayed", 0) + len(behs)
        ck.extra["filesink_behaviours_drifting"] = ck.extra.get("filesink_behaviours_drifting", 0) + ndrift
    # ---- the verdict: one TLC run (TraceFileSink) over all recorded executions
    rej = validate(ck, allexecs, "replayed behaviours", cap=12)
    ck.traces_validated += len(allexecs) - len(rej)
    ck.extra["filesink_executions_rejected"] = len(rej)
    report(ck, exe, k, rej, "replayed behaviours", conf_of=conf_of)
    ck.extra["filesink_wall_s"] = round(time.time() - t0, 1)


def replay(path):
    j = json.loads(open(path).read())["replay"]
    evs = run(build(), j["script"])
    for e in evs:
        print(json.dumps(e))
    r = sysh.validate_trace("TraceFileSink", "TraceFileSink.cfg", evs)
    print("contract:", "REJECTED: " + r.trace[-1]["m"]["why"] if r.violated else ("accepted" if not r.error else r.error))
