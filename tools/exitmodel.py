"""Thread exit under release/acquire (part of C20): spec/ExitRA.tla model-checked with the memory orders EXTRACTED from the real
ThreadContext / BoundedSPSCQueue (harness/h_exit: shim atomic, script-chosen load values), every transition exported and replayed
on the real objects, every execution judged by spec/TraceExit.tla. A model counterexample is replayed too: the contract over that
real execution decides."""
import json
from concurrent.futures import ThreadPoolExecutor
import vlib, sysh


def build():
    return vlib.build("h_exit", [vlib.HARNESS / "h_exit.cpp"], flags=["-fno-access-control"])


def run(exe, script, timeout=30):
    d = vlib.scratch("exit")
    try:
        sp, tp = d / "s.txt", d / "t.ndjson"
        sp.write_text(script)
        rc, so, se = vlib.run_cmd([exe, sp, tp], timeout=timeout)
        evs = [json.loads(x) for x in tp.read_text().splitlines()] if tp.exists() else []
        if rc != 0:
            evs.append({"e": "crash", "rc": rc})
        return evs
    finally:
        vlib.rm(d)


def extract(exe):
    evs = run(exe, "init cap=64\nP write\nB read 0\nP exit\nB check 0 0\nend\n")
    k = {}
    for e in evs:
        if e["e"] != "acc":
            continue
        if e["obj"] == "W" and e["op"] == "store":
            k.setdefault("MoCommit", e["mo"])
        elif e["obj"] == "V" and e["op"] == "store":
            k.setdefault("MoInv", e["mo"])
        elif e["obj"] == "V" and e["op"] == "load":
            k.setdefault("MoIsValid", e["mo"])
        elif e["obj"] == "W" and e["op"] == "load" and "MoIsValid" in k:
            k.setdefault("MoEmpty", e["mo"])
    if len(k) != 4:
        raise vlib.Infra(f"could not observe the four atomic accesses of the exit/reclaim protocol: {k}")
    # the unbounded queue's link: next.store in _handle_full_queue, next.load in empty()
    evs = run(exe, "init cap=64 unbounded\nP write\nB read 0\nP grow\nP exit\nB check 0 0 0\nend\n")
    for e in evs:
        if e["e"] == "acc" and e["obj"] == "N":
            k.setdefault("MoNext" if e["op"] == "store" else "MoNextEmpty", e["mo"])
    if len(k) != 6:
        raise vlib.Infra(f"could not observe the accesses of the unbounded queue's next pointer: {k}")
    return k


def cfg_text(k, recs, export, unbounded=False):
    return ("SPECIFICATION Spec\nCONSTANTS MaxRecs = %d\n MoCommit = \"%s\"\n MoInv = \"%s\"\n MoIsValid = \"%s\"\n MoEmpty = \"%s\"\n"
            " Unbounded = %s\n MoNext = \"%s\"\n MoNextEmpty = \"%s\"\n Export = %s\n"
            "INVARIANTS NoLoss TypeOK\nVIEW StateView\n%sCHECK_DEADLOCK FALSE\n"
            % (recs, k["MoCommit"], k["MoInv"], k["MoIsValid"], k["MoEmpty"], "TRUE" if unbounded else "FALSE",
               k.get("MoNext", "rel"), k.get("MoNextEmpty", "rlx"), "TRUE" if export else "FALSE",
               "ACTION_CONSTRAINT ExportA\n" if export else ""))


def script_of(beh, unbounded=False):
    L = ["init cap=64" + (" unbounded" if unbounded else "")]
    for h in beh:
        if h["a"] == "write":
            L.append("P write")
        elif h["a"] == "grow":
            L.append("P grow")
        elif h["a"] == "exit":
            L.append("P exit")
        elif h["a"] == "read":
            L.append(f"B read {h['arg'][0]}")
        elif h["a"] == "check":
            L.append("B check " + " ".join(str(x) for x in h["arg"]))
    return "\n".join(L) + "\nend\n"


def compare(beh, evs):
    """which message every chosen load read, and the outcome of every check, model vs code"""
    outs = [e for e in evs if e["e"] in ("committed", "exited", "read", "check")]   # (grow = one committed record)
    if len(outs) < len(beh):
        return f"harness ran {len(outs)} of {len(beh)} steps"
    if evs and evs[-1].get("badchoice"):
        return "a load value chosen by the model is not allowed by the harness' memory model"
    return None


def validate(ck, execs, label):
    lines, owners = [], []
    for i, (key, sc, evs) in enumerate(execs):
        lines += evs
        owners += [i] * len(evs)
    rej = []
    while lines:
        r = sysh.validate_trace("TraceExit", "TraceExit.cfg", lines)
        if r.error:
            raise vlib.Infra(r.error)
        ck.add_tlc(r, f"TraceExit {label}")
        if r.violated is None:
            if r.distinct != len(lines) + 1:
                raise vlib.Infra("exit trace not fully consumed")
            break
        l = r.trace[-1]["l"] - 1
        own = owners[l - 1]
        rej.append((execs[own][0], execs[own][1], r.trace[-1]["m"]["why"], lines[l - 1]))
        end = l
        while end < len(lines) and owners[end] == own:
            end += 1
        lines, owners = lines[end:], owners[end:]
        if len(rej) > 20:
            break
    return rej


def run_for(ck):
    quick = ck.tier == "quick"
    exe = build()
    try:
        k = extract(exe)
    except vlib.Infra as ex:
        # the code no longer performs the accesses this model is cut along (restructured, not necessarily wrong): the model cannot
        # be instantiated, which is reported as drift - the system-level scenarios still decide the property
        ck.drifted(f"exit/reclaim protocol: constant extraction failed: {ex}")
        return
    ck.extra["exit_protocol_memory_orders_from_code"] = k
    for recs, unb in ([(2, False), (2, True)] if quick else [(2, False), (3, False), (4, False), (2, True), (3, True)]):
        label = f"exit-{'u' if unb else 'b'}{recs}"
        cfg = vlib.write_cfg(vlib.BUILD / "cfg" / f"ExitRA_{label}.cfg", cfg_text(k, recs, True, unb))
        r = vlib.tlc("ExitRA", cfg, timeout=900, coverage=quick)
        if r.error:
            raise vlib.Infra(r.error)
        ck.add_tlc(r, f"ExitRA {label}")
        if r.violated:
            beh = r.trace[-1]["hist"]
            sc = script_of(beh, unb)
            evs = run(exe, sc)
            rej = validate(ck, [("cex", sc, evs)], label)
            ck.extra.setdefault("model_counterexamples", []).append({"config": label, "invariant": r.violated})
            if rej:
                key, sc, why, ev = rej[0]
                ck.violation("exitra:" + "-".join(why.split())[:70],
                             f"thread exit with memory orders {k}: {why}; schedule {[(h['t'], h['a'], h['arg']) for h in beh]}; rejected event {json.dumps(ev)}",
                             {"script": sc, "harness": "h_exit", "orders": k, "why": why})
            else:
                ck.drifted(f"ExitRA violates {r.violated} with the code's memory orders {k} but the real objects pass on that schedule")
            continue
        if quick:
            for a in ("PWrite", "PExit") + (("PGrow", "PWrite2") if unb else ()):
                if not vlib.enabled(r, a):
                    raise vlib.Infra(f"vacuity: {a} never enabled in ExitRA {label}")
        behs = vlib.behaviours(r)
        if not behs:
            raise vlib.Infra("ExitRA exported no behaviours")
        with ThreadPoolExecutor(max_workers=vlib.NCPU) as ex:
            res = list(ex.map(lambda b: run(exe, script_of(b, unb)), behs))
        execs, ndrift = [], 0
        for i, (b, evs) in enumerate(zip(behs, res)):
            d = compare(b, evs)
            if d:
                ndrift += 1
                if ndrift <= 3:
                    ck.drifted(f"ExitRA {label}: {d}")
            execs.append((f"{label}-{i}", script_of(b, unb), evs))
            ck.case(("exitra", label, i), nontrivial=any(e["e"] == "reclaim" for e in evs))
        rej = validate(ck, execs, label)
        ck.traces_validated += len(execs) - len(rej)
        for key, sc, why, ev in rej[:3]:
            ck.violation("exitra:" + "-".join(why.split())[:70], f"{key}: {why}; rejected event {json.dumps(ev)}",
                         {"script": sc, "harness": "h_exit", "orders": k, "why": why})
        ck.extra["exit_behaviours_replayed"] = ck.extra.get("exit_behaviours_replayed", 0) + len(behs)
        ck.extra["exit_behaviours_drifting"] = ck.extra.get("exit_behaviours_drifting", 0) + ndrift


def replay(path):
    j = json.loads(open(path).read())["replay"]
    for e in run(build(), j["script"]):
        print(json.dumps(e))
