"""The dropped-message counter under the C++ memory model (part of C08): spec/CounterRA.tla model-checked with constants EXTRACTED
from the real code (harness/h_stop -DHSTOP_DROP, fine-grained mode: the REAL backend thread and REAL log calls on a small bounded
dropping queue, the backend parked at every access of ThreadContext::_failure_counter): the memory orders, how many statements fit,
and whether the reset is a read-modify-write. Every transition is exported and replayed on the real code, every execution judged by
spec/TraceCounter.tla."""
import json, random
from concurrent.futures import ThreadPoolExecutor
import vlib, sysh, stopmodel

HEAD = "init\npolicy 1:C:load 1:C:rmw 1:C:store\nS 1 0\n"


def build():
    return vlib.build("h_stop_drop", [vlib.HARNESS / "h_stop.cpp"], flags=["-fno-access-control", "-pthread", "-DHSTOP_DROP"])


def extract(exe):
    evs = stopmodel.run(exe, HEAD + "X logbig\n" * 6 + "S 1 0\nS 1 0\ndrain 8\nend\n")
    k = {}
    for e in evs:
        if e["e"] == "acc" and e["obj"] == "C":
            if e["t"] == 0:
                k.setdefault("MoInc", e["mo"])
            elif e["op"] == "load":
                k.setdefault("MoLoad", e["mo"])
            else:
                k.setdefault("MoReset", e["mo"])
                k.setdefault("ResetIsRmw", e["op"] == "rmw")
    q = [e for e in evs if e["e"] == "quiet"]
    if len(k) != 4 or not q or not q[0]["drops"]:
        raise vlib.Infra(f"could not observe the accesses of the failure counter: {k}")
    k["Fit"] = q[0]["xcalls"] - q[0]["drops"]
    return k


def cfg_text(k, maxlogs, export):
    return ("SPECIFICATION Spec\nCONSTANTS MaxLogs = %d\n Fit = %d\n MoInc = \"%s\"\n MoLoad = \"%s\"\n MoReset = \"%s\"\n ResetIsRmw = %s\n Export = %s\n"
            "INVARIANTS DropsAddUp TypeOK\nVIEW StateView\n%sCHECK_DEADLOCK FALSE\n"
            % (maxlogs, k["Fit"], k["MoInc"], k["MoLoad"], k["MoReset"], "TRUE" if k["ResetIsRmw"] else "FALSE",
               "TRUE" if export else "FALSE", "ACTION_CONSTRAINT ExportA\n" if export else ""))


def script_of(beh):
    L = [HEAD.rstrip("\n")]
    for h in beh:
        if h["a"] == "log":
            L.append("X logbig")
        elif h["a"] == "load":
            L.append(f"S 1 {h['arg'][0]}")
        elif h["a"] == "reset":
            L.append("S 1 0")
    return "\n".join(L) + "\ndrain 8\nend\n"


def compare(k, beh, evs):
    if any(e["e"] == "crash" for e in evs):
        return "harness crashed or hung"
    if evs and evs[-1].get("badchoice"):
        return "a load value chosen by the model is not allowed by the harness' memory model"
    steps = [e for e in evs if e["e"] in ("sstep", "xcall")][1:]
    if len(steps) != len(beh):
        return f"harness ran {len(steps)} of {len(beh)} steps"
    loads = [e for e in evs if e["e"] == "acc" and e["obj"] == "C" and e["t"] == 1 and e["op"] == "load"]
    xr = [e for e in evs if e["e"] == "acc" and e["obj"] == "C" and e["t"] == 0]
    li = xi = 0
    pos = {id(e): n for n, e in enumerate(evs)}
    for n, (h, st) in enumerate(zip(beh, steps)):
        if st.get("skipped"):
            return f"step {n + 1} ({h['a']}): the thread was not parked"
        if st["reported"] != h["reported"]:
            return f"step {n + 1} ({h['a']}): reported {st['reported']}, model {h['reported']}"
        if h["t"] == "B":
            at = st.get("at", "")
            if (h["pcb"] == "load") != (at == "C:load"):
                return f"step {n + 1} ({h['a']}): backend at '{at}', model {h['pcb']}"
        if h["a"] == "load":
            if li >= len(loads) or loads[li]["idx"] != h["arg"][0]:
                return f"step {n + 1}: the counter load read message {loads[li]['idx'] if li < len(loads) else None}, model {h['arg'][0]}"
            li += 1
    ndrop = sum(1 for h in beh if h["dropped"])
    if len(xr) != ndrop:
        return f"{len(xr)} statements dropped, model {ndrop}"
    return None


def validate(ck, execs, label):
    lines, owners = [], []
    for i, (key, sc, evs) in enumerate(execs):
        ev2 = [e for e in evs if e["e"] != "acc"]
        lines += ev2
        owners += [i] * len(ev2)
    rej = []
    while lines:
        r = sysh.validate_trace("TraceCounter", "TraceCounter.cfg", lines)
        if r.error:
            raise vlib.Infra(r.error)
        ck.add_tlc(r, f"TraceCounter {label}")
        if r.violated is None:
            if r.distinct != len(lines) + 1:
                raise vlib.Infra("counter trace not fully consumed")
            break
        l = r.trace[-1]["l"] - 1
        own = owners[l - 1]
        rej.append((execs[own][0], execs[own][1], r.trace[-1]["m"]["why"], lines[l - 1]))
        end = l
        while end < len(lines) and owners[end] == own:
            end += 1
        lines, owners = lines[end:], owners[end:]
        if len(rej) > 20:
            break
    return rej


def run_for(ck):
    quick = ck.tier == "quick"
    exe = build()
    try:
        k = extract(exe)
    except vlib.Infra as ex:
        ck.drifted(f"failure counter protocol: constant extraction failed: {ex}")
        return
    ck.extra["failure_counter_protocol_from_code"] = k
    for maxlogs in ([k["Fit"] + 2] if quick else [k["Fit"] + 2, k["Fit"] + 4]):
        label = f"counter-{maxlogs}"
        cfg = vlib.write_cfg(vlib.BUILD / "cfg" / f"CounterRA_{label}.cfg", cfg_text(k, maxlogs, True))
        r = vlib.tlc("CounterRA", cfg, timeout=600, coverage=quick)
        if r.error:
            raise vlib.Infra(r.error)
        ck.add_tlc(r, f"CounterRA {label}")
        if r.violated:
            beh = r.trace[-1]["hist"]
            sc = script_of(beh)
            ck.extra.setdefault("model_counterexamples", []).append({"config": label, "invariant": r.violated})
            rej = validate(ck, [("cex", sc, stopmodel.run(exe, sc))], label)
            if rej and validate(ck, [("cex", sc, stopmodel.run(exe, sc))], label):
                key, sc, why, ev = rej[0]
                ck.violation("counter:" + "-".join(why.split())[:70],
                             f"dropped-message counter ({k}): {why}; schedule {[(h['t'], h['a'], h['arg']) for h in beh]}; rejected event {json.dumps(ev)}",
                             {"script": sc, "harness": "h_stop_drop", "protocol": k, "why": why})
            else:
                ck.drifted(f"CounterRA violates {r.violated} with the code's protocol {k} but the real code passes on that schedule")
            continue
        # liveness under fairness (the backend keeps running and eventually reads the newest message): no state constraint, no export
        lcfg = vlib.write_cfg(vlib.BUILD / "cfg" / f"CounterRA_{label}_live.cfg",
                              cfg_text(k, maxlogs, False).replace("SPECIFICATION Spec", "SPECIFICATION FairSpec").replace("CONSTRAINT Bound\n", "")
                              .replace("VIEW StateView\n", "") + "PROPERTY AllReported\n")
        rl = vlib.tlc("CounterRA", lcfg, timeout=600)
        if rl.error:
            raise vlib.Infra(rl.error)
        ck.add_tlc(rl, f"CounterRA {label} liveness")
        if rl.violated:
            ck.drifted(f"CounterRA {label}: liveness property AllReported fails in the model ({rl.violated}) although the safety invariants hold")
        ck.extra.setdefault("liveness_checked", []).append(f"CounterRA {label}: AllReported under FairSpec: {'violated' if rl.violated else 'holds'}")
        if quick:
            for a in ("XLog", "BReset"):
                if not vlib.enabled(r, a):
                    raise vlib.Infra(f"vacuity: {a} never enabled in CounterRA {label}")
        behs = vlib.behaviours(r)
        if not behs:
            raise vlib.Infra("CounterRA exported no behaviours")
        cap = 150 if quick else 2500
        if len(behs) > cap:
            rnd = random.Random(ck.seed)
            good = [b for b in behs if any(h["a"] == "reset" for h in b)]
            behs = rnd.sample(good, min(len(good), cap))
        with ThreadPoolExecutor(max_workers=max(2, vlib.NCPU // 2)) as ex:
            res = list(ex.map(lambda b: stopmodel.run(exe, script_of(b)), behs))
        execs, ndrift = [], 0
        for i, (b, evs) in enumerate(zip(behs, res)):
            d = compare(k, b, evs)
            if d:
                ndrift += 1
                if ndrift <= 3:
                    ck.drifted(f"CounterRA {label}: {d}")
            execs.append((f"{label}-{i}", script_of(b), evs))
            ck.case(("counter", label, i), nontrivial=any(h["a"] == "reset" for h in b))
        rej = validate(ck, execs, label)
        ck.traces_validated += len(execs) - len(rej)
        for key, sc, why, ev in rej[:3]:
            if validate(ck, [(key, sc, stopmodel.run(exe, sc))], label):
                ck.violation("counter:" + "-".join(why.split())[:70], f"{key}: {why}; rejected event {json.dumps(ev)}",
                             {"script": sc, "harness": "h_stop_drop", "protocol": k, "why": why})
        ck.extra["counter_behaviours_replayed"] = ck.extra.get("counter_behaviours_replayed", 0) + len(behs)
        ck.extra["counter_behaviours_drifting"] = ck.extra.get("counter_behaviours_drifting", 0) + ndrift


def replay(path):
    j = json.loads(open(path).read())["replay"]
    for e in stopmodel.run(build(), j["script"]):
        print(json.dumps(e))
