#!/usr/bin/env python3
"""Regenerate section 13 of DESIGN.md (seeded changes table) from /verif/seeded/*/meta.json."""
import json, re
from pathlib import Path
V = Path("/verif")
rows, missed = [], 0
def key(p):
    n = p.name
    m = re.match(r"(?:r(\d)_)?C(\d+)_(\d+)", n)
    return (int(m.group(1) or 1), int(m.group(2)), int(m.group(3)))
dirs = sorted([d for d in (V / "seeded").iterdir() if (d / "meta.json").exists()], key=key)
for d in dirs:
    m = json.load(open(d / "meta.json"))
    det = m.get("detected", "")
    if "MISSED" in det or "only DRIFT" in det:
        missed += 1
    esc = lambda s: str(s).replace("|", "\\|").replace("\n", " ")
    rows.append(f"| {d.name} | {esc(m.get('summary', ''))[:260]} | {esc(m.get('needs', ''))[:200]} | {esc(det)[:420]} |")
head = f"""## 13. Seeded changes (`/verif/seeded/`) and which check catches them

Produced by fresh sub-agents that saw only the property text and a scratch worktree (five rounds: ids `Cxx_n` = round 1, `r2_Cxx_n` =
round 2 with the instruction to prefer less travelled paths, `r3_Cxx_n` = round 3 with the additional demand that the two changes per
property sit in different functions and at least one outside the property's central routine - helpers, constructors, option branches,
clean-up paths, feature interactions, omissions; `r4_Cxx_1` = round 4, one change per property that needs something specific to
manifest: an interleaving, a fault at a particular point, a multi-step history, an unusual input, or two cooperating sites;
`r5_Cxx_1` = round 5, eight properties, changes at the places where the calling threads and the backend synchronise - flags, counters,
hand-shakes, memory orders, the order of two steps, re-checks). Each kept change compiles, passes the repository tests the agent ran, and has a
demonstration that fails with it and passes without it (re-run by me in the scratch worktree). {len(rows)} changes in total; {missed} were
missed (or only noticed as model/code drift) by the check as it stood when the change arrived - every miss was traced to an input class, a
yield point or a contract clause that the check lacked, the check was extended (never loosened), and all {len(rows)} are reported now
(`tools/seedregress.sh` re-runs every one of them against the current checks). The last column says what was missing.

| id | change | needs | caught by |
|---|---|---|---|
"""
txt = (V / "DESIGN.md").read_text()
i = txt.index("## 13. Seeded changes")
j = txt.index("## 14. Additions after the first as-built pass")
(V / "DESIGN.md").write_text(txt[:i] + head + "\n".join(rows) + "\n\n" + txt[j:])
print(len(rows), "rows,", missed, "initially missed")
