#!/usr/bin/env python3
"""Binding self-test helper: run a check against a scratch COPY of /repo with a patch or a textual replacement applied.
  mutate.py <prop> [--tier quick] --patch file.diff            (git apply in the copy)
  mutate.py <prop> --file include/quill/x.h --old 'a' --new 'b' [--count N]
Evidence of the run goes to a scratch dir; the copy is removed afterwards. Exit code = the check's exit code."""
import argparse, os, shutil, subprocess, sys
from pathlib import Path
sys.path.insert(0, str(Path(__file__).resolve().parent))
import vlib


def main():
    ap = argparse.ArgumentParser()
    ap.add_argument("prop")
    ap.add_argument("--tier", default="quick")
    ap.add_argument("--patch")
    ap.add_argument("--file")
    ap.add_argument("--old")
    ap.add_argument("--new")
    ap.add_argument("--count", type=int, default=1)
    a = ap.parse_args()
    d = vlib.scratch("mut")
    try:
        root = d / "repo"
        shutil.copytree("/repo/include", root / "include")
        if a.patch:
            r = subprocess.run(["patch", "-p1", "--no-backup-if-mismatch", "-i", os.path.abspath(a.patch)],
                               capture_output=True, text=True, cwd=str(root))
            if r.returncode != 0:
                print("patch failed:", r.stdout, r.stderr)
                return 2
        else:
            p = root / a.file
            s = p.read_text()
            if s.count(a.old) != a.count:
                print(f"expected {a.count} occurrence(s) of --old, found {s.count(a.old)}")
                return 2
            p.write_text(s.replace(a.old, a.new))
        env = dict(os.environ)
        env["VERIF_REPO"] = str(root)
        env["VERIF_EVID"] = str(d / "evidence")
        env["VERIF_BUILD"] = str(d / "build")          # own build/cfg/replay directories: mutation runs may run side by side
        r = subprocess.run([str(vlib.VERIF / "check"), a.prop, "--tier", a.tier], env=env)
        return r.returncode
    finally:
        vlib.rm(d)


if __name__ == "__main__":
    sys.exit(main())
