"""System-level scenario generation and validation shared by the pipeline properties
(C03 C05 C06 C08 C09 C10 C16 C17 C20): seeded random schedules of frontend operations and backend steps for
harness/h_sys, executed on the real code, recorded, and validated by TLC against spec/QuillContract.tla."""
import json, random
import vlib, sysh, qtrace

HDR = 40          # record bytes of a statement with pad 0: 8 ts + 24 pointers + 4 id + 4 string length


class Scn:
    """A scenario under construction: script lines + bookkeeping."""

    def __init__(self, rng, qt, cap, qmax, grace=0, soft=4, hard=8, ring=2, flushint=0):
        self.rng, self.qt, self.cap, self.qmax, self.grace = rng, qt, cap, qmax, grace
        self.L = [f"cfg soft={soft} hard={hard} ring={ring} grace={grace} flushint={flushint}"]
        self.next_id = 1
        self.threads = []
        self.alive = set()
        self.loggers = []
        self.sinks = []
        self.lastop = {}

    def sink(self, name, **kw):
        self.L.append(f"sink {name} " + " ".join(f"{k}={v}" for k, v in kw.items()))
        self.sinks.append(name)

    def logger(self, name, sinks, **kw):
        self.L.append(f"logger {name} sinks={','.join(sinks)} " + " ".join(f"{k}={v}" for k, v in kw.items()))
        if name not in self.loggers:
            self.loggers.append(name)

    def start(self, t):
        self.L.append(f"start {t}")
        self.threads.append(t)
        self.alive.add(t)

    def join(self, t):
        self.L.append(f"join {t}")
        self.alive.discard(t)

    def log(self, t, lg, lvl=4, pad=0, kind="direct", yts=0):
        i = self.next_id
        self.next_id += 1
        self.L.append(f"T {t} log {lg} lvl={lvl} id={i} pad={pad} kind={kind}" + (" yts=1" if yts else ""))
        self.lastop[t] = "log"
        return i

    def op(self, line):
        self.L.append(line)
        tok = line.split()
        if tok[0] == "T" and len(tok) > 2 and tok[2] != "go":
            self.lastop[tok[1]] = tok[2]

    def backend_some(self, fine_prob=0.4):
        """a random amount of backend work: whole polls or a fine-grained poll left parked part-way"""
        r = self.rng
        if r.random() < fine_prob:
            self.L.append("B pollf")
            for _ in range(r.randint(0, 6)):
                self.L.append("B go")
        else:
            for _ in range(r.randint(1, 3)):
                self.L.append("B poll")

    def finish_by_exit(self, ctx=False):
        """end the run with the backend's own exit drain (BackendWorker::_exit, wait_for_queues_to_empty_before_exit):
        everything whose call has returned must be delivered by it; calls still blocked are not demanded"""
        for t in self.threads:
            self.L.append(f"T {t} go")
        # make sure something is still pending in the queues of some (not all) threads when the backend exits
        for t in sorted(self.alive):
            if self.rng.random() < 0.6 and self.loggers:
                self.log(t, self.rng.choice(self.loggers), pad=self.rng.randint(0, 16))
        self.L.append("B exit")
        self.L.append("mark qf")
        if ctx:
            self.L.append("q ctx")

    def finish(self, final=True, join_all=False, ctx=False, loggers=False):
        """let every blocked call complete, drain the backend, mark quiescence"""
        for _ in range(6):
            self.L.append("B drain")
            for t in self.threads:
                self.L.append(f"T {t} go")
        for t in sorted(self.alive):
            self.L.append(f"mark expectidle:{t}:{'flushstuck' if self.lastop.get(t) == 'flush' else 'stuck'}")
        if join_all:
            for t in sorted(self.alive):
                self.join(t)
        self.L.append("B drain")
        self.L.append("B poll")
        self.L.append("B poll")
        self.L.append("mark qf" if final else "mark q")
        if ctx:
            self.L.append("q ctx")
        if loggers:
            self.L.append("q loggers")

    def text(self):
        return "\n".join(self.L) + "\nend\n"


def pads(rng, cap, bounded):
    """statement pad sizes: mostly small, some around half and close to the queue capacity"""
    r = rng.random()
    room = cap - HDR
    if r < 0.55:
        return rng.randint(0, 24)
    if r < 0.75:
        return max(0, room // 2 + rng.randint(-8, 8))
    if r < 0.92:
        return max(0, room - rng.randint(0, 16))
    return max(0, room // 4)


# ------------------------------------------------------------------ execution + validation
def run_and_validate(ck, prop, cfgname, scenarios, exe_of, label, sig_of=None, timeout=120):
    """scenarios: list of (key, qt_key, script_text, grace). exe_of(qt_key) -> harness path.
    Runs all on the real code, validates with TLC, reports contract rejections (after re-running in isolation)."""
    from concurrent.futures import ThreadPoolExecutor
    kinds = sorted({s[1] for s in scenarios})
    with ThreadPoolExecutor(max_workers=4) as ex:      # build each harness variant once, up front
        list(ex.map(exe_of, kinds))
    with ThreadPoolExecutor(max_workers=vlib.NCPU) as ex:
        res = list(ex.map(lambda s: sysh.run(exe_of(s[1]), s[2], timeout), scenarios))
    lines, owners = [], []
    for i, ((key, qk, sc, grace), (rc, evs)) in enumerate(zip(scenarios, res)):
        if rc == -9:
            evs.append({"e": "Crash", "rc": -9})
        ls = qtrace.lines_of(evs, grace)
        lines += ls
        owners += [i] * len(ls)
        nwrites = sum(1 for x in ls if x["k"] == "write")
        ck.case((label, key), nontrivial=nwrites >= 2)
    _validate(ck, prop, cfgname, scenarios, exe_of, lines, owners, sig_of, 0)
    return res


def _validate(ck, prop, cfgname, scenarios, exe_of, lines, owners, sig_of, depth):
    if not lines:
        return
    r = sysh.validate_trace("TraceQuill", cfgname, lines, timeout=1500)
    if r.error:
        raise vlib.Infra(r.error)
    ck.add_tlc(r, "TraceQuill:" + cfgname)
    if r.violated is None:
        if r.distinct != len(lines) + 1:
            raise vlib.Infra(f"trace not fully consumed: {r.distinct} states for {len(lines)} lines")
        ck.traces_validated += len(set(owners))
        return
    l = r.trace[-1]["l"] - 1
    own = owners[l - 1]
    flag = "ok" + cfgname.split("_C")[1][:2]
    why = r.trace[-1]["m"]["why"].get(flag, "")
    ck.traces_validated += max(0, len(set(owners[:l - 1])) - 1)
    key, qk, sc, grace = scenarios[own]
    # the rejection must repeat when the scenario is run alone
    rc, evs = sysh.run(exe_of(qk), sc)
    ls = qtrace.lines_of(evs, grace)
    r2 = sysh.validate_trace("TraceQuill", cfgname, ls)
    if r2.error:
        raise vlib.Infra(r2.error)
    if r2.violated:
        why2 = r2.trace[-1]["m"]["why"].get(flag, why)
        bad = ls[r2.trace[-1]["l"] - 2]
        sig = (sig_of(why2, bad, evs) if sig_of else None) or "sys:" + "-".join(why2.lower().replace("/", " ").split())[:70]
        ck.violation(sig, f"{key} [{qk}]: {why2}; rejected event {json.dumps(bad)}",
                     {"script": sc, "harness": qk, "grace": grace, "rejected_line": r2.trace[-1]["l"] - 1, "why": why2})
    else:
        ck.drifted(f"rejection of scenario {key} did not repeat in isolation")
    if depth < 8:
        end = l
        while end < len(lines) and owners[end] == own:
            end += 1
        _validate(ck, prop, cfgname, scenarios, exe_of, lines[end:], owners[end:], sig_of, depth + 1)


_EXE = {}


def exe_of(qk):
    """qk = 'QT:cap:max' -> built harness"""
    if qk not in _EXE:
        parts = qk.split(":")
        qt, cap, mx = parts[:3]
        _EXE[qk] = sysh.build(qt, int(cap), int(mx), asan=(len(parts) > 3 and parts[3] == "asan"))
    return _EXE[qk]


def replay(path):
    j = json.loads(open(path).read())["replay"]
    rc, evs = sysh.run(exe_of(j["harness"]), j["script"])
    for e in evs:
        print(json.dumps(e))
    print("--- contract lines")
    for ln in qtrace.lines_of(evs, j.get("grace", 0)):
        print(json.dumps(ln))
