"""Shared machinery for the /verif checks: TLC runner, harness builder, evidence writer,
known-findings matcher, verdict plumbing.  python3 stdlib only."""
import hashlib, json, os, re, shutil, subprocess, sys, tempfile, time, uuid
from pathlib import Path

VERIF = Path(__file__).resolve().parent.parent
REPO = Path(os.environ.get("VERIF_REPO", "/repo"))
BUILD = Path(os.environ.get("VERIF_BUILD", str(VERIF / "build")))     # tools/mutate.py gives every mutation run its own
SPEC = VERIF / "spec"
HARNESS = VERIF / "harness"
EVID = Path(os.environ.get("VERIF_EVID", str(VERIF / "evidence")))
REPLAY = VERIF / "build" / "replay"
NCPU = os.cpu_count() or 4

EXIT_OK, EXIT_VIOLATION, EXIT_INFRA = 0, 1, 2


class Infra(Exception):
    """Infrastructure failure (exit 2): never a verdict."""


def log(*a):
    print(*a, file=sys.stderr, flush=True)


# --------------------------------------------------------------------------- hashing / build cache
_repo_hash = None


def repo_hash():
    global _repo_hash
    if _repo_hash is None:
        h = hashlib.sha1()
        inc = REPO / "include"
        for p in sorted(inc.rglob("*")):
            if p.is_file():
                h.update(str(p.relative_to(inc)).encode())
                h.update(p.read_bytes())
        _repo_hash = h.hexdigest()[:16]
    return _repo_hash


def _files_hash(paths):
    h = hashlib.sha1()
    for p in paths:
        h.update(Path(p).read_bytes())
    return h.hexdigest()[:16]


BASE_FLAGS = ["-std=c++17", "-O1", "-DNDEBUG", "-g0", "-pthread", "-w"]


def build(name, sources, flags=(), deps=(), cxx="g++", timeout=900, base=None, libs=()):
    """Compile harness `name` from `sources` against REPO/include. Cached by content hash.
    Returns path of the executable. Raises Infra if the compile fails."""
    sources = [str(s) for s in sources]
    hdrs = sorted(str(p) for p in HARNESS.glob("*.h")) + [str(d) for d in deps]
    key = hashlib.sha1(("|".join([repo_hash(), _files_hash(sources + hdrs), cxx, " ".join(flags),
                                  " ".join(base or BASE_FLAGS), " ".join(libs)])).encode()).hexdigest()[:16]
    out = BUILD / "bin" / f"{name}-{key}"
    if out.exists():
        return out
    out.parent.mkdir(parents=True, exist_ok=True)
    # drop stale builds of the same harness
    for old in out.parent.glob(f"{name}-*"):
        try:
            old.unlink()
        except OSError:
            pass
    tmp = out.with_suffix(".tmp%d" % os.getpid())
    cmd = [cxx] + list(base or BASE_FLAGS) + list(flags) + ["-I", str(REPO / "include"), "-I", str(HARNESS)] + \
        sources + ["-o", str(tmp)] + list(libs)
    t0 = time.time()
    r = subprocess.run(cmd, capture_output=True, text=True, timeout=timeout)
    if r.returncode != 0:
        raise Infra(f"harness build failed: {name}\n{' '.join(cmd)}\n{r.stderr[-4000:]}")
    os.replace(tmp, out)
    log(f"[build] {name} {time.time() - t0:.1f}s")
    return out


def build_many(jobs, par=None):
    """jobs: list of kwargs for build(); compiled in parallel. Returns list of paths."""
    from concurrent.futures import ThreadPoolExecutor
    with ThreadPoolExecutor(max_workers=par or max(1, NCPU // 2)) as ex:
        futs = [ex.submit(build, **j) for j in jobs]
        return [f.result() for f in futs]


# --------------------------------------------------------------------------- TLC
class TLCResult:
    def __init__(self):
        self.rc = None
        self.out = ""
        self.generated = 0
        self.distinct = 0
        self.depth = 0
        self.violated = None      # name of violated invariant / property, or "deadlock", "assert"
        self.error = None         # infra-ish error text
        self.prints = []          # values printed by PrintT (decoded where JSON)
        self.coverage = {}        # action -> (taken, generated) when -coverage was on
        self.trace = None         # counterexample (list of state dicts) when dumped
        self.wall = 0.0

    @property
    def ok(self):
        return self.violated is None and self.error is None


_re_counts = re.compile(r"(\d+) states generated, (\d+) distinct states found")
_re_depth = re.compile(r"The depth of the complete state graph search is (\d+)")
_re_inv = re.compile(r"Error: Invariant (\S+) is violated")
_re_prop = re.compile(r"Error: (?:Temporal properties were violated|Action property (\S+) is violated|Action property .* is violated)")
_re_cov = re.compile(r"^<(\w+) line \d+, col \d+ to line \d+, col \d+ of module (\w+)(?: \([\d ]+\))?>: (\d+):(\d+)", re.M)


def tlc(module, cfg, specdir=SPEC, workers=None, timeout=600, env=None, simulate=None, depth=None,
        coverage=False, dump_trace=True, heap="8g", extra=(), deadlock=None, dfs=False, seed=None,
        keep_out=True):
    """Run TLC on specdir/module.tla with config cfg (path or filename in specdir)."""
    specdir = Path(specdir)
    run = BUILD / "tlc" / uuid.uuid4().hex[:12]
    run.mkdir(parents=True, exist_ok=True)
    cfgp = Path(cfg)
    if not cfgp.is_absolute():
        cfgp = specdir / cfg
    jopts = [f"-Xmx{heap}", "-XX:+UseParallelGC"]
    if dfs:
        jopts.append("-Dtlc2.tool.queue.IStateQueue=StateDeque")
    cmd = ["java"] + jopts + ["-cp", "/opt/veriftools/tla/tla2tools.jar:/opt/veriftools/tla/CommunityModules-deps.jar",
                               "tlc2.TLC", "-noGenerateSpecTE", "-metadir", str(run / "md"),
                               "-workers", str(workers or NCPU), "-config", str(cfgp)]
    if simulate:
        cmd += ["-simulate", f"num={simulate}"]
    if depth:
        cmd += ["-depth", str(depth)]
    if coverage:
        cmd += ["-coverage", "1"]
    if seed is not None:
        cmd += ["-seed", str(seed)]
    cex = run / "cex.json"
    if dump_trace:
        cmd += ["-dumpTrace", "json", str(cex)]
    if deadlock is False:
        cmd += ["-deadlock"]
    cmd += list(extra) + [str(specdir / (module + ".tla"))]
    e = dict(os.environ)
    e.update(env or {})
    res = TLCResult()
    t0 = time.time()
    try:
        p = subprocess.run(cmd, cwd=str(run), capture_output=True, text=True, timeout=timeout, env=e)
        res.rc, res.out = p.returncode, p.stdout + p.stderr
    except subprocess.TimeoutExpired as ex:
        res.rc = -9
        res.out = (ex.stdout or b"").decode(errors="replace") if isinstance(ex.stdout, bytes) else (ex.stdout or "")
        res.error = f"TLC timeout after {timeout}s"
    res.wall = time.time() - t0
    for m in _re_counts.finditer(res.out):
        res.generated, res.distinct = int(m.group(1)), int(m.group(2))
    m = _re_depth.search(res.out)
    if m:
        res.depth = int(m.group(1))
    m = _re_inv.search(res.out)
    if m:
        res.violated = m.group(1)
    elif "Temporal properties were violated" in res.out or re.search(r"Temporal property \S+ was violated", res.out):
        res.violated = "temporal"
    elif re.search(r"Error: Action property", res.out):
        res.violated = "actionprop"
    elif "Deadlock reached" in res.out:
        res.violated = "deadlock"
    elif "The first argument of Assert evaluated to FALSE" in res.out:
        res.violated = "assert"
    for line in res.out.splitlines():
        if line.startswith('"') and line.endswith('"'):
            try:
                s = json.loads(line)
            except Exception:
                continue
            res.prints.append(s)
    if coverage:
        for m in _re_cov.finditer(res.out):
            a, b = res.coverage.get(m.group(1), (0, 0))
            res.coverage[m.group(1)] = (a + int(m.group(3)), b + int(m.group(4)))
    if cex.exists():
        try:
            j = json.loads(cex.read_text())
            res.trace = [s[1] for s in j["counterexample"]["state"]]
        except Exception:
            pass
    if res.violated is None and res.error is None:
        if res.rc != 0 or ("Model checking completed" not in res.out and "Finished in" not in res.out and not simulate):
            res.error = "TLC failed rc=%s: %s" % (res.rc, _tail_err(res.out))
        if simulate and res.rc not in (0,):
            res.error = "TLC simulate failed rc=%s: %s" % (res.rc, _tail_err(res.out))
    if re.search(r"Parsing or semantic analysis failed|Error: .*(was not|Unknown|undefined|could not)|TLC threw an unexpected exception|java\.lang\.\w+Error", res.out) and res.violated is None:
        res.error = "TLC error: " + _tail_err(res.out)
    shutil.rmtree(run, ignore_errors=True)
    if not keep_out and res.ok:
        res.out = res.out[-2000:]
    return res


def _tail_err(out):
    lines = [l for l in out.splitlines() if "Error" in l or "error" in l or "Exception" in l]
    return " | ".join(lines[:6]) if lines else out[-600:]


def enabled(res, *names):
    """coverage self-test helper: was any of the (alias) action names ever enabled?"""
    return any(res.coverage.get(n, (0, 0))[1] > 0 for n in names)


def tlc_must(*a, **kw):
    """Run TLC; any failure that is not a clean pass is an infrastructure error."""
    r = tlc(*a, **kw)
    if r.error:
        raise Infra(r.error + "\n" + r.out[-3000:])
    return r


def behaviours(res, tag="BEH"):
    """Decode behaviours exported with PrintT(tag \\o " " \\o ToJson(x))."""
    out = []
    pre = tag + " "
    for s in res.prints:
        if isinstance(s, str) and s.startswith(pre):
            out.append(json.loads(s[len(pre):]))
    return out


def write_cfg(path, text):
    path = Path(path)
    path.parent.mkdir(parents=True, exist_ok=True)
    path.write_text(text)
    return path


# --------------------------------------------------------------------------- known findings
class Known:
    def __init__(self, path=VERIF / "known_findings.txt"):
        self.findings = {}   # (prop, sig) -> text
        self.fixed = []
        if path.exists():
            for line in path.read_text().splitlines():
                line = line.strip()
                if not line or line.startswith("#"):
                    continue
                m = re.match(r"finding:\s+property=(\S+)\s+sig=(\S+)\s+(.*)", line)
                if m:
                    self.findings[(m.group(1), m.group(2))] = m.group(3)
                    continue
                m = re.match(r"fixed:\s+property=(\S+)\s+(\S+)\s+(.*)", line)
                if m:
                    self.fixed.append((m.group(1), m.group(2), m.group(3)))

    def match(self, prop, sig):
        return self.findings.get((prop, sig))


# --------------------------------------------------------------------------- check context / verdict
class Check:
    """One run of one property's check. Collects coverage, violations, known findings; writes evidence."""

    def __init__(self, prop, tier, seed, level="model_checking"):
        self.prop, self.tier, self.seed, self.level = prop, tier, int(seed), level
        self.t0 = time.time()
        self.states = 0
        self.transitions = 0
        self.traces_validated = 0
        self.evaluations = 0
        self.nontrivial = set()
        self.samples = []
        self.extra = {}
        self.assumptions = []
        self.violations = []       # (sig, text, replay_path)
        self.known_seen = {}       # sig -> text
        self.known = Known()
        self.rule = ""
        self.exhaustive = None
        self.model_faithful = True
        self.drift = []

    # --- accounting
    def add_tlc(self, r, label=None):
        self.states += r.distinct
        self.transitions += r.generated
        if label:
            self.extra.setdefault("tlc_runs", []).append(
                {"config": label, "distinct": r.distinct, "generated": r.generated, "depth": r.depth,
                 "wall_s": round(r.wall, 1)})

    def sample(self, s, cap=6):
        if len(self.samples) < cap:
            self.samples.append(s)

    def case(self, key=None, nontrivial=True):
        self.evaluations += 1
        if nontrivial and key is not None:
            self.nontrivial.add(key if isinstance(key, (str, int, tuple)) else json.dumps(key, sort_keys=True))

    def drifted(self, what):
        self.model_faithful = False
        if len(self.drift) < 10:
            self.drift.append(what)

    # --- verdicts
    def violation(self, sig, text, replay_obj):
        """Record a contract-level rejection of a real execution. `sig` = canonical signature of the failing
        case (used for matching the known-findings file)."""
        k = self.known.match(self.prop, sig)
        if k is not None:
            if sig not in self.known_seen:
                self.known_seen[sig] = k
            return False
        if any(v[0] == sig for v in self.violations):
            self.extra["violations_same_signature"] = self.extra.get("violations_same_signature", 0) + 1
            return True
        REPLAY.mkdir(parents=True, exist_ok=True)
        path = REPLAY / f"{self.prop}-{len(self.violations)}-{abs(hash(sig)) % 10**8}.json"
        path.write_text(json.dumps({"property": self.prop, "sig": sig, "text": text, "replay": replay_obj},
                                   indent=1, default=str))
        self.violations.append((sig, text, str(path)))
        return True

    def finish(self):
        wall = time.time() - self.t0
        cov = {
            "states": self.states, "transitions": self.transitions,
            "traces_validated_against_impl": self.traces_validated,
            "samples": self.samples if self.samples else ["(none)"],
            "evaluations": self.evaluations, "distinct_nontrivial": len(self.nontrivial),
            "rule": self.rule, "model_faithful": self.model_faithful,
            "known_findings_seen": sorted(self.known_seen),
        }
        if self.exhaustive is not None:
            cov["exhaustive"] = bool(self.exhaustive)
        if self.drift:
            cov["drift"] = self.drift
        cov.update(self.extra)
        ev = {"property_id": self.prop, "tier": self.tier, "seed": self.seed, "level": self.level,
              "coverage": cov, "assumptions": self.assumptions, "wall_s": round(wall, 2),
              "violations": len(self.violations)}
        if getattr(self, "write_evidence", True):
            EVID.mkdir(exist_ok=True)
            (EVID / f"{self.prop}.json").write_text(json.dumps(ev, indent=1, default=str) + "\n")
        for d in self.drift[:5]:
            print(f"DRIFT property={self.prop} (implementation-level model and code differ; verdict by the contract only): {d}"[:400])
        for sig, text in sorted(self.known_seen.items()):
            print(f"KNOWN-FINDING: property={self.prop} {text} [sig={sig}]")
        for sig, text, path in self.violations:
            print(f"VIOLATION property={self.prop} replay={path}")
            log(f"  {sig}: {text}")
        if self.violations:
            return EXIT_VIOLATION
        print(f"OK property={self.prop} tier={self.tier} states={self.states} traces={self.traces_validated} "
              f"cases={self.evaluations} wall={wall:.1f}s")
        return EXIT_OK


def run_cmd(cmd, timeout=120, env=None, cwd=None, input=None):
    e = dict(os.environ)
    e.update(env or {})
    try:
        p = subprocess.run([str(c) for c in cmd], capture_output=True, text=True, timeout=timeout, env=e,
                           cwd=cwd, input=input)
        return p.returncode, p.stdout, p.stderr
    except subprocess.TimeoutExpired as ex:
        so = ex.stdout.decode(errors="replace") if isinstance(ex.stdout, bytes) else (ex.stdout or "")
        return -9, so, "timeout"


def scratch(prefix="s"):
    d = BUILD / "scratch" / (prefix + uuid.uuid4().hex[:10])
    d.mkdir(parents=True, exist_ok=True)
    return d


def rm(path):
    shutil.rmtree(path, ignore_errors=True)
