"""gen_codec.py - turns behaviours exported by TLC from spec/Codec.tla into C++ translation units for the
harness in harness/codec (types are compile-time, so every case is generated code).

A behaviour is a list of steps  {"op":"call","t":1,"dyn":b,"args":[{"ty":T,"val":V}..],"size":n,"npush":k,
"clears":b,"cafter":m} / {"op":"mut","t":1} / {"op":"poll"}  (see Codec.tla, `hist`).
Type trees T = {"k":kind,"n":width-or-N,"p":[T..]}; values V are the abstract SHAPES of Codec.tla
(byte strings over 0 = NUL / 1 = another byte, element sequences, tokens). This module draws concrete values
for each shape from boundary pools (seeded) and emits, per case, code that
  * builds the arguments, evaluates fmtquill::format(fmt, args...) at the call site BEFORE logging (the oracle),
  * runs the three real passes (size / encode / decode) on a scratch buffer,
  * logs through the real macro between LogBegin/LogEnd, optionally mutates + destroys the arguments,
  * lets the backend thread drain and records what the sink received.
python3 stdlib only."""
import json

SEQ1 = {"vec": "std::vector", "deq": "std::deque", "list": "std::list", "flist": "std::forward_list",
        "set": "std::set", "mset": "std::multiset", "uset": "std::unordered_set", "umset": "std::unordered_multiset"}
MAPS = {"map": "std::map", "mmap": "std::multimap", "umap": "std::unordered_map", "ummap": "std::unordered_multimap"}
UNORDERED = {"uset", "umset", "umap", "ummap"}
STRINGISH = {"cstr", "carr", "str", "sv", "sref"}


class Unrealisable(Exception):
    """the abstract case has no C++ realisation (e.g. a std::set holding two equal elements)"""


def tystr(t):
    k = t["k"]
    if k in ("arith", "enum", "dur", "tp"):
        return f"{k}{t['n']}"
    if k == "carr":
        return f"char[{t['n']}]"
    if not t["p"]:
        return k
    inner = ",".join(tystr(x) for x in t["p"])
    if k in ("arr", "carray"):
        return f"{k}{t['n']}<{inner}>"
    return f"{k}<{inner}>"


def kinds_of(t, acc=None):
    acc = set() if acc is None else acc
    acc.add(t["k"])
    for x in t["p"]:
        kinds_of(x, acc)
    return acc


def depth_of(t):
    return 1 + max([depth_of(x) for x in t["p"]], default=0)


# ----------------------------------------------------------------------------------------- C11 argument classes
_COV_LEAF_TOP = {"arith", "enum", "ptr", "cstr", "carr", "str", "sv", "dtriv"}
_COV_LEAF_IN = {"arith", "enum", "ptr", "cstr", "str", "sv"}
_COV_COMP = set(SEQ1) | set(MAPS) | {"arr", "opt", "pair", "tup"}
_EXCL_WHY = {"direct": "direct-format", "path": "filesystem-path", "dalloc": "deferred-copy-allocates"}


def arg_class(t):
    """'covered' or 'excluded:<why>' by the wording of C11 (conservative: anything not listed is excluded)."""
    ks = kinds_of(t)
    for k, why in _EXCL_WHY.items():
        if k in ks:
            return "excluded:" + why
    if not t["p"]:
        return "covered" if t["k"] in _COV_LEAF_TOP else "excluded:not-listed-" + t["k"]

    def ok(x):
        if not x["p"]:
            return x["k"] in _COV_LEAF_IN
        return x["k"] in _COV_COMP and all(ok(y) for y in x["p"])
    return "covered" if ok(t) else "excluded:not-listed-" + "+".join(sorted(ks - _COV_LEAF_IN - _COV_COMP))


# ----------------------------------------------------------------------------------------- value pools
def _lim(t, what):
    return f"std::numeric_limits<{t}>::{what}()"


INT_POOL = {
    1: [("signed char", [("(signed char)-128", -128), ("(signed char)127", 127), ("(signed char)0", 0)]),
        ("unsigned char", [("(unsigned char)255", 255), ("(unsigned char)0", 0), ("(unsigned char)65", 65)])],
    2: [("short", [("(short)-32768", -32768), ("(short)32767", 32767), ("(short)0", 0), ("(short)-1", -1)]),
        ("unsigned short", [("(unsigned short)65535", 65535), ("(unsigned short)0", 0), ("(unsigned short)9", 9)])],
    4: [("int", [(_lim("int", "min"), -2**31), (_lim("int", "max"), 2**31 - 1), ("0", 0), ("-1", -1), ("42", 42)]),
        ("unsigned int", [("0u", 0), ("4294967295u", 2**32 - 1), ("7u", 7)])],
    8: [("long long", [(_lim("long long", "min"), -2**63), (_lim("long long", "max"), 2**63 - 1), ("0LL", 0), ("-1LL", -1)]),
        ("unsigned long", [("0ul", 0), (_lim("unsigned long", "max"), 2**64 - 1), ("1234567890123ul", 1234567890123)]),
        ("long", [(_lim("long", "min"), -2**63), (_lim("long", "max"), 2**63 - 1), ("-7L", -7)])],
}
FLOAT_POOL = {
    4: ("float", ["0.0f", "-0.0f", "1.5f", "3.14159274f", _lim("float", "max"), _lim("float", "lowest"),
                  _lim("float", "denorm_min"), _lim("float", "min"), _lim("float", "quiet_NaN"),
                  _lim("float", "infinity"), "-" + _lim("float", "infinity")]),
    8: ("double", ["0.0", "-0.0", "0.1", "1e308", "5e-324", "-2.5", _lim("double", "max"), _lim("double", "lowest"),
                   _lim("double", "denorm_min"), _lim("double", "quiet_NaN"), _lim("double", "infinity"),
                   "-" + _lim("double", "infinity")]),
    16: ("long double", ["0.0L", "1.5L", _lim("long double", "max"), _lim("long double", "quiet_NaN"),
                         _lim("long double", "infinity"), "-1e-4000L"]),
}
CHAR_POOL = ["'a'", "'~'", "' '", "'\\001'", "'\\177'", "'\\n'", "'\\377'", "'\\0'", "'{'", "'\"'"]
PLAIN_BYTES = b"abcdefgXYZ0189 _-./:"
SPECIAL_BYTES = [0x01, 0x07, 0x09, 0x0a, 0x0d, 0x1b, 0x7f, 0x80, 0xff, ord("{"), ord("}"), ord('"'), ord("\\"),
                 ord("%"), ord("'"), ord("~"), ord(" ")]
INT_SPECS = ["{}", "{}", "{}", "{:>7}", "{:x}", "{:<4}", "{:05}"]
FLT_SPECS = ["{}", "{}", "{}", "{:.3e}", "{:10.2f}", "{:g}"]
STR_SPECS = ["{}", "{}", "{}", "{:>5}", "{:.1}", "{:<3}", "{:?}"]
SEPS = [" ", " | ", " {{ ", " }} ", "=", ", ", " <", "> "]
MACROS_PLAIN = ["LOG_INFO", "LOG_INFO", "LOG_INFO", "LOG_WARNING", "LOG_ERROR", "LOG_DEBUG", "LOG_TRACE_L1",
                "LOG_CRITICAL", "LOG_NOTICE", "LOG_TRACE_L3"]
DYN_LEVELS = ["Info", "Warning", "Error", "Debug", "TraceL2", "Critical"]


def lit(bs):
    """C++ string literal of arbitrary bytes (3-digit octal escapes only: no accidental hex run-on)."""
    return '"' + "".join("\\%03o" % b for b in bs) + '"'


def chr_lit(b):
    return "'\\%03o'" % b


class Val:
    """a concretised (sub)argument"""
    __slots__ = ("ctype", "expr", "otype", "oexpr", "same", "adj", "decl", "key", "calloc")

    def __init__(self, ctype, expr, otype=None, oexpr=None, same=True, adj=0, decl=None, key=None, calloc=False):
        self.calloc = calloc    # copy-constructing this value allocates
        self.ctype, self.expr = ctype, expr
        self.otype = otype if otype is not None else ctype
        self.oexpr = oexpr if oexpr is not None else expr
        self.same, self.adj, self.decl, self.key = same, adj, decl, key


class Gen:
    def __init__(self, rng, stretch=True, big=None, long_in_container=False, long_all=False, force_char=False):
        self.rng = rng
        self.long_all = long_all        # EVERY std::string inside a composite is longer than the SSO buffer (its copy allocates)
        self.force_char = force_char    # top-level 1-byte arithmetic = plain char with a non-printable value
        self.long_in_container = long_in_container   # make the first std::string inside a container longer than the SSO buffer
        self.stretch = stretch
        self.big = big          # number of bytes of the one oversized string of this case (or None)
        self.nalt_bits = 0
        self.uses_bk = False
        self.uses_bkref = False
        self.fix = {}           # one C++ type per abstract leaf type within a statement (containers are homogeneous)
        self.map_pair_copy = False  # a map-family element whose key or mapped value allocates when copied

    # ---- bytes for an abstract byte string (0 = NUL, 1 = any other byte)
    def run_len(self):
        if not self.stretch or self.rng.random() < 0.72:
            return 1
        return self.rng.choice([2, 3, 7, 14, 15, 16, 17, 31, 40, 130])

    def nonnul(self, m):
        r = self.rng
        out = bytearray()
        while len(out) < m:
            if m - len(out) >= 2 and r.random() < 0.06:
                out += b"\xc3\xa9"                     # a valid two-byte UTF-8 sequence
            elif r.random() < 0.3:
                out.append(r.choice(SPECIAL_BYTES))
            else:
                out.append(r.choice(PLAIN_BYTES))
        return bytes(out)

    def bytes_for(self, shape, allow_stretch=True):
        out = bytearray()
        for b in shape:
            if b == 0:
                out.append(0)
            else:
                if self.big and allow_stretch:
                    out += b"q" * self.big
                    self.big = None
                else:
                    out += self.nonnul(self.run_len() if allow_stretch else 1)
        return bytes(out)

    # ---- leaves
    def arith(self, w, in_container, key=False):
        r = self.rng
        choices = []
        if w in INT_POOL:
            choices += [("int", x) for x in INT_POOL[w]]
        if w in FLOAT_POOL and not key:
            choices.append(("flt", FLOAT_POOL[w]))
        if w == 1 and not in_container:
            choices += [("bool", None), ("char", None)]
        if w == 1 and in_container and not key:
            choices.append(("char", None))
        if w == 1 and self.force_char and not in_container:
            return Val("char", r.choice(["'\\001'", "'\\007'", "'\\033'", "'\\177'", "'\\303'", "'\\377'", "'\\t'"]))
        fk = ("arith", w, in_container, key)
        if fk not in self.fix:
            self.fix[fk] = r.choice(choices)
        kind, x = self.fix[fk]
        if kind == "bool":
            return Val("bool", r.choice(["true", "false"]))
        if kind == "char":
            return Val("char", r.choice(CHAR_POOL))
        if kind == "flt":
            return Val(x[0], r.choice(x[1]))
        t, vals = x
        e, num = r.choice(vals)
        return Val(t, e, key=(t, num))

    def key_arith_pair(self, w, n, multi):
        """n key literals of one integer type; pairwise distinct unless multi"""
        fk = ("key", w)
        if fk not in self.fix:
            self.fix[fk] = self.rng.choice(INT_POOL[w])
        t, vals = self.fix[fk]
        if multi:
            picks = [self.rng.choice(vals) for _ in range(n)]
        else:
            if n > len(vals):
                raise Unrealisable("not enough distinct keys")
            picks = self.rng.sample(vals, n)
        return [Val(t, e) for e, _ in picks]

    def leaf(self, t, v, in_container, key=False):
        k, r = t["k"], self.rng
        if k == "arith":
            return self.arith(t["n"], in_container, key)
        if k == "enum":
            if t["n"] == 4:
                return Val("vt::E32", r.choice(["vt::E32::A", "vt::E32::B", "vt::E32::Z", "static_cast<vt::E32>(12345u)"]))
            return Val("vt::E8", r.choice(["vt::e8a", "vt::e8b", "vt::e8z"]))
        if k == "ptr":
            return Val("void const*", r.choice(["static_cast<void const*>(nullptr)",
                                                "reinterpret_cast<void const*>(uintptr_t{0x1234})",
                                                "reinterpret_cast<void const*>(~uintptr_t{0})"]))
        if k == "cstr":
            if v["null"]:
                if "cstr" not in self.fix:
                    self.fix["cstr"] = "char const*" if r.random() < 0.8 else "char*"
                ct = self.fix["cstr"]
                return Val(ct, f"static_cast<{ct}>(nullptr)", oexpr=f'const_cast<{ct}>("")', same=False)
            bs = self.bytes_for(v["b"])
            self.uses_bk = True
            if "cstr" not in self.fix:
                self.fix["cstr"] = "char const*" if r.random() < 0.8 else "char*"
            ct = self.fix["cstr"]
            e = f"bk.add({lit(bs)}, {len(bs)})"
            if ct == "char*":
                e = f"const_cast<char*>({e})"
            return Val(ct, e, adj=len(bs) - len(v["b"]))
        if k in ("str", "sv", "sref"):
            if k == "str" and in_container and (self.long_in_container or self.long_all) and 1 in v:
                self.long_in_container = False
                m = r.choice([16, 17, 24, 40])
                bs = bytes(bb for b in v for bb in (b"\0" if b == 0 else self.nonnul(m)))
            else:
                bs = self.bytes_for(v)
            adj = len(bs) - len(v)
            if len(bs) > 100000:
                body = f"std::string({len(bs)}, 'q')"
            else:
                body = f"std::string({lit(bs)}, {len(bs)})" if bs else "std::string()"
            if k == "str":
                return Val("std::string", body, adj=adj, calloc=len(bs) > 15)
            if k == "sv":
                if not bs and not in_container and r.random() < 0.5:
                    return Val("std::string_view", "std::string_view()")
                self.uses_bk = True
                return Val("std::string_view", f"bk.view({lit(bs)}, {len(bs)})", adj=adj)
            self.uses_bkref = True
            view = f"bkref.view({lit(bs)}, {len(bs)})"
            return Val("quill::utility::StringRef", f"quill::utility::StringRef{{{view}}}", otype="std::string_view",
                       oexpr=view, same=False)
        if k == "path":
            bs = self.bytes_for(v)
            return Val("std::filesystem::path", f"std::filesystem::path{{std::string({lit(bs)}, {len(bs)})}}", adj=len(bs) - len(v), calloc=True)
        if k == "dur":
            if "dur" not in self.fix:
                self.fix["dur"] = r.choice(["std::chrono::nanoseconds", "std::chrono::microseconds", "std::chrono::milliseconds",
                                            "std::chrono::seconds", "std::chrono::duration<double>"])
            rep = self.fix["dur"]
            if "double" in rep:
                x = r.choice(["0.0", "1.5", "-2.25e10", _lim("double", "quiet_NaN"), _lim("double", "infinity")])
            else:
                x = r.choice(["0", "1", "-1", "1234567", _lim("int64_t", "max"), _lim("int64_t", "min")])
            return Val(rep, f"{rep}{{{x}}}")
        if k == "tp":
            x = r.choice(["0", "1", "-1", "1700000000123456789LL", "2147483648000000000LL", "4102444800000000000LL"])
            return Val("std::chrono::system_clock::time_point",
                       f"std::chrono::system_clock::time_point{{std::chrono::nanoseconds{{{x}}}}}")
        if k == "dtriv":
            n = r.choice([0, 1, 3, 5, 6])
            bs = self.nonnul(n)
            chars = ", ".join(chr_lit(b) for b in bs)
            a = r.choice(["0", "-1", "42", _lim("int32_t", "min")])
            b = r.choice(["0.0", "2.5", "-1e300", _lim("double", "quiet_NaN"), _lim("double", "infinity")])
            return Val("vt::DTriv", f"vt::DTriv{{{a}, {b}, {{{chars}}}}}")
        if k == "dnon":
            return Val("vt::DNon", f"vt::DNon({r.choice(['0', '-5', '77'])}, {r.choice(['0', '-1', _lim('int64_t', 'max')])})")
        if k == "dalloc":
            bs = self.nonnul(r.choice([0, 3, 15, 16, 40]))
            return Val("vt::DAlloc", f"vt::DAlloc{{std::string({lit(bs)}, {len(bs)}), std::vector<int>{{1, -2, 3}}}}", calloc=True)
        if k == "direct":
            a = r.choice([0, -1, 42, -2**31, 2**31 - 1])
            bs = self.nonnul(r.choice([0, 1, 2, 9, 20]))
            flen = 3 + len(str(a)) + 1 + len(bs) + 1          # "DR<" a "," s ">"
            ae = _lim("int32_t", "min") if a == -2**31 else str(a)
            e = f"vt::Dir{{{ae}, std::string({lit(bs)}, {len(bs)})}}"
            return Val("vt::Dir", e, otype="std::string", oexpr=f'vh::F("{{}}", {e})', same=False, adj=flen - len(v), calloc=len(bs) > 15)
        raise Unrealisable("leaf " + k)

    # ---- trees
    def node(self, t, v, in_container=False, key=False, top_name=None):
        k = t["k"]
        if not t["p"] and k not in ("carr",):
            return self.leaf(t, v, in_container, key)
        if k == "carr":
            raise Unrealisable("char[N] below the top level")
        if k in SEQ1 or k in ("arr", "carray"):
            et = t["p"][0]
            is_set = k in ("set", "mset", "uset", "umset")
            multi = k in ("mset", "umset")
            if is_set and et["k"] == "arith":
                kids = self.key_arith_pair(et["n"], len(v), multi)
            else:
                kids = [self.node(et, x, True, key=is_set) for x in v]
                if is_set and not multi and len(kids) == 2 and kids[0].expr == kids[1].expr:
                    for _ in range(8):
                        kids[1] = self.node(et, v[1], True, key=True)
                        if kids[1].expr != kids[0].expr:
                            break
                    else:
                        raise Unrealisable("set elements cannot be made distinct")
                if is_set and et["k"] == "enum" and not multi and len({x.expr for x in kids}) != len(kids):
                    raise Unrealisable("enum keys equal")
            if kids and len({x.ctype for x in kids}) > 1:
                # one element type per container: re-draw with the first one's type
                kids = [kids[0]] + [self._retype(et, x, kids[0].ctype, True, is_set) for x in v[1:]]
                if is_set and not multi and len({x.expr for x in kids}) != len(kids):
                    raise Unrealisable("set elements equal after retyping")
            if kids:
                ect, eot = kids[0].ctype, kids[0].otype
            else:   # the C++ types (logged and oracle side) depend on the type only, never on the value
                proto = self.node(et, self._default_val(et), True, key=is_set)
                ect, eot = proto.ctype, proto.otype
            tsame = ect == eot
            adj = sum(x.adj for x in kids)
            if k == "carray":
                return Val(ect, "{" + ", ".join(x.expr for x in kids) + "}", adj=adj, decl=("carray", t["n"]))
            if k == "arr":
                ct = f"std::array<{ect}, {t['n']}>"
                e = f"{ct}{{{{{', '.join(x.expr for x in kids)}}}}}"
                same = tsame and all(x.same for x in kids)
                ot = f"std::array<{eot}, {t['n']}>"
                oe = f"{ot}{{{{{', '.join(x.oexpr for x in kids)}}}}}"
                return Val(ct, e, ot, oe if not same else e, same, adj, calloc=any(x.calloc for x in kids))
            ct = f"{SEQ1[k]}<{ect}>"
            e = f"{ct}{{{', '.join(x.expr for x in kids)}}}"
            same = tsame and all(x.same for x in kids)
            if k in UNORDERED:     # the oracle type depends on the type only, never on the value
                ot = f"vh::PermSet<{eot}>"
                if not kids:
                    oe = f"{ot}{{}}"
                elif len(kids) == 1:
                    oe = f"vh::perm1<{ot}>(static_cast<{eot}>({kids[0].oexpr}))"
                else:
                    bit = self.nalt_bits
                    self.nalt_bits += 1
                    src = top_name or e     # the source container itself (top level) / an identically built one (nested)
                    oe = (f"vh::perm2<{ot}>(vh::sw(alt, {bit}, vh::first_is({src}, {kids[1].expr})), "
                          f"static_cast<{eot}>({kids[0].oexpr}), static_cast<{eot}>({kids[1].oexpr}))")
                return Val(ct, e, ot, oe, False, adj, calloc=len(kids) > 0)
            ot = f"{SEQ1[k]}<{eot}>"
            oe = f"{ot}{{{', '.join(x.oexpr for x in kids)}}}"
            return Val(ct, e, ot, oe if not same else e, same, adj, calloc=len(kids) > 0)
        if k == "opt":
            et = t["p"][0]
            if not v:
                proto = self.node(et, self._default_val(et), True)
                ct = f"std::optional<{proto.ctype}>"
                ot = f"std::optional<{proto.otype}>"
                return Val(ct, f"{ct}{{}}", ot, f"{ot}{{}}", proto.otype == proto.ctype, 0)
            kid = self.node(et, v[0], True)
            ct = f"std::optional<{kid.ctype}>"
            ot = f"std::optional<{kid.otype}>"
            return Val(ct, f"{ct}{{{kid.expr}}}", ot, f"{ot}{{{kid.oexpr}}}" if not kid.same else f"{ct}{{{kid.expr}}}", kid.same, kid.adj,
                       calloc=kid.calloc)
        if k in MAPS:
            kt, vt_ = t["p"]
            multi = k == "mmap"     # (unordered_multimap: keys kept distinct so that the source order is identifiable)
            if kt["k"] == "arith":
                keys = self.key_arith_pair(kt["n"], len(v), multi)
            else:
                keys = [self.node(kt, x[0], True, key=True) for x in v]
                if len(keys) == 2 and keys[0].ctype != keys[1].ctype:
                    keys[1] = self._retype(kt, v[1][0], keys[0].ctype, True, True)
                if not multi and len(keys) == 2 and keys[0].expr == keys[1].expr:
                    for _ in range(8):
                        keys[1] = self._retype(kt, v[1][0], keys[0].ctype, True, True)
                        if keys[1].expr != keys[0].expr:
                            break
                    else:
                        raise Unrealisable("map keys cannot be made distinct")
            vals = [self.node(vt_, x[1], True) for x in v]
            if len(vals) == 2 and vals[0].ctype != vals[1].ctype:
                vals[1] = self._retype(vt_, v[1][1], vals[0].ctype, True, False)
            kct = keys[0].ctype if keys else self.node(kt, self._default_val(kt), True, key=True).ctype
            if vals:
                vct, vot = vals[0].ctype, vals[0].otype
            else:
                proto = self.node(vt_, self._default_val(vt_), True)
                vct, vot = proto.ctype, proto.otype
            ct = f"{MAPS[k]}<{kct}, {vct}>"
            e = f"{ct}{{{', '.join(f'{ct}::value_type({a.expr}, {b.expr})' for a, b in zip(keys, vals))}}}"
            adj = sum(x.adj for x in keys) + sum(x.adj for x in vals)
            same = vct == vot and all(x.same for x in vals)
            if any(x.calloc for x in keys) or any(x.calloc for x in vals):
                self.map_pair_copy = True
            if k in UNORDERED:
                ot = f"vh::PermMap<{kct}, {vot}>"
                pt = f"std::pair<{kct}, {vot}>"
                if not keys:
                    oe = f"{ot}{{}}"
                elif len(keys) == 1:
                    oe = f"vh::perm1<{ot}>({pt}({keys[0].oexpr}, {vals[0].oexpr}))"
                else:
                    bit = self.nalt_bits
                    self.nalt_bits += 1
                    src = top_name or e
                    oe = (f"vh::perm2<{ot}>(vh::sw(alt, {bit}, vh::first_is({src}, {keys[1].expr})), {pt}({keys[0].oexpr}, {vals[0].oexpr}), "
                          f"{pt}({keys[1].oexpr}, {vals[1].oexpr}))")
                return Val(ct, e, ot, oe, False, adj, calloc=len(keys) > 0)
            ot = f"{MAPS[k]}<{kct}, {vot}>"
            oe = f"{ot}{{{', '.join(f'{ot}::value_type({a.oexpr}, {b.oexpr})' for a, b in zip(keys, vals))}}}"
            return Val(ct, e, ot, oe if not same else e, same, adj, calloc=len(keys) > 0)
        if k in ("pair", "tup"):
            kids = [self.node(pt, x, True) for pt, x in zip(t["p"], v)]
            tmpl = "std::pair" if k == "pair" else "std::tuple"
            ct = f"{tmpl}<{', '.join(x.ctype for x in kids)}>"
            ot = f"{tmpl}<{', '.join(x.otype for x in kids)}>"
            e = f"{ct}{{{', '.join(x.expr for x in kids)}}}"
            same = all(x.same for x in kids)
            oe = f"{ot}{{{', '.join(x.oexpr for x in kids)}}}"
            return Val(ct, e, ot, oe if not same else e, same, sum(x.adj for x in kids), calloc=any(x.calloc for x in kids))
        raise Unrealisable("kind " + k)

    def _retype(self, t, v, ctype, in_container, key):
        for _ in range(40):
            x = self.node(t, v, in_container, key)
            if x.ctype == ctype:
                return x
        raise Unrealisable("could not draw a second element of type " + ctype)

    def _otype_of(self, et, ect):
        if et["k"] == "direct":
            return "std::string"
        return ect

    def _default_val(self, t):
        """some value of type t (only its C++ type is used: empty containers / nullopt)"""
        k = t["k"]
        if k in ("arith", "enum", "ptr", "dur", "tp", "dtriv", "dnon", "dalloc"):
            return 1
        if k == "cstr":
            return {"null": False, "b": [1]}
        if k in ("str", "sv", "sref", "path", "direct"):
            return [1]
        if k in SEQ1 or k in MAPS:
            return []
        if k in ("arr", "carray"):
            return [self._default_val(t["p"][0]) for _ in range(t["n"])]
        if k == "opt":
            return []
        if k in ("pair", "tup"):
            return [self._default_val(x) for x in t["p"]]
        raise Unrealisable("default " + k)

    # ---- top-level argument: declaration + oracle expression + format spec
    def top(self, t, v, name):
        k, r = t["k"], self.rng
        spec = "{}"
        if k == "carr":
            n = t["n"]
            bs = bytes(0 if b == 0 else self.nonnul(1)[0] for b in v)
            decl = f"char {name}[{n}] = {{{', '.join(chr_lit(b) for b in bs)}}};"
            return dict(decl=decl, ora=f"vh::view_n({name})", spec=r.choice(STR_SPECS), adj=0, ctype=f"char[{n}]")
        x = self.node(t, v, False, top_name=name)
        if x.decl:      # C array of T
            decl = f"{x.ctype} {name}[{x.decl[1]}] = {x.expr};"
            return dict(decl=decl, ora=name, spec=spec, adj=x.adj, ctype=f"{x.ctype}[{x.decl[1]}]")
        if k == "arith":
            if x.ctype in ("float", "double"):
                spec = r.choice(FLT_SPECS)
            elif x.ctype not in ("bool", "char", "long double"):
                spec = r.choice(INT_SPECS)
        elif k in ("cstr", "str", "sv", "sref"):
            spec = r.choice(STR_SPECS)
        decl = f"{x.ctype} {name} = {x.expr};"
        return dict(decl=decl, ora=(name if x.same else x.oexpr), spec=spec, adj=x.adj, ctype=x.ctype)


# ----------------------------------------------------------------------------------------- cases
def build_case(cid, beh, rng, consts, fresh=0, big=None, origin="", opts=None):
    """beh: exported behaviour (list of steps). Returns a case dict (with C++ text) or raises Unrealisable."""
    stmts = []
    for step in beh:
        if step["op"] == "call":
            stmts.append(dict(step=step, mut=False, poll_after=False))
        elif step["op"] == "mut" and stmts:
            stmts[-1]["mut"] = True
        elif step["op"] == "poll" and stmts:
            stmts[-1]["poll_after"] = True
    if not stmts:
        raise Unrealisable("no statement")
    stmts[-1]["poll_after"] = True
    out = []
    body = []
    for si, s in enumerate(stmts):
        st = s["step"]
        o = opts or {}
        g = Gen(rng, stretch=o.get("stretch", True), big=big if si == len(stmts) - 1 else None,
                long_in_container=rng.random() < 0.6, long_all=o.get("long_all", False), force_char=o.get("force_char", False))
        args = st["args"]
        tops = [g.top(a["ty"], a["val"], f"a{i}") for i, a in enumerate(args)]
        if g.nalt_bits > 4:
            raise Unrealisable("too many unordered containers with two elements")
        kinds = [a["ty"]["k"] for a in args]
        # the format literals generated here are printable, so only arguments can put a non-printable byte into the text:
        # the message must ALWAYS equal the sanitised call-site text (the documented "only when an argument is a string"
        # exception of the sanitiser has no observable effect on these statements)
        has_str = 1
        has_sref = any("sref" in kinds_of(a["ty"]) for a in args)
        dyn = bool(st["dyn"])
        if dyn:
            macro, fam = "LOG_DYNAMIC", "dyn"
        elif rng.random() < 0.2 and len(args) <= 20:
            macro, fam = "LOGV_INFO", "logv"
        elif rng.random() < 0.12:
            macro, fam = rng.choice(["LOG_INFO_TAGS", "LOG_ERROR_TAGS", "LOG_DEBUG_TAGS"]), "tags"
        else:
            macro, fam = rng.choice(MACROS_PLAIN), "plain"
        tag = f"c{cid}s{si}"
        if fam == "logv":
            fmt = tag + " [" + ", ".join(f"a{i}: {{}}" for i in range(len(args))) + "]"
            call_fmt = tag
        else:
            fmt = tag
            for tp in tops:
                fmt += rng.choice(SEPS) + tp["spec"]
            fmt += "|"
            call_fmt = fmt
        names = ", ".join(f"a{i}" for i in range(len(args)))
        oras = ", ".join(tp["ora"] for tp in tops)
        nalt = 1 << g.nalt_bits
        L = ["    {"]
        L.append("      vh::Backing bk;")
        for tp in tops:
            L.append("      " + tp["decl"])
        L.append(f"      h.stmt({si}, {has_str});")
        L.append(f"      auto ora = [&](int alt) {{ (void)alt; return vh::F({json.dumps(fmt)}, {oras}); }};")
        L.append("      h.expect_strict([&] { return ora(-1); });")
        if nalt > 1:
            L.append(f"      for (int alt = 0; alt < {nalt}; ++alt) {{ h.expect_alt([&] {{ return ora(alt); }}); }}")
        L.append(f"      h.three_pass({names});")
        if (cid * 5 + si) % 4 == 0:
            L.append("      h.history();     // a failed earlier call (size pass done, copy threw) precedes this statement")
        L.append(f"      h.log_begin({'sizeof(quill::LogLevel)' if dyn else '0'});")
        if fam == "dyn":
            L.append(f"      LOG_DYNAMIC(h.logger, quill::LogLevel::{rng.choice(DYN_LEVELS)}, {json.dumps(call_fmt)}, {names});")
        elif fam == "tags":
            L.append(f"      {macro}(h.logger, TAGS(\"verif\", \"c{cid}\"), {json.dumps(call_fmt)}, {names});")
        else:
            L.append(f"      {macro}(h.logger, {json.dumps(call_fmt)}, {names});")
        L.append("      h.log_end();")
        if s["mut"]:
            muts = " ".join(f"vh::mutate(a{i});" for i in range(len(args)))
            L.append(f"      if (rep == 1) {{ {muts} bk.scribble(); h.mutated(); }}")
        L.append("    }")
        if s["poll_after"]:
            L.append("    h.poll_now();")
        body += L
        adj = sum(tp["adj"] for tp in tops)
        classes = [arg_class(a["ty"]) for a in args]
        worded = {"excluded:" + w for w in _EXCL_WHY.values()}      # excluded by the property's own wording: named first
        cls = next((c for c in classes if c in worded), next((c for c in classes if c != "covered"), "covered"))
        if cls == "covered" and st["npush"] > consts["cachecap"]:
            cls = "excluded:cache-spill"
        if cls == "covered" and len(args) > 27:
            cls = "excluded:too-many-args"
        out.append(dict(si=si, types=[tystr(a["ty"]) for a in args], ctypes=[tp["ctype"] for tp in tops], fmt=fmt,
                        macro=macro, dyn=dyn, mut=s["mut"], poll_after=s["poll_after"], has_sref=has_sref,
                        pred=st["size"] + adj, model_size=st["size"], npush=st["npush"], clears=bool(st["clears"]),
                        cls=cls, nalt=nalt, map_pair_copy=g.map_pair_copy, depth=max(depth_of(a["ty"]) for a in args),
                        kinds=sorted(set().union(*[kinds_of(a["ty"]) for a in args])), big=bool(big and si == len(stmts) - 1)))
    cpp = [f"static void case_{cid}(vh::H& h)", "{", "  for (int rep = 0; rep < 2; ++rep)", "  {",
           "    vh::Backing bkref;  // what a StringRef points to must outlive the backend's processing (by design)",
           f"    h.begin({cid}, rep);"]
    cpp += body
    cpp += ["    h.end();", "  }", "}"]
    return dict(id=cid, fresh=fresh, origin=origin, stmts=out, cpp="\n".join(cpp))


def emit_tu(cases):
    L = ['// generated by tools/gen_codec.py - do not edit', '#include "h_codec.h"', ""]
    for c in cases:
        L.append(c["cpp"])
        L.append("")
    L.append("vh::CaseEntry const g_cases[] = {")
    for c in cases:
        L.append(f"  {{{c['id']}, case_{c['id']}, {c['fresh']}}},")
    L.append("};")
    L.append(f"int const g_ncases = {len(cases)};")
    return "\n".join(L) + "\n"
