#!/bin/bash
# seedsweep.sh "<props>" "<seeds>" [tier] : run checks on the unchanged tree for several seeds (evidence to scratch), report non-zero exits
props=$1; seeds=$2; tier=${3:-quick}
mkdir -p /verif/build/sweep
for s in $seeds; do for p in $props; do
  ( VERIF_SEED=$s VERIF_EVID=/verif/build/sweep/ev_$s ./check $p --tier $tier > /verif/build/sweep/$p.$s.log 2>&1; echo "$p seed=$s rc=$? $(grep -c '^DRIFT' /verif/build/sweep/$p.$s.log) drift $(tail -1 /verif/build/sweep/$p.$s.log | cut -c1-120)" ) &
  while [ $(jobs -r | wc -l) -ge ${SWEEP_JOBS:-4} ]; do sleep 1; done
done; done; wait
