"""Pre-compile the harness variants the quick checks use (cache warm-up; optional)."""
import sys
from pathlib import Path
sys.path.insert(0, str(Path(__file__).resolve().parent))
import vlib, sysh

def main():
    try:
        sysh.build("UB", 65536)
    except vlib.Infra as e:
        print("prebuild failed:", str(e)[:500])

if __name__ == "__main__":
    main()
