"""Design-level part of the lifecycle property (C17): spec/Registry.tla (layer I: logger registry, sink registry with weak
references, asynchronous and blocking logger removal, create/get by name) model-checked, every transition exported as a
behaviour, judged by the contract (I => A), replayed on the real code through harness/h_sys, every replayed execution
judged by the contract again (the verdict) and compared step by step with the model's prediction (drift)."""
import json, random
import vlib, sysh, qsys

QK = "UB:4096:16384"
EXPORT_ALL_LIMIT = 150000
SIM_NUM, SIM_DEPTH = 4000, 40
BASE = dict(sinks=["S0", "S1"], order=["L0", "L1"], sinksets=[["S0"], ["S1"], ["S0", "S1"]], nstmt=2, nops=4, nidle=2, maxgen=2,
            blocking=False, failflush=[])
CONFIGS = {
    "quick": [("async", dict(failflush=["S0"])),
              ("blocking", dict(sinksets=[["S0"], ["S1", "S0"]], nops=5, nstmt=2, blocking=True)),
              ("three-sinks", dict(sinks=["S0", "S1", "S2"], order=["L0"], sinksets=[["S1"], ["S2", "S0"]], nops=7, nstmt=1, nidle=1, maxgen=1))],
    "thorough": [("async6", dict(nops=6, nstmt=3, nidle=3)),
                 ("blocking7", dict(sinksets=[["S0"], ["S1", "S0"]], nops=7, nstmt=2, blocking=True, nidle=3)),
                 ("three-sinks", dict(sinks=["S0", "S1", "S2"], failflush=["S1"], sinksets=[["S0", "S1"], ["S1", "S2"], ["S2"]], nops=6, nstmt=2, nidle=2,
                                      blocking=True, maxgen=1))],
}
INVS = ["NoUseAfterFree", "SinkLifetime", "BlockedSane", "TypeOK"]
ACTIONS = ["CreateSink", "GetSink", "DropSink", "CreateLogger", "Log", "RemoveLogger", "BPoll"]


def _set(xs):
    return "{" + ",".join('"%s"' % x for x in xs) + "}"


def _seq(xs):
    return "<<" + ",".join('"%s"' % x for x in xs) + ">>"


def _copy_atomic(src, dst):
    """checks of different properties may run side by side and share this directory: never expose a half-written copy"""
    import os
    txt = src.read_text()
    if dst.exists() and dst.read_text() == txt:
        return
    tmp = dst.with_suffix(".tmp%d" % os.getpid())
    tmp.write_text(txt)
    os.replace(tmp, dst)


def write_model(name, c, export):
    b = lambda x: "TRUE" if x else "FALSE"
    mod = f"MCR_{name}"
    d = vlib.BUILD / "registry"
    d.mkdir(parents=True, exist_ok=True)
    _copy_atomic(vlib.SPEC / "Registry.tla", d / "Registry.tla")
    (d / (mod + ".tla")).write_text(f"---- MODULE {mod} ----\nEXTENDS Registry\nconst_order == {_seq(c['order'])}\n"
                                    f"const_sets == {{{','.join(_seq(s) for s in c['sinksets'])}}}\n====\n")
    txt = ("SPECIFICATION Spec\nCONSTANTS\n SinkNames = %s\n LoggerOrder <- const_order\n SinkSets <- const_sets\n NStmt = %d\n NOps = %d\n"
           " NIdle = %d\n MaxGen = %d\n AllowBlocking = %s\n FailFlush = %s\n Export = %s\nINVARIANTS %s\nVIEW StateView\n%sCHECK_DEADLOCK FALSE\n"
           % (_set(c["sinks"]), c["nstmt"], c["nops"], c["nidle"], c["maxgen"], b(c["blocking"]), _set(c["failflush"]), b(bool(export)), " ".join(INVS),
              {True: "ACTION_CONSTRAINT ExportA\n", "sim": "ACTION_CONSTRAINT ExportSim\n"}.get(export, "")))
    return mod, vlib.write_cfg(d / (mod + ".cfg"), txt), d


def script_of(beh, c):
    L = ["cfg soft=16 hard=16 ring=2 grace=0", "start t1"]
    for h in beh:
        if h["k"] != "step":
            continue
        L.append("mark step")
        a, act = h["arg"], h["act"]
        if act == "sink":
            L.append(f"sink {a[0]}" + (" tf=" + ",".join(str(x) for x in range(1, 60)) if a[0] in c["failflush"] else ""))
        elif act == "getsink":
            L.append(f"getsink {a[0]}")
        elif act == "dropsink":
            L.append(f"dropsink {a[0]}")
        elif act == "logger":
            L.append(f"logger {a[0]} sinks={','.join(a[1])} lvl=0")
        elif act == "log":
            L.append(f"T t1 log {a[0]} lvl=4 id={a[1]} pad=0 kind=direct")
        elif act == "remove":
            L.append(f"remove {a[0]}")
        elif act == "removeb":
            L.append(f"T t1 removeb {a[0]}")
        elif act == "removebret":
            L.append("T t1 go")
        elif act == "poll":
            L.append("B poll")
            if a[0] == "idle":
                L += ["q loggers", "mark q"]
    L.append("mark step")
    L += ["B drain", "T t1 go", "B drain", "B poll", "B poll", "mark qf", "end"]
    return "\n".join(L) + "\n"


def _norm(evs):
    """order-insensitive where the order is not part of the model: destroyed sinks of one step are a set"""
    dead = sorted(x[1] for x in evs if x[0] == "d")
    return [x for x in evs if x[0] != "d"] + [("d", tuple(dead))] if dead else evs


def _proj_model(beh):
    steps, cur = [], None
    for h in beh:
        k = h["k"]
        if k == "step":
            cur = []
            steps.append((h, cur))
        elif k == "write":
            cur.append(("w", h["s"], h["id"]))
        elif k == "sflush":
            cur.append(("f", h["s"], h["thr"]))
        elif k == "sinkdestroyed":
            cur.append(("d", h["s"]))
        elif k == "loggercount":
            cur.append(("n", h["n"]))
        elif k == "sinkget":
            cur.append(("g", h["s"], h["found"], h["same"]))
        elif k == "removebret":
            cur.append(("rb", h["lg"], h["n"]))
        elif k == "logger":
            cur.append(("lg", h["lg"], h["fresh"]))
    return steps


def compare(beh, evs):
    steps = _proj_model(beh)
    real, cur, started = [], [], False
    for e in evs:
        k = e.get("e")
        if k == "Mark" and e["what"] == "step":
            if started:
                real.append(cur)
            started, cur = True, []
        elif k == "Write":
            cur.append(("w", e["s"], e["id"]))
        elif k == "SinkFlush":
            cur.append(("f", e["s"], bool(e.get("thr"))))
        elif k == "SinkDestroyed":
            cur.append(("d", e["s"]))
        elif k == "LoggerCount":
            cur.append(("n", e["n"]))
        elif k == "SinkGet":
            cur.append(("g", e["s"], bool(e["found"]), bool(e["same"])))
        elif k == "RemoveBlockingRet":
            cur.append(("rb", e["lg"], e["nloggers"]))
        elif k == "LoggerCreated":
            cur.append(("lg", e["lg"], bool(e["fresh"])))
    if len(real) < len(steps):
        return f"harness stopped after {len(real)} of {len(steps)} steps"
    for j, (h, exp) in enumerate(steps):
        if _norm(real[j]) != _norm(exp):
            return f"step {j} {h['who']}.{h['act']}{h['arg']}: code={real[j]} model={exp}"
    return None


def contract_lines_of_model(beh, c):
    out = [{"k": "cfg", "grace": 0, "dropping": False, "bounded": False}]
    for h in beh:
        if h["k"] == "step":
            continue
        if h["k"] == "write":
            h = dict(h, intact=True, fmt=True)
        out.append(h)
    return out


def run_config(ck, label, c, quick, rng, replay_limit):
    name = label.replace("-", "_")
    mod, cfg, d = write_model(name, c, True if quick else "hist")
    r = vlib.tlc(mod, cfg, specdir=d, timeout=1500, heap="12g", coverage=quick)
    if r.error:
        raise vlib.Infra(r.error + r.out[-1500:])
    ck.add_tlc(r, f"Registry {label}")
    if r.violated:
        raise vlib.Infra(f"Registry.tla violates its own invariant {r.violated} in {label}")
    if quick:
        for a in ACTIONS + (["RemoveBlockingCall", "RemoveBlockingRet"] if c["blocking"] else []):
            if not vlib.enabled(r, a):
                raise vlib.Infra(f"vacuity: {a} never enabled in Registry.tla config {label}")
    rx = r
    if not quick:
        if r.generated <= EXPORT_ALL_LIMIT:
            mod, cfg, d = write_model(name + "_x", c, True)
            rx = vlib.tlc(mod, cfg, specdir=d, timeout=1500, heap="12g")
        else:
            mod, cfg, d = write_model(name + "_s", c, "sim")
            rx = vlib.tlc(mod, cfg, specdir=d, timeout=1500, heap="8g", simulate=SIM_NUM // 8, depth=SIM_DEPTH + 2, workers=8,
                          seed=rng.randrange(1 << 30), dump_trace=False)
            ck.extra.setdefault("simulated_export", []).append("registry " + label)
        if rx.error:
            raise vlib.Infra(rx.error)
    behs = vlib.behaviours(rx)
    if not behs:
        raise vlib.Infra(f"no behaviours exported ({label})")
    cfgname = "TraceQuill_C17.cfg"
    sample = behs if len(behs) <= 6000 else rng.sample(behs, 6000)
    lines = []
    for b in sample:
        lines += contract_lines_of_model(b, c)
    rv = sysh.validate_trace("TraceQuill", cfgname, lines, timeout=1200)
    if rv.error:
        raise vlib.Infra(rv.error)
    ck.add_tlc(rv, f"I=>A Registry {label}")
    if rv.violated:
        raise vlib.Infra(f"Registry behaviour rejected by the contract ({label}): {rv.trace[-1]['m']['why'].get('ok17')}")
    ck.extra["registry_traces_accepted_by_contract"] = ck.extra.get("registry_traces_accepted_by_contract", 0) + len(sample)
    todo = behs if len(behs) <= replay_limit else rng.sample(behs, replay_limit)
    scen = [(f"C17-reg-{label}-{i}", QK, script_of(b, c), 0) for i, b in enumerate(todo)]
    res = qsys.run_and_validate(ck, "C17", cfgname, scen, qsys.exe_of, f"reg-{label}")
    ndrift = 0
    for b, (rc, evs) in zip(todo, res):
        dmsg = compare(b, evs)
        if dmsg:
            ndrift += 1
            if ndrift <= 3:
                ck.drifted(f"Registry {label}: {dmsg}")
    ck.extra["registry_behaviours_replayed"] = ck.extra.get("registry_behaviours_replayed", 0) + len(todo)
    ck.extra["registry_behaviours_drifting"] = ck.extra.get("registry_behaviours_drifting", 0) + ndrift
    if todo:
        b = todo[len(todo) // 2]
        ck.sample({"registry_config": label, "schedule": [[h["who"], h["act"], h["arg"]] for h in b if h["k"] == "step"]}, cap=5)


def run_for(ck):
    quick = ck.tier == "quick"
    rng = random.Random(ck.seed + 31)
    for label, d in CONFIGS["quick" if quick else "thorough"]:
        c = dict(BASE)
        c.update(d)
        run_config(ck, label, c, quick, rng, 8000 if quick else 20000)
