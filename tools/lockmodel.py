"""Registry lock under release/acquire (part of C17): spec/SpinlockRA.tla model-checked with the memory orders EXTRACTED from the
real detail::Spinlock (harness/h_lock: shim atomic + coroutine threads), every transition exported and replayed access by
access on the real lock, every execution judged by spec/TraceLock.tla (mutual exclusion, no data race on the protected
registry, no lost update). A model counterexample (weakened order) is replayed too: the contract over that real execution decides."""
import json
from concurrent.futures import ThreadPoolExecutor
import vlib, sysh

INVS = "Mutex NoRace NoLostUpdate"


def build():
    return vlib.build("h_lock", [vlib.HARNESS / "h_lock.cpp"], flags=["-fno-access-control"])


def run(exe, script, timeout=30):
    d = vlib.scratch("lock")
    try:
        sp, tp = d / "s.txt", d / "t.ndjson"
        sp.write_text(script)
        rc, so, se = vlib.run_cmd([exe, sp, tp], timeout=timeout)
        evs = [json.loads(x) for x in tp.read_text().splitlines()] if tp.exists() else []
        if rc != 0:
            evs.append({"e": "crash", "rc": rc})
        return evs
    finally:
        vlib.rm(d)


def extract(exe):
    """memory orders at the three sites of Spinlock, as the shim saw them in an uncontended lock/unlock"""
    evs = run(exe, "threads 1 rounds 1\n" + "S 0 0\n" * 8 + "end\n")
    k = {}
    for e in evs:
        if e["e"] == "load":
            k.setdefault("MoSpin", e["mo"])
        elif e["e"] == "xchg":
            k.setdefault("MoXchg", e["mo"])
        elif e["e"] == "store":
            k.setdefault("MoUnlock", e["mo"])
    if set(k) != {"MoSpin", "MoXchg", "MoUnlock"}:
        raise vlib.Infra(f"could not observe the three atomic accesses of Spinlock::lock/unlock: {evs[:6]}")
    return k


def cfg_text(k, threads, rounds, maxh, export):
    return ("SPECIFICATION Spec\nCONSTANTS Threads = {%s}\n Rounds = %d\n MoSpin = \"%s\"\n MoXchg = \"%s\"\n MoUnlock = \"%s\"\n MaxHist = %d\n"
            " Export = %s\nINVARIANTS %s\nCONSTRAINT HistBound\nVIEW StateView\n%sCHECK_DEADLOCK FALSE\n"
            % (",".join(map(str, range(1, threads + 1))), rounds, k["MoSpin"], k["MoXchg"], k["MoUnlock"], maxh,
               "TRUE" if export else "FALSE", INVS, "ACTION_CONSTRAINT ExportA\n" if export else ""))


def script_of(beh, threads, rounds):
    L = [f"threads {threads} rounds {rounds}"]
    for h in beh:
        L.append(f"S {h['t'] - 1} {h['arg'][0] if h['a'] == 'spin' else 0}")
    return "\n".join(L) + "\nend\n"


def compare(beh, evs):
    """the access each model step performs and what it reads vs the real lock's next access"""
    steps, cur = [], None
    for e in evs:
        if e["e"] == "step":
            cur = {"pending": e["pending"], "t": e["t"] + 1}
            steps.append(cur)
        elif cur is not None and e["e"] in ("load", "xchg", "store", "read", "write"):
            cur.setdefault("did", e)
    if len(steps) < len(beh):
        return f"harness ran {len(steps)} of {len(beh)} steps"
    want = {"spin": "load", "xchg": "xchg", "read": "read", "write": "write", "unlock": "store"}
    for j, (h, s) in enumerate(zip(beh, steps)):
        d = s.get("did")
        if d is None or d["e"] != want[h["a"]]:
            return f"step {j}: model {h['a']} of thread {h['t']}, code performed {d and d['e']} (pending {s['pending']})"
        if h["a"] == "spin" and d["idx"] != h["arg"][0]:
            return f"step {j}: spin load read message {d['idx']}, model chose {h['arg'][0]}"
        if h["a"] == "xchg" and ("L" if d["old"] == 1 else "F") != h["arg"][0]:
            return f"step {j}: exchange saw {d['old']}, model {h['arg'][0]}"
        if h["a"] in ("read", "write") and d["v"] != h["arg"][0]:
            return f"step {j}: {h['a']} value code={d['v']} model={h['arg'][0]}"
    return None


def validate(ck, execs, label):
    """execs: list of (key, script, events). Returns list of rejected (key, script, why, event)."""
    lines, owners = [], []
    for i, (key, sc, evs) in enumerate(execs):
        lines += evs
        owners += [i] * len(evs)
    rej = []
    while lines:
        r = sysh.validate_trace("TraceLock", "TraceLock.cfg", lines)
        if r.error:
            raise vlib.Infra(r.error)
        ck.add_tlc(r, f"TraceLock {label}")
        if r.violated is None:
            if r.distinct != len(lines) + 1:
                raise vlib.Infra("lock trace not fully consumed")
            break
        l = r.trace[-1]["l"] - 1
        own = owners[l - 1]
        rej.append((execs[own][0], execs[own][1], r.trace[-1]["m"]["why"], lines[l - 1]))
        end = l
        while end < len(lines) and owners[end] == own:
            end += 1
        lines, owners = lines[end:], owners[end:]
        if len(rej) > 20:
            break
    return rej


def run_for(ck, prop="C17"):
    quick = ck.tier == "quick"
    exe = build()
    try:
        k = extract(exe)
    except vlib.Infra as ex:
        # the code no longer performs the accesses this model is cut along (restructured, not necessarily wrong): the model cannot
        # be instantiated, which is reported as drift - the system-level scenarios still decide the property
        ck.drifted(f"registry lock: constant extraction failed: {ex}")
        return
    ck.extra["spinlock_memory_orders_from_code"] = k
    # (threads, rounds, history bound, export+replay every transition?) - the largest one is model-checked only
    configs = [(2, 2, 9, True)] if quick else [(2, 2, 10, True), (3, 1, 8, True), (2, 3, 13, True), (3, 2, 14, False)]
    for threads, rounds, maxh, export in configs:
        label = f"lock-{threads}x{rounds}"
        cfg = vlib.write_cfg(vlib.BUILD / "cfg" / f"SpinlockRA_{label}.cfg", cfg_text(k, threads, rounds, maxh, export))
        r = vlib.tlc("SpinlockRA", cfg, timeout=900, coverage=quick)
        if r.error:
            raise vlib.Infra(r.error)
        ck.add_tlc(r, f"SpinlockRA {label}")
        if r.violated:
            # the code's memory orders admit a bad execution in the model: run exactly that schedule on the real lock
            beh = r.trace[-1]["hist"]
            sc = script_of(beh, threads, rounds)
            evs = run(exe, sc)
            rej = validate(ck, [("cex", sc, evs)], label)
            ck.extra.setdefault("model_counterexamples", []).append({"config": label, "invariant": r.violated})
            if rej:
                key, sc, why, ev = rej[0]
                ck.violation("lock:" + "-".join(why.split())[:60],
                             f"registry lock with memory orders {k}: {why}; schedule of {len(beh)} accesses on {threads} threads; rejected event {json.dumps(ev)}",
                             {"script": sc, "harness": "h_lock", "orders": k, "why": why})
            else:
                ck.drifted(f"SpinlockRA violates {r.violated} with the code's memory orders {k} but the real lock passes on that schedule")
            continue
        if quick:
            for a in ("SpinAny", "Xchg", "CsRead", "CsWrite", "Unlock"):
                if not vlib.enabled(r, a):
                    raise vlib.Infra(f"vacuity: {a} never enabled in SpinlockRA {label}")
        if not export:
            continue
        behs = vlib.behaviours(r)
        if not behs:
            raise vlib.Infra("SpinlockRA exported no behaviours")
        with ThreadPoolExecutor(max_workers=vlib.NCPU) as ex:
            res = list(ex.map(lambda b: run(exe, script_of(b, threads, rounds)), behs))
        ndrift = 0
        execs = []
        for i, (b, evs) in enumerate(zip(behs, res)):
            d = compare(b, evs)
            if d:
                ndrift += 1
                if ndrift <= 3:
                    ck.drifted(f"SpinlockRA {label}: {d}")
            execs.append((f"{label}-{i}", script_of(b, threads, rounds), evs))
            ck.case(("lock", label, i), nontrivial=any(e["e"] == "write" for e in evs))
        rej = validate(ck, execs, label)
        ck.traces_validated += len(execs) - len(rej)
        for key, sc, why, ev in rej[:3]:
            ck.violation("lock:" + "-".join(why.split())[:60], f"{key}: {why}; rejected event {json.dumps(ev)}",
                         {"script": sc, "harness": "h_lock", "orders": k, "why": why})
        ck.extra["lock_behaviours_replayed"] = ck.extra.get("lock_behaviours_replayed", 0) + len(behs)
        ck.extra["lock_behaviours_drifting"] = ck.extra.get("lock_behaviours_drifting", 0) + ndrift


def replay(path):
    j = json.loads(open(path).read())["replay"]
    for e in run(build(), j["script"]):
        print(json.dumps(e))
