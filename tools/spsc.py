"""Queue-level machinery shared by C01, C02, C09: build/run harness/h_spsc.cpp (real queues on the RA shim),
extract the constants of the implementation-shaped spec from the real code, translate TLC behaviours to scripts,
compare step by step, and turn executions into contract traces."""
import json
from concurrent.futures import ThreadPoolExecutor
import vlib

BITS = {"uint8_t": 8, "uint16_t": 16}


def build(vt="uint8_t"):
    return vlib.build(f"h_spsc_{vt}", [vlib.HARNESS / "h_spsc.cpp"], flags=["-fno-access-control", f"-DVT={vt}"])


def run(exe, script, timeout=60):
    d = vlib.scratch("q")
    try:
        sp, tp = d / "s.txt", d / "t.ndjson"
        sp.write_text(script)
        rc, so, se = vlib.run_cmd([exe, sp, tp], timeout=timeout)
        evs = []
        if tp.exists():
            for line in tp.read_text().splitlines():
                try:
                    evs.append(json.loads(line))
                except Exception:
                    evs.append({"e": "Garbled"})
        if rc == -9:
            raise vlib.Infra("h_spsc timeout")
        if rc not in (0, 4):
            evs.append({"e": "Crash", "rc": rc, "stderr": se[-300:]})
        return rc, evs
    finally:
        vlib.rm(d)


def run_many(exe, scripts, timeout=60):
    with ThreadPoolExecutor(max_workers=vlib.NCPU) as ex:
        return list(ex.map(lambda s: run(exe, s, timeout), scripts))


def _mo(name, load):
    if load:
        return "ra" if name in ("acq", "sc", "ar", "con") else "rlx"
    return "ra" if name in ("rel", "sc", "ar") else "rlx"


class ExtractFailed(Exception):
    pass


def extract(exe, cap, pct):
    """Observe, on the real queue, every constant SpscRA depends on: capacity, mask, batch, storage extent,
    the memory order of each atomic access site (identified by object, kind and thread, wherever it occurs in a
    seeded random walk), and whether a drained reader publishes below the batch."""
    rc, ev = run(exe, f"init cap={cap} pct={pct} start=0\nfuzz steps=400 seed=7 probe=0\nend\n")
    init = ev[0]
    if init.get("e") != "Init":
        raise vlib.Infra("h_spsc produced no Init event")
    k = {"Cap": init["cap"], "Mask": init["mask"], "Batch": init["batch"], "Storage": init["storage"], "Bits": init["bits"]}
    sites = {}
    for e in ev:
        if e.get("e") == "Step":
            for a in e["acc"]:
                sites.setdefault((a["obj"], a["op"], a["t"]), set()).add(a["mo"])
    want = {"MoCommitW": (0, "S", 0), "MoLoadR": (1, "L", 0), "MoLoadW": (0, "L", 1), "MoCommitR": (1, "S", 1)}
    for name, key in want.items():
        mos = sites.get(key)
        if not mos:
            raise ExtractFailed(f"access site {name} {key} not observed")
        kinds = {_mo(m, key[1] == "L") for m in mos}
        k[name] = "ra" if kinds == {"ra"} else "rlx"      # any relaxed access at the site => weakest
    extra = set(sites) - set(want.values()) - {(1, "L", 1)}
    if extra:
        raise ExtractFailed(f"atomic accesses the model does not have: {sorted(extra)}")
    # drained-below-batch probe (needs batch > 1): consume 1 byte, observe empty, commit
    k["PublishWhenDrained"] = None
    if k["Batch"] > 1:
        s = [f"init cap={cap} pct={pct} start=0", "P pw n=1", "P write", "P fc", "C pr", "C read", "C fr", "C pr", "C cr"]
        rc, ev = run(exe, "\n".join(s) + "\nend\n")
        last = [e for e in ev if e.get("e") == "Step"][-1]
        k["PublishWhenDrained"] = len(last["st"]["ar"]) > 1
    return k


def cfg_text(k, sizes, maxrecs, start, export, invariants, maxdeny=1, view=True):
    pub = k["PublishWhenDrained"]
    return ("SPECIFICATION Spec\nCONSTANTS Cap = %d\n M = %d\n Start = %d\n Sizes = {%s}\n MaxRecs = %d\n Batch = %d\n"
            " MoCommitW = \"%s\"\n MoLoadR = \"%s\"\n MoLoadW = \"%s\"\n MoCommitR = \"%s\"\n PublishWhenDrained = %s\n"
            " MaxDeny = %d\n Export = %s\n%s%s%sCHECK_DEADLOCK FALSE\n"
            % (k["Cap"], 2 ** k["Bits"], start, ",".join(str(x) for x in sorted(sizes)), maxrecs, k["Batch"],
               k["MoCommitW"], k["MoLoadR"], k["MoLoadW"], k["MoCommitR"], "TRUE" if pub else "FALSE", maxdeny,
               "TRUE" if export else "FALSE",
               ("INVARIANTS " + " ".join(invariants) + "\n") if invariants else "",
               "VIEW StateView\n" if view else "",
               "ACTION_CONSTRAINT ExportA\n" if export else ""))


def script_of(beh, cap, pct, start):
    """TLC behaviour (list of [t, a, arg, st, res, bad]) -> h_spsc script."""
    L = [f"init cap={cap} pct={pct} start={start}"]
    for h in beh:
        t = "P" if h["t"] == 1 else "C"
        a = h["a"]
        if a == "pw":
            n, i = h["arg"]
            L.append(f"P pw n={n}" + (f" ld={i}" if i else ""))
        elif a == "pr":
            i = h["arg"][0]
            L.append("C pr" + (f" ld={i}" if i else ""))
        else:
            L.append(f"{t} {a}")
    L.append("end")
    return "\n".join(L) + "\n"


def compare(beh, evs):
    """Strict comparison of the model's projected state with the real queue after every step.
    Returns (a_level, i_level): a_level = list of contract-level problems (race/content flags on the real code),
    i_level = first model/code mismatch or None."""
    steps = [e for e in evs if e.get("e") == "Step"]
    a_level, i_level = [], None
    if any(e.get("e") in ("Crash", "Fault") for e in evs):
        a_level.append("crash")
    for j, h in enumerate(beh):
        if j >= len(steps):
            i_level = i_level or f"step {j}: harness stopped"
            break
        s = steps[j]
        fl = s["flags"]
        for key in ("early", "overwr", "content", "oob", "dead"):
            if fl.get(key) and key not in a_level:
                a_level.append(key)
        if fl.get("badchoice") and i_level is None:
            i_level = f"step {j}: load index chosen by the model is not available in the code's history"
        if i_level is None:
            st, exp = s["st"], h["st"]
            for key in ("w", "rc", "r", "wc", "aw", "ar"):
                if st[key] != exp[key]:
                    i_level = f"step {j} {h['a']}: {key} code={st[key]} model={exp[key]}"
                    break
            if i_level is None and h["a"] == "pw" and (h["res"] == "granted") != bool(s.get("granted")):
                i_level = f"step {j} pw: granted code={s.get('granted')} model={h['res']}"
            if i_level is None and h["a"] == "pr" and (h["res"] == "got") != bool(s.get("got")):
                i_level = f"step {j} pr: got code={s.get('got')} model={h['res']}"
    return a_level, i_level


def contract_lines(evs):
    """Harness events of one execution -> TraceSpsc lines."""
    out = []
    for e in evs:
        k = e.get("e")
        if k == "Init":
            out.append({"k": "init", "cap": e["cap"], "storage": e["storage"]})
        elif k == "Step":
            fl = e["flags"]
            bad = bool(fl["early"] or fl["overwr"] or fl["content"] or fl["oob"] or fl["dead"])
            op = e["op"]
            if op == "pw":
                out.append({"k": "pw", "n": e["n"], "granted": bool(e["granted"]), "off": e.get("off", 0),
                            "id": e.get("id", 0), "probe": bool(e.get("probe")), "bad": bad})
            elif op == "write":
                out.append({"k": "write", "id": e["id"], "bad": bad})
            elif op in ("fc", "cw"):
                for i in e.get("ids", [e.get("id")]):
                    out.append({"k": "fc", "id": i})
            elif op == "fw":
                out.append({"k": "fw", "id": e["id"]})
            elif op == "pr":
                out.append({"k": "pr", "got": bool(e["got"])})
            elif op == "read":
                out.append({"k": "read", "id": e["id"], "committed": bool(e.get("committed")), "bad": bad})
            elif op == "fr":
                out.append({"k": "fr"})
            elif op == "cr":
                out.append({"k": "cr", "pub": any(a["op"] == "S" for a in e["acc"])})
        elif k in ("Crash", "Fault"):
            out.append({"k": "write", "id": 0, "bad": True})
    return out


# =========================================================================== unbounded queue (C02)
def _split_runs(evs, start_kind):
    runs, cur = [], None
    for e in evs:
        if e.get("e") == start_kind:
            cur = []
            runs.append(cur)
        if cur is not None:
            cur.append(e)
    return runs


def uextract(exe):
    """Constants of UnboundedRA observed on the real code: memory orders per access site, whether the consumer
    re-checks the old node after seeing `next`, whether the producer commits to the old node before publishing,
    and the publish batch percentage."""
    rc, ev = run(exe, "uinit cap=4 max=64\nufuzz steps=500 seed=11\nend\n")
    if not ev or ev[0].get("e") != "UInit":
        raise vlib.Infra("h_spsc produced no UInit event")
    sites = {}
    recheck, commit_first, saw_switch, saw_grow = None, None, False, False
    for e in ev:
        if e.get("e") != "Step":
            continue
        if e["op"] == "uempty":
            continue        # empty() is a separate (relaxed) read of `next` that the model's actions do not contain
        for a in e["acc"]:
            sites.setdefault((a["obj"] % 3, a["op"], a["t"]), set()).add(a["mo"])
        if e["op"] == "upr" and e.get("alloc"):
            saw_switch = True
            kinds = [(a["obj"] % 3, a["op"], a["obj"]) for a in e["acc"]]
            nx = [i for i, k in enumerate(kinds) if k[0] == 0 and k[1] == "L"]
            if nx:
                old_aw = [k[2] for k in kinds[:nx[0]] if k[0] == 1 and k[1] == "L"]
                after = [k for k in kinds[nx[0] + 1:] if k[0] == 1 and k[1] == "L" and (not old_aw or k[2] == old_aw[0])]
                r = len(after) > 0 if old_aw else None
                if r is not None:
                    recheck = r if recheck is None else (recheck and r)
        if e["op"] == "upw" and e.get("granted") and any(a["obj"] % 3 == 0 and a["op"] == "S" for a in e["acc"]):
            saw_grow = True
            kinds = [(a["obj"] % 3, a["op"]) for a in e["acc"]]
            i_nx = kinds.index((0, "S"))
            c = (1, "S") in kinds[:i_nx]
            commit_first = c if commit_first is None else (commit_first and c)
    if not (saw_switch and saw_grow) or recheck is None or commit_first is None:
        raise ExtractFailed("grow/switch not observed in the probe run")
    want = {"MoCommitW": (1, "S", 0), "MoLoadR": (2, "L", 0), "MoLoadW": (1, "L", 1), "MoCommitR": (2, "S", 1),
            "MoPubNext": (0, "S", 0), "MoLoadNext": (0, "L", 1)}
    k = {"Recheck": recheck, "CommitBeforeSwitch": commit_first}
    for name, key in want.items():
        mos = sites.get(key)
        if not mos:
            raise ExtractFailed(f"access site {name} {key} not observed")
        kinds = {_mo(m, key[1] == "L") for m in mos}
        k[name] = "ra" if kinds == {"ra"} else "rlx"
    extra = set(sites) - set(want.values()) - {(2, "L", 1)}
    if extra:
        raise ExtractFailed(f"atomic accesses the model does not have: {sorted(extra)}")
    rc, ev = run(exe, "uinit cap=1024 max=4096\nend\n")
    k["BatchPct"] = round(ev[0]["batch"] * 100 / ev[0]["cap"])
    return k


def ucfg_text(k, c, export, invariants, view=True):
    b = lambda x: "TRUE" if x else "FALSE"
    return ("SPECIFICATION Spec\nCONSTANTS InitCap = %d\n MaxCap = %d\n Sizes = {%s}\n MaxRecs = %d\n MaxNodes = %d\n"
            " ShrinkTo = {%s}\n MaxShrinks = %d\n BatchPct = %d\n MoCommitW = \"%s\"\n MoLoadR = \"%s\"\n MoLoadW = \"%s\"\n"
            " MoCommitR = \"%s\"\n MoPubNext = \"%s\"\n MoLoadNext = \"%s\"\n Recheck = %s\n CommitBeforeSwitch = %s\n Export = %s\n%s%s%sCHECK_DEADLOCK FALSE\n"
            % (c["cap"], c["max"], ",".join(map(str, c["sizes"])), c["recs"], c["nodes"], ",".join(map(str, c["shrink"])),
               c["nshrink"], k["BatchPct"], k["MoCommitW"], k["MoLoadR"], k["MoLoadW"], k["MoCommitR"], k["MoPubNext"],
               k["MoLoadNext"], b(k["Recheck"]), b(k["CommitBeforeSwitch"]), b(export),
               ("INVARIANTS " + " ".join(invariants) + "\n") if invariants else "",
               "VIEW StateView\n" if view else "", "ACTION_CONSTRAINT ExportA\n" if export else ""))


def uscript_of(beh, c):
    L = [f"uinit cap={c['cap']} max={c['max']}"]
    for h in beh:
        a = h["a"]
        if a == "upw":
            k, i = h["arg"]
            L.append(f"P upw n={k}" + (f" ld={i}" if i else ""))
        elif a == "write":
            L.append("P write" if h["t"] == 1 else "C read")
        elif a == "fc":
            L.append("P ufc")
        elif a == "shrink":
            L.append(f"P shrink c={h['arg'][0]}")
        elif a == "upr":
            i1, j, i2, i3 = h["arg"]
            ch = [x for x in (i1, j, i2) if x]
            if h["res"].startswith("switched"):
                ch.append(0)          # commit_read's relaxed load of its own variable
                if i3:
                    ch.append(i3)
            L.append("C upr" + (" ld=" + ",".join(map(str, ch)) if ch else ""))
        elif a == "read":
            L.append("C read")
        elif a == "fr":
            L.append("C ufr")
        elif a == "cr":
            L.append("C ucr")
    L.append("end")
    return "\n".join(L) + "\n"


_UFLAGS = ("early", "overwr", "content", "oob", "dead", "ctor")


def ucompare(beh, evs):
    steps = [e for e in evs if e.get("e") == "Step"]
    a_level, i_level = [], None
    if any(e.get("e") in ("Crash", "Fault") for e in evs):
        a_level.append("fault-on-retired-memory")
    for j, h in enumerate(beh):
        if j >= len(steps):
            i_level = i_level or f"step {j}: harness stopped"
            break
        s = steps[j]
        for key in _UFLAGS:
            if s["flags"].get(key) and key not in a_level:
                a_level.append(key)
        if s["flags"].get("badchoice") and i_level is None:
            i_level = f"step {j}: load index chosen by the model is not available in the code's history"
        if i_level is not None:
            continue
        # result
        a, res = h["a"], h["res"]
        if a == "upw":
            got = "throw" if s.get("threw") else ("null" if not s.get("granted") else None)
            if got is None:
                got = "grown" if any(x["obj"] % 3 == 0 and x["op"] == "S" for x in s["acc"]) else "granted"
            if got != res:
                i_level = f"step {j} upw: code={got} model={res}"
        elif a == "upr":
            got = ("switched-got" if s.get("got") else "switched-empty") if s.get("alloc") else ("got" if s.get("got") else "empty")
            if got != res and not (got == "got" and res == "got-old"):
                i_level = f"step {j} upr: code={got} model={res}"
        elif a == "shrink":
            got = "shrunk" if s["after"] != s["before"] else "noshrink"
            if got != res:
                i_level = f"step {j} shrink: code={got} model={res}"
        if i_level is None:
            for side in ("prod", "cons"):
                st, exp = s[side], h[side]
                for key in ("cap", "w", "rc", "r", "wc", "aw", "ar", "nextset"):
                    if st[key] != exp[key]:
                        i_level = f"step {j} {a}: {side}.{key} code={st[key]} model={exp[key]}"
                        break
                if i_level:
                    break
            if i_level is None and s["nodes"] != h["nodes"]:
                i_level = f"step {j} {a}: nodes code={s['nodes']} model={h['nodes']}"
    return a_level, i_level


def ucontract_lines(evs):
    out = []
    for e in evs:
        k = e.get("e")
        if k == "UInit":
            out.append({"k": "init", "cap": e["cap"], "max": e["max"]})
        elif k == "Step":
            fl = e["flags"]
            bad = any(fl.get(x) for x in _UFLAGS)
            op = e["op"]
            if op == "upw":
                out.append({"k": "upw", "n": min(e["n"], 2000000), "granted": bool(e["granted"]), "threw": bool(e["threw"]),
                            "probe": bool(e.get("probe")),
                            "pcap": e["prod"]["cap"], "maxalloc": e["maxalloc"], "bad": bad})
            elif op == "write":
                out.append({"k": "write", "bad": bad})
            elif op == "ufc":
                out.append({"k": "fc", "id": e["id"], "bad": bad})
            elif op == "upr":
                out.append({"k": "upr", "got": bool(e["got"]), "bad": bad})
            elif op == "read":
                out.append({"k": "read", "id": e["id"], "committed": bool(e.get("committed")), "bad": bad})
            elif op == "uempty":
                out.append({"k": "uempty", "empty": bool(e["empty"]), "bad": bad})
            elif op == "shrink":
                out.append({"k": "shrink", "c": e.get("c", 0), "before": e["before"], "after": e["after"],
                            "maxalloc": e["maxalloc"], "bad": bad})
            else:
                out.append({"k": op, "bad": bad})
        elif k == "Drained":
            out.append({"k": "drained", "pending": e["pending"]})
        elif k in ("Crash", "Fault"):
            out.append({"k": "write", "bad": True})
    return out
