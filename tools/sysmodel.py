"""Implementation-shaped pipeline model (spec/Quill.tla): exhaustive TLC runs with constants extracted from the code,
behaviour export (one per transition), I => A validation of the model's own event traces by TraceQuill, and replay of the
exported schedules on the real code (harness/h_sys) with state comparison (drift) and contract validation (verdict)."""
import json, random
from concurrent.futures import ThreadPoolExecutor
import vlib, sysh, spsc, qtrace, qsys

HDR = 40
FLUSH_SZ = 40          # 8 timestamp + 24 pointers + 8 flag pointer


def extract(cap):
    """batch size, publish-when-drained and report-on-remove, observed on the real code"""
    qe = spsc.build("uint16_t")
    k = spsc.extract(qe, cap, 5)
    # does the backend report a removed context's drop counter?  (targeted probe on a bounded dropping queue)
    exe = qsys.exe_of(f"BD:{cap}:{cap}")
    sc = "\n".join(["cfg soft=4 hard=8 ring=2 grace=0", "sink S0", "logger L0 sinks=S0 lvl=0", "start a", "start b",
                    "T b log L0 id=1 pad=0", f"T a log L0 id=2 pad={cap + 8}", "join a", "T b flush L0",
                    "B drain", "T b go", "B drain", "T b go", "B poll", "end"]) + "\n"
    rc, evs = sysh.run(exe, sc)
    rep = sum(e["n"] for e in evs if e.get("e") == "Notify" and e.get("cls") == "dropped")
    k["ReportOnRemove"] = rep >= 1
    # does the logger clean-up re-check the queues for every logger it frees?  probe: a statement logged and its logger
    # removed while the backend sits between the emptiness check and the clean-up steps of an idle poll
    exe = qsys.exe_of(f"BB:{cap}:{cap}")
    sc = "\n".join(["cfg soft=4 hard=8 ring=2 grace=0", "sink S0", "logger L0 sinks=S0 lvl=0", "logger L1 sinks=S0 lvl=0", "start a",
                    "T a log L0 id=1 pad=0", "B drain", "B pollf", "B go", "B go", "B go", "B go", "T a log L1 id=2 pad=0", "remove L1",
                    "B go", "B go", "q loggers", "B drain", "B poll", "end"]) + "\n"
    rc, evs = sysh.run(exe, sc)
    parked = [e.get("why") for e in evs if e.get("e") == "Sched" and e.get("t") == "B" and e.get("st") == "parked"]
    cnt = [e["n"] for e in evs if e.get("e") == "LoggerCount"]
    if "IDLE3" not in parked or not cnt:
        raise spsc.ExtractFailed("idle-poll yield points not where the model expects them")
    k["RecheckOnRemove"] = cnt[0] == 2
    # reader publish batch as a percentage of the capacity (the model applies it to every buffer of an unbounded queue)
    pct = -(-k["Batch"] * 100 // cap)
    if (cap * pct) // 100 != k["Batch"]:
        raise spsc.ExtractFailed(f"publish batch {k['Batch']} of capacity {cap} is not a whole percentage")
    k["Pct"] = pct
    return k


def cfg_text(k, c, export, invariants, spec="Spec", props=()):
    """export: False | True (every transition's history printed, BFS) | "hist" (history kept for counterexamples, nothing
    printed) | "sim" (history printed once per simulated behaviour, at level SIM_DEPTH)"""
    b = lambda x: "TRUE" if x else "FALSE"
    th = "{" + ",".join('"%s"' % t for t in c["threads"]) + "}"
    return ("SPECIFICATION %s\nCONSTANTS Threads = %s\n NStmt = %d\n NFlush = %d\n Sizes = {%s}\n FlushSz = %d\n RmSz = %d\n Bounded = %s\n"
            " Dropping = %s\n Cap = %d\n MaxCap = %d\n Pct = %d\n AllowShrink = %s\n PublishWhenDrained = %s\n Soft = %d\n Hard = %d\n Grace = %d\n MaxTime = %d\n"
            " AllowExit = %s\n ReportOnRemove = %s\n Loggers = {%s}\n AllowRemove = %s\n RecheckOnRemove = %s\n Export = %s\n%s%s%s%sCHECK_DEADLOCK FALSE\n"
            % (spec, th, c["nstmt"], c["nflush"], ",".join(map(str, c["sizes"])), FLUSH_SZ, FLUSH_SZ + 4 + 2, b(c["bounded"]), b(c["dropping"]),
               c["cap"], maxcap_of(c), k["Pct"], b(c.get("shrink", False)), b(k["PublishWhenDrained"]), c["soft"], c["hard"], c["grace"], c["maxtime"], b(c["exit"]),
               b(k["ReportOnRemove"]), ",".join('"%s"' % l for l in c.get("loggers", ["L0"])), b(c.get("remove", False)),
               b(k.get("RecheckOnRemove", True)), b(export),
               ("INVARIANTS " + " ".join(invariants) + "\n") if invariants else "",
               ("PROPERTIES " + " ".join(props) + "\n") if props else "",
               "VIEW StateView\n" if spec == "Spec" else "",
               {True: "ACTION_CONSTRAINT ExportA\n", "sim": "ACTION_CONSTRAINT ExportSim\n"}.get(export, "")))


ACTIONS = ["ShrinkQueue", "RemoveLogger", "RemoveBlockingStart", "RemoveBlockingCheck", "LogStart", "Enqueue", "FlushStart", "FlushCheck", "ThreadExit", "BStart", "BRead", "BProc", "BAfterPop", "BBatchIter",
           "BIdle0", "BIdle1", "BIdle2", "BIdle3"]


def maxcap_of(c):
    return c["cap"] if c["bounded"] else c.get("maxcap", c["cap"] * 64)


def qk_of(c):
    qt = ("B" if c["bounded"] else "U") + ("D" if c["dropping"] else "B")
    return f"{qt}:{c['cap']}:{maxcap_of(c)}"


def script_of(beh, c):
    """exported behaviour -> h_sys script (one harness step per model step, a state snapshot before each)"""
    L = [f"cfg soft={c['soft']} hard={c['hard']} ring=2 grace={c['grace']}", "sink S0"]
    for l in c.get("loggers", ["L0"]):
        L.append(f"logger {l} sinks=S0 lvl=0")
    for t in c["threads"]:
        L.append(f"start {t}")
    steps = [h for h in beh if h["k"] == "step"]
    ids = iter([h["id"] for h in beh if h["k"] == "logcall"])
    for h in steps:
        L.append("q snap")
        L.append("mark step")
        who, act = h["who"], h["act"]
        if act == "logstart":
            L.append(f"T {who} log {h['arg'][1]} lvl=4 id={next(ids)} pad={h['arg'][0] - HDR} kind=direct yts=1")
        elif act in ("enqueue", "retry", "flushcheck"):
            L.append(f"T {who} go")
        elif act == "flushstart":
            L.append(f"T {who} flush L0")
        elif act == "exit":
            L.append(f"join {who}")
        elif act == "tick":
            L.append("tick 1")
        elif act == "shrink":
            L.append(f"T {who} shrink {h['arg'][0]}")
        elif act == "remove":
            L.append(f"remove {h['arg'][0]}")
        elif act == "rmbstart":
            L.append(f"T {who} removeb {h['arg'][0]}")
        elif act == "rmbcheck":
            L.append(f"T {who} go")
        elif act == "idle3":
            L.append("B go")
            L.append("q loggers")
        elif act == "start":
            L.append("B pollf")
        else:
            L.append("B go")
    L.append("q snap")
    L.append("mark step")
    L.append("end")
    return "\n".join(L) + "\n"


def compare(beh, evs, c):
    """model pre-state of every step vs the real state before the harness executed it; plus what each step wrote.
    Returns the first mismatch (drift) or None."""
    steps = [h for h in beh if h["k"] == "step"]
    # expected writes per step
    exp_w, cur = [], None
    for h in beh:
        if h["k"] == "step":
            cur = []
            exp_w.append(cur)
        elif h["k"] == "write":
            cur.append(h["id"])
    snaps, writes, cur_s, cur_w = [], [], {}, []
    first = True
    for e in evs:
        k = e.get("e")
        if k == "Snap":
            cur_s[e["t"]] = e
        elif k == "Write":
            cur_w.append(e["id"])
        elif k == "Mark" and e["what"] == "step":
            snaps.append(cur_s)
            if not first:
                writes.append(cur_w)
            first = False
            cur_s, cur_w = {}, []
    if len(snaps) < len(steps):
        return f"harness stopped after {len(snaps)} of {len(steps)} steps"
    for j, h in enumerate(steps):
        for t, (qb, unpub, rlen, pcap, ccap, nnodes) in h["pre"].items():
            s = snaps[j].get(t)
            if s is None:
                if qb or rlen:
                    return f"step {j} {h['who']}.{h['act']}: thread {t} has no context in the code but the model queue holds data"
                continue
            real_q = s["w"] - s["r"] if c["bounded"] else None
            if c["bounded"]:
                if real_q != qb:
                    return f"step {j} {h['who']}.{h['act']}: {t} queued bytes code={real_q} model={qb}"
                if s["r"] - s["ar"] != unpub:
                    return f"step {j} {h['who']}.{h['act']}: {t} unpublished bytes code={s['r'] - s['ar']} model={unpub}"
            if not c["bounded"] and (s["pcap"], s["ccap"], s["same"]) != (pcap, ccap, nnodes == 1):
                return (f"step {j} {h['who']}.{h['act']}: {t} buffers code=(producer {s['pcap']}, consumer {s['ccap']}, same {s['same']}) "
                        f"model=(producer {pcap}, consumer {ccap}, chain {nnodes})")
            if s.get("ring", 0) != rlen:
                return f"step {j} {h['who']}.{h['act']}: {t} transit events code={s.get('ring', 0)} model={rlen}"
        if j < len(writes) and writes[j] != exp_w[j]:
            return f"step {j} {h['who']}.{h['act']}: wrote code={writes[j]} model={exp_w[j]}"
    return None


def contract_lines_of_model(beh, c):
    """the model's own events as TraceQuill lines (I => A)"""
    out = [{"k": "cfg", "grace": c["grace"], "dropping": c["dropping"], "bounded": c["bounded"]},
           {"k": "sink", "s": "S0", "lvl": 0, "tw": [], "tf": []}]
    for l in c.get("loggers", ["L0"]):
        out.append({"k": "logger", "lg": l, "sinks": ["S0"], "fsinks": [], "lvl": 0, "sys": True, "fresh": True})
    for h in beh:
        if h["k"] != "step":
            if h["k"] == "write":
                h = dict(h, intact=True, fmt=True, nnamed=0)
            out.append(h)
    return out


def run_config(ck, prop, c, k, invariants, quick, rng, label, replay_limit):
    """one configuration: exhaustive check + export + I=>A + replay. Returns the TLC result."""
    # exhaustive run first, history kept (hidden by the VIEW) but not printed: cheap even for millions of states
    cfg = vlib.write_cfg(vlib.BUILD / "cfg" / f"Quill_{prop}_{label}.cfg", cfg_text(k, c, True if quick else "hist", invariants))
    r = vlib.tlc("Quill", cfg, timeout=1700, heap="16g")
    if r.error:
        raise vlib.Infra(r.error)
    ck.add_tlc(r, f"Quill {label}")
    rx = r          # quick tier: configurations are small, the one run exports too
    if not r.violated and not quick:
        if r.generated <= EXPORT_ALL_LIMIT:
            # small enough: one behaviour per transition of the whole state graph
            cfgx = vlib.write_cfg(vlib.BUILD / "cfg" / f"Quill_{prop}_{label}_x.cfg", cfg_text(k, c, True, invariants))
            rx = vlib.tlc("Quill", cfgx, timeout=1700, heap="16g")
        else:
            # too many transitions to print: behaviours of depth SIM_DEPTH drawn by TLC's simulator from the same spec
            cfgx = vlib.write_cfg(vlib.BUILD / "cfg" / f"Quill_{prop}_{label}_s.cfg", cfg_text(k, c, "sim", invariants))
            rx = vlib.tlc("Quill", cfgx, timeout=1700, heap="8g", simulate=SIM_NUM // 8, depth=SIM_DEPTH + 2, workers=8,
                          seed=rng.randrange(1 << 30), dump_trace=False)
            ck.extra.setdefault("simulated_export", []).append(label)
        if rx.error:
            raise vlib.Infra(rx.error)
        if rx.violated:
            raise vlib.Infra(f"export run of {label} disagrees with the exhaustive run: {rx.violated}")
    qk = qk_of(c)
    if r.violated:
        # counterexample in the implementation-shaped model with the code's constants: replay it, judge by the contract
        st = r.trace[-1]
        ck.extra.setdefault("model_counterexamples", []).append({"config": label, "invariant": r.violated, "bad": st.get("bad", "")})
        beh = st["hist"]
        sc = script_of(beh, c)
        sc = sc.replace("q snap\nmark step\nend\n", "")
        s2 = qsys.Scn(rng, qk.split(":")[0], c["cap"], c["cap"], grace=c["grace"])
        s2.L = sc.splitlines()
        s2.threads = list(c["threads"])
        s2.alive = set(c["threads"]) - {h["who"] for h in beh if h["k"] == "step" and h["act"] == "exit"}
        s2.finish(final=True, ctx=True)
        scen = [(f"{prop}-cex-{label}", qk, s2.text(), c["grace"])]
        before = len(ck.violations) + len(ck.known_seen)
        qsys.run_and_validate(ck, prop, f"TraceQuill_{prop}.cfg", scen, qsys.exe_of, f"{prop}-cex")
        if len(ck.violations) + len(ck.known_seen) == before:
            ck.drifted(f"{label}: model violates {r.violated} ({st.get('bad', '')}) but the real code passes the contract on that schedule")
        return r
    behs = vlib.behaviours(rx)
    if not behs:
        raise vlib.Infra("no behaviours exported")
    # I => A: the model's own event traces judged by the contract
    sample = behs if len(behs) <= 4000 else rng.sample(behs, 4000)
    lines = []
    for b in sample:
        lines += contract_lines_of_model(b, c)
    rv = sysh.validate_trace("TraceQuill", f"TraceQuill_{prop}.cfg", lines, timeout=1200)
    if rv.error:
        raise vlib.Infra(rv.error)
    ck.add_tlc(rv, f"I=>A {label}")
    if rv.violated:
        raise vlib.Infra(f"model behaviour rejected by the contract ({label}): {rv.trace[-1]['m']['why']}")
    ck.extra["model_traces_accepted_by_contract"] = ck.extra.get("model_traces_accepted_by_contract", 0) + len(sample)
    # replay on the real code
    todo = behs if len(behs) <= replay_limit else rng.sample(behs, replay_limit)
    exe = qsys.exe_of(qk)
    with ThreadPoolExecutor(max_workers=vlib.NCPU) as ex:
        res = list(ex.map(lambda b: sysh.run(exe, script_of(b, c), 60), todo))
    scen_lines, owners = [], []
    ndrift = 0
    for i, (b, (rc, evs)) in enumerate(zip(todo, res)):
        d = compare(b, evs, c)
        if d:
            ndrift += 1
            if ndrift <= 3:
                ck.drifted(f"{label}: {d}")
        key = tuple((h["who"], h["act"], tuple(h["arg"])) for h in b if h["k"] == "step")
        ck.case((label, key), nontrivial=any(h["k"] == "write" for h in b))
    # contract validation of the replayed executions
    scen = [(f"{prop}-{label}-{i}", qk, script_of(b, c), c["grace"]) for i, b in enumerate(todo)]
    lines, owners = [], []
    for i, (rc, evs) in enumerate(res):
        ls = qtrace.lines_of(evs, c["grace"])
        lines += ls
        owners += [i] * len(ls)
    qsys._validate(ck, prop, f"TraceQuill_{prop}.cfg", scen, qsys.exe_of, lines, owners, None, 0)
    ck.extra["model_behaviours_replayed"] = ck.extra.get("model_behaviours_replayed", 0) + len(todo)
    ck.extra["model_behaviours_drifting"] = ck.extra.get("model_behaviours_drifting", 0) + ndrift
    if todo:
        b = todo[len(todo) // 2]
        ck.sample({"model_config": label, "schedule": [[h["who"], h["act"], h["arg"]] for h in b if h["k"] == "step"]}, cap=5)
    return r


EXPORT_ALL_LIMIT = 400000      # transitions; beyond this the export is by simulation
SIM_NUM, SIM_DEPTH = 6000, 60
BASE = dict(threads=["t1", "t2"], nstmt=1, nflush=0, sizes=[96], bounded=True, dropping=False, cap=256, soft=1, hard=2, grace=0,
            maxtime=12, exit=True)
CONFIGS = {
    "C03": {"quick": [("b-soft2", dict(nstmt=2, sizes=[120], soft=2, hard=2))],
            "thorough": [("b-2sizes", dict(nstmt=2, sizes=[96, 200], exit=False)), ("b-soft2", dict(nstmt=2, sizes=[120], soft=2, hard=2)),
                         ("b-3thr", dict(threads=["t1", "t2", "t3"], nstmt=1, sizes=[96, 200])),
                         ("u-soft2", dict(nstmt=2, sizes=[120], soft=2, hard=4, bounded=False)),
                         ("u-grow", dict(nstmt=2, sizes=[120, 300], bounded=False, maxcap=512, exit=False))]},
    "C05": {"quick": [("grace1", dict(nstmt=1, sizes=[96], grace=1, maxtime=7, exit=False))],
            "thorough": [("grace1-2stmt", dict(nstmt=2, sizes=[96], grace=1, maxtime=8, exit=False)),
                         ("grace2", dict(nstmt=1, sizes=[96], grace=2, maxtime=9, exit=False, soft=2))]},
    "C06": {"quick": [("flush", dict(nstmt=1, nflush=1, sizes=[96], exit=False))],
            "thorough": [("flush-exit", dict(nstmt=1, nflush=1, sizes=[200], exit=True, soft=2)),
                         ("flush-grace", dict(nstmt=1, nflush=1, sizes=[96], exit=False, grace=1, maxtime=9)),
                         ("flush-drop", dict(nstmt=1, nflush=1, sizes=[230], exit=False, dropping=True, maxtime=7))]},
    "C08": {"quick": [("drop", dict(nstmt=2, sizes=[120, 300], dropping=True, exit=False))],
            "thorough": [("drop-exit", dict(nstmt=2, sizes=[120, 300], dropping=True, exit=True)),
                         ("drop-flush", dict(nstmt=2, nflush=1, sizes=[200, 300], dropping=True, exit=True, threads=["t1"])),
                         ("ud-max", dict(nstmt=3, sizes=[300], dropping=True, bounded=False, maxcap=512, exit=False, threads=["t1"])),
                         ("drop-flush2", dict(nstmt=1, nflush=1, sizes=[230], dropping=True, exit=True, maxtime=7))]},
    "C09": {"quick": [("one-thread", dict(threads=["t1"], nstmt=3, sizes=[40, 100, 256], exit=False)),
                      ("u-max", dict(threads=["t1"], nstmt=3, sizes=[300, 500], bounded=False, maxcap=512, exit=False))],
            "thorough": [("one-thread", dict(threads=["t1"], nstmt=4, sizes=[40, 100, 256], exit=False)),
                         ("two-threads", dict(nstmt=2, sizes=[40, 256], exit=False)),
                         ("u-max", dict(threads=["t1"], nstmt=4, sizes=[300, 500], bounded=False, maxcap=512, exit=False)),
                         ("u-max-2thr", dict(nstmt=2, sizes=[300], bounded=False, maxcap=512, exit=False))]},
    "C17": {"quick": [("remove", dict(nstmt=1, sizes=[96], exit=False, loggers=["L0", "L1"], remove=True, threads=["t1"])),
                      ("remove-2thr", dict(nstmt=1, sizes=[200], exit=False, loggers=["L0"], remove=True))],
            "thorough": [("remove-2stmt", dict(nstmt=2, sizes=[96], exit=False, loggers=["L0", "L1"], remove=True, threads=["t1"])),
                         ("remove-exit", dict(nstmt=1, sizes=[96], exit=True, loggers=["L0", "L1"], remove=True)),
                         ("remove-soft2", dict(nstmt=1, sizes=[96], exit=False, loggers=["L0", "L1"], remove=True, soft=2))]},
    "C20": {"quick": [("exit2", dict(nstmt=1, sizes=[96], exit=True)),
                      ("u-shrink", dict(threads=["t1"], nstmt=3, sizes=[200, 600], bounded=False, maxcap=1024, exit=True, shrink=True))],
            "thorough": [("exit3", dict(threads=["t1", "t2", "t3"], nstmt=1, sizes=[96], exit=True)),
                         ("exit-flush", dict(nstmt=1, nflush=1, sizes=[96], exit=True)),
                         ("u-shrink", dict(threads=["t1"], nstmt=4, sizes=[200, 600], bounded=False, maxcap=1024, exit=True, shrink=True)),
                         ("u-shrink-2thr", dict(nstmt=2, sizes=[600], bounded=False, maxcap=1024, exit=True, shrink=True))]},
}
LIVE = {"C09": ("live-resume", dict(threads=["t1"], nstmt=3, sizes=[40, 256], exit=False, maxtime=40), ["Resumes"]),
        "C06": ("live-flush", dict(nstmt=1, nflush=1, sizes=[96], exit=False, maxtime=40), ["FlushReturns"])}
INVS = ["NoBad", "NoStall", "DropsAddUp", "AllDelivered", "TypeOK"]


def run_for(ck, prop):
    """design-level part of a pipeline property's check"""
    quick = ck.tier == "quick"
    rng = random.Random(ck.seed + 17)
    try:
        k = extract(256)
    except spsc.ExtractFailed as ex:
        ck.drifted(f"constant extraction for Quill.tla failed: {ex}")
        return
    ck.extra["quill_model_constants"] = {x: k[x] for x in ("Batch", "Pct", "PublishWhenDrained", "ReportOnRemove", "RecheckOnRemove")}
    first = True
    for label, d in CONFIGS[prop]["quick" if quick else "thorough"]:
        c = dict(BASE)
        c.update(d)
        if first:
            # vacuity self-test on this configuration: every action it can contain must be enabled somewhere
            cfgc = vlib.write_cfg(vlib.BUILD / "cfg" / f"Quill_{prop}_{label}_cov.cfg", cfg_text(k, c, False, INVS))
            rc = vlib.tlc("Quill", cfgc, coverage=True, timeout=1700, heap="16g")
            if rc.error:
                raise vlib.Infra(rc.error)
            if rc.violated is None:
                need = [a for a in ACTIONS if not (a in ("FlushStart", "FlushCheck") and c["nflush"] == 0)
                        and not (a in ("RemoveLogger", "RemoveBlockingStart", "RemoveBlockingCheck") and not c.get("remove"))
                        and not (a == "ThreadExit" and not c["exit"]) and not (a == "ShrinkQueue" and not c.get("shrink")) and not (a == "BBatchIter" and c["soft"] < 2 and False)]
                for a in need:
                    if not vlib.enabled(rc, a) and a != "BBatchIter":
                        raise vlib.Infra(f"vacuity: {a} never enabled in Quill.tla config {label}")
            first = False
        run_config(ck, prop, c, k, INVS, quick, rng, label, 400 if quick else 3000)
    if not quick and prop in LIVE:
        label, d, props = LIVE[prop]
        c = dict(BASE)
        c.update(d)
        cfg = vlib.write_cfg(vlib.BUILD / "cfg" / f"Quill_{prop}_{label}.cfg", cfg_text(k, c, False, [], spec="FairSpec", props=props))
        r = vlib.tlc("Quill", cfg, timeout=1700, heap="16g")
        if r.error:
            raise vlib.Infra(r.error)
        ck.add_tlc(r, f"Quill liveness {label}")
        ck.extra["liveness"] = {"config": label, "properties": props, "violated": r.violated}
        if r.violated:
            ck.drifted(f"liveness {props} violated in the model ({label}); end-to-end scenarios decide on the real code")
