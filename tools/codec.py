"""Shared pipeline of the C04 / C11 checks:
  constants measured on the real code -> TLC on spec/Codec.tla (exhaustive configs, behaviour export, simulation)
  -> tools/gen_codec.py (C++ translation units) -> vlib.build (parallel, content-hash cache) -> run -> records.
python3 stdlib only."""
import json, os, random, time
from concurrent.futures import ThreadPoolExecutor
from pathlib import Path
import vlib, gen_codec

HC = vlib.HARNESS / "codec"
GEN = vlib.BUILD / "gen_codec"
FLAGS = ["-fno-access-control", "-I", str(HC)]
INVS = "ReservedWrittenConsumed CacheIndexInBounds CacheReadsMatchPushes Snapshot"
CEX = []     # model-level counterexamples of this run (histories), always replayed


# ----------------------------------------------------------------------------------------- harness pieces
def _deps():
    return [HC / "h_codec.h"]


def build_rt():
    return vlib.build("codec_rt.o", [HC / "rt_codec.cpp"], flags=FLAGS + ["-c"], deps=_deps())


def build_tu(name, src, rt):
    import subprocess
    try:
        return vlib.build(name, [src], flags=FLAGS, deps=_deps(), libs=[str(rt), "-ldl"], timeout=1500)
    except subprocess.TimeoutExpired:
        raise vlib.Infra(f"compiling {name} timed out (machine overloaded?)")


def run_bin(exe, only=(), timeout=300):
    """returns (rc, records)"""
    d = vlib.scratch("cdc")
    try:
        out = d / "out.ndjson"
        rc, so, se = vlib.run_cmd([exe, out] + [str(x) for x in only], timeout=timeout)
        recs = []
        if out.exists():
            for line in out.read_text(errors="replace").splitlines():
                try:
                    recs.append(json.loads(line))
                except Exception:
                    recs.append({"e": "Garbled", "line": line[:200]})
        if rc != 0:
            recs.append({"e": "Crash", "rc": rc, "stderr": se[-500:]})
        return rc, recs
    finally:
        vlib.rm(d)


def run_unit(exe, case_ids, timeout=90):
    """Runs one unit over all its cases. A crash (the real code dying is an observation, not an infrastructure error)
    is attributed to the case that was running (CaseBegin marker), confirmed by re-running the same prefix of cases,
    and the remaining cases are run in a new process. Returns (records, crashes, timed_out) with
    crashes = [(case_id, prefix_ids, rc, repeated)]."""
    recs_all, crashes, todo, first, hangs = [], [], list(case_ids), True, 0
    while todo:
        rc, recs = run_bin(exe, only=[] if first else todo, timeout=timeout)
        recs_all += recs
        if rc == 0:
            break
        if rc == -9:
            # a hang of the real code (corrupted queue: the caller blocks for ever / the backend spins) is an observation like a
            # crash; more than three in one unit is treated as an overloaded machine
            hangs += 1
            if hangs > 3:
                return recs_all, crashes, True
        begun = [r["case"] for r in recs if r.get("e") == "CaseBegin" and r["case"] in todo]
        x = begun[-1] if begun else todo[0]
        prefix = todo[:todo.index(x) + 1]
        rc2, _ = run_bin(exe, only=prefix, timeout=timeout)
        crashes.append((x, prefix, rc, rc2 != 0))
        todo = todo[todo.index(x) + 1:]
        first = False
    return recs_all, crashes, False


def prefix_of(cs, cid):
    ids = [c["id"] for c in cs]
    return ids[:ids.index(cid) + 1]


def measure_consts():
    """constants of the code under test, printed by the runtime from the real objects (+ header bytes measured by
    logging a statement without arguments)"""
    GEN.mkdir(parents=True, exist_ok=True)
    src = GEN / "empty.cpp"
    txt = gen_codec.emit_tu([])
    if not src.exists() or src.read_text() != txt:
        src.write_text(txt)
    rt = build_rt()
    exe = build_tu("codec_consts", src, rt)
    rc, recs = run_bin(exe, timeout=60)
    c = next((r for r in recs if r.get("e") == "Consts"), None)
    cal = [r for r in recs if r.get("e") == "Stmt" and r.get("case") == -1 and r.get("rep") == 1]
    if rc != 0 or c is None or not cal or cal[0]["reserved"] <= 0:
        raise vlib.Infra(f"constant extraction failed rc={rc}: {recs[-3:]}")
    c = dict(c)
    c["header"] = cal[0]["reserved"]
    return c, rt


# ----------------------------------------------------------------------------------------- TLC on Codec.tla
def cfg_text(c, pool="none", threads="{1}", maxstmts=1, maxargs=1, maxargsfirst=None, maxpending=1, dyn="{FALSE}",
             export=False, sim=False, simdepth=2, clear="code", decode="code", mutsref=False, invariants=INVS):
    b = lambda x: "TRUE" if x else "FALSE"
    return (f"SPECIFICATION Spec\nCONSTANTS\n HeaderBytes = {c['header']}\n LevelBytes = {c['level']}\n CountBytes = {c['count']}\n"
            f" LenBytes = {c['len']}\n OptBytes = {c['opt']}\n SrefBytes = {c['sref']}\n PtrBytes = {c['ptr']}\n"
            f" DTrivSize = {c['sz_dtriv']}\n DNonSize = {c['sz_dnon']}\n DNonAlign = {c['al_dnon']}\n"
            f" DAllocSize = {c['sz_dalloc']}\n DAllocAlign = {c['al_dalloc']}\n"
            f" Threads = {threads}\n MaxStmts = {maxstmts}\n MaxArgs = {maxargs}\n MaxArgsFirst = {maxargsfirst or maxargs}\n"
            f" MaxPending = {maxpending}\n PoolName = \"{pool}\"\n DynChoices = {dyn}\n Export = {b(export)}\n Sim = {b(sim)}\n"
            f" SimDepth = {simdepth}\n ClearRule = \"{clear}\"\n DecodeRule = \"{decode}\"\n MutateSref = {b(mutsref)}\n"
            + (f"INVARIANTS {invariants}\n" if invariants else "") + "VIEW StateView\nACTION_CONSTRAINT ExportA\nCHECK_DEADLOCK FALSE\n")


def tlc_codec(ck, label, c, coverage=False, expect_violation=None, simulate=None, seed=None, timeout=900, workers=None, **kw):
    cfg = vlib.write_cfg(vlib.BUILD / "cfg" / f"C04_{ck.prop}_{label}.cfg", cfg_text(c, **kw))
    r = vlib.tlc("Codec", cfg, coverage=coverage, timeout=timeout, simulate=simulate, depth=12 if simulate else None,
                 seed=seed, workers=workers)
    if expect_violation:
        if r.violated not in expect_violation:
            raise vlib.Infra(f"self-test {label}: the seeded spec bug was not reported (violated={r.violated} error={r.error})")
        return r
    if r.error:
        raise vlib.Infra(f"TLC {label}: {r.error}\n{r.out[-1500:]}")
    if r.violated:
        # Codec.tla instantiated with the constants measured on this tree violates its own invariant: a model-level
        # counterexample. It is never a verdict by itself (DESIGN 2.4): the history is replayed on the real code and only
        # the contract's judgement of that real execution counts. The config is re-run without invariants for its export.
        h = r.trace[-1].get("hist") if r.trace else None
        if not h:
            raise vlib.Infra(f"Codec model violates {r.violated} in {label} but no counterexample was dumped")
        CEX.append(h)
        ck.drifted(f"Codec.tla with the constants measured on this tree violates {r.violated} ({label}); counterexample replayed on the code")
        ck.extra.setdefault("model_counterexamples", []).append({"config": label, "invariant": r.violated, "history": h})
        if kw.get("export"):
            kw2 = dict(kw, invariants="")
            cfg = vlib.write_cfg(vlib.BUILD / "cfg" / f"C04_{ck.prop}_{label}_noinv.cfg", cfg_text(c, **kw2))
            r = vlib.tlc("Codec", cfg, timeout=timeout, simulate=simulate, depth=12 if simulate else None, seed=seed, workers=workers)
            if r.error:
                raise vlib.Infra(f"TLC {label} (export without invariants): {r.error}")
        coverage = False
    if coverage:
        for act in ("ASize", "AEncode", "AMutate", "ADrain"):
            if r.coverage.get(act, (0, 0))[1] == 0:
                raise vlib.Infra(f"vacuity: action {act} never enabled in {label}")
    if simulate:
        import re
        m = re.search(r"The number of states generated: (\d+)", r.out)
        if m:
            r.generated = r.distinct = int(m.group(1))
    if ck.prop == "C04":
        ck.add_tlc(r, label)
    else:
        # C11: these runs only GENERATE the cases; its own TLC evidence is the trace automaton
        ck.extra.setdefault("case_generation_tlc_runs", []).append({"config": label, "distinct": r.distinct, "generated": r.generated})
    vlib.log(f"[tlc] {label}: {r.distinct} distinct / {r.generated} generated, {r.wall:.1f}s")
    return r


def maximal(behs):
    """drop behaviours that are a proper prefix of another exported behaviour"""
    keys = {json.dumps(b, sort_keys=True) for b in behs}
    pref = set()
    for b in behs:
        for n in range(1, len(b)):
            k = json.dumps(b[:n], sort_keys=True)
            if k in keys:
                pref.add(k)
    out, seen = [], set()
    for b in behs:
        k = json.dumps(b, sort_keys=True)
        if k not in pref and k not in seen:
            seen.add(k)
            out.append(b)
    out.sort(key=lambda b: json.dumps(b, sort_keys=True))
    return out


def calls(b):
    return [s for s in b if s["op"] == "call"]


# ----------------------------------------------------------------------------------------- the whole front half
def _prep_key(ck, c):
    import hashlib
    h = hashlib.sha1()
    for p in (vlib.SPEC / "Codec.tla", Path(__file__), Path(gen_codec.__file__)):
        h.update(p.read_bytes())
    # the cases are a function of (spec, generator, constants measured on the code, tier, seed) only
    h.update(json.dumps([ck.tier, ck.seed, {k: v for k, v in c.items() if k != "e"}], sort_keys=True).encode())
    return h.hexdigest()[:16]


def prepare(ck, use_cache=False):
    """runs the model-level part and produces the cases; returns a dict used by both checks.
    use_cache: C11 only needs the CASES (its TLC evidence is the trace automaton); it reuses the case list an earlier
    run produced for the same /repo/include, spec, generator, tier and seed (same rule as the build cache)."""
    quick = ck.tier == "quick"
    rng = random.Random(ck.seed)
    t0 = time.time()
    del CEX[:]
    c, rt = measure_consts()
    c["ptr"] = c.get("ptr", 8)
    cache = GEN / f"cases_{ck.tier}_{_prep_key(ck, c)}.json"
    if (use_cache or os.environ.get("VERIF_CODEC_REUSE_CASES")) and cache.exists():
        try:
            j = json.loads(cache.read_text())
            ck.extra["constants_from_code"] = {k: v for k, v in c.items() if k != "e"}
            ck.extra["cases_from"] = "case list generated by TLC from Codec.tla in an earlier run with identical inputs (cached)"
            ck.extra["behaviours_exported"] = j.get("exported")
            return dict(consts=c, rt=rt, cases=j["cases"])
        except Exception:
            pass
    ck.extra["constants_from_code"] = {k: v for k, v in c.items() if k != "e"}
    cap = c["cachecap"]
    vlib.log(f"[codec] constants {time.time() - t0:.1f}s: {ck.extra['constants_from_code']}")

    # 1. exhaustive: statement pairs on one thread over cache-using / cache-neutral types (stale cache, alignment)
    tlc_codec(ck, "MC_pairs", c, coverage=True, pool="pairs" if quick else "pairsx", maxstmts=2, maxargs=2,
              maxargsfirst=1 if quick else 2, dyn="{FALSE}")
    if not quick:
        tlc_codec(ck, "MC_triples", c, pool="pairs", maxstmts=2, maxargs=3, maxargsfirst=1, dyn="{FALSE}", timeout=1500)
    # 2. exhaustive + export: every kind, node depth <= 2, with and without dynamic level
    r_d2 = tlc_codec(ck, "MC_depth2", c, coverage=True, pool="depth2", maxstmts=1, maxargs=1, dyn="{FALSE, TRUE}", export=True)
    b_d2 = maximal(vlib.behaviours(r_d2))
    # 3. export: pairs incl. two calls before one drain
    r_p = tlc_codec(ck, "Export_pairs", c, pool="pairs", maxstmts=2, maxargs=1 if quick else 2, maxargsfirst=1,
                    maxpending=2, dyn="{FALSE}", export=True, workers=1)   # 1 worker: the history attached to a VIEW state is deterministic
    b_p = [b for b in maximal(vlib.behaviours(r_p)) if len(calls(b)) == 2]
    # 4. two threads: the cache is per thread
    tlc_codec(ck, "MC_two_threads", c, pool="cstr", threads="{1, 2}", maxstmts=1, maxargs=2, maxpending=1)
    # 5. up to cap + 1 variable-length C strings in one statement
    r_w = tlc_codec(ck, "MC_wide", c, pool="cstr", maxstmts=2, maxargs=cap + 1, maxpending=1, export=True, workers=1)
    b_w = maximal(vlib.behaviours(r_w))
    # 5a. more std::string / string_view arguments than the size cache has inline slots: they must not touch the cache
    r_ws = tlc_codec(ck, "MC_wide_str", c, pool="strs", maxstmts=1, maxargs=cap + 2, maxpending=1, export=True, workers=1)
    b_ws = [b for b in maximal(vlib.behaviours(r_ws)) if len(calls(b)) == 1 and len(calls(b)[0]["args"]) > cap]
    # 5b. scalar-only statements; composite-with-cache-users followed by another cache user, for every composite kind
    r_sc = tlc_codec(ck, "MC_scalars", c, pool="scalars", maxstmts=1, maxargs=3, export=True, workers=1)
    b_sc = maximal(vlib.behaviours(r_sc))
    r_al = tlc_codec(ck, "MC_align", c, pool="align", maxstmts=1, maxargs=2, export=True, workers=1)
    b_al = maximal(vlib.behaviours(r_al))
    b_d3 = []
    if not quick:
        r_d3 = tlc_codec(ck, "MC_depth3", c, pool="depth3", maxstmts=1, maxargs=1, export=True, timeout=1500)
        b_d3 = maximal(vlib.behaviours(r_d3))
    # 6. simulation: random statements (<= 3 arguments, all kinds, full shape sets), two per thread
    nsim = 80 if quick else 1500
    r_s = tlc_codec(ck, "Sim", c, sim=True, simdepth=2 if quick else 3, maxstmts=2, maxargs=3, maxpending=2,
                    dyn="{FALSE, TRUE}", export=True, simulate=nsim, seed=ck.seed, workers=1)
    b_s = maximal(vlib.behaviours(r_s))
    # 7. self-test of the invariants: seeded spec bugs must be reported by TLC
    tlc_codec(ck, "Self_clear", c, pool="pairs", maxstmts=2, maxargs=1, clear="cstr_like_string",
              expect_violation=("CacheReadsMatchPushes", "ReservedWrittenConsumed", "CacheIndexInBounds"))
    tlc_codec(ck, "Self_strlen", c, pool="pairs", maxstmts=1, maxargs=1, decode="strlen",
              expect_violation=("ReservedWrittenConsumed", "Snapshot"))
    tlc_codec(ck, "Self_sref", c, pool="depth2", maxstmts=1, maxargs=1, mutsref=True, expect_violation=("Snapshot",))
    ck.extra["self_test"] = "3 seeded spec bugs (clear rule, strlen decode, StringRef mutation) reported by TLC"
    vlib.log(f"[codec] TLC done {time.time() - t0:.1f}s: depth2={len(b_d2)} pairs={len(b_p)} wide={len(b_w)} depth3={len(b_d3)} sim={len(b_s)}")

    chosen = [("model-counterexample", h, 0, None, None) for h in CEX] + select(rng, quick, cap, b_d2, b_p, b_w, b_d3, b_s, b_sc, b_al)
    if not b_ws:
        raise vlib.Infra("no statement with more std::string arguments than the size cache has slots was exported")
    rng.shuffle(b_ws)
    chosen += [("widestr", b + [{"op": "poll"}] if b[-1].get("op") != "poll" else b, 0, None, None) for b in b_ws[:3 if quick else 12]]
    cases, dropped = [], 0
    for origin, beh, fresh, big, opts in chosen:
        try:
            cases.append(gen_codec.build_case(len(cases), beh, rng, c, fresh=fresh, big=big, origin=origin, opts=opts))
        except gen_codec.Unrealisable:
            dropped += 1
    ck.extra["behaviours_exported"] = {"depth2": len(b_d2), "pairs": len(b_p), "wide": len(b_w), "depth3": len(b_d3), "sim": len(b_s),
                                       "scalars": len(b_sc), "align": len(b_al)}
    ck.extra["cases_unrealisable_in_cpp"] = dropped
    for old in GEN.glob(f"cases_{ck.tier}_*.json"):
        old.unlink()
    cache.write_text(json.dumps({"cases": cases, "exported": ck.extra["behaviours_exported"]}))
    return dict(consts=c, rt=rt, cases=cases)


def select(rng, quick, cap, b_d2, b_p, b_w, b_d3, b_s, b_sc=(), b_al=()):
    """stratified, seeded choice of the behaviours that are replayed on the real code"""
    out = []
    # depth2, leaves: EVERY shape of every leaf type (null pointer, unterminated / embedded-NUL arrays and strings, ...)
    leaf_groups, comp = {}, []
    for b in b_d2:
        a0 = calls(b)[0]["args"][0]
        if not a0["ty"]["p"]:
            leaf_groups.setdefault(gen_codec.tystr(a0["ty"]) + json.dumps(a0["val"]), []).append(b)
        else:
            comp.append(b)
    for g in sorted(leaf_groups):
        out.append(("depth2", rng.choice(leaf_groups[g]), 0, None))
        if not quick:
            out.append(("depth2", rng.choice(leaf_groups[g]), 0, None))
    # depth2, composites: every kind at least twice, then distinct type skeletons
    by_type = {}
    for b in comp:
        by_type.setdefault(gen_codec.tystr(calls(b)[0]["args"][0]["ty"]), []).append(b)
    types = sorted(by_type)
    rng.shuffle(types)
    need = {}
    picked_types = []
    for t in types:
        ks = gen_codec.kinds_of(calls(by_type[t][0])[0]["args"][0]["ty"])
        if any(need.get(k, 0) < 2 for k in ks):
            picked_types.append(t)
            for k in ks:
                need[k] = need.get(k, 0) + 1
    # multi-element unordered containers (the known element-order deviation must be re-observed on every run)
    for kind in ("uset", "umset", "umap", "ummap"):
        two = [b for b in comp if calls(b)[0]["args"][0]["ty"]["k"] == kind and len(calls(b)[0]["args"][0]["val"]) == 2]
        for b in (rng.sample(two, min(len(two), 1 if quick else 6))):
            out.append(("depth2", b, 0, None))
    rest = [t for t in types if t not in set(picked_types)]
    n_d2 = 40 if quick else 1000
    picked_types += rest[:max(0, n_d2 - len(picked_types))]

    def weight(b):      # prefer the shapes with more elements
        return len(json.dumps(calls(b)[0]["args"][0]["val"]))
    for t in picked_types:
        bs = by_type[t]
        big = sorted(bs, key=weight)[len(bs) // 2:]
        out.append(("depth2", rng.choice(big if rng.random() < 0.6 else bs), 0, None))
        if not quick and len(bs) > 1:
            out.append(("depth2", rng.choice(bs), 0, None))
    # pairs: prefer a stale cache longer than what the second statement pushes, and both drain orders
    def stale(b):
        cs = calls(b)
        return cs[0]["cafter"] > cs[1]["npush"]
    p1 = [b for b in b_p if stale(b)]
    p2 = [b for b in b_p if not stale(b)]
    rng.shuffle(p1)
    rng.shuffle(p2)
    n_p = 30 if quick else 600
    for b in p1[:n_p * 2 // 3] + p2[:n_p // 3]:
        out.append(("pairs", b, 0, None))
    # wide: single statements with 1, cap-1, cap, cap+1 C strings; pairs spill -> small
    singles = {}
    for b in b_w:       # (single statements are prefixes of the exported pairs)
        for cstep in calls(b):
            singles.setdefault(len(cstep["args"]), [cstep, {"op": "poll"}])
    wanted = [1, 2, cap - 1, cap, cap + 1] if quick else list(range(1, cap + 2))
    for n in wanted:
        if n in singles:
            out.append(("wide", singles[n], 0, None))
    pw = [b for b in b_w if len(calls(b)) == 2]
    rng.shuffle(pw)
    sp = [b for b in pw if len(calls(b)[0]["args"]) == cap + 1][:2 if quick else 8]
    for b in sp + pw[:3 if quick else 30]:
        out.append(("wide", b, 0, None))
    for b in b_d3 if len(b_d3) <= 400 else rng.sample(b_d3, 400):
        out.append(("depth3", b, 0, None))
    # simulation
    for b in b_s[: 60 if quick else 1100]:
        out.append(("sim", b, 0, None))
    out = [x + (None,) for x in out]
    # --- systematic (criterion-based, not sampled) parts -------------------------------------------------------------
    # (a) scalar-only statements that contain a plain char with a non-printable value
    sc = [b for b in b_sc if any(a["ty"] == {"k": "arith", "n": 1, "p": []} for a in calls(b)[0]["args"]) and not any(s["op"] == "mut" for s in b)]
    by_n = {}
    for b in sc:
        by_n.setdefault(len(calls(b)[0]["args"]), []).append(b)
    for n in sorted(by_n):
        for b in rng.sample(by_n[n], min(len(by_n[n]), (2 if quick else 8))):
            out.append(("scalars", b, 0, None, {"force_char": True}))
    # (b) for EVERY composite kind: the composite holds size-cache users (non-null), then another size-cache user follows
    groups = {}
    for b in b_al:
        a0, a1 = calls(b)[0]["args"]
        flat = json.dumps(a0["val"])
        if '"null": true' in flat.lower() or a0["val"] in ([], ):
            continue
        if a0["ty"]["k"] in ("set", "mset") and len(a0["val"]) < 1:
            continue
        if not _has_nonempty(a0):
            continue
        groups.setdefault(gen_codec.tystr(a0["ty"]), {}).setdefault(gen_codec.tystr(a1["ty"]), []).append(b)
    for ta in sorted(groups):
        follow = sorted(groups[ta])
        picks = ["cstr"] if quick else follow
        if quick and rng.random() < 0.35:
            picks = [rng.choice(follow)]
        for tb in picks:
            if tb in groups[ta]:
                bs = sorted(groups[ta][tb], key=lambda b: -len(json.dumps(calls(b)[0]["args"][0]["val"])))
                out.append(("align", bs[0] if quick else rng.choice(bs[: max(1, len(bs) // 2)]), 0, None, {"stretch": False}))
    # (c) for EVERY composite kind over std::string: every string longer than the SSO buffer (copying an element allocates)
    seen_kind = set()
    cand = {}
    for b in b_d2:
        a0 = calls(b)[0]["args"][0]
        t = a0["ty"]
        if not t["p"] or not any(p == {"k": "str", "n": 0, "p": []} for p in t["p"]):
            continue
        if any(s["op"] == "mut" for s in b) or calls(b)[0]["dyn"]:
            continue
        others = [p["k"] for p in t["p"] if p["k"] != "str"]
        if any(o not in ("arith", "str") for o in others):
            continue
        if '1' not in json.dumps(a0["val"]).replace(" ", ""):
            continue
        key = (t["k"], tuple(p["k"] for p in t["p"]))
        cand.setdefault(key, []).append(b)
    for key in sorted(cand):
        bs = sorted(cand[key], key=lambda b: -len(json.dumps(calls(b)[0]["args"][0]["val"])))
        out.append(("longstr", bs[0], 0, None, {"long_all": True}))
    rng.shuffle(out)
    # a few cases run on a fresh thread (first call / after preallocate()), one oversized statement in the middle
    res = []
    for i, (o, b, fresh, big, opts) in enumerate(out):
        if i % 23 == 5:
            fresh = 1
        elif i % 23 == 11:
            fresh = 2
        res.append((o, b, fresh, big, opts))
    strs = [i for i, (o, b, f, g, op) in enumerate(res) if f == 0 and op is None and any(a["ty"]["k"] == "str" and 1 in a["val"] for a in calls(b)[-1]["args"])]
    for i in strs[:1 if quick else 4]:
        o, b, f, g, op = res[i]
        res[i] = (o, b, f, 200000, op)
    return res


def _has_nonempty(a):
    """the composite argument holds at least one non-null size-cache user"""
    def walk(t, v):
        k = t["k"]
        if k == "cstr":
            return not v["null"]
        if k == "direct":
            return True
        if not t["p"]:
            return False
        if k in ("pair", "tup"):
            return any(walk(p, x) for p, x in zip(t["p"], v))
        if k in gen_codec.MAPS:
            return any(walk(t["p"][0], x[0]) or walk(t["p"][1], x[1]) for x in v)
        return any(walk(t["p"][0], x) for x in v)
    return walk(a["ty"], a["val"])


def build_and_run(ck, prep, per_tu=None):
    """generate the translation units, compile them in parallel, run them in parallel.
    Returns list of (tu_index, exe, cases_of_tu, crashes, records)."""
    quick = ck.tier == "quick"
    cases = prep["cases"]
    per_tu = per_tu or (20 if quick else 48)
    GEN.mkdir(parents=True, exist_ok=True)
    tus = [cases[i:i + per_tu] for i in range(0, len(cases), per_tu)]
    tag = "q" if quick else "t"
    t0 = time.time()
    uncompilable = []

    def build_cases(name, cs):
        """-> [(exe, cases)]. A unit that does not compile is split until the offending case is isolated and dropped
        (a generator gap for some rare deep type must not void the whole run; the drops are counted and bounded)."""
        src = GEN / f"{name}.cpp"
        txt = gen_codec.emit_tu(cs)
        if not src.exists() or src.read_text() != txt:
            src.write_text(txt)
        try:
            return [(build_tu(name.replace("tu_", "codec_"), src, prep["rt"]), cs)]
        except vlib.Infra as e:
            if "timed out" in str(e):
                raise
            if len(cs) == 1:
                uncompilable.append({"case": cs[0]["id"], "types": [s["ctypes"] for s in cs[0]["stmts"]], "error": str(e)[-600:]})
                return []
            h = len(cs) // 2
            return build_cases(name + "a", cs[:h]) + build_cases(name + "b", cs[h:])

    with ThreadPoolExecutor(max_workers=vlib.NCPU) as ex:
        built = list(ex.map(lambda kc: build_cases(f"tu_{tag}{kc[0]}", kc[1]), enumerate(tus)))
    units = [u for b in built for u in b]
    exes = [u[0] for u in units]
    tus = [u[1] for u in units]
    if len(uncompilable) > max(3, len(cases) // 100):
        raise vlib.Infra(f"{len(uncompilable)} generated cases do not compile against this tree: {uncompilable[:2]}")
    ck.extra["cases_uncompilable"] = uncompilable
    used = {f"tu_{tag}{k}" for k in range(len(built))}
    t1 = time.time()
    with ThreadPoolExecutor(max_workers=vlib.NCPU) as ex:
        res = list(ex.map(lambda ke: run_unit(ke[1], [c["id"] for c in tus[ke[0]]]), enumerate(exes)))
    vlib.log(f"[codec] {len(cases)} cases in {len(tus)} units: compile {t1 - t0:.1f}s, run {time.time() - t1:.1f}s")
    ck.extra["translation_units"] = len(tus)
    ck.extra["compile_s"] = round(t1 - t0, 1)
    # stale generated sources of an earlier, larger run
    for old in GEN.glob(f"tu_{tag}*.cpp"):
        if old.stem.rstrip("ab") not in used:
            old.unlink()
    for k, (recs, crashes, timed_out) in enumerate(res):
        if timed_out:
            raise vlib.Infra(f"harness unit {k} timed out")
    ck.extra["crashes_of_the_code_under_test"] = sum(len(r[1]) for r in res)
    # (unit index, exe, cases, crashes, records)
    return [(k, exes[k], tus[k], res[k][1], res[k][0]) for k in range(len(tus))]
