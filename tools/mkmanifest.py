#!/usr/bin/env python3
"""Regenerates /verif/MANIFEST.json from the table below (single place to edit)."""
import json
from pathlib import Path
V = Path(__file__).resolve().parent.parent
props = [json.loads(l) for l in open(V / "properties.jsonl")]

MC = "model_checking"
CHECKS = {
 "C01": dict(engine="tlc+h_spsc", cat=MC, ref="4 C01",
   text="TLC checks NoRace/Fifo/GrantFits/Contiguous exhaustively on SpscRA (release/acquire memory model, function-granularity "
        "interleaving with chosen load results) instantiated with constants extracted from the real queue; every transition's behaviour "
        "is replayed on the real BoundedSPSCQueueImpl running on a shim atomic with the same memory model (state compared step by step); "
        "seeded random walks (uint8/uint16 counters, many wraps) are validated by TLC against SpscContract",
   note="bounded configurations (cap 2-8, <=4-5 records) exhaustive in the model; RA fragment only (no fences/RMW); compiler reordering of "
        "payload copies only as far as the happens-before race detector sees it; trusted: shim atomic + race detector in harness/h_spsc.cpp",
   tech="TLA+ model checking under an RA memory model + behaviour replay + TLC trace validation"),
 "C02": dict(engine="tlc+h_spsc", cat=MC, ref="4 C02",
   text="TLC checks NoRace (incl. node construction)/Fifo across nodes/NoUseAfterRetire/AllocBound on UnboundedRA (view-carrying RA "
        "messages) with extracted constants; behaviours replayed on the real UnboundedSPSCQueue (retired nodes quarantined so any access is "
        "an event); seeded random walks with grow/shrink/oversize validated by TLC against StreamContract",
   note="<=3-4 records, <=3-4 nodes exhaustive in the model; huge pages / allocation failure not modelled",
   tech="TLA+ model checking under an RA memory model + behaviour replay + TLC trace validation"),
 "C09": dict(engine="tlc+h_spsc", cat=MC, ref="4 C09",
   text="TLC checks QuiescentGrant on SpscRA with the extracted batch/publish rule; counterexamples are replayed on the real queue and judged by "
        "the contract (a capacity-sized request on a drained, committed queue must be granted); random walks with quiescent probes on bounded "
        "and unbounded queues validated by TLC",
   note="queue level only so far (end-to-end blocked-producer scenario is part of the system harness work); 'idle backend' = consumer observed "
        "empty and called commit_read",
   tech="TLA+ model checking + counterexample replay + TLC trace validation"),
 "C18": dict(engine="tlc+h_sys", cat=MC, ref="4 C18",
   text="TLC proves ring==contract window for every history up to the bound (Backtrace.tla), exports one history per transition, each is executed "
        "through the real API/queue/backend and the recorded execution is validated by TLC against the contract (TraceBacktrace.tla)",
   note="bounded histories (<=9/12 ops, cap<=3/4) exhaustive in the model; real code observed on exported + seeded random histories only; backend "
        "drained after every operation",
   tech="TLA+ model checking + TLC trace validation of real executions"),
}
SYSNOTE = 'seeded random schedules only so far at system level (no exhaustive schedule enumeration of the real code); token scheduler serialises logical threads between yield points (QUILL_VERIF hooks, interposed clock/sleep); relaxed flags outside the queues behave sequentially consistent under it'
CHECKS.update({
 "C03": dict(engine="tlc+h_sys", cat=MC, ref="4 C03",
   text="executions of the real frontend/backend under seeded schedules (several threads, sizes up to the queue capacity, thread exits, flushes, fine-grained backend steps) are validated by TLC against QuillContract (exactly once, per-thread order, completeness at quiescence)",
   note=SYSNOTE,
   tech="TLA+ contract monitor + TLC trace validation of real executions under a deterministic scheduler"),
 "C05": dict(engine="tlc+h_sys", cat=MC, ref="4 C05",
   text="executions under a virtual clock (stalls between clock read and enqueue, ticks, fine-grained backend steps) validated by TLC against QuillContract: write timestamps non-decreasing while no enqueue exceeded the grace period",
   note=SYSNOTE,
   tech="TLA+ contract monitor + TLC trace validation of real executions under a deterministic scheduler"),
 "C06": dict(engine="tlc+h_sys", cat=MC, ref="4 C06",
   text="executions with flush_log calls (incl. first-time threads, dropping queues) validated by TLC against QuillContract: at return every earlier statement (own; all threads when ordering is on) is written and covered by a later sink flush; stuck flush = violation",
   note=SYSNOTE,
   tech="TLA+ contract monitor + TLC trace validation of real executions under a deterministic scheduler"),
 "C08": dict(engine="tlc+h_sys", cat=MC, ref="4 C08",
   text="executions on dropping queues validated by TLC against QuillContract: false return iff never written, accepted => delivered, reported discard counts add up at final quiescence (bounded), control requests never discarded",
   note=SYSNOTE,
   tech="TLA+ contract monitor + TLC trace validation of real executions under a deterministic scheduler"),
 "C10": dict(engine="tlc+h_sys", cat=MC, ref="4 C10",
   text="executions with scripted faults (format mismatch, throwing user formatters std/non-std, backtrace without init, sinks throwing on chosen write/flush calls) validated by TLC against QuillContract: every other statement delivered once in order, faults reported, backend alive, flush returns",
   note=SYSNOTE,
   tech="TLA+ contract monitor + TLC trace validation of real executions under a deterministic scheduler"),
 "C16": dict(engine="tlc+h_sys", cat=MC, ref="4 C16",
   text="executions with random logger/sink levels, filters and changes, static/dynamic/macro statements validated by TLC against QuillContract: enqueued iff level passes at the call, arguments evaluated iff enqueued, per-sink level and filters, reported level",
   note=SYSNOTE,
   tech="TLA+ contract monitor + TLC trace validation of real executions under a deterministic scheduler"),
 "C17": dict(engine="tlc+h_sys", cat=MC, ref="4 C17",
   text="executions with create/get/remove/remove_blocking/re-create cycles and shared sinks validated by TLC against QuillContract: nothing logged before removal is lost, sinks destroyed only when unreferenced, blocking removal returns after completion, idempotent create/get",
   note=SYSNOTE,
   tech="TLA+ contract monitor + TLC trace validation of real executions under a deterministic scheduler"),
 "C20": dict(engine="tlc+h_sys", cat=MC, ref="4 C20",
   text="executions with thread start/log/exit/shrink schedules and N short-lived threads between idle periods (N around 256, 512..) validated by TLC against QuillContract: retained contexts = live threads that logged, shrink takes effect, delivery intact",
   note=SYSNOTE,
   tech="TLA+ contract monitor + TLC trace validation of real executions under a deterministic scheduler"),
})
PENDING = "check under construction in this round (not yet claimed)"

man = {"version": 1, "setup_cmd": "cd /verif && ./setup.sh",
       "hooks": {"guard": "QUILL_VERIF",
                 "enable": "harnesses are compiled against /repo/include with -DQUILL_VERIF (header-only library; no separate build of /repo is needed)",
                 "baseline_off_cmd": "cmake --build /repo/_build -j 12 && ctest --test-dir /repo/_build -j8 --timeout 900",
                 "source_commits": ["f824c22", "99317fe", "199f97f"], "add_only": True},
       "engines": [
           {"name": "tlc", "path": "/usr/local/bin/tlc", "serves_properties": sorted(CHECKS),
            "kind_free_text": "TLA+ explicit-state model checker: exhaustive check of spec/*.tla, behaviour export, trace validation"},
           {"name": "h_sys", "path": "/verif/harness/h_sys.cpp", "serves_properties": [p for p in sorted(CHECKS) if "h_sys" in CHECKS[p]["engine"]],
            "kind_free_text": "script-driven harness over the real quill frontend/backend under a deterministic token scheduler with virtual time; ndjson traces"},
           {"name": "h_spsc", "path": "/verif/harness/h_spsc.cpp", "serves_properties": [p for p in sorted(CHECKS) if "h_spsc" in CHECKS[p]["engine"]],
            "kind_free_text": "real SPSC queues executed on a shim std::atomic implementing the spec's release/acquire model, with payload race detector"}],
       "checks": [], "not_applicable": [],
       "notes": "./check <id> --tier quick|thorough; exit 0 ok, 1 VIOLATION, 2 infrastructure error. See DESIGN.md."}
for p in props:
    i = p["id"]
    if i in CHECKS:
        c = CHECKS[i]
        man["checks"].append({"property_id": i, "quick_cmd": f"./check {i} --tier quick", "thorough_cmd": f"./check {i} --tier thorough",
                              "evidence_file": f"/verif/evidence/{i}.json", "replay_cmd_template": f"./check {i} --replay {{path}}",
                              "engine": c["engine"], "level_claimed": {"category": c["cat"], "text": c["text"], "design_ref": c["ref"]},
                              "level_note": c["note"], "technique": c["tech"]})
    else:
        man["not_applicable"].append({"property_id": i, "reason": PENDING})
json.dump(man, open(V / "MANIFEST.json", "w"), indent=1)
print("checks:", [c["property_id"] for c in man["checks"]])
